------------------------------ MODULE BodyStream ------------------------------
(***************************************************************************)
(* L2: how ValidateRequest handles req.Body / req.GetBody / ContentLength  *)
(* at its three sites (validateSecurityRequirement, ValidateRequestBody    *)
(* read+restore, ValidateRequestBody rewrite after defaults), as a state   *)
(* machine; L1: whatever the verdict, at return the body can be read in    *)
(* full and yields the expected bytes.                                     *)
(*                                                                         *)
(* Bytes are abstract: "orig" (what the client sent), "dflt" (re-encoded   *)
(* with defaults), "empty".  A reader is [data, pos] with pos "start" or   *)
(* "end".                                                                  *)
(***************************************************************************)
EXTENDS Naturals, Sequences, TLC

CONSTANT RestoreOnEveryReturn   \* TRUE: the repaired code (deferred restore); FALSE: the pinned tree

VARIABLES
   cfg,       \* [preset, reqs (seq of [reads, passes]), bodyValid, hasDefaults, skip, multi]
   pc,        \* "sec" | "cb" | "params" | "body" | "ret"
   ri,        \* index of the security requirement under evaluation
   body,      \* the reader installed in req.Body: [data, pos]
   getBody,   \* "none" | "preset" | the data a library-installed GetBody yields
   clen,      \* data whose length ContentLength holds
   data,      \* validateSecurityRequirement's local copy ("nil" when none)
   secFailed, bodyFailed, rewritten

vars == <<cfg, pc, ri, body, getBody, clen, data, secFailed, bodyFailed, rewritten>>

Cfgs == [preset : BOOLEAN, reqs : {<<>>} \cup [1..1 -> [reads : BOOLEAN, passes : BOOLEAN]]
                                         \cup [1..2 -> [reads : BOOLEAN, passes : BOOLEAN]],
         bodyValid : BOOLEAN, hasDefaults : BOOLEAN, skip : BOOLEAN, multi : BOOLEAN]

Init == /\ cfg \in Cfgs
        /\ pc = "sec" /\ ri = 1
        /\ body = [data |-> "orig", pos |-> "start"]
        /\ getBody = (IF cfg.preset THEN "preset" ELSE "none")
        /\ clen = "orig" /\ data = "nil"
        /\ secFailed = FALSE /\ bodyFailed = FALSE /\ rewritten = FALSE

ReadAll(b) == IF b.pos = "start" THEN b.data ELSE "empty"

(* "Put the data back into the input": GetBody() if there is one, else install one over d *)
Restored(d) ==
   IF getBody = "none" THEN [body |-> [data |-> d, pos |-> "start"], getBody |-> d, clen |-> d]
   ELSE [body |-> [data |-> (IF getBody = "preset" THEN "orig" ELSE getBody), pos |-> "start"],
         getBody |-> getBody, clen |-> clen]

AfterSecurity == IF secFailed /\ ~cfg.multi THEN "ret" ELSE "params"

(* validateSecurityRequirement: read everything, then restore before the callback *)
SecBegin ==
   /\ pc = "sec"
   /\ IF ri > Len(cfg.reqs)
      THEN /\ pc' = (IF cfg.reqs = <<>> THEN "params" ELSE AfterSecurity)
           /\ secFailed' = (cfg.reqs # <<>>)            \* every requirement was rejected
           /\ UNCHANGED <<body, getBody, clen, data>>
      ELSE LET d == ReadAll(body)  r == Restored(d) IN
           /\ data' = d /\ body' = r.body /\ getBody' = r.getBody /\ clen' = r.clen
           /\ pc' = "cb" /\ UNCHANGED secFailed
   /\ UNCHANGED <<cfg, ri, bodyFailed, rewritten>>

Callback ==
   /\ pc = "cb"
   /\ LET q == cfg.reqs[ri]
          b1 == IF q.reads THEN [body EXCEPT !.pos = "end"] ELSE body IN
      IF q.passes
      THEN \* final restore, return nil: security satisfied
           LET r == [body |-> body, getBody |-> getBody, clen |-> clen] IN
           /\ body' = Restored(data).body /\ getBody' = Restored(data).getBody /\ clen' = Restored(data).clen
           /\ pc' = "params" /\ UNCHANGED <<ri, secFailed>>
      ELSE \* callback rejects: return err -- with or without the deferred restore
           /\ IF RestoreOnEveryReturn
              THEN body' = Restored(data).body /\ getBody' = Restored(data).getBody /\ clen' = Restored(data).clen
              ELSE body' = b1 /\ UNCHANGED <<getBody, clen>>
           /\ ri' = ri + 1 /\ pc' = "sec" /\ UNCHANGED secFailed
   /\ UNCHANGED <<cfg, data, bodyFailed, rewritten>>

Params == pc = "params" /\ pc' = "body" /\ UNCHANGED <<cfg, ri, body, getBody, clen, data, secFailed, bodyFailed, rewritten>>

(* ValidateRequestBody: read, restore, decode + validate, rewrite if defaults were set *)
BodyStep ==
   /\ pc = "body"
   /\ LET d == ReadAll(body)
          r == IF getBody = "none" THEN [body |-> [data |-> d, pos |-> "start"], getBody |-> d, clen |-> d]
               ELSE [body |-> [data |-> (IF getBody = "preset" THEN "orig" ELSE getBody), pos |-> "start"],
                     getBody |-> getBody, clen |-> clen]
          ok == d = "orig" /\ cfg.bodyValid IN
      /\ bodyFailed' = ~ok
      /\ IF ok /\ cfg.hasDefaults /\ ~cfg.skip
         THEN /\ body' = [data |-> "dflt", pos |-> "start"] /\ getBody' = "dflt" /\ clen' = "dflt" /\ rewritten' = TRUE
         ELSE /\ body' = r.body /\ getBody' = r.getBody /\ clen' = r.clen /\ UNCHANGED rewritten
   /\ pc' = "ret"
   /\ UNCHANGED <<cfg, ri, data, secFailed>>

Next == SecBegin \/ Callback \/ Params \/ BodyStep
Spec == Init /\ [][Next]_vars

-----------------------------------------------------------------------------
(* L1 at return: the next handler reads the whole body; it is the original one, or the one *)
(* re-encoded with defaults when validation passed and defaults were set.                  *)
Verdict == IF secFailed \/ bodyFailed THEN "error" ELSE "ok"
Expected == IF rewritten THEN "dflt" ELSE "orig"
BodyReadable ==
   pc = "ret" => /\ ReadAll(body) = Expected
                 /\ clen = Expected
                 /\ getBody \in {"none", "preset", Expected}
                 /\ (getBody = "preset" => Expected = "orig")
(* the body check sees the body the client sent (no spurious body failure) *)
NoSpuriousBodyFailure == (pc = "ret" /\ bodyFailed) => ~cfg.bodyValid
=============================================================================
