SPECIFICATION Spec
CONSTANTS MaxCalls = 3
          SideCalls = 1
          ExtMax = 1
          ExtDepth = 3
          ZeroStatusFix = TRUE
          InfoFix = TRUE
INVARIANTS TypeOK L2ImpliesL1Pure HandlerOnlyAfterGate NoClientBytesBeforeCheckInStrict StrictPanicSilent Emit
CHECK_DEADLOCK FALSE
