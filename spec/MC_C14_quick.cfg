SPECIFICATION Spec
CONSTANTS MaxCalls = 3
          ZeroStatusFix = TRUE
INVARIANTS TypeOK L2ImpliesL1 HandlerOnlyAfterGate NoClientBytesBeforeCheckInStrict Emit
CHECK_DEADLOCK FALSE
