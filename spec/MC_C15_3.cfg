SPECIFICATION Spec
CONSTANTS Variant = "as_built"
 MaxOps = 3
INVARIANTS NoRace NoDeadlock
CHECK_DEADLOCK FALSE
