SPECIFICATION Spec
CONSTANTS Design = "restore_ok"
 MaxResp = 2
 MaxSteps = 4
 KindsUsed <- CoreKinds
INVARIANTS L2ImpliesL1
CHECK_DEADLOCK FALSE
