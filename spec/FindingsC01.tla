----------------------------- MODULE FindingsC01 -----------------------------
(* Finding classes for C01 (see known_findings.json): narrow predicates over the log    *)
(* line, the value index and the input form.  "none" = not a listed finding.  Both      *)
(* listed classes concern only the json.Number input form ("on") and only cases where   *)
(* the float64 form ("of") of the very same (schema, value) is judged correctly.        *)
EXTENDS SchemaSem

Acc0(b) == IF b THEN "A" ELSE "R"
IsCompound(e) == e.t \in {"arr", "obj"}

(* F-C01-1: visitEnumOperation compares compound enum members with reflect.DeepEqual,   *)
(* so a json.Number inside the instance never equals the float64 inside the enum.       *)
EnumNestedNumber(s, v) ==
   /\ IsCompound(v) /\ HasNum(v)
   /\ \E sub \in SubSchemas(s) : Has(sub, "enum")
         /\ \E i \in DOMAIN sub.enum : IsCompound(sub.enum[i]) /\ HasNum(sub.enum[i])

(* F-C01-2: isSliceOfUniqueItems keys items by their JSON text, so the json.Number      *)
(* spellings 1 and 1.0 of the same number count as different items.                     *)
RECURSIVE HasArrWithDec(_)
HasArrWithDec(v) == CASE v.t = "arr" -> HasDec(v) \/ \E i \in DOMAIN v.a : HasArrWithDec(v.a[i])
                      [] v.t = "obj" -> \E i \in DOMAIN v.v : HasArrWithDec(v.v[i])
                      [] OTHER -> FALSE
UniqueNumberSpelling(s, v) ==
   /\ HasArrWithDec(v)
   /\ \E sub \in SubSchemas(s) : Has(sub, "uniqueItems")

(* F-C01-3: visitJSON takes a Go int (int32, int64) for a number, but visitEnumOperation has numeric  *)
(* cases for json.Number and int64 only: an int -- at the top or inside an array/object -- is compared  *)
(* with reflect.DeepEqual against the float64 the enum member holds and never equals it.  Only the form *)
(* "og" (integral numbers as Go int), only where the float64 form of the same pair is judged correctly. *)
EnumGoInt(s, v) ==
   /\ HasNum(v)
   /\ \E sub \in SubSchemas(s) : Has(sub, "enum") /\ \E i \in DOMAIN sub.enum : HasNum(sub.enum[i])

(* F-C01-4: visitJSONObject tests the presence of a readOnly (request) / writeOnly (response) property with        *)
(* value[name] != nil, so such a property that IS present, with the value null, passes the directed reading although *)
(* the side forbids it to be sent.  Only the directed forms (oq / op), only when the value has a null member under     *)
(* the name of a property the side forbids.                                                                           *)
RECURSIVE HasNullMember(_, _)
HasNullMember(v, key) ==
   CASE v.t = "obj" -> \E i \in DOMAIN v.k : (v.k[i] = key /\ v.v[i].t = "null") \/ HasNullMember(v.v[i], key)
     [] v.t = "arr" -> \E i \in DOMAIN v.a : HasNullMember(v.a[i], key)
     [] OTHER -> FALSE
SideNullPresent(s, v, side) ==
   \E t \in SubSchemas(s) : Has(t, "pk") /\ \E i \in DOMAIN t.pk : SideForbidden(t.ps[i], side) /\ HasNullMember(v, t.pk[i])

Class(line, i, form, v, want) ==
   IF form = "on" /\ line.of[i] = want /\ line.om[i] = want
   \* the open class first: F-C01-1 is repaired (bc49a97), and a pair that fits both predicates must not be booked on the repaired one
   THEN IF UniqueNumberSpelling(line.s, v) THEN "uniqueitems_number_spelling_jsonnumber"
        ELSE IF EnumNestedNumber(line.s, v) THEN "enum_nested_number_jsonnumber"
        ELSE "none"
   ELSE IF form = "og" /\ line.of[i] = want /\ line.om[i] = want
   THEN IF EnumGoInt(line.s, v) THEN "enum_number_goint" ELSE "none"
   ELSE IF form \in {"oq", "op"} /\ line.of[i] = Acc0(Valid(line.s, v, "plain"))
   THEN IF SideNullPresent(line.s, v, IF form = "oq" THEN "asreq" ELSE "asrep") THEN "side_forbidden_property_null_present" ELSE "none"
   ELSE "none"
=============================================================================
