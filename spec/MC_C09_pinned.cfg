SPECIFICATION Spec
CONSTANTS Kinds = {"plain"}
          MixedServerSet = {}
          MixedCoreServers = {}
          MixedMethKeys = {"G", "GP"}
          PlainMethKeys = {"G", "P", "GP"}
          MaxLen = 2
          MaxT = 2
          ServerSet = {"none"}
          CoreLen = 0
          CoreT = 0
          CoreServers = {}
          Slice = 0
          Seed = 1
          DesignAll = TRUE
INVARIANTS PinnedRefines
CHECK_DEADLOCK FALSE
