------------------------------ MODULE Trace_C03 ------------------------------
(* Trace validation for C03.  One log line = one document taken through the library's   *)
(* readers and writers (harness/c03.go): in = the input as realised, obs.j1 = JSON of    *)
(* the parsed input, obs.j2 = JSON after a second JSON trip, obs.ja / obs.jb = JSON      *)
(* after a trip through the two YAML writers and the YAML reader, obs.ji = JSON of the   *)
(* input read through the YAML reader.  TLC evaluates the contract of DocModel:          *)
(*   realised   Same(case document, in)                       (realiser guard)           *)
(*   first      the input parses and FirstTripOK(ver, in, j1): j1 is the input minus     *)
(*              redundant defaults / $ref siblings at most (j1 = in for normal form);    *)
(*              fixtures (arbitrary keys: no kind-directed Norm) use the kind-free       *)
(*              WeakOK: nothing invented, nothing changed, only zero-ish values or       *)
(*              $ref siblings lost                                                       *)
(*   j2 ja jb ji   every further trip succeeds and reproduces j1 exactly;                 *)
(*   ju jyu jp jr jl  (document lines) so does every other reader with a fresh receiver: *)
(*              json.Unmarshal / yaml.Unmarshal into an openapi3.T without a loader,     *)
(*              LoadFromDataWithPath, LoadFromIoReader, LoadFromURI (the root read       *)
(*              through ReadFromURIFunc); UnmarshalJSON of openapi2.T;                   *)
(*   jm jy jv   and every other writer of the parsed input: the MarshalJSON method, the  *)
(*              value MarshalYAML hands to a YAML encoder, the T by value;               *)
(*   jf jk      and the YAML reader on other spellings of the input: flow style (the     *)
(*              JSON text behind a comment line), all-digit map keys unquoted;           *)
(*   jo         and the YAML reader with the option IncludeOrigin on;                    *)
(*   history lines (line.hist.entry # "fresh", DocModel "Receivers and entry points"):   *)
(*   prior      the prior documents are the ones the spec names and parse / fail as the  *)
(*              spec says (realiser guard);                                              *)
(*   jh         JSON of the ONE receiver after the prior documents and then the document *)
(*              under test were parsed into it = j1: the earlier content has no influence. *)
(*   kind-level lines (entry "kind" / "wrap", DocModel "Kind-level receivers"): the bare *)
(*   object of the case through a value of the kind's own Go type or of its reference    *)
(*   wrapper type: kparse/kfirst the fresh value parses it and serialises it within the   *)
(*   first-trip contract read at that kind; prior as above; jh = k1.                      *)
(* Every failed conjunct of every line is written to violations.ndjson with its finding  *)
(* class; a j1 that differs from the L2 model's prediction is a fidelity warning.        *)
EXTENDS FindingsC03, Json, CSV

Trace == ndJsonDeserialize("trace.ndjson")

VARIABLE tl
Init == tl = 0
Next == tl < Len(Trace) /\ tl' = tl + 1
Spec == Init /\ [][Next]_tl

ZeroIsh(v) == v \in {N, Bv(FALSE), Nm("0"), Sv(""), EmptyA, EmptyO}
RECURSIVE WeakOK(_, _)
WeakOK(x, hi) ==
   /\ x.t = hi.t
   /\ CASE x.t = "obj" -> /\ SeqRange(x.k) \subseteq SeqRange(hi.k)
                          /\ \A i \in DOMAIN hi.k :
                                IF HasKey(x, hi.k[i]) THEN WeakOK(Get(x, hi.k[i]), hi.v[i])
                                ELSE ZeroIsh(hi.v[i]) \/ HasKey(hi, "$ref")
        [] x.t = "arr" -> Len(x.a) = Len(hi.a) /\ \A i \in DOMAIN x.a : WeakOK(x.a[i], hi.a[i])
        [] OTHER -> x = hi

Generated(line) == line.d.mode # "fixture"
(* a YAML fixture has no JSON input of its own (in = the YAML text as the YAML-to-JSON converter reads it,  *)
(* timestamps and all): only the later trips are judged                                                   *)
FirstOK(line) == IF Generated(line) THEN FirstTripOK(line.ver, line.in, line.obs.j1.v)
                 ELSE line.d.src = "yaml" \/ WeakOK(line.obs.j1.v, line.in)
IsHist(line) == line.hist.entry # "fresh"
IsKindLine(line) == line.hist.entry \in {"kind", "wrap"}
(* what the later trips of a line must reproduce: j1, on kind-level lines k1 (the bare object through a fresh value) *)
BaseName(line) == IF IsKindLine(line) THEN "k1" ELSE "j1"
Base(line) == line.obs[BaseName(line)]
(* the trips the spec demands of a line (a trip the harness did not record is a failed trip) *)
DocTrips(ver) == IF ver = 3 THEN {"j2", "ja", "jb", "ji", "jf", "jk", "ju", "jyu", "jp", "jr", "jl", "jm", "jy", "jv", "jo"}
                 ELSE {"j2", "ja", "ji", "jf", "jk", "ju", "jv", "jm"}
Later(line) == IF IsHist(line) THEN {"jh"} ELSE DocTrips(line.ver)
KPriorOK(line) ==
   /\ line.hist.entry \in KindEntries(line.d.kind)
   /\ Len(line.obs.pr) = Len(line.hist.prior)
   /\ \A i \in DOMAIN line.hist.prior :
         LET p == line.hist.prior[i] IN
         /\ p.name \in KPriorNames(line.d.kind, line.hist.entry) /\ Same(KPriorDoc(line.d.kind, p.name), p.doc)
         /\ line.obs.pr[i]
(* the bare object through a fresh value of its own type: the first-trip contract at the kind's level *)
KFirstOK(line) == Between(Walk("norm", line.d.kind, line.hist.frag), line.obs.k1.v, line.hist.frag)
PriorOK(line) ==
   IF IsKindLine(line) THEN KPriorOK(line) ELSE
   /\ line.hist.entry \in HistEntries(line.ver)
   /\ Len(line.obs.pr) = Len(line.hist.prior)
   /\ \A i \in DOMAIN line.hist.prior :
         LET p == line.hist.prior[i] IN
         /\ p.name \in PriorNames(line.ver) /\ Same(PriorDoc(line.ver, p.name), p.doc)
         /\ line.obs.pr[i] = PriorParses(p.name)

Failed(line) ==
   (IF Same(line.c, line.in) THEN {} ELSE {"realised"})
   \cup (IF ~line.obs.j1.ok THEN {"parse"}
         ELSE (IF FirstOK(line) THEN {} ELSE {"first"})
              \cup (IF IsHist(line) /\ ~PriorOK(line) THEN {"prior"} ELSE {})
              \cup (IF IsKindLine(line) /\ ~Base(line).ok THEN {"kparse"}
                    ELSE (IF IsKindLine(line) /\ ~KFirstOK(line) THEN {"kfirst"} ELSE {})
                         \cup {n \in Later(line) : n \notin DOMAIN line.obs \/ ~line.obs[n].ok \/ line.obs[n].v # Base(line).v}))

(* where the failed trip first differs: first: vs the input; later trips: vs j1 *)
At(line, f) ==
   CASE f = "first" -> Diff(line.in, line.obs.j1.v)
     [] f \in DocTrips(2) \cup DocTrips(3) \cup {"jh"} ->
           IF f \notin DOMAIN line.obs THEN <<"!not_recorded">>
           ELSE IF line.obs[f].ok THEN Diff(Base(line).v, line.obs[f].v) ELSE <<"!" \o line.obs[f].err>>
     [] f = "kfirst" -> Diff(line.hist.frag, line.obs.k1.v)
     [] f = "kparse" -> <<"!" \o line.obs.k1.err>>
     [] f = "parse" -> <<"!" \o line.obs.j1.err>>
     [] OTHER -> <<>>
Report(line, f) ==
   [case |-> line.case, d |-> line.d, ver |-> line.ver, doc |-> line.c, ext |-> line.ext, hist |-> line.hist, failed |-> f, at |-> At(line, f),
    class |-> Class(line, f)]

LineOK(line) ==
   /\ \A f \in Failed(line) : CSVWrite("%1$s", <<ToJson(Report(line, f))>>, "violations.ndjson")
   /\ \/ ~Generated(line) \/ ~line.obs.j1.ok
      \/ line.obs.j1.v = L2RT(line.ver, line.in)
      \/ CSVWrite("%1$s", <<ToJson([case |-> line.case, d |-> line.d,
                                     at |-> Diff(L2RT(line.ver, line.in), line.obs.j1.v)])>>, "fidelity.ndjson")

Judge == tl > 0 => LineOK(Trace[tl])

AllConsumed == TLCGet("stats").diameter = Len(Trace) + 1
=============================================================================
