SPECIFICATION Spec
CONSTANT MaxOps = 3
INVARIANT Emit
CHECK_DEADLOCK FALSE
