SPECIFICATION Spec
CONSTANTS MaxFlat = 3
 Pairs = "all"
 Seed = 1
INVARIANT Emit
CHECK_DEADLOCK FALSE
