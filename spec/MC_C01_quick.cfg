SPECIFICATION Spec
CONSTANTS K = 2
          KO = 0
          SK = 1
          W = 1
          Ext = FALSE
          ValSet = "plain"
INVARIANTS L2vsL1 LawsInner Monotone
CHECK_DEADLOCK FALSE
