------------------------------- MODULE Gen_C10 -------------------------------
EXTENDS RobustTraffic, SequencesExt, Json, CSV
(***************************************************************************)
(* F for the named universe.  The product: feature sets of size <= MaxFeat *)
(* x mutation sequences of length <= MaxMut (feature pairs with at most    *)
(* one mutation) x side x MultiError.                                      *)
(*   BASE cases - at most one feature and at most one mutation - are       *)
(* always emitted (they are the quick tier).                               *)
(*   PAIR-LEVEL cases (two features, or two mutations) are emitted in a    *)
(* seeded 1/Slice slice: a linear congruence over the positions of the     *)
(* atoms, so that every class of the slice is equally populated and every  *)
(* feature pair / mutation pair keeps cases in it.                         *)
(*   HEAVY pair-level cases are emitted in a 1/(Slice*HeavySlice) slice:   *)
(* (a) the feature recursive_schema_default - every case that reaches it   *)
(* dies the same way (open finding F-C10-9: a process death and restart    *)
(* each); (b) a 3000-deep body in multi-error mode (seconds per validation,*)
(* quadratic error accumulation).                                          *)
(* Slice = HeavySlice = 1 gives the full product.                          *)
(***************************************************************************)
CONSTANTS Slice, HeavySlice, Seed

FSeq == SetToSeq(DocFeatures)
MSeq == SetToSeq(ReqMutations \cup RespMutations)
FIdx == [f \in DocFeatures |-> CHOOSE i \in DOMAIN FSeq : FSeq[i] = f]
MIdx == [m \in ReqMutations \cup RespMutations |-> CHOOSE i \in DOMAIN MSeq : MSeq[i] = m]

DeepMuts == {"body_deep_nesting", "resp_body_deep"}
Base == Cardinality(feats) <= 1 /\ Len(muts) <= 1
Heavy == "recursive_schema_default" \in feats \/ (multi /\ \E i \in DOMAIN muts : muts[i] \in DeepMuts)
Hash == FoldSet(LAMBDA f, acc : acc + 11 * FIdx[f], 0, feats)
        + (IF Len(muts) >= 1 THEN MIdx[muts[1]] ELSE 0) + (IF Len(muts) >= 2 THEN 5 * MIdx[muts[2]] ELSE 0)
        + (IF multi THEN 3 ELSE 0) + (IF side = "request" THEN 0 ELSE 1) + Seed
Selected == Base \/ (Hash % (IF Heavy THEN Slice * HeavySlice ELSE Slice) = 0)

(* feature pairs are crossed with at most one mutation, single features with up to MaxMut: the generator does not walk further *)
GNext == (Cardinality(feats) <= 1 \/ Len(muts) = 0) /\ Next
GSpec == Init /\ [][GNext]_vars
Emit == Selected =>
           CSVWrite("%1$s", <<ToJson([feats |-> feats, muts |-> muts, side |-> side, multi |-> multi])>>, "cases.ndjson")
=============================================================================
