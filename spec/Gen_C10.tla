------------------------------- MODULE Gen_C10 -------------------------------
EXTENDS RobustTraffic, Json, CSV
(* feature pairs are crossed with at most one mutation, single features with up to MaxMut *)
Emit == (Cardinality(feats) <= 1 \/ Len(muts) <= 1) =>
           CSVWrite("%1$s", <<ToJson([feats |-> feats, muts |-> muts, side |-> side, multi |-> multi])>>, "cases.ndjson")
=============================================================================
