SPECIFICATION Spec
CONSTANTS MaxFeat = 1
 MaxMut = 1
INVARIANT Emit
CHECK_DEADLOCK FALSE
