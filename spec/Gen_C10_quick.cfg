SPECIFICATION GSpec
CONSTANTS MaxFeat = 1
 MaxMut = 1
 Slice = 1
 HeavySlice = 1
 Seed = 1
INVARIANT Emit
CHECK_DEADLOCK FALSE
