------------------------------- MODULE Gen_C18 -------------------------------
(* Generator of C18 cases: a state is a Go type (spec/GoTypes.tla) with a generator       *)
(* option set and a history (ghist: has the Generator generated another type before, and   *)
(* does the judged call get the same component map).  Init picks a base (a basic kind or a declared struct type of the harness), *)
(* Next wraps the type: pointer, slice, map, or one of the struct forms (tagged / omitempty *)
(* / untagged field, a second field, pointer and value of the same type side by side,      *)
(* embedded struct by value / by pointer / with a tag, shadowed and duplicated names, the    *)
(* "string" tag option on the type and on a pointer to it, a defined non-struct type        *)
(* embedded).                                                                               *)
(* BFS to W wraps for the bases in Deep (full wrapper set at levels 1 and 2, the core set   *)
(* above) and to WS wraps for the others (full set at level 1, core set above).  Every      *)
(* state whose option set applies is written once to cases.ndjson with the covering value   *)
(* list GoVals(T).                                                                          *)
EXTENDS GoTypes, Json, CSV

CONSTANTS W, WS, Deep, OptSet,
          Reps,        \* generations with fresh generators for the types of RepNames up to RepW wraps
          RepW,
          Which,       \* "all", or a split of the bases: "deep" (the families with long case lines) / "rest"
          MutualFull   \* the mutually recursive families get the full (TRUE) or the core wrapper set, one level;
                       \* the round-6 declared types the full (TRUE) or the middle set

VARIABLES gty, gw, gbase, gopt,     \* (distinctive names: a variable called like an operator parameter slows TLC down)
          ghist                       \* history: "none" = a fresh generator; "shared" / "fresh" = the generator has
                                      \* generated First before, and this call gets the same / a new component map
vars == <<gty, gw, gbase, gopt, ghist>>

NoWrap == {"ES"}      \* generation dies on it: not a base here, it is the witness case of that listed finding
AllBases == BaseKinds \cup (DefNames \ NoWrap)
(* Some case lines of the DeepNames families exceed the 8 KB up to which concurrent CSVWrite     *)
(* calls are atomic: the pipeline runs "rest" (all bases, many workers, writes the lines below     *)
(* LongLine only) and "deep" (those families, one worker, writes the long lines only).             *)
(* (the families recursing through a named container carry values unfolded to depth 4: long lines too) *)
(* (thorough tier: the families recursing through an unnamed container reach such lengths under two wrappers) *)
LongNames == DeepNames \cup ContRecNames \cup (IF MutualFull THEN {"RSS", "RSlice", "RPSlice", "RMap", "RMapV"} ELSE {})
Bases == IF Which = "deep" THEN AllBases \cap LongNames ELSE AllBases
LongLine == 5000      \* characters of JSON; the written line (a quoted TLA+ string) is up to about 1.5 times as long
BaseType(b) == IF b \in DefNames THEN Named(b) ELSE B(b)
I8 == B("int8")
TStrG == B("string")

Core(s) ==
   {Ptr(s), Map(s), Struct(<<Fld("A", "a", s)>>),
    Struct(<<Emb("E", Struct(<<Fld("A", "a", s)>>)), Fld("B", "b", I8)>>),
    Struct(<<Emb("E", Ptr(Struct(<<Fld("A", "a", s)>>))), Fld("B", "b", I8)>>)}
   \cup (IF U(s).k = "uint8" THEN {} ELSE {Slice(s)})    \* []uint8 is the kind "bytes" (a slice of a defined uint8 type too)

Full(s) ==
   Core(s) \cup
   {Struct(<<FldOE("A", "a", s)>>),
    Struct(<<FldU("A", s)>>),
    Struct(<<[n |-> "A", j |-> "", oe |-> TRUE, t |-> s]>>),
    Struct(<<Fld("A", "a", s), Fld("B", "b", I8)>>),
    Struct(<<Fld("A", "a", s), Fld("B", "b", Ptr(s))>>),
    Struct(<<Fld("A", "a", Ptr(s)), Fld("B", "b", s)>>),
    Struct(<<Fld("A", "a", TStrG), Emb("E", Struct(<<Fld("A", "a", s)>>))>>),
    Struct(<<Emb("E", Struct(<<Fld("A", "a", s)>>)), Fld("A", "a", TStrG)>>),
    Struct(<<EmbTag("E", "e", Struct(<<Fld("A", "a", s)>>))>>),
    Struct(<<Emb("E", Struct(<<FldU("A", s)>>)), Fld("B", "b", I8)>>),
    Struct(<<Emb("E", Struct(<<Fld("A", "a", s)>>)), Emb("F", Struct(<<Fld("A", "a", TStrG)>>))>>),
    (* the "string" tag option: on the type itself, and on a pointer to it next to an omitempty one *)
    Struct(<<FldS("A", "a", s)>>),
    Struct(<<FldS("A", "a", Ptr(s)), FldSOE("B", "b", s)>>)}
   (* a defined non-struct type embedded: encoding/json writes it under its type name *)
   (* (reflect.StructOf cannot embed a map type: that form is the declared type EM) *)
   \cup (IF s.k = "named" /\ U(s).k \in BaseKinds \cup {"slice"}
         THEN {Struct(<<Emb(s.n, s), Fld("B", "b", I8)>>)} ELSE {})
   \cup (IF IsStructLike(s)
         THEN {Struct(<<Emb("E", s), Fld("B", "b", I8)>>), Struct(<<Emb("E", Ptr(s)), Fld("B", "b", I8)>>)}
         ELSE {})

(* The declared types of round 6 (defined non-struct types, structs with invisible fields, the  *)
(* families recursing through a named container) get a middle wrapper set in the quick tier:    *)
(* the core set, omitempty, the "string" option, value next to pointer, embedding.              *)
LightNames == NonStructNames \cup HiddenNames \cup ContRecNames
Mid(s) ==
   Core(s) \cup
   {Struct(<<FldOE("A", "a", s)>>),
    Struct(<<Fld("A", "a", s), Fld("B", "b", Ptr(s))>>),
    Struct(<<FldS("A", "a", s)>>),
    Struct(<<FldS("A", "a", Ptr(s)), FldSOE("B", "b", s)>>)}
   \cup (IF IsStructLike(s)
         THEN {Struct(<<Emb("E", s), Fld("B", "b", I8)>>), Struct(<<Emb("E", Ptr(s)), Fld("B", "b", I8)>>)}
         ELSE {})
   \cup (IF s.k = "named" /\ U(s).k \in BaseKinds \cup {"slice"}
         THEN {Struct(<<Emb(s.n, s), Fld("B", "b", I8)>>)} ELSE {})

(* The mutually recursive families of GoTypes!DeepNames carry deep values (a cycle of length 3 is *)
(* passed twice): they are wrapped once only.  What the generator puts into the component map    *)
(* for mutually recursive types depends on map iteration order inside it, so these types (and    *)
(* MA/MB) are generated Reps times with fresh generators and every run is judged.                *)
RepNames == DeepNames \cup {"MA", "MB"}
(* the same type twice in one struct (no cycle): for the option sets "throw" and "custom" *)
Twice(s) == {Struct(<<Fld("A", "a", s), Fld("B", "b", Ptr(s))>>), Struct(<<Fld("A", "a", Ptr(s)), Fld("B", "b", s)>>)}
            \cup (IF U(s).k = "uint8" THEN {} ELSE {Struct(<<Fld("A", "a", s), Fld("B", "b", Slice(s))>>)})
WrapSet0(s) == IF gbase \in DeepNames THEN (IF MutualFull THEN Full(s) ELSE Core(s))
              ELSE IF gbase \in LightNames /\ ~MutualFull /\ gbase \notin Deep THEN (IF gw = 0 THEN Mid(s) ELSE Core(s))
              ELSE IF gw = 0 \/ (gw = 1 /\ gbase \in Deep) THEN Full(s) ELSE Core(s)
WrapSet(s) == (IF gopt \in {"throw", "custom"} /\ gw = 0 THEN Twice(s) ELSE {}) \cup WrapSet0(s)
MaxW == IF gbase \in DeepNames THEN 1 ELSE IF gbase \in Deep THEN W ELSE WS
RepsOf == IF gbase \in RepNames /\ gw <= RepW THEN Reps ELSE 1

HistOpts == IF MutualFull THEN {"default", "useall", "export", "exporttop", "custom"} ELSE {"default", "export"}
Init == /\ gbase \in Bases /\ gty = BaseType(gbase) /\ gw = 0 /\ gopt \in OptSet
        /\ ghist \in (IF gopt \in HistOpts /\ gbase \in DefNames THEN {"none", "shared", "fresh"} ELSE {"none"})

Next == /\ gw < MaxW
        /\ gty' \in WrapSet(gty) /\ gw' = gw + 1
        /\ UNCHANGED <<gbase, gopt, ghist>>
Spec == Init /\ [][Next]_vars

RECURSIVE StripPtr(_)
StripPtr(t) == IF t.k = "ptr" THEN StripPtr(t.e) ELSE t

(* Component names are Go type names, which anonymous (reflect-built) struct types do not  *)
(* have: with component export the generator gives all of them the component name "".      *)
(* That is a listed finding with its own witness; the export option sets are enumerated    *)
(* over the types in which every struct that becomes a component is a declared one.        *)
(* The tng option sets add openapi3gen.CreateTypeNameGenerator with a caller-supplied function whose *)
(* result differs from reflect.Type.Name() (GoSchema!TypeNameOf: the prefix "T_"): alone, and       *)
(* combined with component export without / with ExportTopLevelSchema.  Names only matter for        *)
(* declared types, so these sets are enumerated over the types that reach one (the recursive         *)
(* families and non-recursive nested declared structs).                                              *)
(* "throw" is ThrowErrorOnCycle, "custom" a SchemaCustomizer that changes nothing (it switches  *)
(* the generator's type table off).  Cycle detection and the type table only matter where a     *)
(* declared type occurs; in the quick tier these two are enumerated over a declared base, its   *)
(* core wrappers and the forms that hold the same type twice (no cycle there).                  *)
Plain(o) == CASE o = "tng" -> "default" [] o = "tng_export" -> "export" [] o = "tng_exporttop" -> "exporttop"
              [] o \in {"throw", "custom"} -> "default"
              [] OTHER -> o
(* Histories: the generator keeps its type table and its registered component names between    *)
(* calls (the property's anchor state), so a type is also generated by a Generator that has      *)
(* generated another type before: the base before one of its wrappers (the wrapper then finds    *)
(* the base in the table), or the same type twice.  Where a declared type occurs only.           *)
First == IF gw = 0 THEN gty ELSE BaseType(gbase)
Hist4(s) == {Ptr(s), Map(s), Struct(<<Fld("A", "a", s)>>)} \cup (IF U(s).k = "uint8" THEN {} ELSE {Slice(s)})
HistOK ==
   ghist # "none" =>
      /\ ReachNames(gty) # {} /\ gw <= 1
      /\ gopt \in HistOpts
      /\ gw = 1 => gty \in Hist4(BaseType(gbase))
      /\ gbase \in DeepNames => gw = 0
OptOK ==
   /\ HistOK
   /\ gopt \in {"tng", "tng_export", "tng_exporttop"} =>
         /\ ReachNames(gty) # {}
         (* quick tier: the round-6 declared types meet the type-name generator in their core wrappers *)
         /\ MutualFull \/ gbase \notin LightNames \/ gw = 0 \/ gty \in Core(BaseType(gbase))
   /\ (gopt = "custom" /\ gbase \in DeepNames) => MutualFull        \* (long case lines: thorough tier)
   /\ gopt \in {"throw", "custom"} =>
         /\ ReachNames(gty) # {}
         /\ (MutualFull /\ gw <= 2) \/ gw = 0 \/ (gw = 1 /\ gty \in Core(BaseType(gbase)) \cup Twice(BaseType(gbase)))
   /\ CASE Plain(gopt) \in {"default", "useall"} -> TRUE
        [] Plain(gopt) \in {"export", "useall_export"} -> AnonStructs(gty, TRUE) = 0
        [] Plain(gopt) = "exporttop" -> AnonStructs(gty, TRUE) = 0 /\ StripPtr(gty).k # "struct"

Emit == OptOK =>
          LET text == ToJson(IF ghist = "none" THEN [T |-> gty, opt |-> gopt, vals |-> GoVals(gty), reps |-> RepsOf]
                             ELSE [T |-> gty, opt |-> gopt, vals |-> GoVals(gty), reps |-> RepsOf,
                                   first |-> First, share |-> (ghist = "shared")]) IN
          LET long == gbase \in LongNames /\ Len(text) > LongLine IN
          (Which = "all" \/ ((Which = "deep") = long)) => CSVWrite("%1$s", <<text>>, "cases.ndjson")

EmitPoints == (gw = 0 /\ gbase = "bool" /\ gopt = "default" /\ ghist = "none") =>
                 CSVWrite("%1$s", <<ToJson([points |-> Points, zero |-> ZeroIdx, halves |-> Halves])>>, "points.ndjson")
=============================================================================
