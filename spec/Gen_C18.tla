------------------------------- MODULE Gen_C18 -------------------------------
(* Generator of C18 cases: a state is a Go type (spec/GoTypes.tla) with a generator       *)
(* option set.  Init picks a base (a basic kind or a declared struct type of the harness), *)
(* Next wraps the type: pointer, slice, map, or one of the struct forms (tagged / omitempty *)
(* / untagged field, a second field, pointer and value of the same type side by side,      *)
(* embedded struct by value / by pointer / with a tag, shadowed and duplicated names).      *)
(* BFS to W wraps for the bases in Deep (full wrapper set at levels 1 and 2, the core set   *)
(* above) and to WS wraps for the others (full set at level 1, core set above).  Every      *)
(* state whose option set applies is written once to cases.ndjson with the covering value   *)
(* list GoVals(T).                                                                          *)
EXTENDS GoTypes, Json, CSV

CONSTANTS W, WS, Deep, OptSet,
          Reps,        \* generations with fresh generators for the types of RepNames up to RepW wraps
          RepW,
          Which,       \* "all", or a split of the bases: "deep" (the families with long case lines) / "rest"
          MutualFull   \* the mutually recursive families get the full (TRUE) or the core wrapper set, one level

VARIABLES gty, gw, gbase, gopt      \* (distinctive names: a variable called like an operator parameter slows TLC down)
vars == <<gty, gw, gbase, gopt>>

NoWrap == {"ES"}      \* generation dies on it: not a base here, it is the witness case of that listed finding
AllBases == BaseKinds \cup (DefNames \ NoWrap)
(* Some case lines of the DeepNames families exceed the 8 KB up to which concurrent CSVWrite     *)
(* calls are atomic: the pipeline runs "rest" (all bases, many workers, writes the lines below     *)
(* LongLine only) and "deep" (those families, one worker, writes the long lines only).             *)
Bases == IF Which = "deep" THEN AllBases \cap DeepNames ELSE AllBases
LongLine == 5000      \* characters of JSON; the written line (a quoted TLA+ string) is up to about 1.5 times as long
BaseType(b) == IF b \in DefNames THEN Named(b) ELSE B(b)
I8 == B("int8")
TStrG == B("string")

Core(s) ==
   {Ptr(s), Map(s), Struct(<<Fld("A", "a", s)>>),
    Struct(<<Emb("E", Struct(<<Fld("A", "a", s)>>)), Fld("B", "b", I8)>>),
    Struct(<<Emb("E", Ptr(Struct(<<Fld("A", "a", s)>>))), Fld("B", "b", I8)>>)}
   \cup (IF s = B("uint8") THEN {} ELSE {Slice(s)})      \* []uint8 is the kind "bytes"

Full(s) ==
   Core(s) \cup
   {Struct(<<FldOE("A", "a", s)>>),
    Struct(<<FldU("A", s)>>),
    Struct(<<[n |-> "A", j |-> "", oe |-> TRUE, t |-> s]>>),
    Struct(<<Fld("A", "a", s), Fld("B", "b", I8)>>),
    Struct(<<Fld("A", "a", s), Fld("B", "b", Ptr(s))>>),
    Struct(<<Fld("A", "a", Ptr(s)), Fld("B", "b", s)>>),
    Struct(<<Fld("A", "a", TStrG), Emb("E", Struct(<<Fld("A", "a", s)>>))>>),
    Struct(<<Emb("E", Struct(<<Fld("A", "a", s)>>)), Fld("A", "a", TStrG)>>),
    Struct(<<EmbTag("E", "e", Struct(<<Fld("A", "a", s)>>))>>),
    Struct(<<Emb("E", Struct(<<FldU("A", s)>>)), Fld("B", "b", I8)>>),
    Struct(<<Emb("E", Struct(<<Fld("A", "a", s)>>)), Emb("F", Struct(<<Fld("A", "a", TStrG)>>))>>)}
   \cup (IF IsStructLike(s)
         THEN {Struct(<<Emb("E", s), Fld("B", "b", I8)>>), Struct(<<Emb("E", Ptr(s)), Fld("B", "b", I8)>>)}
         ELSE {})

(* The mutually recursive families of GoTypes!DeepNames carry deep values (a cycle of length 3 is *)
(* passed twice): they are wrapped once only.  What the generator puts into the component map    *)
(* for mutually recursive types depends on map iteration order inside it, so these types (and    *)
(* MA/MB) are generated Reps times with fresh generators and every run is judged.                *)
RepNames == DeepNames \cup {"MA", "MB"}
WrapSet(s) == IF gbase \in DeepNames THEN (IF MutualFull THEN Full(s) ELSE Core(s))
              ELSE IF gw = 0 \/ (gw = 1 /\ gbase \in Deep) THEN Full(s) ELSE Core(s)
MaxW == IF gbase \in DeepNames THEN 1 ELSE IF gbase \in Deep THEN W ELSE WS
RepsOf == IF gbase \in RepNames /\ gw <= RepW THEN Reps ELSE 1

Init == /\ gbase \in Bases /\ gty = BaseType(gbase) /\ gw = 0 /\ gopt \in OptSet

Next == /\ gw < MaxW
        /\ gty' \in WrapSet(gty) /\ gw' = gw + 1
        /\ UNCHANGED <<gbase, gopt>>
Spec == Init /\ [][Next]_vars

RECURSIVE StripPtr(_)
StripPtr(t) == IF t.k = "ptr" THEN StripPtr(t.e) ELSE t

(* Component names are Go type names, which anonymous (reflect-built) struct types do not  *)
(* have: with component export the generator gives all of them the component name "".      *)
(* That is a listed finding with its own witness; the export option sets are enumerated    *)
(* over the types in which every struct that becomes a component is a declared one.        *)
(* The tng option sets add openapi3gen.CreateTypeNameGenerator with a caller-supplied function whose *)
(* result differs from reflect.Type.Name() (GoSchema!TypeNameOf: the prefix "T_"): alone, and       *)
(* combined with component export without / with ExportTopLevelSchema.  Names only matter for        *)
(* declared types, so these sets are enumerated over the types that reach one (the recursive         *)
(* families and non-recursive nested declared structs).                                              *)
Plain(o) == CASE o = "tng" -> "default" [] o = "tng_export" -> "export" [] o = "tng_exporttop" -> "exporttop"
              [] OTHER -> o
OptOK ==
   /\ gopt \in {"tng", "tng_export", "tng_exporttop"} => ReachNames(gty) # {}
   /\ CASE Plain(gopt) \in {"default", "useall"} -> TRUE
        [] Plain(gopt) \in {"export", "useall_export"} -> AnonStructs(gty, TRUE) = 0
        [] Plain(gopt) = "exporttop" -> AnonStructs(gty, TRUE) = 0 /\ StripPtr(gty).k # "struct"

Emit == OptOK =>
          LET text == ToJson([T |-> gty, opt |-> gopt, vals |-> GoVals(gty), reps |-> RepsOf]) IN
          LET long == gbase \in DeepNames /\ Len(text) > LongLine IN
          (Which = "all" \/ ((Which = "deep") = long)) => CSVWrite("%1$s", <<text>>, "cases.ndjson")

EmitPoints == (gw = 0 /\ gbase = "bool" /\ gopt = "default") =>
                 CSVWrite("%1$s", <<ToJson([points |-> Points, zero |-> ZeroIdx, halves |-> Halves])>>, "points.ndjson")
=============================================================================
