------------------------------- MODULE Gen_C18 -------------------------------
(* Generator of C18 cases: a state is a Go type (spec/GoTypes.tla) with a generator       *)
(* option set.  Init picks a base (a basic kind or a declared struct type of the harness), *)
(* Next wraps the type: pointer, slice, map, or one of the struct forms (tagged / omitempty *)
(* / untagged field, a second field, pointer and value of the same type side by side,      *)
(* embedded struct by value / by pointer / with a tag, shadowed and duplicated names).      *)
(* BFS to W wraps for the bases in Deep (full wrapper set at levels 1 and 2, the core set   *)
(* above) and to WS wraps for the others (full set at level 1, core set above).  Every      *)
(* state whose option set applies is written once to cases.ndjson with the covering value   *)
(* list GoVals(T).                                                                          *)
EXTENDS GoTypes, Json, CSV

CONSTANTS W, WS, Deep, OptSet

VARIABLES T, w, base, opt
vars == <<T, w, base, opt>>

NoWrap == {"ES"}      \* generation dies on it: not a base here, it is the witness case of that listed finding
Bases == BaseKinds \cup (DefNames \ NoWrap)
BaseType(b) == IF b \in DefNames THEN Named(b) ELSE B(b)
I8 == B("int8")
TStrG == B("string")

Core(s) ==
   {Ptr(s), Map(s), Struct(<<Fld("A", "a", s)>>),
    Struct(<<Emb("E", Struct(<<Fld("A", "a", s)>>)), Fld("B", "b", I8)>>),
    Struct(<<Emb("E", Ptr(Struct(<<Fld("A", "a", s)>>))), Fld("B", "b", I8)>>)}
   \cup (IF s = B("uint8") THEN {} ELSE {Slice(s)})      \* []uint8 is the kind "bytes"

Full(s) ==
   Core(s) \cup
   {Struct(<<FldOE("A", "a", s)>>),
    Struct(<<FldU("A", s)>>),
    Struct(<<[n |-> "A", j |-> "", oe |-> TRUE, t |-> s]>>),
    Struct(<<Fld("A", "a", s), Fld("B", "b", I8)>>),
    Struct(<<Fld("A", "a", s), Fld("B", "b", Ptr(s))>>),
    Struct(<<Fld("A", "a", Ptr(s)), Fld("B", "b", s)>>),
    Struct(<<Fld("A", "a", TStrG), Emb("E", Struct(<<Fld("A", "a", s)>>))>>),
    Struct(<<Emb("E", Struct(<<Fld("A", "a", s)>>)), Fld("A", "a", TStrG)>>),
    Struct(<<EmbTag("E", "e", Struct(<<Fld("A", "a", s)>>))>>),
    Struct(<<Emb("E", Struct(<<FldU("A", s)>>)), Fld("B", "b", I8)>>),
    Struct(<<Emb("E", Struct(<<Fld("A", "a", s)>>)), Emb("F", Struct(<<Fld("A", "a", TStrG)>>))>>)}
   \cup (IF IsStructLike(s)
         THEN {Struct(<<Emb("E", s), Fld("B", "b", I8)>>), Struct(<<Emb("E", Ptr(s)), Fld("B", "b", I8)>>)}
         ELSE {})

WrapSet(s) == IF w = 0 \/ (w = 1 /\ base \in Deep) THEN Full(s) ELSE Core(s)
MaxW == IF base \in Deep THEN W ELSE WS

Init == /\ base \in Bases /\ T = BaseType(base) /\ w = 0 /\ opt \in OptSet

Next == /\ w < MaxW
        /\ T' \in WrapSet(T) /\ w' = w + 1
        /\ UNCHANGED <<base, opt>>
Spec == Init /\ [][Next]_vars

RECURSIVE StripPtr(_)
StripPtr(t) == IF t.k = "ptr" THEN StripPtr(t.e) ELSE t

(* Component names are Go type names, which anonymous (reflect-built) struct types do not  *)
(* have: with component export the generator gives all of them the component name "".      *)
(* That is a listed finding with its own witness; the export option sets are enumerated    *)
(* over the types in which every struct that becomes a component is a declared one.        *)
(* The tng option sets add openapi3gen.CreateTypeNameGenerator with a caller-supplied function whose *)
(* result differs from reflect.Type.Name() (GoSchema!TypeNameOf: the prefix "T_"): alone, and       *)
(* combined with component export without / with ExportTopLevelSchema.  Names only matter for        *)
(* declared types, so these sets are enumerated over the types that reach one (the recursive         *)
(* families and non-recursive nested declared structs).                                              *)
Plain(o) == CASE o = "tng" -> "default" [] o = "tng_export" -> "export" [] o = "tng_exporttop" -> "exporttop"
              [] OTHER -> o
OptOK ==
   /\ opt \in {"tng", "tng_export", "tng_exporttop"} => ReachNames(T) # {}
   /\ CASE Plain(opt) \in {"default", "useall"} -> TRUE
        [] Plain(opt) \in {"export", "useall_export"} -> AnonStructs(T, TRUE) = 0
        [] Plain(opt) = "exporttop" -> AnonStructs(T, TRUE) = 0 /\ StripPtr(T).k # "struct"

Emit == OptOK => CSVWrite("%1$s", <<ToJson([T |-> T, opt |-> opt, vals |-> GoVals(T)])>>, "cases.ndjson")

EmitPoints == (w = 0 /\ base = "bool" /\ opt = "default") =>
                 CSVWrite("%1$s", <<ToJson([points |-> Points, zero |-> ZeroIdx, halves |-> Halves])>>, "points.ndjson")
=============================================================================
