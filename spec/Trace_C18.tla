------------------------------ MODULE Trace_C18 ------------------------------
(* Trace validation for C18.  One log line = one (Go type, option set): the type as the   *)
(* harness realised it, the schema and component map openapi3gen produced (abstract form), *)
(* and for every value of the covering list its encoding/json encoding and the verdicts of *)
(* the loaded schema (float64 and json.Number input forms).  TLC checks                    *)
(*   - the case was realised faithfully (type, declared types, value list, encodings =     *)
(*     the model of encoding/json in GoTypes),                                             *)
(*   - generation and loading succeeded, references resolve inside the component map,      *)
(*   - the schema accepts every encoding by the reference semantics (GoSchema!Accepts),    *)
(*     and the real validator accepted it too.                                             *)
(* Every rejection is written to violations.ndjson with its finding class.                 *)
EXTENDS FindingsC18, GoGenModel, Json, CSV

Trace == ndJsonDeserialize("trace.ndjson")

VARIABLE l
Init == l = 0
Next == l < Len(Trace) /\ l' = l + 1
Spec == Init /\ [][Next]_l

Viol(r) == CSVWrite("%1$s", <<ToJson(r)>>, "violations.ndjson")

HistOf(line) == IF Has(line, "first") THEN <<[first |-> line.first, share |-> line.share]>> ELSE <<>>
LineRec(line, failed) ==
   [case |-> line.case, T |-> line.T, opt |-> line.opt, gvs |-> line.gvs, failed |-> failed,
    obs |-> [f \in (DOMAIN line \ {"case", "T", "opt", "gvs", "rt", "rdefs", "vals", "tng", "first", "share", "rfirst"}) |-> line[f]],
    hist |-> HistOf(line),
    class |-> LineClass(line, failed)]

(* the harness built the type and the values TLC asked for *)
Realised(line) ==
   /\ line.rt = line.T
   /\ Has(line, "first") = Has(line, "rfirst") /\ (Has(line, "first") => line.rfirst = line.first /\ line.gen1 = "ok")
   /\ \A i \in DOMAIN line.rdefs.k : line.rdefs.k[i] \in DefNames /\ line.rdefs.v[i] = Defs(line.rdefs.k[i])
   /\ ReachNames(line.T) \cup (IF Has(line, "first") THEN ReachNames(line.first) ELSE {}) = {line.rdefs.k[i] : i \in DOMAIN line.rdefs.k}
   /\ line.gvs = GoVals(line.T)
   /\ UsesTypeNameGen(line.opt) =>        \* the type-name function the harness installed is the one of the spec
         /\ {line.tng.k[i] : i \in DOMAIN line.tng.k} = {line.rdefs.k[i] : i \in DOMAIN line.rdefs.k}
         /\ \A i \in DOMAIN line.tng.k : line.tng.v[i] = TypeNameOf(line.opt, line.tng.k[i])

Why(ref, fails) ==
   IF ref # ({f \in fails : f.kind # "format"} = {}) THEN "spec_formulations_disagree"
   ELSE IF ref /\ fails = {} THEN "validator_rejects_what_the_schema_allows"
   ELSE "schema_rejects_encoding"

ValueOK(line, i) ==
   LET e == line.vals[i]
       gv == line.gvs[i]
       S == line.S
       comps == line.comps IN
   IF e.enc # "ok" \/ e.json # Enc(line.T, gv)
   THEN Viol([case |-> line.case, T |-> line.T, opt |-> line.opt, gvs |-> line.gvs, i |-> i, hist |-> HistOf(line),
              failed |-> "encoding_differs_from_model", got |-> e, want |-> Enc(line.T, gv), class |-> "none"])
   ELSE LET fails == Fails(S, comps, e.json, <<>>)
            ref == RefAccepts(S, comps, e.json) IN
        IF ref /\ fails = {} /\ e.of = "A" /\ e.on = "A" THEN TRUE
        ELSE Viol([case |-> line.case, T |-> line.T, opt |-> line.opt, gvs |-> line.gvs, i |-> i, gv |-> gv, hist |-> HistOf(line),
                   json |-> e.json, S |-> S, comps |-> comps, of |-> e.of, on |-> e.on,
                   reference |-> IF ref /\ fails = {} THEN "A" ELSE "R", fails |-> fails,
                   failed |-> Why(ref, fails),
                   class |-> ValueClass(line, i, fails, Why(ref, fails))])

(* L2 fidelity: the real generator's output equals the model's (warning only).  The component *)
(* map may hold more names than the model needs (schemas of hidden fields are generated too),   *)
(* and which of the table's entries for a declared type becomes its component depends on map    *)
(* iteration order in the code: any candidate is accepted.                                      *)
Fidelity(line) ==
   LET m == ModelRun(FirstOf(line), line.T, line.opt)
       keys == ModelKeys(line) IN
   \/ Diverges(line.T)
   \/ (/\ line.S = m.s
       /\ {line.comps.k[i] : i \in DOMAIN line.comps.k} = keys
       /\ \A k \in keys : Comp(line.comps, k) \in {c.val : c \in ModelCands(line, k)})
   \/ CSVWrite("%1$s", <<ToJson([case |-> line.case, T |-> line.T, opt |-> line.opt, S |-> line.S, comps |-> line.comps,
                                  modelS |-> m.s, modelCands |-> SetToSeq({c \in m.st.cand : \E k \in keys : Matches(line.opt, c, k)})])>>,
                "fidelity.ndjson")

Verdict(line) ==
   IF line.gen \in {"hang", "crash", "not_run_after_repeated_hangs"} THEN Viol(LineRec(line, "generator_died"))
   ELSE IF ~Realised(line) THEN Viol(LineRec(line, "case_not_realised"))
   (* ThrowErrorOnCycle: a recursive type is refused with a CycleError, and only a recursive type *)
   ELSE IF line.opt = "throw" /\ Recursive(line.T, FALSE)
        THEN IF line.gen = "cycle_error" THEN TRUE ELSE Viol(LineRec(line, "cycle_not_reported_under_ThrowErrorOnCycle"))
   ELSE IF line.gen = "cycle_error" THEN Viol(LineRec(line, "cycle_error_for_a_type_without_cycle"))
   ELSE IF line.gen # "ok" THEN Viol(LineRec(line, "generation_failed"))
   ELSE IF ~CompsWellFormed(line.comps) \/ ~RefsResolve(line.S, line.comps)
        THEN Viol(LineRec(line, "references_do_not_resolve_in_component_map"))
   ELSE IF UsesTypeNameGen(line.opt) /\ ~NamesChosen(line.T, line.opt, line.S, line.comps)
        THEN Viol(LineRec(line, "component_named_otherwise_than_the_callers_generator_chose"))
   ELSE IF line.load # "ok" THEN Viol(LineRec(line, "schema_does_not_load"))
   ELSE IF ~InFragment(line.S, line.comps) THEN Viol(LineRec(line, "schema_outside_judged_fragment"))
   ELSE IF Len(line.vals) # Len(line.gvs) THEN Viol(LineRec(line, "values_missing"))
   ELSE \A i \in DOMAIN line.vals : ValueOK(line, i)

LineOK(line) ==
   /\ Verdict(line)
   /\ (line.gen = "ok" /\ Realised(line) /\ CompsWellFormed(line.comps)) => Fidelity(line)

Judge == l > 0 => LineOK(Trace[l])

AllConsumed == TLCGet("stats").diameter = Len(Trace) + 1
=============================================================================
