SPECIFICATION Spec
CONSTANTS Policy = "never"
 MaxSteps = 3
INVARIANTS Emit HistoryIndependent
CHECK_DEADLOCK FALSE
