SPECIFICATION Spec
CONSTANTS Design = "asbuilt"
          MaxUses = 4
          BackRef = TRUE
INVARIANTS UsedLikeFresh
CHECK_DEADLOCK FALSE
