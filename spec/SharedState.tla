----------------------------- MODULE SharedState -----------------------------
(***************************************************************************)
(* C15: a loaded document and its routers shared by concurrent validation  *)
(* calls.  Each operation of the catalogue is transcribed as the sequence  *)
(* of accesses it makes to shared locations:                               *)
(*    <<"R", loc>>  plain read      <<"W", loc>>  plain write              *)
(*    <<"A", loc>>  atomic / sync.Map access                               *)
(*    <<"L", m>>  lock mutex m      <<"U", m>>  unlock                     *)
(* (request-local state is not shared and is left out).  Goroutines        *)
(* interleave at access granularity.  A race state is one in which two     *)
(* goroutines' next accesses touch the same location, at least one is a    *)
(* plain write, neither is atomic, and they hold no common mutex.          *)
(***************************************************************************)
EXTENDS Naturals, Sequences, FiniteSets, TLC

CONSTANTS DefaultCopied,   \* TRUE: schema defaults are deep-copied before use (repaired tree)
          RouteCopied,     \* TRUE: gorillamux FindRoute returns a copy of the route (as the code does)
          MaxOps           \* number of concurrent operations explored

Acc(k, x) == <<k, x>>

Ops == {"find_mux", "find_legacy", "vreq_params", "vreq_params_delete", "vreq_body_pattern_first", "vreq_body_pattern_again", "vreq_body_unique",
        "vreq_body_defaults", "vresp", "visitjson", "gen_newtype", "gen_sametype", "vreq_body_pattern_customregex", "vreq_secure_body",
        "vreq_multipart_addprops", "vreq_json_addprops", "vreq_form_sharedopts", "vreq_json_defaults_sharedopts"}

Accesses(op) ==
   CASE op = "find_mux" ->
          <<Acc("R", "mux.routes")>> \o (IF RouteCopied THEN <<>> ELSE <<Acc("W", "mux.route.method"), Acc("R", "mux.route.method")>>)
     [] op = "find_legacy" -> <<Acc("R", "legacy.tree"), Acc("R", "doc.paths")>>
     [] op \in {"vreq_params", "vreq_params_delete"} ->      \* path-item parameters and the operation's own: two lists, both only read
          <<Acc("R", "doc.pathitem.parameters"), Acc("R", "doc.operation.parameters"), Acc("R", "doc.schema")>>
     [] op = "vreq_body_pattern_first" -> <<Acc("R", "doc.schema"), Acc("A", "patternCache"), Acc("A", "patternCache")>>
     [] op = "vreq_body_pattern_customregex" ->      \* a caller-supplied regex compiler: its matchers must stay the caller's own
          <<Acc("R", "doc.schema"), Acc("A", "patternCache")>>
     [] op = "vreq_body_pattern_again" -> <<Acc("R", "doc.schema"), Acc("A", "patternCache")>>
     [] op = "vreq_secure_body" ->      \* security + body: the body is buffered around the authentication callback in request-local memory
          <<Acc("R", "doc.security"), Acc("R", "doc.securitySchemes"), Acc("R", "doc.schema")>>
     [] op \in {"vreq_multipart_addprops", "vreq_json_addprops"} ->      \* the decoders only READ the schema's property maps
          <<Acc("R", "doc.schema"), Acc("R", "doc.schema.properties"), Acc("R", "bodyDecoders")>>
     [] op \in {"vreq_form_sharedopts", "vreq_json_defaults_sharedopts"} ->     \* the caller's Options are configuration: read, never written
          <<Acc("R", "caller.options"), Acc("R", "doc.schema"), Acc("R", "bodyDecoders")>>
     [] op = "vreq_body_unique" -> <<Acc("R", "doc.schema"), Acc("R", "uniqueChecker")>>
     [] op = "vreq_body_defaults" ->
          <<Acc("R", "doc.schema"), Acc("R", "doc.schema.default")>>
          \o (IF DefaultCopied THEN <<>> ELSE <<Acc("W", "doc.schema.default")>>)      \* nested default written into the shared default
     [] op = "vresp" -> <<Acc("R", "doc.schema"), Acc("R", "bodyDecoders")>>
     [] op = "visitjson" -> <<Acc("R", "doc.schema")>>
     [] op = "gen_newtype" -> <<Acc("L", "typeInfosMu"), Acc("R", "typeInfos"), Acc("W", "typeInfos"), Acc("U", "typeInfosMu")>>
     [] op = "gen_sametype" -> <<Acc("L", "typeInfosMu"), Acc("R", "typeInfos"), Acc("U", "typeInfosMu")>>

(* The verdict the documents of the catalogue prescribe for variant v (1..3) of each validating  *)
(* operation, whoever else uses the document at the same time: the default engine is case        *)
(* sensitive, a caller's own engine (case-insensitive in the catalogue) is used for that caller  *)
(* only.  "other": the operation reports no accept/reject verdict.                               *)
Verdicts(op) ==
   CASE op = "vreq_params" -> <<"ok", "reject", "ok">>
     [] op = "vreq_params_delete" -> <<"ok", "reject", "ok">>
     [] op = "vreq_body_pattern" -> <<"ok", "reject", "reject">>                \* matching / foreign / upper-cased text
     [] op = "vreq_body_pattern_customregex" -> <<"ok", "reject", "ok">>        \* upper-cased / foreign / matching text
     [] op = "vreq_secure_body" -> <<"ok", "reject", "ok">>
     [] op = "vreq_multipart_addprops" -> <<"ok", "ok", "ok">>
     [] op = "vreq_json_addprops" -> <<"ok", "reject", "ok">>
     [] op = "vreq_form_sharedopts" -> <<"ok", "ok", "ok">>               \* (every variant carries "kind": no default has to be written into a urlencoded body)
     [] op = "vreq_json_defaults_sharedopts" -> <<"ok", "reject", "ok">>
     [] op = "vreq_body_unique" -> <<"reject", "ok", "reject">>
     [] op = "vreq_body_defaults" -> <<"ok", "ok", "ok">>
     [] op = "vresp" -> <<"ok", "reject", "ok">>
     [] op = "visitjson" -> <<"ok", "reject", "ok">>
     [] OTHER -> <<"other", "other", "other">>

VARIABLES prog,   \* prog[g] = the accesses goroutine g still has to make
          held    \* held[g] = set of mutexes goroutine g holds
vars == <<prog, held>>

Gs == 1..MaxOps

Init == /\ prog \in [Gs -> {Accesses(op) : op \in Ops}]
        /\ held = [g \in Gs |-> {}]

Step(g) ==
   /\ prog[g] # <<>>
   /\ LET a == Head(prog[g]) IN
      /\ (a[1] = "L" => \A h \in Gs : a[2] \notin held[h])          \* a mutex is taken by one goroutine at a time
      /\ held' = [held EXCEPT ![g] = CASE a[1] = "L" -> @ \cup {a[2]} [] a[1] = "U" -> @ \ {a[2]} [] OTHER -> @]
      /\ prog' = [prog EXCEPT ![g] = Tail(@)]
Next == \E g \in Gs : Step(g)
Spec == Init /\ [][Next]_vars

Conflict(a, b) == a[1] \in {"R", "W"} /\ b[1] \in {"R", "W"} /\ a[2] = b[2] /\ (a[1] = "W" \/ b[1] = "W")

RaceState == \E g, h \in Gs : g # h /\ prog[g] # <<>> /\ prog[h] # <<>>
                /\ Conflict(Head(prog[g]), Head(prog[h])) /\ held[g] \cap held[h] = {}
NoRace == ~RaceState
NoDeadlock == (\A g \in Gs : prog[g] = <<>>) \/ ENABLED Next
=============================================================================
