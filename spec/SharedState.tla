----------------------------- MODULE SharedState -----------------------------
(***************************************************************************)
(* C15: a loaded document and its routers shared by concurrent validation  *)
(* calls.                                                                  *)
(*                                                                         *)
(* ELEMENTS.  Every piece of mutable state that outlives one call is a     *)
(* *location* of this module (Locations below): the process-wide tables    *)
(* and caches of openapi3 / openapi3filter / openapi3gen, the loaded       *)
(* document, the routers' internals, and the objects a caller shares on    *)
(* purpose (one Options value, one middleware).  State that lives for one  *)
(* call only (the settings object of a visit, the decoded body, the        *)
(* RouteMatch) is request-local and is left out -- unless a *design*       *)
(* (constants below) makes it shared.                                      *)
(*                                                                         *)
(* OPERATIONS.  An operation of the catalogue is a pair <<entry, feature>>:*)
(* the API entry point a goroutine calls, and the schema feature / media   *)
(* type / router shape the call meets in the shared document.  Its access  *)
(* sequence is composed: accesses of the entry, then those of the feature. *)
(*    <<"R", loc>>  plain read      <<"W", loc>>  plain write              *)
(*    <<"A", loc>>  atomic / sync.Map access                               *)
(*    <<"L", m>>  lock mutex m      <<"U", m>>  unlock                     *)
(* Goroutines interleave at access granularity.  A race state is one in    *)
(* which two goroutines' next accesses touch the same location, at least   *)
(* one is a plain write, neither is atomic, and they hold no common mutex. *)
(*                                                                         *)
(* DESIGNS.  Each constant names one mechanism the code relies on; TRUE is *)
(* the code as built.  MC_C15 checks NoRace for the code as built and pins *)
(* a counterexample for every design that drops one mechanism.             *)
(***************************************************************************)
EXTENDS Naturals, Sequences, FiniteSets, TLC

CONSTANTS DefaultCopied,      \* schema defaults are deep-copied before they are installed in a body
          RouteCopied,        \* gorillamux FindRoute returns a copy of the route it built at construction
          SettingsPerCall,    \* every visit allocates its own settings object (also when it is given no option)
          VisitReadsSettings, \* a visit only reads its settings (FALSE: 'not' / 'anyOf' toggle a flag in them around the nested visit)
          RegistryInitOnly,   \* the body decoder registry is written at init time only (FALSE: a decode registers on a miss)
          TypeInfosLocked,    \* openapi3gen's type-info cache is accessed under its RWMutex
          PatternCacheAtomic, \* the compiled-pattern cache is a sync.Map
          UriCacheLocked,     \* the URI cache of DefaultReadFromURI is accessed under uriMu
          UniqueCheckerReadOnly, \* array validation only reads the uniqueness checker: a nil registration is resolved to the default
                              \* where it is registered (fix 6e03b47; FALSE = the code before it: found nil, re-initialised inside the visit)
          RouterStateless,    \* FindRoute reads the router's tables only (FALSE: it remembers, atomically, which candidate matched last --
                              \* no data race; what that does to the ANSWERS is RouteOrder.tla's business)
          WithWriters,        \* the documented writers (doc.Validate, router construction, Register* / Define*) join the catalogue
          MaxOps              \* number of concurrent operations explored

Acc(k, x) == <<k, x>>

(* ------------------------------------------------------------------ elements *)
Locations ==
   [ patternCache     |-> "openapi3.compiledPatterns: sync.Map, Load / CompareAndSwap by every string visit with a pattern",
     uniqueChecker    |-> "openapi3.sliceUniqueItemsChecker: package variable, read by every array visit; written by RegisterArrayUniqueItemsChecker only",
     formats_string   |-> "openapi3.SchemaStringFormats: plain map, read by string visits with a format; written by DefineStringFormat*",
     formats_number   |-> "openapi3.SchemaNumberFormats: plain map, read by number visits with a format",
     formats_integer  |-> "openapi3.SchemaIntegerFormats: plain map, read by integer visits with a format",
     errDetails       |-> "openapi3.SchemaErrorDetailsDisabled: package bool read by SchemaError.Error()",
     settings_default |-> "the settings object of a visit; shared only in the design ~SettingsPerCall",
     bodyDecoders     |-> "openapi3filter.bodyDecoders: plain map, read by every body decode; Register/UnregisterBodyDecoder are init-time",
     bodyEncoders     |-> "openapi3filter.bodyEncoders: map under bodyEncodersM (RWMutex), read when a completed body is written back",
     jsonPrefixes     |-> "openapi3filter.JSONPrefixes: slice read by response validation",
     typeInfos        |-> "openapi3gen.typeInfos: map under typeInfosMutex",
     uriCache         |-> "openapi3.DefaultReadFromURI: URIMapCache map under uriMu",
     doc              |-> "the loaded document: paths, path items, parameter lists, operations, schemas, defaults, security, servers",
     mux              |-> "gorillamux.Router: muxes, routes (prototypes copied per FindRoute); no per-request state (RouteOrder.tla)",
     legacy           |-> "legacy.Router: pathpattern tree (and the *Route values stored in it, returned as they are)",
     callerOptions    |-> "one openapi3filter.Options value used for many requests",
     middleware       |-> "one openapi3filter.Validator serving many requests" ]

(* what a test can see of the shared state without hooks: these must be the same before and after any run of catalogue operations *)
DocLocs == {"doc.schema", "doc.schema.default", "doc.schema.properties", "doc.paths", "doc.pathitem.parameters",
            "doc.operation.parameters", "doc.operation", "doc.security", "doc.securitySchemes", "doc.servers"}
Observable == DocLocs \cup {"bodyDecoders", "bodyEncoders", "formats_string", "formats_number", "formats_integer", "errDetails"}

(* ------------------------------------------------------------------ the product catalogue: entry x schema feature *)
Entries == {"visit", "visit_typed", "visit_opts", "param_query", "param_header", "param_multi",
            "req_body", "resp_body", "resp_header", "middleware",
            "param_query_legacy", "req_body_legacy"}      \* the same calls with the route the legacy router returns (its stored *Route, not a copy)
(* entries that hand the visit no SchemaValidationOption at all *)
OptionLess == {"visit", "visit_typed", "param_query", "param_header", "resp_header", "param_query_legacy"}
Features == {"not", "anyof", "oneof", "allof", "pattern", "format_date", "format_custom", "format_int32", "number",
             "enum", "minmax", "unique", "object", "discriminator"}
(* object-valued features cannot be a styled query / header value of the catalogue's shapes; the parameter / header *)
(* decoders do not implement 'not' (they answer "not implemented: decoding 'not'": a stated limit, outside C15)     *)
Usable(e, f) == f \in {"object", "discriminator", "not"} => e \in {"visit", "visit_typed", "visit_opts", "req_body", "resp_body", "middleware", "req_body_legacy"}
(* the typed visitors (VisitJSONString, ...Number, ...Array, ...Object) check the keywords of that type only: the  *)
(* features below are not looked at by them                                                                        *)
NotTyped == {"not", "anyof", "oneof", "allof", "enum", "discriminator"}
ProductOps == {<<e, f>> \in Entries \X Features : Usable(e, f)}

(* ------------------------------------------------------------------ media types of bodies: declared content key x media type sent *)
MtEntries == {"mt_req", "mt_resp"}
JsonLike == {"json", "problem", "vendor_new", "vendor_reg", "yaml"}
MtPairs == ({"exact", "appstar", "any"} \X JsonLike) \cup ({"exact"} \X {"plain", "octet"})
MtName(p) == p[1] \o "." \o p[2]
MtFeatures == {MtName(p) : p \in MtPairs}
MtSent(f) == (CHOOSE p \in MtPairs : MtName(p) = f)[2]
(* the registry when validations start: the library's built-in types and what the process registered at init time *)
RegisteredAtStart == {"json", "problem", "vendor_reg", "yaml", "plain", "octet"}
MtOps == MtEntries \X MtFeatures

(* ------------------------------------------------------------------ routers over overlapping routes: entry x route shape *)
(* A second document (RouteOrder!Paths, RouteOrder!Servers) in which one request is matched by several (path, server)  *)
(* pairs; the three variants of a shape are: a request for the higher-priority candidate, one that only the lower one   *)
(* matches, the first again -- so the callers of one operation already mix the traffic.                                 *)
RouteEntries == {"route_mux", "route_legacy", "vreq_route_mux", "vreq_route_legacy", "middleware_route"}
RouteShapes == {"overlap_sibling", "overlap_deep", "overlap_servers"}
RouteOps == RouteEntries \X RouteShapes
RO == INSTANCE RouteOrder WITH Hinted <- FALSE, MaxCalls <- 0, hint <- <<>>, calls <- 0, last <- <<>>
(* the route the document prescribes for the three variants: gorillamux reports path and server, the legacy router's   *)
(* Route carries no server                                                                                              *)
(* Route carries no server, the middleware does not report the route it found (its status code does, below)             *)
Routes(op) == IF op[1] \in {"route_legacy", "vreq_route_legacy"} THEN RO!RoutePaths(op[2])
              ELSE IF op[1] = "middleware_route" THEN <<"-", "-", "-">> ELSE RO!Routes(op[2])

(* ------------------------------------------------------------------ the flat operations (rounds 1-5) and further entry points *)
FlatOps == {"find_mux", "find_legacy", "find_mux_servers", "find_legacy_servers",
            "vreq_params", "vreq_params_delete", "vreq_body_pattern", "vreq_body_pattern_first", "vreq_body_pattern_again", "vreq_body_unique",
            "vreq_body_defaults", "vresp", "visitjson", "gen_newtype", "gen_sametype", "gen_nested", "gen_customizer",
            "vreq_body_pattern_customregex", "vreq_secure_body",
            "vreq_multipart_addprops", "vreq_json_addprops", "vreq_form_sharedopts", "vreq_json_defaults_sharedopts",
            "load_cached", "doc_marshal"}
(* documented writers: never part of the validation-time catalogue; in the model to show WHY (WithWriters has a counterexample) *)
WriterOps == {"w_doc_validate", "w_new_legacy_router", "w_register_decoder", "w_define_format", "w_register_unique"}

Ops == ProductOps \cup MtOps \cup RouteOps \cup {<<o, "-">> : o \in FlatOps} \cup (IF WithWriters THEN {<<o, "-">> : o \in WriterOps} ELSE {})

(* ------------------------------------------------------------------ access sequences *)
Find == <<Acc("R", "mux")>> \o (IF RouterStateless THEN <<>> ELSE <<Acc("A", "mux.hint"), Acc("A", "mux.hint")>>) \o (IF RouteCopied THEN <<>> ELSE <<Acc("W", "mux.route"), Acc("R", "mux.route")>>)
FindLegacy == <<Acc("R", "legacy"), Acc("R", "doc.paths"), Acc("R", "legacy.route")>>      \* the caller reads the router's own Route value
SharedSettings(e) == e \in OptionLess /\ ~SettingsPerCall
SettingsRead(e) == IF SharedSettings(e) THEN <<Acc("R", "settings_default")>> ELSE <<>>
SettingsToggle(e) == IF SharedSettings(e) /\ ~VisitReadsSettings THEN <<Acc("W", "settings_default"), Acc("W", "settings_default")>>
                     ELSE <<>>          \* with per-call settings the toggle is a write to request-local memory
TypeInfos(write) ==
   LET body == <<Acc("R", "typeInfos")>> \o (IF write THEN <<Acc("W", "typeInfos")>> ELSE <<>>) IN
   IF TypeInfosLocked THEN <<Acc("L", "typeInfosMutex")>> \o body \o <<Acc("U", "typeInfosMutex")>> ELSE body
Pattern(first) ==
   IF PatternCacheAtomic THEN <<Acc("A", "patternCache")>> \o (IF first THEN <<Acc("A", "patternCache")>> ELSE <<>>)
   ELSE <<Acc("R", "patternCache")>> \o (IF first THEN <<Acc("W", "patternCache")>> ELSE <<>>)
Unique == <<Acc("R", "uniqueChecker")>> \o (IF UniqueCheckerReadOnly THEN <<>> ELSE <<Acc("W", "uniqueChecker")>>)
Decoders(miss) == <<Acc("R", "bodyDecoders")>> \o (IF miss /\ ~RegistryInitOnly THEN <<Acc("W", "bodyDecoders")>> ELSE <<>>)

EntryAcc(e) ==
   CASE e \in {"visit", "visit_typed", "visit_opts"} -> <<Acc("R", "doc.schema")>>
     [] e \in {"param_query", "param_header", "param_multi"} ->
          Find \o <<Acc("R", "doc.pathitem.parameters"), Acc("R", "doc.operation.parameters"), Acc("R", "doc.schema")>>
     [] e \in {"req_body", "mt_req"} -> Find \o <<Acc("R", "doc.operation"), Acc("R", "doc.schema")>>
     [] e = "param_query_legacy" ->
          FindLegacy \o <<Acc("R", "doc.pathitem.parameters"), Acc("R", "doc.operation.parameters"), Acc("R", "doc.schema")>>
     [] e = "req_body_legacy" -> FindLegacy \o <<Acc("R", "doc.operation"), Acc("R", "doc.schema")>>
     [] e \in {"resp_body", "mt_resp"} -> Find \o <<Acc("R", "doc.operation"), Acc("R", "jsonPrefixes"), Acc("R", "doc.schema")>>
     [] e = "resp_header" -> Find \o <<Acc("R", "doc.operation"), Acc("R", "doc.schema")>>
     [] e = "middleware" -> <<Acc("R", "middleware")>> \o Find \o <<Acc("R", "doc.operation"), Acc("R", "doc.schema"), Acc("R", "jsonPrefixes")>>

FeatureAcc(e, f) ==
   CASE e = "visit_typed" /\ f \in NotTyped -> <<>>
     [] f \in {"not", "anyof"} -> SettingsToggle(e)
     [] f = "pattern" -> Pattern(TRUE)
     [] f \in {"format_date", "format_custom"} -> <<Acc("R", "formats_string")>>
     [] f \in {"format_int32", "minmax"} -> <<Acc("R", "formats_integer")>>
     [] f = "number" -> <<Acc("R", "formats_number")>>
     [] f = "unique" -> Unique
     [] OTHER -> <<>>

FlatAcc(op) ==
   CASE op = "find_mux" -> Find
     [] op = "find_mux_servers" -> Find \o <<Acc("R", "doc.servers")>>
     [] op = "find_legacy" -> <<Acc("R", "legacy"), Acc("R", "doc.paths")>>
     [] op = "find_legacy_servers" -> <<Acc("R", "doc.servers"), Acc("R", "legacy"), Acc("R", "doc.paths")>>
     [] op \in {"vreq_params", "vreq_params_delete"} ->      \* path-item parameters and the operation's own: two lists, both only read
          Find \o <<Acc("R", "doc.pathitem.parameters"), Acc("R", "doc.operation.parameters"), Acc("R", "doc.schema")>>
     [] op \in {"vreq_body_pattern", "vreq_body_pattern_first"} -> <<Acc("R", "doc.schema")>> \o Decoders(FALSE) \o Pattern(TRUE) \o Unique
     [] op = "vreq_body_pattern_customregex" ->      \* a caller-supplied regex compiler: its matchers must stay the caller's own
          <<Acc("R", "doc.schema")>> \o Decoders(FALSE) \o Pattern(FALSE)
     [] op = "vreq_body_pattern_again" -> <<Acc("R", "doc.schema")>> \o Decoders(FALSE) \o Pattern(FALSE)
     [] op = "vreq_secure_body" ->      \* security + body: the body is buffered around the authentication callback in request-local memory
          <<Acc("R", "doc.security"), Acc("R", "doc.securitySchemes"), Acc("R", "doc.schema")>> \o Decoders(FALSE)
     [] op \in {"vreq_multipart_addprops", "vreq_json_addprops"} ->      \* the decoders only READ the schema's property maps
          <<Acc("R", "doc.schema"), Acc("R", "doc.schema.properties")>> \o Decoders(FALSE)
     [] op = "vreq_form_sharedopts" ->     \* the caller's Options are configuration: read, never written
          <<Acc("R", "callerOptions"), Acc("R", "doc.schema")>> \o Decoders(FALSE)
     [] op = "vreq_json_defaults_sharedopts" ->     \* ... and a body completed with defaults is written back through the encoder registry
          <<Acc("R", "callerOptions"), Acc("R", "doc.schema")>> \o Decoders(FALSE)
          \o <<Acc("L", "bodyEncodersM"), Acc("R", "bodyEncoders"), Acc("U", "bodyEncodersM")>>
     [] op = "vreq_body_unique" -> <<Acc("R", "doc.schema")>> \o Decoders(FALSE) \o Unique
     [] op = "vreq_body_defaults" ->
          <<Acc("R", "doc.schema"), Acc("R", "doc.schema.default")>> \o Decoders(FALSE)
          \o (IF DefaultCopied THEN <<>> ELSE <<Acc("W", "doc.schema.default")>>)      \* nested default written into the shared default
          \o <<Acc("L", "bodyEncodersM"), Acc("R", "bodyEncoders"), Acc("U", "bodyEncodersM")>>
     [] op = "vresp" -> <<Acc("R", "doc.schema"), Acc("R", "jsonPrefixes")>> \o Decoders(FALSE)
     [] op = "visitjson" -> <<Acc("R", "doc.schema")>> \o Pattern(FALSE) \o Unique
     [] op \in {"gen_newtype", "gen_nested"} -> TypeInfos(TRUE)
     [] op \in {"gen_sametype", "gen_customizer"} -> TypeInfos(FALSE)
     [] op = "load_cached" ->        \* a Loader with the default reader: the process-wide URI cache, then a document of its own
          IF UriCacheLocked
          THEN <<Acc("L", "uriMu"), Acc("R", "uriCache"), Acc("U", "uriMu"), Acc("L", "uriMu"), Acc("W", "uriCache"), Acc("U", "uriMu")>>
          ELSE <<Acc("R", "uriCache"), Acc("W", "uriCache")>>
     [] op = "doc_marshal" ->       \* the document served (as JSON) while it is used for validation: a reader of all of it
          <<Acc("R", "doc.paths"), Acc("R", "doc.pathitem.parameters"), Acc("R", "doc.operation.parameters"), Acc("R", "doc.operation"),
            Acc("R", "doc.schema"), Acc("R", "doc.schema.properties"), Acc("R", "doc.schema.default"), Acc("R", "doc.security"), Acc("R", "doc.securitySchemes")>>
     (* documented writers *)
     [] op = "w_doc_validate" -> <<Acc("R", "doc.schema"), Acc("W", "doc.paths"), Acc("R", "formats_string")>>        \* fills nil path items
     [] op = "w_new_legacy_router" -> <<Acc("W", "doc.paths"), Acc("W", "legacy")>>                                    \* validates, builds the tree
     [] op = "w_register_decoder" -> <<Acc("W", "bodyDecoders")>>
     [] op = "w_define_format" -> <<Acc("W", "formats_string")>>
     [] op = "w_register_unique" -> <<Acc("W", "uniqueChecker")>>

Accesses(op) ==
   LET e == op[1]  f == op[2] IN
   IF f = "-" THEN FlatAcc(e)
   ELSE IF e \in RouteEntries THEN
        (IF e \in {"route_legacy", "vreq_route_legacy"} THEN <<Acc("R", "doc.servers")>> \o FindLegacy ELSE Find \o <<Acc("R", "doc.servers")>>)
        \o (IF e \in {"route_mux", "route_legacy"} THEN <<>>
            ELSE <<Acc("R", "doc.pathitem.parameters"), Acc("R", "doc.operation.parameters"), Acc("R", "doc.schema")>>)
        \o (IF e = "middleware_route" THEN <<Acc("R", "middleware")>> ELSE <<>>)
   ELSE IF e \in MtEntries THEN EntryAcc(e) \o Decoders(MtSent(f) \notin RegisteredAtStart)
   ELSE SettingsRead(e) \o EntryAcc(e) \o (IF e \in {"req_body", "resp_body", "middleware", "req_body_legacy"} THEN Decoders(FALSE) ELSE <<>>) \o FeatureAcc(e, f)

(* the locations an operation writes (plain or atomically) *)
Writes(op) == {Accesses(op)[i][2] : i \in {j \in DOMAIN Accesses(op) : Accesses(op)[j][1] \in {"W", "A"}}}
(* FRAME: as built, no operation of the validation-time catalogue writes an observable location *)
FrameHolds == \A op \in Ops : Writes(op) \cap Observable = {}

(* ------------------------------------------------------------------ race sites *)
(* The race detector names the two library functions whose accesses conflicted; this is the location each of them  *)
(* is known to touch ("unmodelled": a function the model has no shared access for -- the code and the model differ) *)
SiteLocation(fn) ==
   CASE fn = "openapi3.(*Schema).visitJSONArray" -> "uniqueChecker"
     [] fn \in {"openapi3.(*Schema).visitJSONString", "openapi3.(*Schema).compilePattern"} -> "patternCache / formats_string"
     [] fn \in {"openapi3.(*Schema).visitJSONNumber"} -> "formats_number / formats_integer"
     [] fn \in {"openapi3.(*Schema).visitJSONObject"} -> "doc.schema.default / doc.schema.properties"
     [] fn \in {"openapi3.(*Schema).visitNotOperation", "openapi3.(*Schema).visitXOFOperations", "openapi3.(*Schema).visitJSON",
                "openapi3.(*Schema).matchesJSON", "openapi3.newSchemaValidationSettings"} -> "settings_default"
     [] fn \in {"openapi3filter.decodeBody", "openapi3filter.RegisterBodyDecoder", "openapi3filter.RegisteredBodyDecoder",
                "openapi3filter.UnregisterBodyDecoder"} -> "bodyDecoders"
     [] fn \in {"openapi3filter.encodeBody", "openapi3filter.RegisteredBodyEncoder", "openapi3filter.RegisterBodyEncoder"} -> "bodyEncoders"
     [] fn \in {"openapi3gen.getTypeInfo"} -> "typeInfos"
     [] fn \in {"routers/gorillamux.(*Router).FindRoute"} -> "mux.route"
     [] fn \in {"routers/legacy.(*Router).FindRoute", "routers/legacy/pathpattern.(*Node).Match", "routers/legacy/pathpattern.(*Node).MatchNode"} -> "legacy"
     [] fn \in {"openapi3filter.ValidateRequest", "openapi3filter.ValidateParameter"} -> "doc.pathitem.parameters / doc.operation.parameters"
     [] fn \in {"openapi3filter.ValidateRequestBody", "openapi3filter.ValidateResponse"} -> "callerOptions / doc.operation"
     [] fn \in {"openapi3filter.validateSecurityRequirement", "openapi3filter.ValidateSecurityRequirements"} -> "doc.security"
     [] fn \in {"openapi3.URIMapCache.func1"} -> "uriCache"
     [] OTHER -> "unmodelled"

(* ------------------------------------------------------------------ verdicts *)
(* The verdict the documents of the catalogue prescribe for variant v (1..3) of each operation,  *)
(* whoever else uses the document at the same time.  Product operations: every feature comes     *)
(* with a conforming, a violating and another conforming value.  Media types: a body is decoded  *)
(* iff its media type is in the registry AS IT WAS WHEN VALIDATIONS STARTED (validation never     *)
(* registers anything).  The default regex engine is case sensitive, a caller's own engine       *)
(* (case-insensitive in the catalogue) is used for that caller only.  "other": no verdict.       *)
FlatVerdicts(op) ==
   CASE op = "vreq_params" -> <<"ok", "reject", "ok">>
     [] op = "vreq_params_delete" -> <<"ok", "reject", "ok">>
     [] op = "vreq_body_pattern" -> <<"ok", "reject", "reject">>                \* matching / foreign / upper-cased text
     [] op = "vreq_body_pattern_customregex" -> <<"ok", "reject", "ok">>        \* upper-cased / foreign / matching text
     [] op = "vreq_secure_body" -> <<"ok", "reject", "ok">>
     [] op = "vreq_multipart_addprops" -> <<"ok", "ok", "ok">>
     [] op = "vreq_json_addprops" -> <<"ok", "reject", "ok">>
     [] op = "vreq_form_sharedopts" -> <<"ok", "ok", "ok">>               \* (every variant carries "kind": no default has to be written into a urlencoded body)
     [] op = "vreq_json_defaults_sharedopts" -> <<"ok", "reject", "ok">>
     [] op = "vreq_body_unique" -> <<"reject", "ok", "reject">>
     [] op = "vreq_body_defaults" -> <<"ok", "ok", "ok">>
     [] op = "vresp" -> <<"ok", "reject", "ok">>
     [] op = "visitjson" -> <<"ok", "reject", "ok">>
     [] op = "load_cached" -> <<"ok", "ok", "ok">>
     [] OTHER -> <<"other", "other", "other">>

Verdicts(op) ==
   LET e == op[1]  f == op[2] IN
   IF f = "-" THEN FlatVerdicts(e)
   ELSE IF e \in RouteEntries THEN       \* path variables are integers: "mine", "c" fit no variable, "d" (second variant of overlap_deep) is one
        (IF e \in {"route_mux", "route_legacy"} THEN <<"other", "other", "other">>
         ELSE IF f = "overlap_deep" THEN <<"ok", "reject", "ok">> ELSE <<"ok", "ok", "ok">>)
   ELSE IF e \in MtEntries THEN (IF MtSent(f) \in RegisteredAtStart THEN <<"ok", "reject", "ok">> ELSE <<"reject", "reject", "reject">>)
   ELSE IF e = "visit_typed" /\ f \in NotTyped THEN <<"ok", "ok", "ok">>
   ELSE <<"ok", "reject", "ok">>

(* ------------------------------------------------------------------ interleavings *)
VARIABLES prog,   \* prog[g] = the accesses goroutine g still has to make
          held    \* held[g] = set of mutexes goroutine g holds
vars == <<prog, held>>

Gs == 1..MaxOps

(* many operations have the same access sequence: the interleavings are explored once per distinct sequence *)
Programs == {Accesses(op) : op \in Ops}
Init == /\ prog \in [Gs -> Programs]
        /\ held = [g \in Gs |-> {}]

Step(g) ==
   /\ prog[g] # <<>>
   /\ LET a == Head(prog[g]) IN
      /\ (a[1] = "L" => \A h \in Gs : a[2] \notin held[h])          \* a mutex is taken by one goroutine at a time
      /\ held' = [held EXCEPT ![g] = CASE a[1] = "L" -> @ \cup {a[2]} [] a[1] = "U" -> @ \ {a[2]} [] OTHER -> @]
      /\ prog' = [prog EXCEPT ![g] = Tail(@)]
Next == \E g \in Gs : Step(g)
Spec == Init /\ [][Next]_vars

Conflict(a, b) == a[1] \in {"R", "W"} /\ b[1] \in {"R", "W"} /\ a[2] = b[2] /\ (a[1] = "W" \/ b[1] = "W")

RaceState == \E g, h \in Gs : g # h /\ prog[g] # <<>> /\ prog[h] # <<>>
                /\ Conflict(Head(prog[g]), Head(prog[h])) /\ held[g] \cap held[h] = {}
NoRace == ~RaceState
NoDeadlock == (\A g \in Gs : prog[g] = <<>>) \/ ENABLED Next
=============================================================================
