SPECIFICATION Spec
CONSTANTS Policy = "always"
 MaxSteps = 3
INVARIANT HistoryIndependent
CHECK_DEADLOCK FALSE
