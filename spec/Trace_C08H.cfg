SPECIFICATION TSpec
CONSTANTS Design = "copy"
 MaxResp = 1
 MaxSteps = 0
 KindsUsed <- OneKind
INVARIANTS Judge
POSTCONDITION AllConsumed
CHECK_DEADLOCK FALSE
