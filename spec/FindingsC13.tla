----------------------------- MODULE FindingsC13 -----------------------------
(* Classes of the findings of C13: minimal syntactic trigger /\ the specific wrong observation.                  *)
EXTENDS Sequences, FiniteSets

(* A body default is applicable, default-setting is on, and the body is sent in a media type that has a decoder   *)
(* but no encoder: the library decodes it and installs the default in the decoded value, but cannot write it back. *)
(*  F-C13-5 (open) form_body_defaults_not_forwarded: urlencoded and multipart forms (since 403f95a): the request   *)
(*     is accepted, stays readable as received, validates again -- but the forwarded body does not carry the      *)
(*     defaults, which is the ONLY clause that fails.                                                             *)
(*  F-C13-4 (fixed, d801280) rewrite_no_encoder_json_yaml: the JSON family and YAML were rejected ("rewriting      *)
(*     failed"), and the failed re-encoding emptied the library-installed GetBody (the encoder's result went to    *)
(*     the variable its closure captured), so that a later validation left an empty body.                          *)
PinnedConsequences == {"valid_request_accepted", "defaults_exactly_once", "getbody_yields_same", "second_validation_changes_nothing"}
NotJson(line) == line.c.kind = "body" /\ "mt" \in DOMAIN line.c /\ line.c.mt # "application/json" /\ ~line.c.skip
Class(line, bad) ==
   IF /\ NotJson(line) /\ line.c.mt \in {"application/x-www-form-urlencoded", "multipart/form-data"}
      /\ bad = {"defaults_exactly_once"} /\ line.verdict1 = "ok" /\ line.verdict2 = "ok" /\ line.after1 = line.sent /\ line.after2 = line.sent
   THEN "form_body_defaults_not_forwarded"
   ELSE IF /\ NotJson(line) /\ line.c.mt \notin {"application/x-www-form-urlencoded", "multipart/form-data"}
           /\ "valid_request_accepted" \in bad /\ bad \subseteq PinnedConsequences
           /\ "parts1" \in DOMAIN line /\ line.parts1 = <<"body">> /\ line.after1 = line.sent
   THEN "rewrite_no_encoder_json_yaml"
   ELSE "none"
=============================================================================
