----------------------------- MODULE FindingsC13 -----------------------------
(* Classes of the open findings of C13: minimal syntactic trigger /\ the specific wrong observation.             *)
EXTENDS Sequences, FiniteSets

(* F-C13-4 / F-C13-5: a body default is applicable, default-setting is on, and the body is sent in a media type   *)
(* other than application/json: the library decodes it, installs the default in the decoded value and then finds  *)
(* no encoder to write it back ("rewriting failed"): a valid request is rejected with a body error, the body       *)
(* readable afterwards is still the one received; the library-installed GetBody yields nothing from then on (the   *)
(* failed encodeBody clobbered the variable its closure captured), so that a later validation leaves an empty body *)
Consequences == {"valid_request_accepted", "defaults_exactly_once", "getbody_yields_same", "second_validation_changes_nothing"}
Class(line, bad) ==
   IF /\ line.c.kind = "body" /\ "mt" \in DOMAIN line.c /\ line.c.mt # "application/json" /\ ~line.c.skip
      /\ "valid_request_accepted" \in bad /\ bad \subseteq Consequences
      /\ "parts1" \in DOMAIN line /\ line.parts1 = <<"body">> /\ line.after1 = line.sent
   THEN IF line.c.mt \in {"application/x-www-form-urlencoded", "multipart/form-data"}
        THEN "rewrite_no_encoder_form" ELSE "rewrite_no_encoder_json_yaml"
   ELSE "none"
=============================================================================
