SPECIFICATION Spec
CONSTANTS K = 2
          PairLevel = 1
          TripleLevel = 0
          FieldK = 1
          M = 600
          Seed = 1
INVARIANTS Emit
CHECK_DEADLOCK FALSE
