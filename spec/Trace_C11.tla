------------------------------ MODULE Trace_C11 ------------------------------
(* Trace validation for C11: the locations the loader asked its reader for.               *)
(*   external refs disallowed: nothing but the root document is ever read, and a site     *)
(*     whose target lies in another location is left unresolved (or loading fails);       *)
(*   allowed: every location read is obtained by resolving a reference found in an        *)
(*     already-loaded document against that document's own location (Layout!AllowedReads).*)
EXTENDS Layout, Json, CSV

Trace == ndJsonDeserialize("trace.ndjson")
VARIABLE l
Init == l = 0
Next == l < Len(Trace) /\ l' = l + 1
Spec == Init /\ [][Next]_l

(* the name under which the reader is asked for file f: the universe's files live at               *)
(* https://root.example/ when the root was loaded from there                                       *)
ReadName(entry, f) == IF entry = "uri_remote" /\ ~IsRemote(f) THEN "https://root.example/" \o JoinSlash(f) ELSE JoinSlash(f)
AllRefs(u) == {u.use.ref}
              \cup UNION {IF IsConcrete(u.slots[i].c) THEN {u.slots[i].c.ch[j].ref : j \in DOMAIN u.slots[i].c.ch}
                          ELSE {u.slots[i].c.ref} : i \in DOMAIN u.slots}
KnownIds(u) == {"root"} \cup {u.slots[i].c.id : i \in {i \in DOMAIN u.slots : IsConcrete(u.slots[i].c)}}

Followed(u, s) ==     \* a site that points into another location and was nevertheless resolved
   LET rs == {r \in AllRefs(u) : RefText(r) = s.ref} IN
   rs # {} /\ s.owner \in KnownIds(u) /\ s.got # "nil"
   /\ LET r == CHOOSE x \in rs : TRUE IN TargetFile(FileOfId(u, s.owner), r) # FileOfId(u, s.owner)

(* no host named h.example is served by anything in the run: a reference into it can be left      *)
(* unresolved or fail the load, but it can never come back with an object (least of all one read  *)
(* from the local file whose path the URL happens to carry)                                       *)
RemoteSatisfied(u, s) ==
   LET rs == {r \in AllRefs(u) : RefText(r) = s.ref} IN
   rs # {} /\ s.owner \in KnownIds(u) /\ s.got # "nil"
   /\ LET r == CHOOSE x \in rs : TRUE IN IsUnserved(TargetFile(FileOfId(u, s.owner), r))

(* what the loader delivers comes from the locations it was entitled to read: a site resolved to an object that was written in a file    *)
(* outside the read closure shows that some OTHER file was read under the name of an allowed location (the reader's own business:       *)
(* ReadFromFile, which the instrumented reader delegates to, and the default reader)                                                    *)
SlotIds(u) == {u.slots[i].c.id : i \in {i \in DOMAIN u.slots : IsConcrete(u.slots[i].c)}}
ForeignContent(u, s) == s.got \in SlotIds(u) /\ FileOfId(u, s.got) \notin AllowedReads(u)

Failed(line) ==
   LET u == line.c.u
       reads == {line.reads[i] : i \in DOMAIN line.reads}
       RootText == ReadName(line.c.entry, Root)
       allowed == {ReadName(line.c.entry, f) : f \in AllowedReads(u)} IN
   (IF line.load \in {"panic", "crash", "hang"} THEN {"no_panic"} ELSE {})
   \cup (IF ~line.c.allow /\ ~(reads \subseteq {RootText}) THEN {"reads_only_root_when_disallowed"} ELSE {})
   \cup (IF line.c.allow /\ ~(reads \subseteq allowed) THEN {"reads_only_ref_derived_locations"} ELSE {})
   \cup (IF ~line.c.allow /\ line.load = "ok" /\ \E i \in DOMAIN line.sites : Followed(u, line.sites[i])
         THEN {"external_ref_never_followed_when_disallowed"} ELSE {})
   \cup (IF line.load = "ok" /\ \E i \in DOMAIN line.sites : ForeignContent(u, line.sites[i])
         THEN {"content_only_from_ref_derived_locations"} ELSE {})
   \cup (IF line.load = "ok" /\ \E i \in DOMAIN line.sites : RemoteSatisfied(u, line.sites[i])
         THEN {"location_on_an_unserved_host_never_satisfied"} ELSE {})

LineOK(line) ==
   LET bad == Failed(line) IN
   bad = {} \/ CSVWrite("%1$s", <<ToJson([case |-> line.case, c |-> line.c, failed |-> bad, load |-> line.load,
                                           reads |-> line.reads, class |-> "none"])>>, "violations.ndjson")
Judge == l > 0 => LineOK(Trace[l])
AllConsumed == TLCGet("stats").diameter = Len(Trace) + 1
=============================================================================
