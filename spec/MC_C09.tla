------------------------------- MODULE MC_C09 -------------------------------
(* Design-level check for C09 (role D), on every document of the generator's universe    *)
(* and every request derived from it (invariant DesignOK):                               *)
(*   ContractSatisfiable : the contract never demands the impossible (some observation   *)
(*                         satisfies every clause);                                      *)
(*   RepairedRefines     : the implementation-shaped models of both routers, with the    *)
(*                         repairs switched on, satisfy the contract (L2 => L1; the      *)
(*                         legacy model has no repaired form for path-level servers,     *)
(*                         which that router does not implement);                        *)
(*   PinnedClassified    : the models of the pinned code deviate from the contract only  *)
(*                         in the listed finding classes (FindingsC09);                  *)
(*   PinnedRefines       : expected to FAIL -- the pinned models do deviate (guards the  *)
(*                         models against drifting away from the code's known defects).  *)
(* The same run emits the cases (Gen_C09!Emit).                                          *)
EXTENDS Gen_C09, FindingsC09

(* (LET d == TheDoc: TLC evaluates a LET-bound value once per state, a plain definition  *)
(* at every use; DesignOK evaluates the three checks in one pass over the requests and    *)
(* prints the request and the names of the failed checks before it fails)                 *)
Classified(d, r, router, o) == LET f == FailedFor(router, d, r, o) IN f = {} \/ Class(d, r, router, o, f) # "none"

DFailed(d, r) ==
   (IF Satisfiable(d, r) THEN {} ELSE {"ContractSatisfiable"})
   \cup (IF /\ Failed(d, r, MuxObs(d, r, TRUE, TRUE)) = {}
            /\ HasOverride(d) \/ FailedFor("l", d, r, LegacyObs(d, r, TRUE, TRUE, TRUE, TRUE)) = {}
         THEN {} ELSE {"RepairedRefines"})
   \cup (IF /\ CurMuxBuilds(d) => Classified(d, r, "g", CurMuxObs(d, r))     \* (a router that is not built observes nothing)
            /\ Classified(d, r, "l", CurLegacyObs(d, r))
         THEN {} ELSE {"PinnedClassified"})

(* (the "root" universe -- the template "/" -- is run against the code and judged by the contract; the        *)
(* implementation-shaped models do not model the routers' handling of an empty template segment yet)      *)
(* construction: the design that keeps host and path variable names apart builds a router for every document; *)
(* the pinned one fails to exactly where the finding class says                                                *)
DBuildFailed(d) ==
   (IF MuxBuilds(d, TRUE, TRUE) THEN {} ELSE {"RepairedBuilds"})
   \cup (IF CurMuxBuilds(d) \/ BuildClass(d, "g", "error") # "none" THEN {} ELSE {"PinnedBuildClassified"})
   \cup (IF CurMuxBuilds(d) \/ SharedNames(d) # {} THEN {} ELSE {"PinnedBuildsWithoutSharedNames"})

DesignOK ==
   (DesignScope /\ kind # "root") => LET d == TheDoc IN
               /\ LET f == DBuildFailed(d) IN f = {} \/ (PrintT(<<"design check failed", f, d>>) /\ FALSE)
               /\ \A r \in Requests(d) :
                  LET f == DFailed(d, r) IN
                  f = {} \/ (PrintT(<<"design check failed", f, r, d>>) /\ FALSE)

PinnedRefines ==
   Complete => LET d == TheDoc IN
               \A r \in Requests(d) : /\ Failed(d, r, CurMuxObs(d, r)) = {}
                                      /\ FailedFor("l", d, r, CurLegacyObs(d, r)) = {}
=============================================================================
