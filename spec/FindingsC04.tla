----------------------------- MODULE FindingsC04 -----------------------------
(***************************************************************************)
(* Finding classes for C04 (see known_findings.json): narrow predicates    *)
(* over the recorded document, its violations (DocRules!Viol), the option  *)
(* set and the verdict.  "none" = not a listed finding.                    *)
(* Two shapes of wrong verdict:                                            *)
(*   missed    Validate = nil although some violation is in force; the     *)
(*             class must explain every violation in force                 *)
(*   refused   Validate # nil although no violation is in force            *)
(***************************************************************************)
EXTENDS DocRules

HasEdge(via, kind, f) == \E i \in DOMAIN via : via[i] = <<kind, f>>
LastEdge(via) == IF via = <<>> THEN <<"", "">> ELSE via[Len(via)]

(* F-C04-1  Operation.Validate never descends into operation.callbacks *)
UnderOperationCallbacks(v) == HasEdge(v.via, "operation", "callbacks")
(* F-C04-2  PathItem.Validate / Operation.Validate never validate their servers *)
UnderNestedServers(v) == HasEdge(v.via, "pathItem", "servers") \/ HasEdge(v.via, "operation", "servers")
(* F-C04-3  Encoding.Validate swallows the errors of its headers (returns nil instead of the error); an existing    *)
(*          test (TestEncodingJSON: headers {"someHeader": {}} must validate) pins that, so only the other half -- *)
(*          MediaType.Validate never validated its encoding map at all -- could be repaired (0ddffc2)              *)
UnderEncoding(v) == HasEdge(v.via, "encoding", "headers")
(* F-C04-4  Header.Validate checks neither extra fields nor example / examples *)
HeaderUnchecked(v) ==
   \/ v.kind = "header" /\ v.rule \in {"extra_field", "example_and_examples", "example_mismatch", "examples_mismatch"}
   \/ LastEdge(v.via) = <<"header", "examples">>
(* F-C04-5  Schema.validate never validates discriminator / xml objects *)
DiscriminatorXml(v) == v.kind \in {"discriminator", "xml"} /\ v.rule = "extra_field"
(* F-C04-6  Schema.validate descends into sub-schemas through .Value, bypassing SchemaRef.Validate: siblings of a *)
(*          nested $ref are never looked at                                                                       *)
NestedRefSibling(v) == v.kind = "schema" /\ v.rule \in {"ref_sibling", "ref_ext_sibling"} /\ LastEdge(v.via)[1] = "schema"
(* F-C04-7  Paths.Validate records normalizedPaths[path] instead of [normalizedPath]: the conflict test is dead *)
TemplateConflict(v) == v.rule = "template_conflict"
(* F-C04-8  Paths.Validate compares declared path parameters with the template only when their numbers differ *)
SameCountOtherNames(doc, v) ==
   /\ v.rule = "template_mismatch"
   /\ LET paths == Get(doc, "paths") IN
      \A k \in PathKeys(paths) : \A m \in OpsOf(Get(paths, k)) :
         LET names == PathParamNames(doc, Get(paths, k)) \cup PathParamNames(doc, Get(Get(paths, k), m)) IN
         names # TemplVars(CharsOf(k)) => Cardinality(names) = Cardinality(TemplVars(CharsOf(k)))
(* F-C04-9  Parameter.Validate returns early under DisableExamplesValidation, before validateExtensions *)
ParamExtensionMasked(doc, v, opts) ==
   /\ v.rule = "extra_field" /\ v.kind = "parameter" /\ "DisEx" \in opts
   /\ Has(AtPtr(doc, v.at), "schema")

(*----- the request / response mode in which an example is judged (findings 13 and 14) -----*)
ExR == {"example_mismatch", "examples_mismatch"}
ModeKinds == {"mediaType", "header", "parameter", "schema"}
ExRulesAt(doc, kind, at, mode) == LocalRules(kind, AtPtr(doc, at), doc, mode) \cap ExR
(* the places of a document whose example verdict depends on the mode at all (computed once per document) *)
ModeSites(doc, sites) ==
   {x \in sites : ~x.isref /\ x.kind \in ModeKinds
                   /\ \E m \in {"req", "res"} : ExRulesAt(doc, x.kind, x.at, m) # ExRulesAt(doc, x.kind, x.at, "any")}

(* The order in which Validate walks a document, as far as it matters here: the position of a place is the   *)
(* sequence of (rank of the member in its object, rank of the key / index in its map / array) along the way  *)
(* from the root; Validate takes the members of an object in the order below, map keys in sorted order.      *)
RankIn(seq, x) == IF \E i \in DOMAIN seq : seq[i] = x THEN CHOOSE i \in DOMAIN seq : seq[i] = x ELSE 0
EdgeRank(kind, f) ==
   CASE kind = "root" -> RankIn(<<"components", "info", "paths", "servers", "tags", "externalDocs">>, f)
     [] kind = "components" -> RankIn(<<"schemas", "parameters", "requestBodies", "responses", "headers", "securitySchemes",
                                        "examples", "links", "callbacks">>, f)
     [] kind = "pathItem" -> RankIn(<<"connect", "delete", "get", "head", "options", "patch", "post", "put", "trace", "parameters", "servers">>, f)
     [] kind = "operation" -> RankIn(<<"parameters", "requestBody", "responses", "externalDocs", "servers", "callbacks">>, f)
     [] kind = "response" -> RankIn(<<"content", "headers", "links">>, f)
     [] kind = "mediaType" -> RankIn(<<"schema", "examples", "encoding">>, f)
     [] kind = "schema" -> RankIn(<<"oneOf", "anyOf", "allOf", "not", "items", "properties", "additionalProperties",
                                    "externalDocs", "discriminator", "xml">>, f)
     [] OTHER -> RankIn(<<"content", "schema", "examples", "headers", "variables", "flows">>, f)
(* keys of the universe that are siblings somewhere, in byte order *)
KeyRank(k) == RankIn(<<"200", "2XX", "404", "default", Join(cNameR), Join(cNameR1), Join(cNameS), Join(cNameT), "a",
                       "application/json", "b", "p", "q", "text/plain", "v", "w", Join(cPathP), Join(cPathQ)>>, k)
IdxOf(tok) == IF \E i \in 0..9 : ToString(i) = tok THEN CHOOSE i \in 0..9 : ToString(i) = tok ELSE 0
RECURSIVE PosOf(_, _)
PosOf(via, at) ==
   IF via = <<>> THEN <<>>
   ELSE LET k == via[1][1]
            f == via[1][2]
            md == (CHOOSE e \in Edges(k) : e.f = f).mode IN
        CASE md = "one"  -> <<EdgeRank(k, f), 0>> \o PosOf(Tail(via), Tail(at))
          [] md = "arr"  -> <<EdgeRank(k, f), IdxOf(at[2]) + 1>> \o PosOf(Tail(via), SubSeq(at, 3, Len(at)))
          [] md = "map"  -> <<EdgeRank(k, f), KeyRank(at[2])>> \o PosOf(Tail(via), SubSeq(at, 3, Len(at)))
          [] md = "self" -> <<0, KeyRank(at[1])>> \o PosOf(Tail(via), Tail(at))
(* a is visited no later than b: a is a prefix of b (an ancestor, or b itself), or smaller at the first difference *)
RECURSIVE NoLater(_, _)
NoLater(a, b) == IF a = <<>> THEN TRUE ELSE IF b = <<>> THEN FALSE
                 ELSE IF Head(a) # Head(b) THEN Head(a) < Head(b) ELSE NoLater(Tail(a), Tail(b))
(* F-C04-14: Request Body and Response set the mode in the options shared by the whole walk and nobody resets *)
(* it: a place is judged in the mode of the last Request Body / Response entered before it                    *)
StickyMode(sites, via, at) ==
   LET me == PosOf(via, at)
       before == {y \in sites : y.kind \in {"requestBody", "response"} /\ NoLater(PosOf(y.via, y.at), me)} IN
   IF before = {} THEN "any"
   ELSE LET last == CHOOSE y \in before : \A z \in before : NoLater(PosOf(z.via, z.at), PosOf(y.via, y.at)) IN
        IF last.kind = "requestBody" THEN "req" ELSE "res"
(* F-C04-13: without any option there are no shared options at all (WithValidationOptions returns the context *)
(* unchanged, getValidationOptions hands out a fresh struct each time): the mode is never seen               *)
ImplModeOpen(sites, via, at, noopt) == IF noopt THEN "any" ELSE StickyMode(sites, via, at)
ContextLost(doc, v, noopt) ==
   noopt /\ v.rule \in ExR /\ v.kind \in ModeKinds /\ v.rule \notin ExRulesAt(doc, v.kind, v.at, "any")
ContextLeak(doc, sites, v, noopt) ==
   ~noopt /\ v.rule \in ExR /\ v.kind \in ModeKinds
   /\ v.rule \notin ExRulesAt(doc, v.kind, v.at, StickyMode(sites, v.via, v.at))
(* F-C04-15: the examples map (its Example Objects, its references) and the example / examples exclusion are  *)
(* only looked at inside "if schema != nil": not for a media type without schema, not for a parameter or     *)
(* header described by content                                                                               *)
NoSchemaExamples(doc, v) ==
   \/ v.rule = "example_and_examples" /\ ~Has(AtPtr(doc, v.at), "schema")
   \/ /\ LastEdge(v.via) \in {<<"parameter", "examples">>, <<"header", "examples">>, <<"mediaType", "examples">>}
      /\ Len(v.at) >= 2 /\ ~Has(AtPtr(doc, SubSeq(v.at, 1, Len(v.at) - 2)), "schema")

(* F-C04-16 Link.Validate never validates the Server Object of the link *)
UnderLinkServer(v) == HasEdge(v.via, "link", "server")

Missed(doc, sites, v, opts, noopt) ==
   (* a place the walk never reaches explains everything below it (the headers of an encoding: still open) *)
   IF UnderEncoding(v) THEN "encoding_header_errors_swallowed"
   ELSE IF UnderLinkServer(v) THEN "link_server_not_validated"
   ELSE IF ContextLost(doc, v, noopt) THEN "example_request_response_context_lost_without_options"
   ELSE IF ContextLeak(doc, sites, v, noopt) THEN "example_judged_in_mode_of_earlier_request_body_or_response"
   ELSE IF NoSchemaExamples(doc, v) THEN "examples_not_validated_without_schema"
   ELSE IF UnderOperationCallbacks(v) THEN "operation_callbacks_not_validated"
   ELSE IF UnderNestedServers(v) THEN "path_item_and_operation_servers_not_validated"
   ELSE IF HeaderUnchecked(v) THEN "header_extra_fields_and_examples_not_validated"
   ELSE IF DiscriminatorXml(v) THEN "schema_discriminator_xml_not_validated"
   ELSE IF NestedRefSibling(v) THEN "nested_schema_ref_siblings_not_checked"
   ELSE IF TemplateConflict(v) THEN "conflicting_path_templates_not_detected"
   ELSE IF SameCountOtherNames(doc, v) THEN "path_parameter_names_not_compared_with_template"
   ELSE IF ParamExtensionMasked(doc, v, opts) THEN "parameter_extra_fields_skipped_when_examples_disabled"
   ELSE "none"

(* F-C04-10 the loader never resolves references at these positions (a valid document then fails validation):  *)
(*          below a header's content, in the examples map of a parameter or of a parameter's content, directly *)
(*          under components.links                                                                             *)
UnvisitedByLoader(r) ==
   \/ HasEdge(r.via, "header", "content")
   \/ r.kind = "example" /\ LastEdge(r.via) = <<"parameter", "examples">>
   \/ r.kind = "example" /\ LastEdge(r.via) = <<"mediaType", "examples">> /\ HasEdge(r.via, "parameter", "content")
   \/ r.kind = "link" /\ LastEdge(r.via) = <<"components", "links">>
(* F-C04-11 an Example Object with externalValue and no value, in an examples map next to a schema, is validated *)
(*          as the value null                                                                                    *)
ExternalExample(doc, x) ==
   /\ ~x.isref /\ x.kind = "example" /\ LastEdge(x.via) \in {<<"parameter", "examples">>, <<"mediaType", "examples">>}
   /\ HasStr(AtPtr(doc, x.at), "externalValue") /\ ~Has(AtPtr(doc, x.at), "value")
   /\ Has(AtPtr(doc, SubSeq(x.at, 1, Len(x.at) - 2)), "schema")

Refused(doc, sites, opts, noopt) ==
   IF "DisEx" \notin opts /\ noopt
      /\ \E x \in ModeSites(doc, sites) : ~(ExRulesAt(doc, x.kind, x.at, "any") \subseteq ExRulesAt(doc, x.kind, x.at, ModeOf(x.via)))
   THEN "example_request_response_context_lost_without_options"
   ELSE IF "DisEx" \notin opts /\ ~noopt
      /\ \E x \in ModeSites(doc, sites) : ~(ExRulesAt(doc, x.kind, x.at, StickyMode(sites, x.via, x.at))
                                                \subseteq ExRulesAt(doc, x.kind, x.at, ModeOf(x.via)))
   THEN "example_judged_in_mode_of_earlier_request_body_or_response"
   ELSE IF \E r \in sites : r.isref /\ UnvisitedByLoader(r) /\ Resolves(doc, AtPtr(doc, r.at), SectionOf(r.kind))
   THEN "reference_position_not_visited_by_loader"
   ELSE IF "DisEx" \notin opts /\ \E x \in sites : ExternalExample(doc, x)
   THEN "external_example_validated_as_null"
   ELSE "none"

(* sites = Sites(line.doc) *)
Class(line, Vs, sites, opts, noopt, got) ==
   LET inForce == {v \in Vs : Enabled(v, opts)} IN
   IF inForce # {} /\ got = "A"
   THEN LET cs == {Missed(line.doc, sites, v, opts, noopt) : v \in inForce} IN
        IF Cardinality(cs) = 1 THEN CHOOSE c \in cs : TRUE ELSE "none"
   ELSE IF inForce = {} /\ got = "R" THEN Refused(line.doc, sites, opts, noopt)
   ELSE "none"
=============================================================================
