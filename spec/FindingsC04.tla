----------------------------- MODULE FindingsC04 -----------------------------
(***************************************************************************)
(* Finding classes for C04 (see known_findings.json): narrow predicates    *)
(* over the recorded document, its violations (DocRules!Viol), the option  *)
(* set and the verdict.  "none" = not a listed finding.                    *)
(* Two shapes of wrong verdict:                                            *)
(*   missed    Validate = nil although some violation is in force; the     *)
(*             class must explain every violation in force                 *)
(*   refused   Validate # nil although no violation is in force            *)
(***************************************************************************)
EXTENDS DocRules

HasEdge(via, kind, f) == \E i \in DOMAIN via : via[i] = <<kind, f>>
LastEdge(via) == IF via = <<>> THEN <<"", "">> ELSE via[Len(via)]

(* F-C04-1  Operation.Validate never descends into operation.callbacks *)
UnderOperationCallbacks(v) == HasEdge(v.via, "operation", "callbacks")
(* F-C04-2  PathItem.Validate / Operation.Validate never validate their servers *)
UnderNestedServers(v) == HasEdge(v.via, "pathItem", "servers") \/ HasEdge(v.via, "operation", "servers")
(* F-C04-3  Encoding.Validate swallows the errors of its headers (returns nil instead of the error); an existing    *)
(*          test (TestEncodingJSON: headers {"someHeader": {}} must validate) pins that, so only the other half -- *)
(*          MediaType.Validate never validated its encoding map at all -- could be repaired (0ddffc2)              *)
UnderEncoding(v) == HasEdge(v.via, "encoding", "headers")
(* F-C04-4  Header.Validate checks neither extra fields nor example / examples *)
HeaderUnchecked(v) ==
   \/ v.kind = "header" /\ v.rule \in {"extra_field", "example_and_examples", "example_mismatch", "examples_mismatch"}
   \/ LastEdge(v.via) = <<"header", "examples">>
(* F-C04-5  Schema.validate never validates discriminator / xml objects *)
DiscriminatorXml(v) == v.kind \in {"discriminator", "xml"} /\ v.rule = "extra_field"
(* F-C04-6  Schema.validate descends into sub-schemas through .Value, bypassing SchemaRef.Validate: siblings of a *)
(*          nested $ref are never looked at                                                                       *)
NestedRefSibling(v) == v.kind = "schema" /\ v.rule \in {"ref_sibling", "ref_ext_sibling"} /\ LastEdge(v.via)[1] = "schema"
(* F-C04-7  Paths.Validate records normalizedPaths[path] instead of [normalizedPath]: the conflict test is dead *)
TemplateConflict(v) == v.rule = "template_conflict"
(* F-C04-8  Paths.Validate compares declared path parameters with the template only when their numbers differ *)
SameCountOtherNames(doc, v) ==
   /\ v.rule = "template_mismatch"
   /\ LET paths == Get(doc, "paths") IN
      \A k \in PathKeys(paths) : \A m \in OpsOf(Get(paths, k)) :
         LET names == PathParamNames(doc, Get(paths, k)) \cup PathParamNames(doc, Get(Get(paths, k), m)) IN
         names # TemplVars(CharsOf(k)) => Cardinality(names) = Cardinality(TemplVars(CharsOf(k)))
(* F-C04-9  Parameter.Validate returns early under DisableExamplesValidation, before validateExtensions *)
ParamExtensionMasked(doc, v, opts) ==
   /\ v.rule = "extra_field" /\ v.kind = "parameter" /\ "DisEx" \in opts
   /\ Has(AtPtr(doc, v.at), "schema")

Missed(doc, v, opts) ==
   IF UnderOperationCallbacks(v) THEN "operation_callbacks_not_validated"
   ELSE IF UnderNestedServers(v) THEN "path_item_and_operation_servers_not_validated"
   ELSE IF UnderEncoding(v) THEN "encoding_header_errors_swallowed"
   ELSE IF HeaderUnchecked(v) THEN "header_extra_fields_and_examples_not_validated"
   ELSE IF DiscriminatorXml(v) THEN "schema_discriminator_xml_not_validated"
   ELSE IF NestedRefSibling(v) THEN "nested_schema_ref_siblings_not_checked"
   ELSE IF TemplateConflict(v) THEN "conflicting_path_templates_not_detected"
   ELSE IF SameCountOtherNames(doc, v) THEN "path_parameter_names_not_compared_with_template"
   ELSE IF ParamExtensionMasked(doc, v, opts) THEN "parameter_extra_fields_skipped_when_examples_disabled"
   ELSE "none"

(* F-C04-10 the loader never resolves references at these positions (a valid document then fails validation):  *)
(*          below a header's content, in the examples map of a parameter or of a parameter's content, directly *)
(*          under components.links                                                                             *)
UnvisitedByLoader(r) ==
   \/ HasEdge(r.via, "header", "content")
   \/ r.kind = "example" /\ LastEdge(r.via) = <<"parameter", "examples">>
   \/ r.kind = "example" /\ LastEdge(r.via) = <<"mediaType", "examples">> /\ HasEdge(r.via, "parameter", "content")
   \/ r.kind = "link" /\ LastEdge(r.via) = <<"components", "links">>
(* F-C04-11 an Example Object with externalValue and no value, in an examples map next to a schema, is validated *)
(*          as the value null                                                                                    *)
ExternalExample(doc, x) ==
   /\ ~x.isref /\ x.kind = "example" /\ LastEdge(x.via) \in {<<"parameter", "examples">>, <<"mediaType", "examples">>}
   /\ HasStr(AtPtr(doc, x.at), "externalValue") /\ ~Has(AtPtr(doc, x.at), "value")
   /\ Has(AtPtr(doc, SubSeq(x.at, 1, Len(x.at) - 2)), "schema")

Refused(doc, sites, opts) ==
   IF \E r \in sites : r.isref /\ UnvisitedByLoader(r) /\ Resolves(doc, AtPtr(doc, r.at), SectionOf(r.kind))
   THEN "reference_position_not_visited_by_loader"
   ELSE IF "DisEx" \notin opts /\ \E x \in sites : ExternalExample(doc, x)
   THEN "external_example_validated_as_null"
   ELSE "none"

(* sites = Sites(line.doc) *)
Class(line, Vs, sites, opts, got) ==
   LET inForce == {v \in Vs : Enabled(v, opts)} IN
   IF inForce # {} /\ got = "A"
   THEN LET cs == {Missed(line.doc, v, opts) : v \in inForce} IN
        IF Cardinality(cs) = 1 THEN CHOOSE c \in cs : TRUE ELSE "none"
   ELSE IF inForce = {} /\ got = "R" THEN Refused(line.doc, sites, opts)
   ELSE "none"
=============================================================================
