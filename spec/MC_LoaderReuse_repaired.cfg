SPECIFICATION Spec
CONSTANTS Design = "repaired"
          MaxUses = 4
INVARIANTS UsedLikeFresh ReadsOnlyRootWhenOff ReadsOnlyRefDerived
CHECK_DEADLOCK FALSE
