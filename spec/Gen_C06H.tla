------------------------------ MODULE Gen_C06H ------------------------------
(* F for the registry clause of C06 (and of C15's "every call returns the verdict it returns  *)
(* when run alone"): every history of MaxSteps calls of spec/BodyRegistry.tla, to be replayed  *)
(* in ONE process against the real process-wide registries.  The case carries no expectation:  *)
(* L1 is evaluated by Trace_C06H.  Histories of fewer calls are prefixes of the emitted ones.   *)
EXTENDS BodyRegistry, Json, CSV
Emit == Len(hist) = MaxSteps =>
   CSVWrite("%1$s", <<ToJson([steps |-> [i \in DOMAIN hist |-> hist[i].c]])>>, "cases_reg.ndjson")
=============================================================================
