SPECIFICATION Spec
INVARIANT DeepNamesInjectiveCutAny
CHECK_DEADLOCK FALSE
