------------------------------ MODULE Trace_C01 ------------------------------
(* Trace validation for C01: every log line is one schema with the verdicts the real     *)
(* validator gave for each value of the value list, in the input forms the API takes     *)
(* (of: float64 numbers, on: json.Number, og: integral numbers as Go int) and through    *)
(* IsMatching (om).  TLC evaluates the reference semantics           *)
(* (SchemaSem!Valid) on each (schema, value) and rejects the line on any difference.     *)
EXTENDS SchemaUniverse, SchemaImpl, FindingsC01, Json, CSV

Trace == ndJsonDeserialize("trace.ndjson")

VARIABLE l
Init == l = 0
Next == l < Len(Trace) /\ l' = l + 1
Spec == Init /\ [][Next]_l

TheVals(line) == IF "vals" \in DOMAIN line THEN line.vals ELSE Vals
Want(s, v) == IF Valid(s, v, "plain") THEN "A" ELSE "R"

(* model fidelity: the code's verdicts are exactly those of the implementation-shaped model *)
Acc(b) == IF b THEN "A" ELSE "R"
ModelAgrees(line) ==
   LET vs == TheVals(line) IN
   \A i \in DOMAIN vs : LET af == Acc(Accepts(line.s, vs[i], "f64")) IN
                        /\ line.of[i] = af /\ line.om[i] = af
                        /\ line.on[i] = Acc(Accepts(line.s, vs[i], "num"))

Forms == {"of", "on", "om", "og"}
(* the reference semantics is evaluated once per (schema, value) and compared with every form *)
Mismatches(line) ==
   LET vs == TheVals(line) IN
   UNION {LET w == Want(line.s, vs[i]) IN {[i |-> i, form |-> f, want |-> w] : f \in {g \in Forms : line[g][i] # w}} : i \in DOMAIN vs}

Shared(line) == "share" \in DOMAIN line      \* repeated sub-schemas realised as references to one shared component

Report(line, m) ==
   LET v == TheVals(line)[m.i] IN
   [case |-> line.case, s |-> line.s, share |-> Shared(line), i |-> m.i, v |-> v, form |-> m.form,
    got |-> line[m.form][m.i], want |-> m.want,
    class |-> Class(line, m.i, m.form, v, m.want)]

LineOK(line) ==
   IF line.load # "ok"
   THEN CSVWrite("%1$s", <<ToJson([case |-> line.case, s |-> line.s, share |-> Shared(line), got |-> line.load, class |-> "none",
                                    failed |-> "schema_does_not_load"])>>, "violations.ndjson")
   ELSE /\ \A m \in Mismatches(line) :
              CSVWrite("%1$s", <<ToJson(Report(line, m))>>, "violations.ndjson")
        /\ ModelAgrees(line)
              \/ CSVWrite("%1$s", <<ToJson([case |-> line.case, s |-> line.s, what |-> "verdict differs from SchemaImpl"])>>, "fidelity.ndjson")
        /\ ("rs" \in DOMAIN line /\ line.rs = line.s)
              \/ CSVWrite("%1$s", <<ToJson([case |-> line.case, s |-> line.s])>>, "fidelity.ndjson")

Judge == l > 0 => LineOK(Trace[l])

AllConsumed == TLCGet("stats").diameter = Len(Trace) + 1
=============================================================================
