------------------------------ MODULE Trace_C01 ------------------------------
(* Trace validation for C01: every log line is one schema with the verdicts the real     *)
(* validator gave for each value of the value list, in the input forms the API takes     *)
(* (of: float64 numbers, on: json.Number, og: integral numbers as Go int) and through    *)
(* IsMatching (om).  TLC evaluates the reference semantics           *)
(* (SchemaSem!Valid) on each (schema, value) and rejects the line on any difference.     *)
EXTENDS SchemaUniverse, SchemaImpl, FindingsC01, Defaults, Json, CSV

Trace == ndJsonDeserialize("trace.ndjson")

VARIABLE l
Init == l = 0
Next == l < Len(Trace) /\ l' = l + 1
Spec == Init /\ [][Next]_l

TheVals(line) == IF "vals" \in DOMAIN line THEN line.vals ELSE Vals
Want(s, v) == IF Valid(s, v, "plain") THEN "A" ELSE "R"

(* model fidelity: the code's verdicts are exactly those of the implementation-shaped model *)
Acc(b) == IF b THEN "A" ELSE "R"
ModelAgrees(line) ==
   LET vs == TheVals(line) IN
   \A i \in DOMAIN vs : LET af == Acc(Accepts(line.s, vs[i], "f64")) IN
                        /\ line.of[i] = af /\ line.om[i] = af
                        /\ line.on[i] = Acc(Accepts(line.s, vs[i], "num"))

Forms == {"of", "on", "om", "og"}

(* The directed readings (oq: VisitAsRequest, op: VisitAsResponse, both with DefaultsSet, on a value of their own).     *)
(* Their verdict is Valid(s, v, side) -- the reference semantics of that side -- whenever the defaults of the schema   *)
(* are INERT for the value: every sub-schema that declares a default lies inside an alternative of anyOf / oneOf that  *)
(* the value (the part of it the alternative is applied to) does not satisfy.  Such an alternative must leave no trace. *)
(* Where a default can really be installed the completed value is what is validated; that is not judged here (C13).    *)
HasDefault(s) == \E t \in SubSchemas(s) : Has(t, "default")
HasSide(s) == \E t \in SubSchemas(s) : Has(t, "readOnly") \/ Has(t, "writeOnly")
RECURSIVE Inert(_, _, _)
Inert(s, v, side) ==
   \/ ~HasDefault(s)
   \/ /\ ~Has(s, "default")
      /\ Has(s, "not") => ~HasDefault(s.not)
      \* ... does not satisfy, neither as it is nor with that alternative's own defaults in place (Defaults!WithDefaults, the
      \* L1 of C13: an alternative that matches once its defaults are installed does match, and its defaults stay)
      /\ \A f \in {"oneOf", "anyOf"} \cap DOMAIN s : \A i \in DOMAIN s[f] :
            HasDefault(s[f][i]) => (~Valid(s[f][i], v, side) /\ ~Valid(s[f][i], WithDefaults(s[f][i], v), side))
      /\ Has(s, "allOf") => \A i \in DOMAIN s.allOf : Inert(s.allOf[i], v, side)
      /\ Has(s, "items") => IF v.t = "arr" THEN \A i \in DOMAIN v.a : Inert(s.items, v.a[i], side) ELSE TRUE
      /\ Has(s, "apSchema") => ~HasDefault(s.apSchema)
      /\ Has(s, "pk") => IF v.t = "obj"
                         THEN \A i \in DOMAIN s.pk : /\ ~Has(s.ps[i], "default")
                                                     /\ HasKey(v, s.pk[i]) => Inert(s.ps[i], Get(v, s.pk[i]), side)
                         ELSE TRUE
(* Outside this clause: a declared property with a default whose value is JSON null.  With DefaultsSet the library   *)
(* installs the default OVER the null (visitJSONObject tests value[k] == nil: null counts as absent there), so the    *)
(* directed reading accepts {x: null} where the plain reading rejects it; C01's statement does not say which is right. *)
RECURSIVE DefNull(_, _)
DefNull(s, v) ==
   \/ /\ v.t = "obj" /\ Has(s, "pk")
      /\ \E i \in DOMAIN s.pk : /\ HasKey(v, s.pk[i])
                                 /\ \/ (Has(s.ps[i], "default") /\ Get(v, s.pk[i]).t = "null")
                                    \/ DefNull(s.ps[i], Get(v, s.pk[i]))
   \/ \E f \in {"oneOf", "anyOf", "allOf"} \cap DOMAIN s : \E i \in DOMAIN s[f] : DefNull(s[f][i], v)
   \/ (Has(s, "items") /\ v.t = "arr" /\ \E i \in DOMAIN v.a : DefNull(s.items, v.a[i]))
   \/ (Has(s, "not") /\ DefNull(s.not, v))
Judged(s, v, side) == Inert(s, v, side) /\ (HasDefault(s) => (~DefNull(s, v) /\ ~HasSide(s)))
SideOf(f) == IF f = "oq" THEN "asreq" ELSE "asrep"

(* the reference semantics is evaluated once per (schema, value) and compared with every form *)
Mismatches(line) ==
   LET vs == TheVals(line)
       sided == HasSide(line.s)           \* without readOnly / writeOnly the directed semantics is the plain one
       directed == {"oq", "op"} \cap DOMAIN line
   IN
   UNION {LET w == Want(line.s, vs[i]) IN
          {[i |-> i, form |-> f, want |-> w] : f \in {g \in Forms : line[g][i] # w}}
          \cup {[i |-> i, form |-> f, want |-> (IF sided THEN Acc(Valid(line.s, vs[i], SideOf(f))) ELSE w)]
                   : f \in {g \in directed : /\ Judged(line.s, vs[i], SideOf(g))
                                              /\ line[g][i] # (IF sided THEN Acc(Valid(line.s, vs[i], SideOf(g))) ELSE w)}}
          : i \in DOMAIN vs}

Shared(line) == "share" \in DOMAIN line      \* repeated sub-schemas realised as references to one shared component

Report(line, m) ==
   LET v == TheVals(line)[m.i] IN
   [case |-> line.case, s |-> line.s, share |-> Shared(line), i |-> m.i, v |-> v, form |-> m.form,
    got |-> line[m.form][m.i], want |-> m.want,
    class |-> Class(line, m.i, m.form, v, m.want)]

LineOK(line) ==
   IF line.load # "ok"
   THEN CSVWrite("%1$s", <<ToJson([case |-> line.case, s |-> line.s, share |-> Shared(line), got |-> line.load, class |-> "none",
                                    failed |-> "schema_does_not_load"])>>, "violations.ndjson")
   ELSE /\ \A m \in Mismatches(line) :
              CSVWrite("%1$s", <<ToJson(Report(line, m))>>, "violations.ndjson")
        /\ ModelAgrees(line)
              \/ CSVWrite("%1$s", <<ToJson([case |-> line.case, s |-> line.s, what |-> "verdict differs from SchemaImpl"])>>, "fidelity.ndjson")
        /\ ("rs" \in DOMAIN line /\ line.rs = line.s)
              \/ CSVWrite("%1$s", <<ToJson([case |-> line.case, s |-> line.s])>>, "fidelity.ndjson")

Judge == l > 0 => LineOK(Trace[l])

AllConsumed == TLCGet("stats").diameter = Len(Trace) + 1
=============================================================================
