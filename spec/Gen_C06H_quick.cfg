SPECIFICATION Spec
CONSTANTS Policy = "explicit"
 MaxSteps = 2
INVARIANTS Emit L2ImpliesL1
PROPERTIES OnlyRegisterWrites
CHECK_DEADLOCK FALSE
