------------------------------ MODULE Trace_C09 ------------------------------
(* Trace validation for C09.  Every log line is one case: a document (as generated and   *)
(* as the loaded *openapi3.T shows it), a list of requests (as generated and as the      *)
(* *http.Request shows them) and, per request, what FindRoute of the gorillamux router   *)
(* ("g") and of the legacy router ("l") did.  TLC evaluates the contract Router!Failed   *)
(* on every (document, request, observation); rejected observations go to                *)
(* violations.ndjson (with their finding class), observations the contract allows but    *)
(* the implementation-shaped models do not predict go to fidelity.ndjson.                *)
EXTENDS Router, FindingsC09, Json, CSV, TLC

Trace == ndJsonDeserialize("trace.ndjson")

VARIABLE l
Init == l = 0
Next == l < Len(Trace) /\ l' = l + 1
Spec == Init /\ [][Next]_l

SeqSet(s) == {s[i] : i \in 1..Len(s)}

(* the realiser round trip: what the library holds / was called with is the case *)
SrvVars(s) == (IF s.abs THEN {[n |-> p.v, d |-> p.d] : p \in {q \in SeqSet(s.host) \cup SeqSet(s.port) : IsVar(q)}} ELSE {})
              \cup {[n |-> b.v, d |-> s.base[b.i]] : b \in SeqSet(BaseVars(s))}
              \cup (IF HasSchemeVar(s) THEN {[n |-> s.sch.v, d |-> s.scheme]} ELSE {})
Realised(line) ==
   /\ "rdoc" \in DOMAIN line /\ "ru" \in DOMAIN line /\ "rm" \in DOMAIN line /\ "built" \in DOMAIN line
   /\ "gh" \in DOMAIN line /\ "lh" \in DOMAIN line /\ Len(line.gh) = Len(line.reqs) /\ Len(line.lh) = Len(line.reqs)
   /\ Len(line.rdoc.servers) = Len(line.doc.servers)
   /\ \A i \in 1..Len(line.doc.servers) :
         /\ line.rdoc.servers[i].url = ServerURL(line.doc.servers[i])
         /\ SeqSet(line.rdoc.servers[i].vars) = SrvVars(line.doc.servers[i])
   /\ {[p |-> x.p, ops |-> SeqSet(x.ops), srv |-> x.srv] : x \in SeqSet(line.rdoc.paths)}
         = {[p |-> TemplStr(t), ops |-> SeqSet(t.ops),
             srv |-> IF HasOwnServers(t) THEN [i \in 1..Len(t.servers) |-> ServerURL(t.servers[i])] ELSE <<>>] :
            t \in SeqSet(line.doc.templates)}
   /\ Len(line.ru) = Len(line.reqs) /\ Len(line.rm) = Len(line.reqs)
   /\ \A i \in 1..Len(line.reqs) : line.ru[i] = URLStr(line.reqs[i].u) /\ line.rm[i] = line.reqs[i].m

Report(line, i, router, obs, failed) ==
   CSVWrite("%1$s", <<ToJson([case |-> line.case, doc |-> line.doc, req |-> line.reqs[i], router |-> router,
                               obs |-> obs, failed |-> failed,
                               class |-> Class(line.doc, line.reqs[i], router, obs, failed)])>>,
            "violations.ndjson")

Pred(doc, req, router) == IF router = "g" THEN CurMuxObs(doc, req) ELSE CurLegacyObs(doc, req)

(* the query and the fragment are not part of the path: the result for a URL with a tail  *)
(* must be the result for the bare URL (judged where the bare request, same method, is   *)
(* in the same case)                                                                     *)
SameResult(a, b) == /\ Gist(a) = Gist(b)
                    /\ a.k = "route" => a.m = b.m /\ a.op = b.op /\ SeqSet(a.params) = SeqSet(b.params)
TailFailed(line, i, router) ==
   LET r == line.reqs[i] IN
   IF UTail(r.u) = "" \/ (router = "l" /\ HasMixed(line.doc)) THEN {}
   ELSE LET js == {j \in 1..Len(line.reqs) : /\ line.reqs[j].m = r.m /\ UTail(line.reqs[j].u) = "" /\ UForm(line.reqs[j].u) = UForm(r.u)
                                             /\ URLStr(line.reqs[j].u) = BareURLStr(r.u)}
        IN IF js = {} \/ SameResult(line[router][i], line[router][CHOOSE j \in js : TRUE]) THEN {}
           ELSE {"query_or_fragment_changed_the_result"}

JudgeObs(line, i, router) ==
   LET obs == line[router][i]
       failed == FailedFor(router, line.doc, line.reqs[i], obs) \cup TailFailed(line, i, router)
   IN IF failed # {} THEN Report(line, i, router, obs, failed)
      ELSE \/ router = "l" /\ HasMixed(line.doc)      \* the legacy model does not cover mixed segments
           \/ Gist(obs) = Gist(Pred(line.doc, line.reqs[i], router))
           \/ CSVWrite("%1$s", <<ToJson([case |-> line.case, doc |-> line.doc, req |-> line.reqs[i], router |-> router,
                                          obs |-> obs, model |-> Pred(line.doc, line.reqs[i], router)])>>,
                       "fidelity.ndjson")

(* the route objects returned during the case, read again after its last request; a       *)
(* rejected one is reported with the whole request sequence (the history that led to it) *)
HeldKey(router) == IF router = "g" THEN "gh" ELSE "lh"
JudgeHeld(line, i, router) ==
   LET obs == line[router][i]
       held == line[HeldKey(router)][i]
       failed == HeldFailed(line.doc, line.reqs[i], obs, held)
   IN failed = {}
      \/ (obs.k = "route" /\ FailedFor(router, line.doc, line.reqs[i], obs) # {} /\ "held_route_changed" \notin failed
          /\ "held_route_lost" \notin failed)      \* already reported at return time, and unchanged since
      \/ CSVWrite("%1$s", <<ToJson([case |-> line.case, doc |-> line.doc, req |-> line.reqs[i], reqs |-> line.reqs,
                                     router |-> router, obs |-> obs, held |-> held, failed |-> failed,
                                     class |-> "none"])>>, "violations.ndjson")

(* construction: a router that could not be built from the validated document is reported  *)
(* once per case (none of the case's requests can be judged for it); a router the model   *)
(* of the pinned code expects NOT to build, but which was built, is a fidelity difference *)
JudgeBuilt(line, router) ==
   LET built == line.built[router]
       failed == BuildFailed(line.doc, built)
   IN IF failed # {}
      THEN CSVWrite("%1$s", <<ToJson([case |-> line.case, doc |-> line.doc, reqs |-> line.reqs, router |-> router,
                                       built |-> built, failed |-> failed,
                                       class |-> BuildClass(line.doc, router, built)])>>, "violations.ndjson")
      ELSE \/ router = "l" \/ CurMuxBuilds(line.doc)
           \/ CSVWrite("%1$s", <<ToJson([case |-> line.case, doc |-> line.doc, router |-> router, built |-> built,
                                          model |-> "not built"])>>, "fidelity.ndjson")

JudgeRouter(line, router) ==
   /\ JudgeBuilt(line, router)
   /\ line.built[router] = "ok" => \A i \in 1..Len(line.reqs) : JudgeObs(line, i, router) /\ JudgeHeld(line, i, router)

Broken(line, what) ==
   CSVWrite("%1$s", <<ToJson([case |-> line.case, doc |-> line.doc, failed |-> {what}, got |-> line.load,
                               class |-> "none"])>>, "violations.ndjson")

LineOK(line) ==
   IF line.load # "ok" THEN Broken(line, "document_does_not_load_or_routers_not_built")
   ELSE IF ~Realised(line) THEN Broken(line, "harness_realiser")
   ELSE JudgeRouter(line, "g") /\ JudgeRouter(line, "l")

Judge == l > 0 => LineOK(Trace[l])

AllConsumed == TLCGet("stats").diameter = Len(Trace) + 1
=============================================================================
