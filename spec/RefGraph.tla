------------------------------ MODULE RefGraph ------------------------------
(***************************************************************************)
(* C20, the "adversarial reference graphs" half of the quantifier.          *)
(*                                                                         *)
(* An OpenAPI document is a graph of objects of a few KINDS; an object of   *)
(* one kind holds objects of other kinds at named SITES (KindGraph below:   *)
(* the containment relation of the OpenAPI 3.0 object model as implemented  *)
(* by package openapi3).  Wherever the model allows a Reference Object the  *)
(* child may be written in place or as a $ref, and a $ref may point at      *)
(* anything -- in particular BACK at an object on the path that leads to    *)
(* it.  Every loader / validator / serialiser / internaliser is a recursion *)
(* over this graph, so the hostile inputs are its closed walks.             *)
(*                                                                         *)
(* A case is a LASSO in the kind graph:                                     *)
(*   node 0            a named component of kind `root`;                    *)
(*   steps[i]          node i-1 --site--> node i (a new object of kind      *)
(*                     `to`), attached "inline" or as a "ref" to a named    *)
(*                     component; site "$ref" makes node i-1 a pure alias   *)
(*                     (its whole body is a reference to node i);           *)
(*   close             the last node --site--> node `back` (an EXISTING     *)
(*                     node): always a reference, to the component or, when *)
(*                     node `back` was written in place, a deep JSON        *)
(*                     pointer through the component that contains it.      *)
(* plus where the components live (split: nodes >= split are components of  *)
(* a second file ext.json, so the cycle crosses / lies in an external       *)
(* file), whether node 0 is used by an operation of the document, and       *)
(* whether the closing reference goes through one more alias component.     *)
(* Self reference (X: {$ref: X}), two- and three-cycles of aliases, direct  *)
(* recursion through one site, recursion through another component, through *)
(* content / encoding / items / composition edges, header -> media type ->  *)
(* encoding -> header, callback -> path item -> operation -> callback, and  *)
(* every prefix leading into such a cycle are all instances.                *)
(***************************************************************************)
EXTENDS Naturals, Sequences, FiniteSets

RefKinds    == {"schema", "parameter", "header", "requestBody", "response", "link", "callback", "pathItem", "example"}
InlineKinds == {"mediaType", "encoding", "operation"}       \* no Reference Object allowed in these positions

E(f, s, t) == [from |-> f, site |-> s, to |-> t]
SchemaSites == {"properties", "items", "additionalProperties", "allOf", "anyOf", "oneOf", "not"}
KindGraph ==
   {E("schema", s, "schema") : s \in SchemaSites}
   \cup {E("parameter", "schema", "schema"), E("parameter", "content", "mediaType"), E("parameter", "examples", "example")}
   \cup {E("header", "schema", "schema"), E("header", "content", "mediaType"), E("header", "examples", "example")}
   \cup {E("mediaType", "schema", "schema"), E("mediaType", "examples", "example"), E("mediaType", "encoding", "encoding")}
   \cup {E("encoding", "headers", "header")}
   \cup {E("requestBody", "content", "mediaType")}
   \cup {E("response", "headers", "header"), E("response", "content", "mediaType"), E("response", "links", "link")}
   \cup {E("callback", "expression", "pathItem")}
   \cup {E("pathItem", "operation", "operation"), E("pathItem", "parameters", "parameter")}
   \cup {E("operation", "parameters", "parameter"), E("operation", "requestBody", "requestBody"),
         E("operation", "responses", "response"), E("operation", "callbacks", "callback")}
   \cup {E(k, "$ref", k) : k \in RefKinds}          \* the whole object is a reference (an alias)

CONSTANTS GMaxSteps,      \* number of non-closing steps explored exhaustively
          GSites,         \* the schema sites in use (a tier may take a subset; every other site is always in use)
          GSplits,        \* which split positions are explored: subset of 0..GMaxSteps+1 ("no split" is always explored)
          GMaxSchemaSteps,\* bound on the number of non-closing schema -> schema steps of a walk
          GTier,          \* "full" / "ofat": which run configurations a graph is run under (RunUnder)
          GOfatSteps,     \* "ofat": graphs up to this many steps get the one-factor-at-a-time variations
          GAliasHop       \* whether the closing reference may pass through one more alias component: subset of BOOLEAN

Usable(e) == e.from = "schema" /\ e.to = "schema" /\ e.site # "$ref" => e.site \in GSites

NoSplit == 99

VARIABLES root, steps, close, used, split, hop, gentry, gallow, gyaml
gvars == <<root, steps, close, used, split, hop, gentry, gallow, gyaml>>

KindOf(n) == IF n = 0 THEN root ELSE steps[n].to
Last == Len(steps)
(* node n is a named component (something a reference can name by its component pointer) *)
IsComponent(n) == IF n = 0 THEN TRUE ELSE steps[n].mode = "ref"      \* (IF, not \/: TLC splits a disjunction inside an action)
Open == close = <<>>
(* number of schema -> schema site steps so far (the schema sites are many: a tier may bound how many of them a walk chains) *)
SchemaSteps == Cardinality({i \in DOMAIN steps : steps[i].to = "schema" /\ steps[i].site \in SchemaSites})

GInit == /\ root \in RefKinds /\ steps = <<>> /\ close = <<>>
         /\ used = FALSE /\ split = NoSplit /\ hop = FALSE
         /\ gentry = "data" /\ gallow = TRUE /\ gyaml = FALSE

Step(e, mode) ==
   /\ Len(steps) < GMaxSteps
   /\ (e.from = "schema" /\ e.to = "schema" /\ e.site # "$ref" => SchemaSteps < GMaxSchemaSteps)
   /\ e \in KindGraph /\ Usable(e) /\ e.from = KindOf(Last)
   /\ (e.site = "$ref" => (IsComponent(Last) /\ mode = "ref"))        \* only a component can be an alias
   /\ (e.to \in InlineKinds => mode = "inline")
   /\ steps' = Append(steps, [site |-> e.site, to |-> e.to, mode |-> mode])
   /\ UNCHANGED <<root, close, used, split, hop, gentry, gallow, gyaml>>

(* Which run configurations (split, alias hop, used, entry, switch, rendering) a closed graph is run under.  The default     *)
(* configuration is: one file, direct closing reference, node 0 used by an operation, LoadFromData, switch on, JSON.          *)
(* "full": the whole product (YAML only through LoadFromData with the switch on).                                             *)
(* "ofat": one factor at a time -- the default and every configuration that differs from it in exactly one factor -- for      *)
(*         graphs of at most GOfatSteps non-closing steps; the default alone for longer graphs.                               *)
IsDefault(sp, h, u, en, al, ya) == sp = NoSplit /\ ~h /\ u /\ en = "data" /\ al /\ ~ya
Differences(sp, h, u, en, al, ya) ==
   (IF sp # NoSplit THEN 1 ELSE 0) + (IF h THEN 1 ELSE 0) + (IF ~u THEN 1 ELSE 0) + (IF en # "data" THEN 1 ELSE 0)
   + (IF ~al THEN 1 ELSE 0) + (IF ya THEN 1 ELSE 0)
RunUnder(sp, h, u, en, al, ya) ==
   /\ (ya => en = "data" /\ al)
   /\ (GTier = "ofat" => Differences(sp, h, u, en, al, ya) <= (IF Len(steps) <= GOfatSteps THEN 1 ELSE 0))

Close(e, back, sp, h, u, en, al, ya) ==
   /\ e \in KindGraph /\ Usable(e) /\ e.from = KindOf(Last) /\ back \in 0..Last /\ e.to = KindOf(back)
   /\ e.to \in RefKinds
   /\ (e.site = "$ref" => IsComponent(Last))
   /\ (h => IsComponent(back))                                         \* an alias hop needs a component to point at
   /\ sp \in GSplits \cup {NoSplit} /\ (sp # NoSplit => sp <= Last + 1)
   /\ (sp = 0 => u)                                                   \* everything in ext.json: the root file must refer to it
   /\ h \in GAliasHop \cup {FALSE}
   /\ RunUnder(sp, h, u, en, al, ya)
   /\ close' = <<[site |-> e.site, back |-> back]>> /\ split' = sp /\ hop' = h
   /\ used' = u /\ gentry' = en /\ gallow' = al /\ gyaml' = ya
   /\ UNCHANGED <<root, steps>>

OutEdges == {e \in KindGraph : e.from = KindOf(Last) /\ Usable(e)}
GNext == Open /\
         (\/ \E e \in OutEdges, m \in {"inline", "ref"} : Step(e, m)
          \/ \E e \in {x \in OutEdges : x.to \in RefKinds} : \E b \in {n \in 0..Last : KindOf(n) = e.to} :
                \E sp \in {x \in GSplits : x <= Last + 1} \cup {NoSplit}, h \in GAliasHop \cup {FALSE}, u \in BOOLEAN,
                   en \in {"data", "datapath", "file"}, al \in BOOLEAN, ya \in BOOLEAN :
                   RunUnder(sp, h, u, en, al, ya) /\ Close(e, b, sp, h, u, en, al, ya))
GSpec == GInit /\ [][GNext]_gvars
GEmitted == ~Open

(* the case as the realiser sees it *)
GCase == [root |-> root, steps |-> steps, close |-> close[1], used |-> used, split |-> split, hop |-> hop]

-----------------------------------------------------------------------------
(* Shape facts of a case (used by the trace specification to know what it is looking at).                              *)
GKindOf(g, n) == IF n = 0 THEN g.root ELSE g.steps[n].to
(* the kinds on the cycle proper: nodes back..Last *)
CycleKinds(g) == {GKindOf(g, n) : n \in g.close.back..Len(g.steps)}
(* a cycle made only of alias edges never reaches an object: X -> Y -> X *)
PureAliasCycle(g) == /\ g.close.site = "$ref"
                     /\ \A n \in (g.close.back + 1)..Len(g.steps) : g.steps[n].site = "$ref"
=============================================================================
