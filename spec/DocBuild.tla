------------------------------ MODULE DocBuild ------------------------------
(***************************************************************************)
(* C04: the universe of documents.  A case is a location (a path through   *)
(* the containment graph of DocRules, from the root) plus a leaf choice:   *)
(* a conforming variant of the object kind found there, or one violation   *)
(* of one rule whose subject is that kind, or (where a Reference Object    *)
(* may stand) a reference with or without an offending sibling.            *)
(* Doc(case) builds the document: minimal conforming objects along the     *)
(* path (Embed), the chosen leaf at its end.  The builders know nothing of *)
(* the judge (DocRules!Viol); MC_C04 checks that the two agree: conforming *)
(* cases have no violation, every other case has exactly the one it names, *)
(* at the location it names.                                               *)
(***************************************************************************)
EXTENDS DocRules

RefKinds == {"schema", "parameter", "header", "requestBody", "response", "securityScheme", "example", "link", "callback"}
OO(q) == O([i \in DOMAIN q |-> P(q[i][1], q[i][2])])
With(o, q) == O(o.f \o [i \in DOMAIN q |-> P(q[i][1], q[i][2])])

sExt == Join(cExt)
sBogus == Join(cBogus)
sDescr == Join(cDescr)
UrlPlain == S(Join(cUrlPlain))
TString == OO(<< <<"type", S("string")>> >>)
TInteger == OO(<< <<"type", S("integer")>> >>)
TObjectP == OO(<< <<"type", S("object")>>, <<"properties", OO(<< <<"p", TInteger>> >>)>> >>)
RespD == OO(<< <<sDescr, S("d")>> >>)
UrlBad == S(Join(cUrlBad))
(* an object schema whose one property is required and readOnly / writeOnly, and the two values that matter *)
SFlag(k, flag) == OO(<< <<"type", S("object")>>, <<"properties", OO(<< <<k, OO(<< <<"type", S("string")>>, <<flag, B(TRUE)>> >>)>> >>)>>,
                        <<"required", A(<<S(k)>>)>> >>)
SRo == SFlag("r", "readOnly")
SWo == SFlag("w", "writeOnly")
VPresent(k) == OO(<< <<k, S("x")>> >>)
(* leaves whose verdict depends on the mode of the place (DocRules!ModeOf): the same object is a conforming    *)
(* variant (var = ok) where the mode is outside viol, and a violation of example_mismatch (var = bad) inside  *)
ModeLeaves == {[bad |-> "ro_present", ok |-> "ro_present_ok", viol |-> {"req"},        sch |-> SRo, val |-> VPresent("r")],
               [bad |-> "ro_absent",  ok |-> "ro_absent_ok",  viol |-> {"res", "any"}, sch |-> SRo, val |-> EmptyO],
               [bad |-> "wo_present", ok |-> "wo_present_ok", viol |-> {"res"},        sch |-> SWo, val |-> VPresent("w")],
               [bad |-> "wo_absent",  ok |-> "wo_absent_ok",  viol |-> {"req", "any"}, sch |-> SWo, val |-> EmptyO]}
PresentLeaves == {m \in ModeLeaves : m.bad \in {"ro_present", "wo_present"}}
ModeGoods(ms, Obj(_)) == {[rule |-> "none", var |-> m.ok, obj |-> Obj(m), comps |-> <<>>] : m \in ms}
ModeBads(ms, Obj(_)) == {[rule |-> "example_mismatch", var |-> m.bad, obj |-> Obj(m), comps |-> <<>>] : m \in ms}
MtWith(m) == OO(<< <<"schema", m.sch>>, <<"example", m.val>> >>)
MtWithMap(m) == OO(<< <<"schema", m.sch>>, <<"examples", OO(<< <<"e", OO(<< <<"value", m.val>> >>)>> >>)>> >>)
MapLeaves == {[m EXCEPT !.bad = "map_" \o m.bad, !.ok = "map_" \o m.ok] : m \in PresentLeaves}
SchWith(m) == With(m.sch, << <<"example", m.val>> >>)
ParamWith(m) == OO(<< <<"name", S("q")>>, <<"in", S("query")>>, <<"schema", m.sch>>, <<"example", m.val>> >>)
WoPresent == CHOOSE m \in ModeLeaves : m.bad = "wo_present"
RoPresent == CHOOSE m \in ModeLeaves : m.bad = "ro_present"
Scopes == OO(<< <<"s", S("d")>> >>)

RECURSIVE Min0(_)
Min0(kind) ==
   CASE kind = "root" -> OO(<< <<"openapi", S("3.0.3")>>, <<"info", Min0("info")>>, <<"paths", EmptyO>> >>)
     [] kind = "info" -> OO(<< <<"title", S("t")>>, <<"version", S("1")>> >>)
     [] kind = "contact" -> OO(<< <<"name", S("n")>> >>)
     [] kind = "license" -> OO(<< <<"name", S("n")>> >>)
     [] kind = "tag" -> OO(<< <<"name", S("g")>> >>)
     [] kind = "server" -> OO(<< <<"url", UrlPlain>> >>)
     [] kind = "serverVariable" -> OO(<< <<"default", S("d")>> >>)
     [] kind = "operation" -> OO(<< <<"responses", OO(<< <<"200", RespD>> >>)>> >>)
     [] kind = "parameter" -> OO(<< <<"name", S("q")>>, <<"in", S("query")>>, <<"schema", TString>> >>)
     [] kind = "header" -> OO(<< <<"schema", TString>> >>)
     [] kind = "requestBody" -> OO(<< <<"content", OO(<< <<"application/json", Min0("mediaType")>> >>)>> >>)
     [] kind = "response" -> RespD
     [] kind = "mediaType" -> OO(<< <<"schema", TString>> >>)
     [] kind = "encoding" -> OO(<< <<"contentType", S("text/plain")>> >>)
     [] kind = "schema" -> TString
     [] kind = "discriminator" -> OO(<< <<"propertyName", S("p")>> >>)
     [] kind = "xml" -> OO(<< <<"name", S("n")>> >>)
     [] kind = "externalDocs" -> OO(<< <<"url", UrlPlain>> >>)
     [] kind = "example" -> OO(<< <<"value", S("x")>> >>)
     [] kind = "link" -> OO(<< <<"operationId", S("op")>> >>)
     [] kind = "securityScheme" -> OO(<< <<"type", S("http")>>, <<"scheme", S("basic")>> >>)
     [] kind = "oauthFlows" -> OO(<< <<"implicit", Min0("flowImplicit")>> >>)
     [] kind = "flowImplicit" -> OO(<< <<"authorizationUrl", UrlPlain>>, <<"scopes", Scopes>> >>)
     [] kind = "flowPassword" -> OO(<< <<"tokenUrl", UrlPlain>>, <<"scopes", Scopes>> >>)
     [] kind = "flowClient" -> OO(<< <<"tokenUrl", UrlPlain>>, <<"scopes", Scopes>> >>)
     [] kind = "flowCode" -> OO(<< <<"authorizationUrl", UrlPlain>>, <<"tokenUrl", UrlPlain>>, <<"scopes", Scopes>> >>)
     [] OTHER -> EmptyO          \* components, paths, callback, pathItem

MinTab == [k \in Kinds |-> Min0(k)]
Min(kind) == MinTab[kind]

(* a conforming neighbour for position 2 of an array or map *)
Sibling(kind) == IF kind = "parameter" THEN Set(Min(kind), "name", S("s")) ELSE Min(kind)

(*---------------------- conforming variants per kind ----------------------*)
(* comps: components the leaf refers to, as <<section, name, object>>, added to the document's components *)
GC(var, obj, comps) == [rule |-> "none", var |-> var, obj |-> obj, comps |-> comps]
BdC(rule, var, obj, comps) == [rule |-> rule, var |-> var, obj |-> obj, comps |-> comps]
G(var, obj) == GC(var, obj, <<>>)
Bd(rule, var, obj) == BdC(rule, var, obj, <<>>)

PathParam(name) == OO(<< <<"name", S(name)>>, <<"in", S("path")>>, <<"required", B(TRUE)>>, <<"schema", TString>> >>)
Op == Min("operation")
OpWith(params) == With(OO(<< <<"parameters", A(params)>> >>), << <<"responses", OO(<< <<"200", RespD>> >>)>> >>)
OpId(id) == With(OO(<< <<"operationId", S(id)>> >>), << <<"responses", OO(<< <<"200", RespD>> >>)>> >>)
QParam(style, explode) == OO(<< <<"name", S("q")>>, <<"in", S("query")>>, <<"style", S(style)>>,
                               <<"explode", B(explode)>>, <<"schema", TString>> >>)
InParam(in, style) == OO(<< <<"name", S("q")>>, <<"in", S(in)>>, <<"style", S(style)>>, <<"schema", TString>> >>)
(* component names: ^[a-zA-Z0-9._-]+$ *)
BadNames == {[tag |-> "empty", cs |-> cEmpty], [tag |-> "slash", cs |-> cNameSl], [tag |-> "nonascii", cs |-> cNameUni]}
GoodNames == {[tag |-> "one_char", cs |-> cName1], [tag |-> "dot", cs |-> cNameDots], [tag |-> "dash", cs |-> cNameDash],
              [tag |-> "underscore", cs |-> cNameUnd], [tag |-> "punct", cs |-> cNameMix], [tag |-> "digit_first", cs |-> cNameDig]}
(* parameters given by reference: components.parameters.R0 / R1 *)
PRef(cs) == OO(<< <<"$ref", S(RefStr("parameters", Join(cs)))>> >>)
PComp(cs, obj) == <<"parameters", Join(cs), obj>>
ParamQ == Min("parameter")                        \* (query, q)
ParamS == Set(Min("parameter"), "name", S("s"))   \* (query, s)
(* parameter lists in which the same (in, name) occurs twice, at least once through a reference *)
DupLists == {[var |-> "inline_ref",     ps |-> <<ParamQ, PRef(cNameR)>>,        comps |-> <<PComp(cNameR, ParamQ)>>],
             [var |-> "ref_inline",     ps |-> <<PRef(cNameR), ParamS, ParamQ>>, comps |-> <<PComp(cNameR, ParamQ)>>],
             [var |-> "two_refs",       ps |-> <<PRef(cNameR), PRef(cNameR1)>>, comps |-> <<PComp(cNameR, ParamQ), PComp(cNameR1, ParamQ)>>],
             [var |-> "same_ref_twice", ps |-> <<PRef(cNameR), PRef(cNameR)>>,  comps |-> <<PComp(cNameR, ParamQ)>>]}
(* conforming counterparts: different names through references *)
DistinctLists == {[var |-> "refs_distinct",  ps |-> <<PRef(cNameR), PRef(cNameR1)>>, comps |-> <<PComp(cNameR, ParamQ), PComp(cNameR1, ParamS)>>],
                  [var |-> "inline_and_ref", ps |-> <<ParamS, PRef(cNameR)>>,       comps |-> <<PComp(cNameR, ParamQ)>>],
                  [var |-> "ref_other_in",   ps |-> <<PRef(cNameR), OO(<< <<"name", S("q")>>, <<"in", S("header")>>, <<"schema", TString>> >>)>>,
                                             comps |-> <<PComp(cNameR, ParamQ)>>]}
MtMin == Min("mediaType")
MapModeGoods == {[rule |-> "none", var |-> m.ok, obj |-> MtWithMap(m), comps |-> <<>>] : m \in MapLeaves}
MapModeBads == {[rule |-> "examples_mismatch", var |-> m.bad, obj |-> MtWithMap(m), comps |-> <<>>] : m \in MapLeaves}
WoLeaves == {m \in ModeLeaves : m.bad \in {"wo_present", "wo_absent"}}
Content1 == OO(<< <<"application/json", MtMin>> >>)
Content2 == OO(<< <<"application/json", MtMin>>, <<"text/plain", MtMin>> >>)
ParamContent == OO(<< <<"name", S("q")>>, <<"in", S("query")>>, <<"content", OO(<< <<"application/json", MtMin>> >>)>> >>)
HeaderContent == OO(<< <<"content", OO(<< <<"application/json", MtMin>> >>)>> >>)
ExOK == OO(<< <<"e", Min("example")>> >>)
ExBad == OO(<< <<"e", OO(<< <<"value", N(1)>> >>)>> >>)

(* schemas that refer back to themselves: only meaningful where the leaf is components.schemas.S itself.  Validate walks *)
(* referenced schemas too and must come to an end on a cycle without losing what it finds on the way                    *)
SelfRef == OO(<< <<"$ref", S(RefStr("schemas", Join(cNameS)))>> >>)
OtherRef == OO(<< <<"$ref", S(RefStr("schemas", Join(cNameT)))>> >>)
SelfRec == OO(<< <<"type", S("object")>>, <<"properties", OO(<< <<"p", SelfRef>> >>)>> >>)
MutualRec == OO(<< <<"type", S("object")>>, <<"allOf", A(<<OtherRef>>)>> >>)
BackComp == <<<<"schemas", Join(cNameT), OO(<< <<"type", S("object")>>, <<"properties", OO(<< <<"q", SelfRef>> >>)>> >>)>>>>
SelfRefVars == {"self_recursive", "self_recursive_items", "mutual_recursive"}
(* the variants that are only context-free directly under components.parameters *)
PathOnlyVars == {"path_simple", "path_label", "path_matrix", "path_matrix_explode", "path_simple_explode", "path_not_required", "path_required_false", "path_form"}

Goods0(kind) ==
   {G("min", Min(kind))}
   \cup (IF kind \in FixedKinds THEN {G("ext", With(Min(kind), << <<sExt, N(1)>> >>)),
                                      G("ext_bare", With(Min(kind), << <<Join(cExtBare), N(1)>> >>))} ELSE {})
   \cup
   CASE kind = "root" -> {GC("security_declared", With(Min("root"), << <<"security", A(<<OO(<< <<Join(cNameR), A(<<>>)>> >>)>>)>> >>),
                              <<<<"securitySchemes", Join(cNameR), Min("securityScheme")>>>>)} \cup
                         {G("full", With(Min("root"), << <<"servers", A(<<Min("server")>>)>>,
                               <<"tags", A(<<Min("tag")>>)>>, <<"externalDocs", Min("externalDocs")>>,
                               <<"security", A(<<EmptyO>>)>> >>))}
     [] kind = "info" -> {G("full", With(Min("info"), << <<sDescr, S("d")>>, <<"termsOfService", UrlPlain>>,
                               <<"contact", Min("contact")>>, <<"license", Min("license")>> >>))}
     [] kind = "server" -> {G("var", OO(<< <<"url", S(Join(cUrlVar))>>,
                               <<"variables", OO(<< <<"v", Min("serverVariable")>> >>)>> >>)),
                            \* the URL may use a declared variable more than once
                            G("var_twice", OO(<< <<"url", S(Join(cUrlVar2))>>,
                               <<"variables", OO(<< <<"v", Min("serverVariable")>> >>)>> >>))}
     [] kind = "components" -> {G("dotname", OO(<< <<"schemas", OO(<< <<Join(cNameDot), TString>> >>)>> >>)),
                                \* a header / parameter of the components is in no request body and in no response, whatever else the components hold
                                G("header_example_after_response", OO(<< <<"responses", OO(<< <<Join(cNameR), RespD>> >>)>>,
                                      <<"headers", OO(<< <<Join(cNameS), Drop(ParamWith(WoPresent), {"name", "in"})>> >>)>> >>)),
                                G("header_example_after_request_body", OO(<< <<"requestBodies", OO(<< <<Join(cNameR), Min("requestBody")>> >>)>>,
                                      <<"headers", OO(<< <<Join(cNameS), Drop(ParamWith(RoPresent), {"name", "in"})>> >>)>> >>)),
                                G("header_example_alone", OO(<< <<"headers", OO(<< <<Join(cNameS), Drop(ParamWith(WoPresent), {"name", "in"})>> >>)>> >>))}
          \cup {G(SectionOf(k) \o "_" \o n.tag, OO(<< <<SectionOf(k), OO(<< <<Join(n.cs), Min(k)>> >>)>> >>))
                  : k \in RefKinds, n \in GoodNames}
     [] kind = "paths" ->
          {G("var_op", OO(<< <<Join(cPathId), OO(<< <<"get", OpWith(<<PathParam("id")>>)>> >>)>> >>)),
           G("var_common", OO(<< <<Join(cPathId), OO(<< <<"parameters", A(<<PathParam("id")>>)>>, <<"get", Op>>,
                                                        <<"post", Op>> >>)>> >>)),
           G("var_mixed", OO(<< <<Join(cPathIdK), OO(<< <<"parameters", A(<<PathParam("id")>>)>>,
                                                        <<"put", OpWith(<<PathParam("k")>>)>> >>)>> >>)),
           G("ids_differ_in_case", OO(<< <<Join(cPathP), OO(<< <<"get", OpId("a")>>, <<"post", OpId("A")>> >>)>> >>)),
           G("ids_empty", OO(<< <<Join(cPathP), OO(<< <<"get", OpId("")>>, <<"post", OpId("")>> >>)>> >>)),
           G("two_paths", OO(<< <<Join(cPathP), OO(<< <<"get", OpId("a")>>, <<"post", OpId("b")>> >>)>>,
                                <<Join(cPathQ), OO(<< <<"get", OpId("c")>> >>)>> >>)),
           G("var_two_paths", OO(<< <<Join(cPathId), OO(<< <<"get", OpWith(<<PathParam("id")>>)>> >>)>>,
                                    <<Join(cPathQId), OO(<< <<"get", OpWith(<<PathParam("id")>>)>> >>)>> >>)),
           G("ext_member", OO(<< <<sExt, N(1)>>, <<Join(cPathP), EmptyO>> >>)),
           \* a parameter is in no response, whatever was declared before it
           G("param_example_in_second_path", OO(<< <<Join(cPathP), OO(<< <<"get", Op>> >>)>>,
                                                   <<Join(cPathQ), OO(<< <<"get", OpWith(<<ParamWith(WoPresent)>>)>> >>)>> >>)),
           G("param_example_in_first_path", OO(<< <<Join(cPathP), OO(<< <<"get", OpWith(<<ParamWith(WoPresent)>>)>> >>)>>,
                                                  <<Join(cPathQ), OO(<< <<"get", Op>> >>)>> >>))}
     [] kind = "pathItem" -> {GC(x.var, OO(<< <<"parameters", A(x.ps)>> >>), x.comps) : x \in DistinctLists} \cup
                             {G("param_example_next_to_operation", OO(<< <<"get", Op>>, <<"parameters", A(<<ParamWith(WoPresent)>>)>> >>)),
                              G("texts", OO(<< <<"summary", S("s")>>, <<sDescr, S("d")>> >>)),
                              G("same_name_other_in", OO(<< <<"parameters", A(<<Min("parameter"),
                                     OO(<< <<"name", S("q")>>, <<"in", S("header")>>, <<"schema", TString>> >>)>>)>> >>))}
     [] kind = "operation" -> {GC(x.var, OpWith(x.ps), x.comps) : x \in DistinctLists} \cup
                              {G("param_example_before_request_body", With(OO(<< <<"parameters", A(<<ParamWith(RoPresent)>>)>>,
                                     <<"requestBody", Min("requestBody")>> >>), << <<"responses", OO(<< <<"200", RespD>> >>)>> >>))} \cup
                              {G("response_codes", OO(<< <<"responses", OO(<< <<"2XX", RespD>>, <<"404", RespD>>, <<"default", RespD>> >>)>> >>))} \cup
                              {G("full", With(OO(<< <<"operationId", S("o")>>, <<"tags", A(<<S("g")>>)>>,
                                     <<"summary", S("s")>>, <<"deprecated", B(TRUE)>>, <<"security", A(<<EmptyO>>)>> >>),
                                     << <<"responses", OO(<< <<"default", RespD>> >>)>> >>)),
                               G("same_name_other_in", OpWith(<<Min("parameter"),
                                     OO(<< <<"name", S("q")>>, <<"in", S("cookie")>>, <<"schema", TString>> >>)>>))}
     [] kind = "parameter" ->
          {G("form_false", QParam("form", FALSE)), G("form_true", QParam("form", TRUE)),
           G("space", QParam("spaceDelimited", FALSE)), G("space_true", QParam("spaceDelimited", TRUE)),
           G("pipe", QParam("pipeDelimited", TRUE)), G("pipe_false", QParam("pipeDelimited", FALSE)),
           G("deep", QParam("deepObject", TRUE)),
           G("header_simple_false", OO(<< <<"name", S("q")>>, <<"in", S("header")>>, <<"style", S("simple")>>,
                                          <<"explode", B(FALSE)>>, <<"schema", TString>> >>)),
           G("cookie_explode", OO(<< <<"name", S("q")>>, <<"in", S("cookie")>>, <<"explode", B(TRUE)>>, <<"schema", TString>> >>)),
           G("cookie_noexplode", OO(<< <<"name", S("q")>>, <<"in", S("cookie")>>, <<"style", S("form")>>,
                                       <<"explode", B(FALSE)>>, <<"schema", TString>> >>)),
           G("header", OO(<< <<"name", S("q")>>, <<"in", S("header")>>, <<"explode", B(TRUE)>>, <<"schema", TString>> >>)),
           G("cookie", InParam("cookie", "form")),
           G("content", OO(<< <<"name", S("q")>>, <<"in", S("query")>>, <<"content", Content1>> >>)),
           G("example", With(Min("parameter"), << <<"example", S("x")>> >>)),
           G("examples", With(Min("parameter"), << <<"examples", ExOK>> >>)),
           G("content_example", With(ParamContent, << <<"example", S("x")>> >>)),
           G("content_examples", With(ParamContent, << <<"examples", ExOK>> >>)),
           G("path_simple", PathParam("id")),
           G("path_label", With(PathParam("id"), << <<"style", S("label")>>, <<"explode", B(TRUE)>> >>)),
           G("path_matrix", With(PathParam("id"), << <<"style", S("matrix")>> >>)),
           G("path_matrix_explode", With(PathParam("id"), << <<"style", S("matrix")>>, <<"explode", B(TRUE)>> >>)),
           G("path_simple_explode", With(PathParam("id"), << <<"explode", B(TRUE)>> >>))}
          \cup ModeGoods(WoLeaves, ParamWith)
     [] kind = "header" ->
          {G("explode", With(Min("header"), << <<"style", S("simple")>>, <<"explode", B(TRUE)>> >>)),
           G("content", OO(<< <<"content", Content1>> >>)),
           G("example", With(Min("header"), << <<"example", S("x")>> >>)),
           G("examples", With(Min("header"), << <<"examples", ExOK>> >>)),
           G("content_example", With(HeaderContent, << <<"example", S("x")>> >>)),
           G("content_examples", With(HeaderContent, << <<"examples", ExOK>> >>))}
          \cup ModeGoods({m \in ModeLeaves : m.bad \in {"wo_present", "wo_absent"}}, LAMBDA m : Drop(ParamWith(m), {"name", "in"}))
     [] kind = "requestBody" -> {G("full", With(Min("requestBody"), << <<"required", B(TRUE)>>, <<sDescr, S("d")>> >>)),
                                 G("two_types", OO(<< <<"content", Content2>> >>)),
                                 G("media_ranges", OO(<< <<"content", OO(<< <<"*/*", MtMin>>, <<"application/*", MtMin>>,
                                       <<"application/json; charset=utf-8", MtMin>> >>)>> >>))}
     [] kind = "response" -> {G("empty_description", OO(<< <<sDescr, S("")>> >>)),
                              G("full", With(RespD, << <<"headers", OO(<< <<"H", Min("header")>> >>)>>,
                                     <<"content", Content1>>, <<"links", OO(<< <<"L", Min("link")>> >>)>> >>))}
     [] kind = "mediaType" -> ModeGoods(ModeLeaves, MtWith) \cup MapModeGoods \cup
                              {G("example_no_schema", OO(<< <<"example", N(1)>> >>)),
                               G("examples_no_schema", OO(<< <<"examples", ExOK>> >>)),
                               G("empty", EmptyO), G("example", With(MtMin, << <<"example", S("x")>> >>)),
                               G("examples", With(MtMin, << <<"examples", ExOK>> >>)),
                               G("object_example", OO(<< <<"schema", TObjectP>>,
                                     <<"example", OO(<< <<"p", N(1)>> >>)>> >>))}
     [] kind = "encoding" -> {G("style", OO(<< <<"style", S("pipeDelimited")>>, <<"explode", B(FALSE)>> >>)),
                              G("deep", OO(<< <<"style", S("deepObject")>>, <<"explode", B(TRUE)>> >>))}
     [] kind = "schema" ->
          {G("self_recursive", SelfRec), G("self_recursive_items", OO(<< <<"type", S("array")>>, <<"items", SelfRef>> >>)),
           GC("mutual_recursive", MutualRec, BackComp)} \cup
          ModeGoods(PresentLeaves, SchWith) \cup
          {G("format_" \o f, With(TString, << <<"format", S(f)>> >>)) : f \in KnownFormats("string") \ {"date"}} \cup
          {G("empty", EmptyO),
           \* schemas that say nothing about the value: annotations only
           G("texts", OO(<< <<"title", S("t")>>, <<sDescr, S("d")>> >>)),
           G("example_only", OO(<< <<"example", N(1)>> >>)),
           G("default_only", OO(<< <<"default", S("x")>> >>)),
           G("deprecated_only", OO(<< <<"deprecated", B(TRUE)>> >>)),
           G("array", OO(<< <<"type", S("array")>>, <<"items", TString>> >>)),
           G("object", With(TObjectP, << <<"required", A(<<S("p")>>)>>, <<"additionalProperties", B(FALSE)>> >>)),
           G("pattern", With(TString, << <<"pattern", S(Join(cPatOk))>> >>)),
           G("format_date", With(TString, << <<"format", S("date")>> >>)),
           \* a format names a check only on strings, integers and numbers; a pattern only on strings
           G("format_on_boolean", OO(<< <<"type", S("boolean")>>, <<"format", S("zz")>> >>)),
           G("format_without_type", OO(<< <<"format", S("zz")>> >>)),
           G("pattern_on_integer", With(TInteger, << <<"pattern", S(Join(cPatBad))>> >>)),
           G("format_int32", With(TInteger, << <<"format", S("int32")>> >>)),
           G("format_int64", With(TInteger, << <<"format", S("int64")>> >>)),
           G("format_double", OO(<< <<"type", S("number")>>, <<"format", S("double")>> >>)),
           G("format_float", OO(<< <<"type", S("number")>>, <<"format", S("float")>> >>)),
           G("boolean_default", OO(<< <<"type", S("boolean")>>, <<"default", B(TRUE)>> >>)),
           G("readonly", With(TString, << <<"readOnly", B(TRUE)>> >>)),
           G("writeonly", With(TString, << <<"writeOnly", B(TRUE)>>, <<"readOnly", B(FALSE)>> >>)),
           G("nullable_enum", With(TString, << <<"nullable", B(TRUE)>>, <<"enum", A(<<S("x")>>)>> >>)),
           G("default", With(TString, << <<"default", S("x")>> >>)),
           G("default_object", With(TObjectP, << <<"default", OO(<< <<"p", N(1)>> >>)>> >>)),
           G("example", With(TInteger, << <<"example", N(1)>> >>)),
           G("composed", OO(<< <<"allOf", A(<<TString>>)>>, <<"not", TInteger>> >>))}
     [] kind = "externalDocs" -> {G("relative_url", OO(<< <<"url", S("docs/x")>> >>))}
     [] kind = "example" -> {G("external", OO(<< <<"externalValue", UrlPlain>> >>)),
                             G("texts", With(Min("example"), << <<"summary", S("s")>>, <<sDescr, S("d")>> >>))}
     [] kind = "link" -> {G("ref", OO(<< <<"operationRef", S("#/paths/~1p/get")>> >>))}
     [] kind = "securityScheme" ->
          {G("apikey_" \o in, OO(<< <<"type", S("apiKey")>>, <<"name", S("k")>>, <<"in", S(in)>> >>))
              : in \in {"query", "header", "cookie"}}
          \cup {G("http_" \o sc, OO(<< <<"type", S("http")>>, <<"scheme", S(sc)>> >>)) : sc \in {"bearer", "digest", "negotiate"}}
          \cup {G("bearer_format", OO(<< <<"type", S("http")>>, <<"scheme", S("bearer")>>, <<"bearerFormat", S("JWT")>> >>)),
                G("oauth2", OO(<< <<"type", S("oauth2")>>, <<"flows", Min("oauthFlows")>> >>)),
                G("oidc", OO(<< <<"type", S("openIdConnect")>>, <<"openIdConnectUrl", UrlPlain>> >>))}
     [] kind = "oauthFlows" -> {G("all", OO(<< <<"implicit", Min("flowImplicit")>>, <<"password", Min("flowPassword")>>,
                                     <<"clientCredentials", Min("flowClient")>>, <<"authorizationCode", Min("flowCode")>> >>))}
     [] kind \in FlowKinds -> {G("refresh", With(Min(kind), << <<"refreshUrl", UrlPlain>> >>))}
     [] OTHER -> {}

(*----------------------- single violations per kind -----------------------*)
Bads0(kind) ==
   (IF kind \in FixedKinds THEN {Bd("extra_field", "bogus", With(Min(kind), << <<sBogus, N(1)>> >>)),
                                     Bd("extra_field", "upper_x", With(Min(kind), << <<Join(cExtUp), N(1)>> >>))} ELSE {})
   \cup
   CASE kind = "root" ->
          {Bd("openapi_missing", "absent", Drop(Min("root"), {"openapi"})),
           Bd("openapi_missing", "empty", Set(Min("root"), "openapi", S(""))),
           Bd("info_missing", "absent", Drop(Min("root"), {"info"})),
           Bd("paths_missing", "absent", Drop(Min("root"), {"paths"}))}
     [] kind = "info" -> {Bd("title_missing", "absent", Drop(Min("info"), {"title"})),
                          Bd("title_missing", "empty", Set(Min("info"), "title", S(""))),
                          Bd("version_missing", "absent", Drop(Min("info"), {"version"}))}
     [] kind = "license" -> {Bd("name_missing", "absent", OO(<< <<"url", UrlPlain>> >>))}
     [] kind = "externalDocs" -> {Bd("url_missing", "absent", OO(<< <<sDescr, S("d")>> >>)),
                                  Bd("url_missing", "empty", OO(<< <<"url", S("")>> >>)),
                                  Bd("url_malformed", "no_scheme", OO(<< <<"url", UrlBad>> >>))}
     [] kind = "server" ->
          {Bd("url_missing", "absent", OO(<< <<sDescr, S("d")>> >>)),
           Bd("url_missing", "empty", OO(<< <<"url", S("")>> >>)),
           Bd("brace_mismatch", "open", OO(<< <<"url", S(Join(cUrlOpen))>> >>)),
           Bd("variable_mismatch", "undeclared", OO(<< <<"url", S(Join(cUrlVar))>> >>)),
           Bd("variable_mismatch", "case", OO(<< <<"url", S(Join(cUrlVar))>>,
                                                 <<"variables", OO(<< <<"V", Min("serverVariable")>> >>)>> >>)),
           Bd("variable_mismatch", "unused", OO(<< <<"url", UrlPlain>>,
                                                   <<"variables", OO(<< <<"v", Min("serverVariable")>> >>)>> >>)),
           \* as many variables declared as there are placeholders, but one placeholder is a repetition and one variable unused
           Bd("variable_mismatch", "repeated_unused", OO(<< <<"url", S(Join(cUrlVar2))>>,
                                                   <<"variables", OO(<< <<"v", Min("serverVariable")>>, <<"w", Min("serverVariable")>> >>)>> >>))}
     [] kind = "serverVariable" -> {Bd("default_missing", "absent", OO(<< <<sDescr, S("d")>> >>))}
     [] kind = "components" ->
          {Bd("bad_component_name", SectionOf(k) \o "_space", OO(<< <<SectionOf(k), OO(<< <<Join(cNameSp), Min(k)>> >>)>> >>))
              : k \in RefKinds}
          \cup {Bd("bad_component_name", SectionOf(k) \o "_" \o n.tag, OO(<< <<SectionOf(k), OO(<< <<Join(n.cs), Min(k)>> >>)>> >>))
                  : k \in RefKinds, n \in BadNames}
          \cup {Bd("bad_component_name", "schemas_dollar", OO(<< <<"schemas", OO(<< <<Join(cNameDol), TString>> >>)>> >>))}
     [] kind = "paths" ->
          {Bd("no_leading_slash", "p", OO(<< <<Join(cPathNoSl), EmptyO>> >>)),
           Bd("no_leading_slash", "empty", OO(<< <<Join(cEmpty), EmptyO>> >>)),
           Bd("no_leading_slash", "variable_first", OO(<< <<Join(cPathVar), EmptyO>> >>)),
           Bd("no_leading_slash", "second_path", OO(<< <<Join(cPathQ), EmptyO>>, <<Join(cPathNoSl), EmptyO>> >>)),
           Bd("template_mismatch", "empty_variable", OO(<< <<Join(cPathEV), OO(<< <<"get", Op>> >>)>> >>)),
           Bd("template_mismatch", "case", OO(<< <<Join(cPathId), OO(<< <<"get", OpWith(<<PathParam("Id")>>)>> >>)>> >>)),
           Bd("template_mismatch", "undeclared", OO(<< <<Join(cPathId), OO(<< <<"get", Op>> >>)>> >>)),
           Bd("template_mismatch", "undeclared_second_op",
              OO(<< <<Join(cPathId), OO(<< <<"get", OpWith(<<PathParam("id")>>)>>, <<"post", Op>> >>)>> >>)),
           Bd("template_mismatch", "extra_op", OO(<< <<Join(cPathP), OO(<< <<"get", OpWith(<<PathParam("id")>>)>> >>)>> >>)),
           Bd("template_mismatch", "extra_common",
              OO(<< <<Join(cPathP), OO(<< <<"parameters", A(<<PathParam("id")>>)>>, <<"get", Op>> >>)>> >>)),
           Bd("template_mismatch", "other_name", OO(<< <<Join(cPathId), OO(<< <<"get", OpWith(<<PathParam("k")>>)>> >>)>> >>)),
           Bd("template_mismatch", "one_of_two", OO(<< <<Join(cPathIdK), OO(<< <<"get", OpWith(<<PathParam("id")>>)>> >>)>> >>)),
           Bd("template_conflict", "renamed",
              OO(<< <<Join(cPathId), OO(<< <<"get", OpWith(<<PathParam("id")>>)>> >>)>>,
                    <<Join(cPathK), OO(<< <<"get", OpWith(<<PathParam("k")>>)>> >>)>> >>)),
           Bd("dup_operation_id", "same_path", OO(<< <<Join(cPathP), OO(<< <<"get", OpId("a")>>, <<"post", OpId("a")>> >>)>> >>)),
           Bd("dup_operation_id", "two_paths", OO(<< <<Join(cPathP), OO(<< <<"get", OpId("a")>> >>)>>,
                                                    <<Join(cPathQ), OO(<< <<"trace", OpId("a")>> >>)>> >>))}
          \cup {Bd("dup_operation_id", "other_path_" \o m, OO(<< <<Join(cPathP), OO(<< <<m, OpId("a")>> >>)>>,
                                                              <<Join(cPathQ), OO(<< <<m, OpId("a")>>, <<"get", OpId("b")>> >>)>> >>))
                  : m \in Methods \ {"get"}}
          \cup {Bd("template_mismatch", "undeclared_" \o m, OO(<< <<Join(cPathId), OO(<< <<m, Op>> >>)>> >>))
                  : m \in Methods \ {"get"}}
     [] kind = "pathItem" -> {BdC("dup_param", x.var, OO(<< <<"parameters", A(x.ps)>> >>), x.comps) : x \in DupLists} \cup
                             {Bd("dup_param", "twice", OO(<< <<"parameters", A(<<Min("parameter"), Min("parameter")>>)>> >>))}
     [] kind = "operation" ->
          {BdC("dup_param", x.var, OpWith(x.ps), x.comps) : x \in DupLists} \cup
          {Bd("dup_param", "twice", OpWith(<<Min("parameter"), Sibling("parameter"), Min("parameter")>>)),
           Bd("responses_missing", "absent", OO(<< <<"summary", S("s")>> >>)),
           Bd("responses_empty", "empty", OO(<< <<"responses", EmptyO>> >>))}
     [] kind = "parameter" ->
          {Bd("name_missing", "absent", Drop(Min("parameter"), {"name"})),
           Bd("name_missing", "empty", Set(Min("parameter"), "name", S(""))),
           Bd("in_invalid", "case", Set(Min("parameter"), "in", S("Query"))),
           Bd("in_invalid", "empty", Set(Min("parameter"), "in", S(""))),
           Bd("bad_style", "case", InParam("query", "Form")),
           Bd("in_invalid", "body", Set(Min("parameter"), "in", S("body"))),
           Bd("in_invalid", "absent", Drop(Min("parameter"), {"in"})),
           Bd("bad_style", "query_simple", InParam("query", "simple")),
           Bd("bad_style", "query_matrix", InParam("query", "matrix")),
           Bd("bad_style", "query_deep_noexplode", QParam("deepObject", FALSE)),
           Bd("bad_style", "header_form", InParam("header", "form")),
           Bd("bad_style", "cookie_simple", InParam("cookie", "simple")),
           Bd("bad_style", "path_form", With(PathParam("id"), << <<"style", S("form")>> >>)),
           Bd("schema_xor_content", "both", With(Min("parameter"), << <<"content", Content1>> >>)),
           Bd("schema_xor_content", "neither", Drop(Min("parameter"), {"schema"})),
           Bd("content_multi", "two", OO(<< <<"name", S("q")>>, <<"in", S("query")>>, <<"content", Content2>> >>)),
           Bd("example_and_examples", "both", With(Min("parameter"), << <<"example", S("x")>>, <<"examples", ExOK>> >>)),
           Bd("example_mismatch", "number", With(Min("parameter"), << <<"example", N(1)>> >>)),
           Bd("examples_mismatch", "number", With(Min("parameter"), << <<"examples", ExBad>> >>)),
           Bd("example_and_examples", "both_with_content", With(ParamContent, << <<"example", S("x")>>, <<"examples", ExOK>> >>)),
           Bd("path_not_required", "path_not_required", Drop(PathParam("id"), {"required"})),
           Bd("path_not_required", "path_required_false", Set(PathParam("id"), "required", B(FALSE)))}
          \cup ModeBads(WoLeaves, ParamWith)
     [] kind = "header" ->
          {Bd("header_has_name", "name", With(Min("header"), << <<"name", S("n")>> >>)),
           Bd("header_has_in", "in", With(Min("header"), << <<"in", S("header")>> >>)),
           Bd("bad_style", "form", With(Min("header"), << <<"style", S("form")>> >>)),
           Bd("schema_xor_content", "both", With(Min("header"), << <<"content", Content1>> >>)),
           Bd("schema_xor_content", "neither", OO(<< <<sDescr, S("d")>> >>)),
           Bd("content_multi", "two", OO(<< <<"content", Content2>> >>)),
           Bd("example_and_examples", "both", With(Min("header"), << <<"example", S("x")>>, <<"examples", ExOK>> >>)),
           Bd("example_mismatch", "number", With(Min("header"), << <<"example", N(1)>> >>)),
           Bd("examples_mismatch", "number", With(Min("header"), << <<"examples", ExBad>> >>)),
           Bd("example_and_examples", "both_with_content", With(HeaderContent, << <<"example", S("x")>>, <<"examples", ExOK>> >>))}
          \cup ModeBads({m \in ModeLeaves : m.bad \in {"wo_present", "wo_absent"}}, LAMBDA m : Drop(ParamWith(m), {"name", "in"}))
     [] kind = "requestBody" -> {Bd("content_missing", "absent", OO(<< <<sDescr, S("d")>> >>))}
     [] kind = "response" -> {Bd("description_missing", "absent", OO(<< <<"content", Content1>> >>))}
     [] kind = "mediaType" ->
          ModeBads(ModeLeaves, MtWith) \cup MapModeBads \cup
          {Bd("example_and_examples", "both_no_schema", OO(<< <<"example", S("x")>>, <<"examples", ExOK>> >>)),
           Bd("example_and_examples", "both", With(MtMin, << <<"example", S("x")>>, <<"examples", ExOK>> >>)),
           Bd("example_mismatch", "number", With(MtMin, << <<"example", N(1)>> >>)),
           Bd("example_mismatch", "property", OO(<< <<"schema", TObjectP>>, <<"example", OO(<< <<"p", S("x")>> >>)>> >>)),
           Bd("examples_mismatch", "number", With(MtMin, << <<"examples", ExBad>> >>))}
     [] kind = "encoding" -> {Bd("bad_style", "simple", OO(<< <<"style", S("simple")>> >>)),
                              Bd("bad_style", "deep_noexplode", OO(<< <<"style", S("deepObject")>>, <<"explode", B(FALSE)>> >>))}
     [] kind = "schema" ->
          {Bd("default_mismatch", "self_recursive", With(SelfRec, << <<"default", N(1)>> >>)),
           Bd("readonly_and_writeonly", "self_recursive_items", OO(<< <<"type", S("array")>>, <<"items", SelfRef>>, <<"readOnly", B(TRUE)>>, <<"writeOnly", B(TRUE)>> >>)),
           BdC("example_mismatch", "mutual_recursive", With(MutualRec, << <<"example", N(1)>> >>), BackComp)} \cup
          ModeBads(PresentLeaves, SchWith) \cup
          {Bd("unknown_format", "int32_on_number", OO(<< <<"type", S("number")>>, <<"format", S("int32")>> >>)),
           Bd("unknown_format", "float_on_integer", With(TInteger, << <<"format", S("float")>> >>)),
           Bd("unknown_format", "int64_on_string", With(TString, << <<"format", S("int64")>> >>)),
           Bd("readonly_and_writeonly", "both", With(TString, << <<"readOnly", B(TRUE)>>, <<"writeOnly", B(TRUE)>> >>)),
           Bd("unknown_type", "case", OO(<< <<"type", S("String")>> >>)),
           Bd("unknown_type", "strin", OO(<< <<"type", S("strin")>> >>)),
           Bd("array_without_items", "array", OO(<< <<"type", S("array")>> >>)),
           Bd("default_mismatch", "number", With(TString, << <<"default", N(1)>> >>)),
           Bd("default_mismatch", "string", With(TInteger, << <<"default", S("x")>> >>)),
           Bd("default_mismatch", "property", With(TObjectP, << <<"default", OO(<< <<"p", S("x")>> >>)>> >>)),
           Bd("example_mismatch", "number", With(TString, << <<"example", N(1)>> >>)),
           Bd("example_mismatch", "items", OO(<< <<"type", S("array")>>, <<"items", TInteger>>,
                                                 <<"example", A(<<N(1), S("x")>>)>> >>)),
           Bd("unknown_format", "string", With(TString, << <<"format", S("zz")>> >>)),
           Bd("unknown_format", "integer", With(TInteger, << <<"format", S("zz")>> >>)),
           Bd("unknown_format", "number", OO(<< <<"type", S("number")>>, <<"format", S("zz")>> >>)),
           Bd("default_mismatch", "boolean", OO(<< <<"type", S("boolean")>>, <<"default", S("x")>> >>)),
           Bd("default_mismatch", "array_item", OO(<< <<"type", S("array")>>, <<"items", TInteger>>,
                                                      <<"default", A(<<S("x")>>)>> >>)),
           Bd("bad_pattern", "paren", With(TString, << <<"pattern", S(Join(cPatBad))>> >>))}
     [] kind = "example" -> {Bd("value_and_external", "both", With(Min("example"), << <<"externalValue", UrlPlain>> >>)),
                             Bd("value_missing", "absent", OO(<< <<"summary", S("s")>> >>))}
     [] kind = "link" -> {Bd("operation_both", "both", With(Min("link"), << <<"operationRef", S("#/paths/~1p/get")>> >>)),
                          Bd("operation_missing", "absent", OO(<< <<sDescr, S("d")>> >>))}
     [] kind = "securityScheme" ->
          {Bd("ss_type", "case", OO(<< <<"type", S("HTTP")>>, <<"scheme", S("basic")>> >>)),
           Bd("ss_apikey_in", "case", OO(<< <<"type", S("apiKey")>>, <<"name", S("k")>>, <<"in", S("Header")>> >>)),
           Bd("ss_apikey_name", "empty", OO(<< <<"type", S("apiKey")>>, <<"name", S("")>>, <<"in", S("header")>> >>)),
           Bd("ss_type", "foo", OO(<< <<"type", S("foo")>> >>)),
           Bd("ss_type", "absent", OO(<< <<sDescr, S("d")>> >>)),
           Bd("ss_apikey_in", "body", OO(<< <<"type", S("apiKey")>>, <<"name", S("k")>>, <<"in", S("body")>> >>)),
           Bd("ss_apikey_in", "absent", OO(<< <<"type", S("apiKey")>>, <<"name", S("k")>> >>)),
           Bd("ss_apikey_name", "absent", OO(<< <<"type", S("apiKey")>>, <<"in", S("header")>> >>)),
           Bd("ss_in_forbidden", "http", With(Min("securityScheme"), << <<"in", S("header")>> >>)),
           Bd("ss_name_forbidden", "http", With(Min("securityScheme"), << <<"name", S("k")>> >>)),
           Bd("ss_http_scheme", "absent", OO(<< <<"type", S("http")>> >>)),
           Bd("ss_bearerformat_forbidden", "basic", With(Min("securityScheme"), << <<"bearerFormat", S("JWT")>> >>)),
           Bd("ss_bearerformat_forbidden", "apikey", OO(<< <<"type", S("apiKey")>>, <<"name", S("k")>>, <<"in", S("query")>>,
                                                           <<"bearerFormat", S("JWT")>> >>)),
           Bd("ss_flows_missing", "absent", OO(<< <<"type", S("oauth2")>> >>)),
           Bd("ss_flows_forbidden", "http", With(Min("securityScheme"), << <<"flows", Min("oauthFlows")>> >>)),
           Bd("ss_oidc_url", "absent", OO(<< <<"type", S("openIdConnect")>> >>))}
     [] kind = "flowImplicit" ->
          {Bd("url_malformed", "authorization", Set(Min(kind), "authorizationUrl", UrlBad)),
           Bd("url_malformed", "refresh", With(Min(kind), << <<"refreshUrl", UrlBad>> >>)),
           Bd("flow_authurl_missing", "absent", Drop(Min(kind), {"authorizationUrl"})),
           Bd("flow_tokenurl_forbidden", "present", With(Min(kind), << <<"tokenUrl", UrlPlain>> >>)),
           Bd("flow_scopes_missing", "absent", Drop(Min(kind), {"scopes"}))}
     [] kind \in {"flowPassword", "flowClient"} ->
          {Bd("url_malformed", "token", Set(Min(kind), "tokenUrl", UrlBad)),
           Bd("url_malformed", "refresh", With(Min(kind), << <<"refreshUrl", UrlBad>> >>)),
           Bd("flow_tokenurl_missing", "absent", Drop(Min(kind), {"tokenUrl"})),
           Bd("flow_authurl_forbidden", "present", With(Min(kind), << <<"authorizationUrl", UrlPlain>> >>)),
           Bd("flow_scopes_missing", "absent", Drop(Min(kind), {"scopes"}))}
     [] kind = "flowCode" ->
          {Bd("url_malformed", "authorization", Set(Min(kind), "authorizationUrl", UrlBad)),
           Bd("url_malformed", "token", Set(Min(kind), "tokenUrl", UrlBad)),
           Bd("flow_authurl_missing", "absent", Drop(Min(kind), {"authorizationUrl"})),
           Bd("flow_tokenurl_missing", "absent", Drop(Min(kind), {"tokenUrl"})),
           Bd("flow_scopes_missing", "absent", Drop(Min(kind), {"scopes"}))}
     [] OTHER -> {}

(* the extra-field rule on every conforming variant of a kind, not only on the minimal one: whatever else an object *)
(* says or does not say, a field that is neither one of its fixed fields nor an x- extension is a violation.       *)
(* Variants that are only conforming in a particular place (ContextVars) are left out.                           *)
ModeVars == {m.bad : m \in ModeLeaves \cup MapLeaves} \cup {m.ok : m \in ModeLeaves \cup MapLeaves}
ContextVars == ModeVars \cup PathOnlyVars \cup SelfRefVars
ExtraOn(kind) ==
   IF kind \in FixedKinds
   THEN {BdC("extra_field", "bogus_on_" \o g.var, With(g.obj, << <<sBogus, N(1)>> >>), g.comps)
           : g \in {x \in Goods0(kind) : x.var \notin ContextVars \cup {"min"}}}
   ELSE {}
LeafTab == [k \in Kinds |-> Goods0(k) \cup Bads0(k) \cup ExtraOn(k)]
Goods(kind) == {x \in LeafTab[kind] : x.rule = "none"}
Bads(kind) == {x \in LeafTab[kind] : x.rule # "none"}

(*------------------------------- embedding --------------------------------*)
(* keys used for the members of a map edge: first and second position *)
MapKeys(kind, f) ==
   CASE f = "content" -> <<"application/json", "text/plain">>
     [] f = "responses" /\ kind = "operation" -> <<"200", "default">>
     [] f = "properties" -> <<"p", "q">>
     [] f = "variables" -> <<"v", "w">>
     [] kind = "components" -> <<Join(cNameS), Join(cNameT)>>
     [] kind = "paths" -> <<Join(cPathP), Join(cPathQ)>>
     [] kind = "callback" -> <<Join(cExpr), Join(cExpr)>>
     [] OTHER -> <<"a", "b">>

(* the minimal conforming object of `kind` prepared to receive a child at member f *)
EmbedBase(kind, f) ==
   CASE kind \in {"parameter", "header"} /\ f = "content" -> Drop(Min(kind), {"schema"})
     [] kind = "server" /\ f = "variables" -> OO(<< <<"url", S(Join(cUrlVar))>> >>)
     [] kind = "pathItem" /\ f = "parameters" -> OO(<< <<"get", Min("operation")>> >>)     \* parameters common to an operation
     [] kind = "schema" /\ f = "items" -> OO(<< <<"type", S("array")>> >>)
     [] kind = "schema" /\ f \in {"properties", "additionalProperties", "discriminator", "xml"} -> OO(<< <<"type", S("object")>> >>)
     [] kind = "schema" /\ f \in {"allOf", "oneOf", "anyOf", "not"} -> EmptyO
     [] kind = "securityScheme" /\ f = "flows" -> OO(<< <<"type", S("oauth2")>> >>)
     [] kind = "oauthFlows" -> EmptyO
     [] kind = "mediaType" /\ f = "encoding" ->
          OO(<< <<"schema", OO(<< <<"type", S("object")>>, <<"properties", OO(<< <<"a", TString>>, <<"b", TString>> >>)>> >>)>> >>)
     [] OTHER -> Min(kind)

(* a step of a location path.  pos 1 / 2: first / second member of an array or map; pos 3: first member below a *)
(* parent schema that carries NO "type" (a schema with items / properties / additionalProperties need not say     *)
(* "array" / "object": the keyword and everything below it is there all the same)                                *)
Ord(pos) == IF pos = 3 THEN 1 ELSE pos
Step(from, e, pos) ==
   [from |-> from, f |-> e.f, mode |-> e.mode, kind |-> e.kind, ref |-> e.ref, pos |-> pos,
    key |-> CASE e.mode = "one" -> ""
              [] e.mode = "arr" -> ToString(Ord(pos) - 1)
              [] OTHER -> MapKeys(from, e.f)[Ord(pos)]]

(* pos 3 also: the examples map of a media type that has no schema, and of a parameter / header described by content *)
BareBase(from, f) == IF from \in {"parameter", "header"} THEN Set(Drop(Min(from), {"schema"}), "content", Content1) ELSE EmptyO
Embed(stp, child) ==
   LET st   == [stp EXCEPT !.pos = Ord(@)]
       base == IF stp.pos = 3 THEN BareBase(st.from, st.f) ELSE EmbedBase(st.from, st.f)
       sib  == Sibling(st.kind)
       keys == MapKeys(st.from, st.f) IN
   CASE st.mode = "one" -> Set(base, st.f, child)
     [] st.mode = "arr" -> Set(base, st.f, IF st.pos = 1 THEN A(<<child>>) ELSE A(<<sib, child>>))
     [] st.mode = "map" -> Set(base, st.f, IF st.pos = 1 THEN OO(<< <<keys[1], child>> >>)
                                           ELSE OO(<< <<keys[1], sib>>, <<keys[2], child>> >>))
     [] st.mode = "self" -> IF st.pos = 1 THEN Set(base, keys[1], child)
                            ELSE Set(Set(base, keys[1], sib), keys[2], child)

ViaOfPath(path) == [i \in DOMAIN path |-> <<path[i].from, path[i].f>>]
StepPtr(st) == CASE st.mode = "one" -> <<st.f>> [] st.mode = "self" -> <<st.key>> [] OTHER -> <<st.f, st.key>>
RECURSIVE PtrOf(_)
PtrOf(path) == IF path = <<>> THEN <<>> ELSE StepPtr(Head(path)) \o PtrOf(Tail(path))

RECURSIVE Wrap(_, _)
Wrap(path, leafObj) == IF path = <<>> THEN leafObj ELSE Embed(Head(path), Wrap(Tail(path), leafObj))

KindAt(path) == IF path = <<>> THEN "root" ELSE path[Len(path)].kind

(*------------------------------- leaves -----------------------------------*)
RefRules == {"ref_ok", "ref_sibling", "ref_sibling_zzz", "ref_ext_sibling", "dangling_ref", "unresolved"}
RefName == Join(cNameR)
RefLeafObj(kind, rule) ==
   LET r == P("$ref", S(RefStr(SectionOf(kind), IF rule = "dangling_ref" THEN "Missing" ELSE RefName))) IN
   CASE rule = "ref_sibling"     -> O(<<r, P(sDescr, S("d"))>>)
     [] rule = "ref_sibling_zzz" -> O(<<P("zzz", S("d")), r>>)
     [] rule = "ref_ext_sibling" -> O(<<r, P(sExt, N(1))>>)
     [] OTHER -> O(<<r>>)

NullLeaf == [rule |-> "null_member", var |-> "null"]
LeafChoices(path) ==
   LET kind == KindAt(path) IN
   {[rule |-> x.rule, var |-> x.var] : x \in LeafTab[kind]}
   \cup (IF path # <<>> /\ path[Len(path)].mode \in {"arr", "map"} /\ kind \in NullRefused THEN {NullLeaf} ELSE {})
   \cup (IF path # <<>> /\ path[Len(path)].ref THEN {[rule |-> r, var |-> "ref"] : r \in RefRules} ELSE {})

LeafObj(kind, leaf) ==
   IF leaf = NullLeaf THEN Z
   ELSE IF leaf.rule \in RefRules THEN RefLeafObj(kind, leaf.rule)
   ELSE (CHOOSE x \in LeafTab[kind] : x.rule = leaf.rule /\ x.var = leaf.var).obj

LeafComps(kind, leaf) ==
   IF leaf.rule \in RefRules \/ leaf = NullLeaf THEN <<>>
   ELSE (CHOOSE x \in LeafTab[kind] : x.rule = leaf.rule /\ x.var = leaf.var).comps
RECURSIVE AddComps(_, _)
AddComps(d, comps) ==
   IF comps = <<>> THEN d
   ELSE AddComps(SetIn(d, <<"components", Head(comps)[1], Head(comps)[2]>>, Head(comps)[3]), Tail(comps))

(* the document of a case; a reference leaf brings its target component along, and so does a leaf that *)
(* refers to components itself                                                                         *)
Doc(path, leaf) ==
   LET kind == KindAt(path)
       d == AddComps(Wrap(path, LeafObj(kind, leaf)), LeafComps(kind, leaf)) IN
   IF leaf.rule \in RefRules \ {"dangling_ref"}
   THEN SetIn(d, <<"components", SectionOf(kind), RefName>>, Min(kind))
   ELSE d

(* what the judge must find in Doc(path, leaf) *)
XV(rule, kind, at) == [rule |-> rule, kind |-> kind, at |-> at]
Expected(path, leaf) ==
   LET kind == KindAt(path) IN
   CASE leaf.rule \in {"none", "ref_ok", "unresolved"} -> {}
     [] leaf.rule = "ref_sibling_zzz" -> {XV("ref_sibling", kind, PtrOf(path))}
     [] OTHER -> {XV(leaf.rule, kind, PtrOf(path))}
Strip(Vs) == {XV(v.rule, v.kind, v.at) : v \in Vs}
=============================================================================
