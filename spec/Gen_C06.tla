------------------------------- MODULE Gen_C06 -------------------------------
EXTENDS BodyCheck, Json, CSV, SequencesExt

JsonFamily == {Json, JsonUtf8, AppWild, AnyWild}
DeclSets == {d \in SUBSET JsonFamily : d # {} /\ Cardinality(d) <= 3}
(* a structured-suffix type (RFC 6839) is a media type of its own: "application/problem+json" is declared only by an   *)
(* entry that spells it, by application/* or by */*, never by application/json                                          *)
ProblemJson == MT("application", "problem+json", "")
Hdrs == {[absent |-> TRUE], Json, JsonUtf8, JsonAscii, Text, ProblemJson}

N(q) == Num(q)
St(cs) == Str(cs)
(* abstract bodies of the decode part; "garbage" marks a field whose text is not of its declared type *)
ObjVals == {
   Obj(<<"n", "s">>, <<N(4), St(<<"a">>)>>),
   Obj(<<"l", "n">>, <<Arr(<<N(4), N(8)>>), N(4)>>),
   Obj(<<"l", "n">>, <<Arr(<<N(12)>>), N(28)>>),
   Obj(<<"s">>, <<St(<<"a">>)>>),
   Obj(<<"n">>, <<St(<<"x">>)>>),                       \* n is not an integer
   Obj(<<"n", "ro">>, <<N(4), St(<<"v">>)>>),             \* read-only property sent
   Obj(<<"n">>, <<N(4)>>),
   Obj(<<"l", "n">>, <<Arr(<<St(<<"x">>)>>), N(4)>>),     \* an array item is not an integer
   Obj(<<"ls", "s">>, <<Arr(<<St(<<"a">>)>>), St(<<"b">>)>>),              \* an array with exactly one element
   Obj(<<"ls">>, <<Arr(<<St(<<"a">>), St(<<"b">>)>>)>>)
}
(* bodies using the properties that have no type of their own (JSON and urlencoded bodies) *)
UntypedVals == {
   Obj(<<"n", "u1">>, <<N(4), N(8)>>), Obj(<<"n", "u1">>, <<N(4), St(<<"x">>)>>),
   Obj(<<"n", "u3">>, <<N(4), St(<<"a">>)>>), Obj(<<"n", "u3">>, <<N(4), St(<<"z">>)>>) }
TextVals == {St(<<"a">>), St(<<"a", "b", "c">>)}
(* text bodies against the text schemas T1..T7 (most of them without a "type" keyword); "42" is a string too *)
TextVals2 == {St(<<"a">>), St(<<"a", "b">>), St(<<"a", "b", "c">>), St(<<"b">>), St(<<"4", "2">>)}
TextSchemas2 == {"T1", "T2", "T3", "T4", "T5", "T6", "T7"}
IsDigits(v) == v.cs # <<>> /\ \A i \in DOMAIN v.cs : v.cs[i] \in {"0", "1", "2", "3", "4", "5", "6", "7", "8", "9"}
(* multipart bodies whose parts go through the plain-text decoder against a property WITHOUT a type of its own (u3, a bare   *)
(* enum); no number next to it (chosen while multipart text parts were not typed: F-C06-2, repaired by 750547f; bodies with numbers are in the other groups)                          *)
MultiUntypedVals == { Obj(<<"s", "u3">>, <<St(<<"a">>), St(<<"a">>)>>), Obj(<<"s", "u3">>, <<St(<<"a">>), St(<<"z">>)>>), Obj(<<"u3">>, <<St(<<"b">>)>>) }
(* bodies for the wrapped schemas (S1 / S2 / S7 inside compositions, below items / a property) *)
WrapVals == {
   Obj(<<"n", "s">>, <<N(4), St(<<"a">>)>>),
   Obj(<<"n", "ro">>, <<N(4), St(<<"v">>)>>),             \* read-only property sent
   Obj(<<"n", "ro", "wo">>, <<N(4), St(<<"v">>), St(<<"w">>)>>),
   Obj(<<"n", "wo">>, <<N(4), St(<<"w">>)>>),             \* write-only property sent: an ordinary property of a request
   Obj(<<"n">>, <<N(4)>>),
   Obj(<<"n">>, <<St(<<"x">>)>>),                         \* n is not an integer
   Obj(<<"s">>, <<St(<<"a">>)>>),
   \* ... and without a number (chosen while F-C06-2 was open; multipart bodies with numbers are no longer excluded)
   Obj(<<"ro", "s">>, <<St(<<"v">>), St(<<"a">>)>>), Obj(<<"ro", "wo">>, <<St(<<"v">>), St(<<"w">>)>>), Obj(<<"wo">>, <<St(<<"w">>)>>) }
Wraps == {"anyOf", "anyOf2", "oneOf", "allOf", "allOfT", "anyOfT", "oneOfT", "allOfAnyOf", "items", "itemsAnyOf", "prop", "propAnyOf"}
WrapVal(v, w) == CASE w \in {"items", "itemsAnyOf"} -> Arr(<<v>>)
                   [] w \in {"prop", "propAnyOf"} -> Obj(<<"in">>, <<v>>)
                   [] OTHER -> v
(* bodies for S4 / S4a (every field text has exactly one reading that can satisfy an alternative, or none) *)
AltVals == { Obj(<<"by", "ref">>, <<St(<<"n", "a", "m", "e">>), St(<<"a", "b">>)>>),      \* satisfies the string alternative only
             Obj(<<"by", "ref">>, <<St(<<"i", "d">>), N(28)>>),                          \* satisfies the integer alternative
             Obj(<<"by", "ref">>, <<St(<<"i", "d">>), St(<<"a", "b">>)>>),                \* satisfies none
             Obj(<<"by">>, <<St(<<"i", "d">>)>>) }                                       \* ref missing
(* bodies for S5 / S6: an EMPTY string is a value, not an absent property *)
EmptyVals == { Obj(<<"n", "s">>, <<N(4), St(<<>>)>>), Obj(<<"n", "s">>, <<N(4), St(<<"a">>)>>), Obj(<<"n">>, <<N(4)>>),
               \* ... and without a number next to it (chosen while multipart text parts were not typed: F-C06-2, repaired by 750547f; bodies with numbers are in the other groups)
               Obj(<<"s">>, <<St(<<>>)>>), Obj(<<"s">>, <<St(<<"a">>)>>), Obj(<<"ls", "s">>, <<Arr(<<St(<<"a">>)>>), St(<<>>)>>) }

(* ---------------------------------------------------- round 6b ---------------------------------------------------- *)
(* selection over two decoder families (JSON and plain text), entries without a schema, headers that have no decoder *)
DeclFamily2 == {Json, JsonUtf8, AppWild, AnyWild, Text, TextUtf8, TextWild}
DeclSets2 == {d \in SUBSET DeclFamily2 : d # {} /\ Cardinality(d) <= 3}
Hdrs2 == {[absent |-> TRUE], Json, JsonUtf8, JsonAscii, ProblemJson, Text, TextUtf8, TextAscii, Png}
NoneRec == [none |-> TRUE]
DeclSeq(d) == SetToSortSeq(d, LAMBDA a, b : TRUE)
(* strings made of characters that are structure in a urlencoded body (and harmless everywhere else) *)
StructVals == { Obj(<<"s">>, <<St(<<"a", " ", "b">>)>>), Obj(<<"s">>, <<St(<<"a", "+", "b">>)>>), Obj(<<"s">>, <<St(<<"a", "&", "b", "=", "c">>)>>),
                Obj(<<"s">>, <<St(<<"1", "0", "0", "%">>)>>),
                Obj(<<"ls", "s">>, <<Arr(<<St(<<"a", ",", "b">>), St(<<"c">>)>>), St(<<"%", "4", "1">>)>>) }
(* bodies for S8: a property that is itself an object *)
NestVals == { Obj(<<"n", "o">>, <<N(4), Obj(<<"a">>, <<N(4)>>)>>),
              Obj(<<"o", "s">>, <<Obj(<<"a">>, <<St(<<"x">>)>>), St(<<"a">>)>>),          \* o.a is not an integer
              Obj(<<"o">>, <<Obj(<<"b">>, <<N(4)>>)>>) }                                \* o.a (required) is missing
FileVals == { Obj(<<"s">>, <<St(<<"a">>)>>), Obj(<<"ls", "s">>, <<Arr(<<St(<<"a">>)>>), St(<<"b">>)>>), Obj(<<"ls">>, <<Arr(<<St(<<"a">>), St(<<"b">>)>>)>>),
              Obj(<<"ro", "s">>, <<St(<<"v">>), St(<<"a">>)>>) }
(* bodies for S9: booleans, numbers with and without a fraction; texts that are not of the declared type; 4.5 for the integer *)
PrimVals == { Obj(<<"b", "f">>, <<Bool(TRUE), N(18)>>), Obj(<<"b", "n">>, <<Bool(FALSE), N(4)>>), Obj(<<"f">>, <<N(16)>>), Obj(<<"f", "n">>, <<N(-6), N(-8)>>),
              Obj(<<"b">>, <<St(<<"x">>)>>), Obj(<<"f">>, <<St(<<"x">>)>>), Obj(<<"n">>, <<N(18)>>), Obj(<<"b">>, <<N(4)>>) }
(* text/csv bodies in canonical form (no quoting, every record ended by a line feed): the decoded string is the text *)
CsvVals == { St(<<"a", ",", "b", "\n">>), St(<<"a", "\n", "b", "\n">>), St(<<"a", "\n">>) }
(* bodies for S10: arrays of each primitive type, of one item and of several, an item that is not of its type *)
ArrVals == { Obj(<<"l">>, <<Arr(<<N(4), N(8), N(12)>>)>>), Obj(<<"l">>, <<Arr(<<N(4)>>)>>), Obj(<<"ls">>, <<Arr(<<St(<<"a">>), St(<<"b">>)>>)>>),
             Obj(<<"ls">>, <<Arr(<<St(<<"c">>)>>)>>), Obj(<<"ls">>, <<Arr(<<St(<<"a">>), St(<<"z">>)>>)>>),            \* z is not in the items' enum
             Obj(<<"lb">>, <<Arr(<<Bool(TRUE), Bool(FALSE)>>)>>), Obj(<<"lf">>, <<Arr(<<N(6), N(8)>>)>>),
             Obj(<<"l", "ls">>, <<Arr(<<N(4), N(8)>>), Arr(<<St(<<"a">>), St(<<"b">>), St(<<"c">>)>>)>>),
             Obj(<<"l">>, <<Arr(<<N(4), St(<<"x">>)>>)>>), Obj(<<"lf">>, <<Arr(<<St(<<"x">>), N(8)>>)>>) }
(* what may follow a complete JSON value without the text being JSON any more: every kind of token, directly or after white space *)
JsonTails == {"}", "]", ",", ":", "\"s\"", "1", "true", "null", "x", "{", "[", "}}", "] x"}
JsonSeps == {"", " ", "\n"}
(* texts that are not an encoding of any value in the syntax of their media type *)
MalKinds == {<<"json", "truncated">>, <<"json", "trailing">>, <<"json", "two">>, <<"json", "bareword">>, <<"json", "trailcomma">>, <<"json", "empty_ws">>,
             <<"form", "badpct">>, <<"form", "badpct_end">>,
             <<"multipart", "noboundary">>, <<"multipart", "nofinal">>, <<"multipart", "nodisp">>, <<"multipart", "notmultipart">>,
             <<"yaml", "unclosed">>, <<"yaml", "tabindent">>}

VARIABLE case
Init ==
   \* ---- round 6b: selection with bare entries / a second decoder family; the selected entry is still observable through the verdict ----
   \/ \E d \in DeclSets2, h \in Hdrs2, bk \in DeclFamily2, bare \in DeclFamily2 \cup {NoneRec} :
        /\ bk \in d /\ (bare = NoneRec \/ bare \in d)
        \* left open: an entry WITH a schema selected for a body no decoder is registered for (no Content-Type at all, image/png)
        /\ (("absent" \in DOMAIN h \/ h = Png) => (IsNone(Select(d, h)) \/ Select(d, h) = bare))
        /\ case = [part |-> "select", decl |-> DeclSeq(d), hdr |-> h, hdrText |-> (IF "absent" \in DOMAIN h THEN "" ELSE Render(h)), required |-> TRUE,
                   bodyKey |-> bk, empty |-> FALSE, declText |-> [i \in 1..Cardinality(d) |-> Render(DeclSeq(d)[i])], bare |-> bare]
   \* no body bytes (in every form a server or client hands one over) x required x any header, declared or not
   \/ \E d \in {{Json}, {AnyWild}, {Json, Text}}, h \in {[absent |-> TRUE], Json, Text, Png}, req \in BOOLEAN, ef \in {"nil", "nobody", "reader", "unsized"} :
        case = [part |-> "select", decl |-> DeclSeq(d), hdr |-> h, hdrText |-> (IF "absent" \in DOMAIN h THEN "" ELSE Render(h)), required |-> req,
                bodyKey |-> DeclSeq(d)[1], empty |-> TRUE, declText |-> [i \in 1..Cardinality(d) |-> Render(DeclSeq(d)[i])], bare |-> NoneRec, emptyForm |-> ef]
   \* a parameter on the declared key and / or on the Content-Type header of every decoder family that has one
   \* (entry: the body check called on its own / as part of ValidateRequest)
   \/ \E fam \in {"json", "form", "text", "yaml", "octet"}, dp \in {"", "charset=utf-8"}, hp \in {"", "charset=utf-8", "charset=ascii"}, good \in BOOLEAN, en \in {"body", "request"} :
        case = [entry |-> en, part |-> "decode", family |-> fam, schema |-> (IF fam \in {"text", "octet"} THEN "T3" ELSE "S2"),
                v |-> (IF fam \in {"text", "octet"} THEN (IF good THEN St(<<"a", "b">>) ELSE St(<<"a">>))
                       ELSE (IF good THEN Obj(<<"n", "s">>, <<N(4), St(<<"a">>)>>) ELSE Obj(<<"n", "ro">>, <<N(4), St(<<"v">>)>>))),
                excludeRO |-> FALSE, enc |-> "default", clen |-> "known", setDefaults |-> FALSE, declPar |-> dp, hdrPar |-> hp]
   \* strings made of the structure characters of a urlencoded body, in both spellings of a space (+ / %20; every other byte escaped)
   \/ \E fam \in {"json", "form", "multipart", "yaml"}, v \in StructVals, sp \in {"plus", "pct"} :
        /\ (sp = "pct" => fam = "form")
        /\ case = [part |-> "decode", family |-> fam, schema |-> "S2", v |-> v, excludeRO |-> FALSE, enc |-> "default", clen |-> "known", setDefaults |-> FALSE, spell |-> sp]
   \* multipart parts that say what they are: application/json parts (typed values, a nested object), file parts (filename, application/octet-stream);
   \* boundary spellings (generated / one that has to be quoted in the header / one character)
   \* encCT: the media type also declares, per property, the Content-Type its part is sent with (Encoding Object contentType)
   \/ \E sc \in {"S1", "S2", "S8"}, v \in ObjVals \cup NestVals \cup FileVals, pct \in {"json", "file"}, bd \in {"default", "quoted", "short"}, xro \in BOOLEAN, ect \in BOOLEAN :
        /\ (sc = "S8" <=> v \in NestVals)
        /\ (pct = "file" <=> v \in FileVals)
        /\ (bd # "default" => ~xro)
        /\ (ect => bd = "default")
        /\ case = [part |-> "decode", family |-> "multipart", schema |-> sc, v |-> v, excludeRO |-> xro, enc |-> "default", clen |-> "known",
                   setDefaults |-> FALSE, partCT |-> pct, boundary |-> bd, encCT |-> ect]
   \* the object-valued property through the other decoders that can carry one
   \/ \E fam \in {"json", "yaml"}, v \in NestVals :
        case = [part |-> "decode", family |-> fam, schema |-> "S8", v |-> v, excludeRO |-> FALSE, enc |-> "default", clen |-> "known", setDefaults |-> FALSE]
   \* the same value in another spelling of its syntax: JSON pretty-printed with white space around it / every character of every string and key as a
   \* \u escape; YAML in flow style
   \/ \E fs \in {<<"json", "pretty">>, <<"json", "escaped">>, <<"yaml", "flow">>}, sc \in {"S1", "S2"}, v \in ObjVals \cup StructVals :
        case = [part |-> "decode", family |-> fs[1], schema |-> sc, v |-> v, excludeRO |-> FALSE, enc |-> "default", clen |-> "known", setDefaults |-> FALSE, textForm |-> fs[2]]
   \* the other names the library registers the JSON / YAML decoders under (declared and sent under that name)
   \/ \E fm \in {<<"json", "application/problem+json">>, <<"json", "application/hal+json">>, <<"json", "application/ld+json">>, <<"json", "application/vnd.api+json">>,
                  <<"json", "application/json-patch+json">>, <<"yaml", "application/x-yaml">>},
         v \in {Obj(<<"n", "s">>, <<N(4), St(<<"a">>)>>), Obj(<<"n", "ro">>, <<N(4), St(<<"v">>)>>), Obj(<<"n">>, <<St(<<"x">>)>>)}, xro \in BOOLEAN :
        case = [part |-> "decode", family |-> fm[1], schema |-> "S2", v |-> v, excludeRO |-> xro, enc |-> "default", clen |-> "known", setDefaults |-> FALSE, mtName |-> fm[2]]
   \* an object-valued property of a urlencoded body, style deepObject (o[a]=4); directly and below a typed allOf
   \/ \E v \in NestVals, w \in {"plain", "allOfT"} :
        case = [part |-> "decode", family |-> "form", schema |-> "S8", wrap |-> w, v |-> v, excludeRO |-> FALSE, enc |-> "deep", clen |-> "known", setDefaults |-> FALSE]
   \* booleans and numbers under every decoder (multipart: bare parts and application/json parts)
   \/ \E fam \in {"json", "yaml", "form", "multipart"}, v \in PrimVals, pct \in {"none", "json"} :
        /\ (pct = "json" => fam = "multipart")
        \* left open: the text 1 sent for a boolean (a bare text has no type of its own: whether it spells the number or "true" is the reader's choice)
        /\ ((fam = "form" \/ (fam = "multipart" /\ pct = "none")) => ~(HasKey(v, "b") /\ Get(v, "b").t = "num"))
        /\ case = [part |-> "decode", family |-> fam, schema |-> "S9", v |-> v, excludeRO |-> FALSE, enc |-> "default", clen |-> "known", setDefaults |-> FALSE, partCT |-> pct]
   \* text/csv
   \/ \E sc \in {"T3", "T4", "T7"}, v \in CsvVals :
        case = [part |-> "decode", family |-> "csv", schema |-> sc, v |-> v, excludeRO |-> FALSE, enc |-> "default", clen |-> "known", setDefaults |-> FALSE]
   \* the Encoding Object of an array property of a urlencoded body: style alone / explode alone / both / neither, every style x explode the media
   \* type supports, for arrays of every primitive type.  The wire form (one field per item / one joined field) is the one BodyCheck derives.
   \/ \E st \in {"none", "form", "spaceDelimited", "pipeDelimited"}, ex \in {"none", "true", "false"}, v \in ArrVals :
        case = [part |-> "decode", family |-> "form", schema |-> "S10", v |-> v, excludeRO |-> FALSE, enc |-> "obj", clen |-> "known", setDefaults |-> FALSE,
                encStyle |-> st, encExplode |-> ex, wireExplode |-> EffExplode(st, ex), wireDelim |-> StyleDelim(st)]
   \* a complete JSON value (an object / an array) followed by more text: not JSON, whatever follows and however it is separated
   \/ \E lead \in {"obj", "arr"}, sep \in JsonSeps, tail \in JsonTails :
        case = [part |-> "malformed", family |-> "json", kind |-> "tail", schema |-> (IF lead = "obj" THEN "S2" ELSE "E"), lead |-> lead, sep |-> sep, tail |-> tail]
   \* texts that encode nothing: rejected whatever the schema (S2: the object schema; E: the empty schema)
   \/ \E mk \in MalKinds, sc \in {"S2", "E"} :
        /\ (mk[1] \in {"form", "multipart"} => sc = "S2")
        /\ case = [part |-> "malformed", family |-> mk[1], kind |-> mk[2], schema |-> sc]
   \/ \E d \in DeclSets, h \in Hdrs, req \in BOOLEAN, bk \in JsonFamily :
        /\ bk \in d
        /\ ("absent" \in DOMAIN h => AnyWild \notin d)       \* absent header + */* : selected but undecodable, left open
        /\ (h = Text => AnyWild \notin d)                   \* a text body under */* is declared but is not JSON: left open
        /\ case = [part |-> "select", decl |-> SetToSortSeq(d, LAMBDA a, b : TRUE), hdr |-> h,
                   hdrText |-> (IF "absent" \in DOMAIN h THEN "" ELSE Render(h)), required |-> req,
                   bodyKey |-> bk, empty |-> FALSE,
                   declText |-> [i \in 1..Cardinality(d) |-> Render(SetToSortSeq(d, LAMBDA a, b : TRUE)[i])]]
   \/ \E req \in BOOLEAN :
        case = [part |-> "select", decl |-> <<Json>>, hdr |-> Json, hdrText |-> Render(Json), required |-> req,
                bodyKey |-> Json, empty |-> TRUE, declText |-> <<Render(Json)>>]
   \/ \E fam \in {"json", "form", "multipart", "yaml"}, sc \in {"S1", "S2", "S3"}, v \in ObjVals \cup UntypedVals, xro \in BOOLEAN, enc \in {"default", "lNonExplode", "pipe", "space"},
         cl \in {"known", "unknown"}, dflt \in BOOLEAN :       \* unknown: a body whose length net/http does not know (ContentLength 0, e.g. a pipe)
        /\ (enc # "default" => fam = "form")             \* per-property encoding of a urlencoded body: form / pipeDelimited / spaceDelimited, not exploded
        /\ (enc \in {"pipe", "space"} => (cl = "known" /\ (HasKey(v, "l") \/ HasKey(v, "ls"))))
        /\ (fam = "yaml" => cl = "known")
        /\ (v \in UntypedVals => fam \in {"json", "form", "yaml"})
        /\ (dflt => (sc = "S3" /\ cl = "known"))          \* dflt: defaults are installed during validation (SkipSettingDefaults off)
        /\ (sc = "S3" => enc = "default")
        /\ case = [part |-> "decode", family |-> fam, schema |-> sc, v |-> v, excludeRO |-> xro, enc |-> enc, clen |-> cl, setDefaults |-> dflt]
   \/ \E fam \in {"json", "form", "multipart", "yaml"}, sc \in {"S4", "S4a"}, v \in AltVals :
        /\ case = [part |-> "decode", family |-> fam, schema |-> sc, v |-> v, excludeRO |-> FALSE, enc |-> "default", clen |-> "known", setDefaults |-> FALSE]
   \/ \E fam \in {"json", "form", "multipart", "yaml"}, sc \in {"S5", "S6"}, v \in EmptyVals :
        /\ (fam = "form" => ~\E i \in DOMAIN v.v : v.v[i] = St(<<>>))   \* "s=" in a urlencoded body: the open region "empty values" (as for parameters)
        /\ case = [part |-> "decode", family |-> fam, schema |-> sc, v |-> v, excludeRO |-> TRUE, enc |-> "default", clen |-> "known", setDefaults |-> FALSE]
   \* the JSON text "null" as the body: present, so never "missing"; accepted exactly when the schema is nullable
   \/ \E fam \in {"json", "yaml"}, sc \in {"SN", "S2"}, v \in {Null, Obj(<<"n">>, <<N(4)>>)}, req \in BOOLEAN :
        case = [part |-> "decode", family |-> fam, schema |-> sc, v |-> v, excludeRO |-> TRUE, enc |-> "default", clen |-> "known",
                setDefaults |-> FALSE, bodyRequired |-> req]
   \/ \E v \in TextVals :
        case = [part |-> "decode", family |-> "text", schema |-> "text", v |-> v, excludeRO |-> FALSE, enc |-> "default", clen |-> "known", setDefaults |-> FALSE]
   \* text/plain bodies against schemas with and without a "type" keyword
   \/ \E fam \in {"text", "octet", "zip"}, sc \in TextSchemas2, v \in TextVals2 :      \* octet: application/octet-stream, the body bytes as a string;
                                                                                      \* zip: the library's opt-in ZipFileBodyDecoder registered for application/zip, an archive of one file
        /\ (sc = "T6" => ~IsDigits(v))                  \* left open: whether the text 42 is an integer for a text/plain body
        /\ case = [part |-> "decode", family |-> fam, schema |-> sc, v |-> v, excludeRO |-> FALSE, enc |-> "default", clen |-> "known", setDefaults |-> FALSE]
   \* multipart parts decoded as plain text (no part Content-Type, or text/plain spelled out) against typed and untyped properties
   \/ \E sc \in {"S1", "S2"}, v \in MultiUntypedVals \cup {Obj(<<"s">>, <<St(<<"a">>)>>), Obj(<<"ls", "s">>, <<Arr(<<St(<<"a">>)>>), St(<<"b">>)>>)},
         pct \in {"none", "text"}, xro \in BOOLEAN :
        /\ (pct = "none" => v \in MultiUntypedVals)      \* (the typed bodies without a part Content-Type are in the first group)
        /\ case = [part |-> "decode", family |-> "multipart", schema |-> sc, v |-> v, excludeRO |-> xro, enc |-> "default", clen |-> "known",
                   setDefaults |-> FALSE, partCT |-> pct]
   \* the object schema inside a composition / below items / below a property, x the read-only exclusion option
   \/ \E fam \in {"json", "form", "multipart", "yaml"}, sc \in {"S1", "S2", "S7"}, w \in Wraps \cup {"plain"}, v \in WrapVals, xro \in BOOLEAN :
        /\ (fam \in {"form", "multipart"} => w \in {"allOfT", "anyOfT", "oneOfT"})   \* the form decoders ask for "type: object" at the top (multipart below anyOf / oneOf: F-C06-6)
        /\ (w = "plain" => sc = "S7")                   \* (S1 / S2 unwrapped are the first group)
        /\ (HasKey(v, "wo") => sc = "S7")
        /\ (HasKey(v, "s") => sc # "S7")                \* S7 does not declare s: an undeclared field of a form body has no declared shape to decode by (left open)
        /\ case = [part |-> "decode", family |-> fam, schema |-> sc, wrap |-> w, v |-> WrapVal(v, w), excludeRO |-> xro, enc |-> "default", clen |-> "known",
                   setDefaults |-> FALSE]
Next == UNCHANGED case
Spec == Init /\ [][Next]_case
(* the decode cases carry the abstract schema: the realiser builds the document from it *)
Emit == CSVWrite("%1$s", <<ToJson(IF case.part = "decode" THEN case @@ [sch |-> SchemaOf(case)]
                                  ELSE IF case.part = "malformed" THEN case @@ [sch |-> IF case.schema = "E" THEN [nullable |-> TRUE] ELSE S2]
                                  ELSE case)>>, "cases.ndjson")

(* D: selection is a function with the documented precedence *)
SelectLaws ==
   \A d \in DeclSets, h \in Hdrs \ {[absent |-> TRUE]} :
      /\ (h \in d => Select(d, h) = h)
      /\ (h \notin d /\ Strip(h) \in d => Select(d, h) = Strip(h))
      /\ (Select(d, h) = AnyWild => h \notin d /\ Strip(h) \notin d /\ MT(h.ty, "*", "") \notin d)
ASSUME SelectLaws

(* D: the request-side reading is compositional -- an object schema judges a body the same way wherever it sits: as the  *)
(* only object alternative of a composition, below items, below a property; with and without the read-only exclusion.   *)
WrapLaws ==
   \A sc \in {S1, S2, S7}, w \in Wraps \ {"anyOf2"}, v \in WrapVals, side \in {"asreq", "asreq_noro", "plain"} :
      Valid(Wrap(sc, w), WrapVal(v, w), side) = Valid(sc, v, side)
(* ... and the exclusion option only ever admits more: it changes the verdict exactly for bodies that carry a read-only property *)
ExclusionLaws ==
   \A sc \in {S1, S2, S7}, w \in Wraps \cup {"plain"}, v \in WrapVals :
      /\ (Valid(Wrap(sc, w), WrapVal(v, w), "asreq") => Valid(Wrap(sc, w), WrapVal(v, w), "asreq_noro"))
      /\ (~HasKey(v, "ro") => (Valid(Wrap(sc, w), WrapVal(v, w), "asreq") = Valid(Wrap(sc, w), WrapVal(v, w), "asreq_noro")))
ASSUME WrapLaws
ASSUME ExclusionLaws

(* D: the precedence over the two-family universe: the selected entry is always a declared one; each level is reached exactly  *)
(* when every level before it fails; nothing is selected exactly when all four fail; no header selects */* or nothing.          *)
SelectLaws2 ==
   /\ \A d \in DeclSets2, h \in Hdrs2 \ {[absent |-> TRUE]} :
         LET sel == Select(d, h) IN
         /\ (~IsNone(sel) => sel \in d)
         /\ (h \in d => sel = h)
         /\ (h \notin d /\ Strip(h) \in d => sel = Strip(h))
         /\ (h \notin d /\ Strip(h) \notin d /\ MT(h.ty, "*", "") \in d => sel = MT(h.ty, "*", ""))
         /\ (IsNone(sel) <=> (h \notin d /\ Strip(h) \notin d /\ MT(h.ty, "*", "") \notin d /\ AnyWild \notin d))
   /\ \A d \in DeclSets2 : Select(d, [absent |-> TRUE]) = (IF AnyWild \in d THEN AnyWild ELSE NoneRec)
ASSUME SelectLaws2
(* D: a parameter on the Content-Type header or on the declared key decides only WHETHER the entry is selected: it is selected *)
(* unless the key carries a parameter the header does not spell the same way.                                                    *)
CtLaws ==
   \A b \in {Json, Form, Text, Yaml, Octet}, dp \in {"", "charset=utf-8"}, hp \in {"", "charset=utf-8", "charset=ascii"} :
      IsNone(Select({[b EXCEPT !.par = dp]}, [b EXCEPT !.par = hp])) <=> (dp # "" /\ dp # hp)
ASSUME CtLaws
=============================================================================
