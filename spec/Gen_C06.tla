------------------------------- MODULE Gen_C06 -------------------------------
EXTENDS BodyCheck, Json, CSV, SequencesExt

JsonFamily == {Json, JsonUtf8, AppWild, AnyWild}
DeclSets == {d \in SUBSET JsonFamily : d # {} /\ Cardinality(d) <= 3}
(* a structured-suffix type (RFC 6839) is a media type of its own: "application/problem+json" is declared only by an   *)
(* entry that spells it, by application/* or by */*, never by application/json                                          *)
ProblemJson == MT("application", "problem+json", "")
Hdrs == {[absent |-> TRUE], Json, JsonUtf8, JsonAscii, Text, ProblemJson}

N(q) == Num(q)
St(cs) == Str(cs)
(* abstract bodies of the decode part; "garbage" marks a field whose text is not of its declared type *)
ObjVals == {
   Obj(<<"n", "s">>, <<N(4), St(<<"a">>)>>),
   Obj(<<"l", "n">>, <<Arr(<<N(4), N(8)>>), N(4)>>),
   Obj(<<"l", "n">>, <<Arr(<<N(12)>>), N(28)>>),
   Obj(<<"s">>, <<St(<<"a">>)>>),
   Obj(<<"n">>, <<St(<<"x">>)>>),                       \* n is not an integer
   Obj(<<"n", "ro">>, <<N(4), St(<<"v">>)>>),             \* read-only property sent
   Obj(<<"n">>, <<N(4)>>),
   Obj(<<"l", "n">>, <<Arr(<<St(<<"x">>)>>), N(4)>>),     \* an array item is not an integer
   Obj(<<"ls", "s">>, <<Arr(<<St(<<"a">>)>>), St(<<"b">>)>>),              \* an array with exactly one element
   Obj(<<"ls">>, <<Arr(<<St(<<"a">>), St(<<"b">>)>>)>>)
}
(* bodies using the properties that have no type of their own (JSON and urlencoded bodies) *)
UntypedVals == {
   Obj(<<"n", "u1">>, <<N(4), N(8)>>), Obj(<<"n", "u1">>, <<N(4), St(<<"x">>)>>),
   Obj(<<"n", "u3">>, <<N(4), St(<<"a">>)>>), Obj(<<"n", "u3">>, <<N(4), St(<<"z">>)>>) }
TextVals == {St(<<"a">>), St(<<"a", "b", "c">>)}
(* bodies for S4 / S4a (every field text has exactly one reading that can satisfy an alternative, or none) *)
AltVals == { Obj(<<"by", "ref">>, <<St(<<"n", "a", "m", "e">>), St(<<"a", "b">>)>>),      \* satisfies the string alternative only
             Obj(<<"by", "ref">>, <<St(<<"i", "d">>), N(28)>>),                          \* satisfies the integer alternative
             Obj(<<"by", "ref">>, <<St(<<"i", "d">>), St(<<"a", "b">>)>>),                \* satisfies none
             Obj(<<"by">>, <<St(<<"i", "d">>)>>) }                                       \* ref missing
(* bodies for S5 / S6: an EMPTY string is a value, not an absent property *)
EmptyVals == { Obj(<<"n", "s">>, <<N(4), St(<<>>)>>), Obj(<<"n", "s">>, <<N(4), St(<<"a">>)>>), Obj(<<"n">>, <<N(4)>>),
               \* ... and without a number next to it (multipart text parts are not typed: F-C06-2 would mask the verdict)
               Obj(<<"s">>, <<St(<<>>)>>), Obj(<<"s">>, <<St(<<"a">>)>>), Obj(<<"ls", "s">>, <<Arr(<<St(<<"a">>)>>), St(<<>>)>>) }

VARIABLE case
Init ==
   \/ \E d \in DeclSets, h \in Hdrs, req \in BOOLEAN, bk \in JsonFamily :
        /\ bk \in d
        /\ ("absent" \in DOMAIN h => AnyWild \notin d)       \* absent header + */* : selected but undecodable, left open
        /\ (h = Text => AnyWild \notin d)                   \* a text body under */* is declared but is not JSON: left open
        /\ case = [part |-> "select", decl |-> SetToSortSeq(d, LAMBDA a, b : TRUE), hdr |-> h,
                   hdrText |-> (IF "absent" \in DOMAIN h THEN "" ELSE Render(h)), required |-> req,
                   bodyKey |-> bk, empty |-> FALSE,
                   declText |-> [i \in 1..Cardinality(d) |-> Render(SetToSortSeq(d, LAMBDA a, b : TRUE)[i])]]
   \/ \E req \in BOOLEAN :
        case = [part |-> "select", decl |-> <<Json>>, hdr |-> Json, hdrText |-> Render(Json), required |-> req,
                bodyKey |-> Json, empty |-> TRUE, declText |-> <<Render(Json)>>]
   \/ \E fam \in {"json", "form", "multipart"}, sc \in {"S1", "S2", "S3"}, v \in ObjVals \cup UntypedVals, xro \in BOOLEAN, enc \in {"default", "lNonExplode"},
         cl \in {"known", "unknown"}, dflt \in BOOLEAN :       \* unknown: a body whose length net/http does not know (ContentLength 0, e.g. a pipe)
        /\ (enc = "lNonExplode" => fam = "form")
        /\ (v \in UntypedVals => fam \in {"json", "form"})
        /\ (dflt => (sc = "S3" /\ cl = "known"))          \* dflt: defaults are installed during validation (SkipSettingDefaults off)
        /\ (sc = "S3" => enc = "default")
        /\ case = [part |-> "decode", family |-> fam, schema |-> sc, v |-> v, excludeRO |-> xro, enc |-> enc, clen |-> cl, setDefaults |-> dflt]
   \/ \E fam \in {"json", "form", "multipart"}, sc \in {"S4", "S4a"}, v \in AltVals :
        /\ (fam = "multipart" => ~HasNum(v))           \* multipart text parts are not typed (F-C06-2)
        /\ case = [part |-> "decode", family |-> fam, schema |-> sc, v |-> v, excludeRO |-> FALSE, enc |-> "default", clen |-> "known", setDefaults |-> FALSE]
   \/ \E fam \in {"json", "form", "multipart"}, sc \in {"S5", "S6"}, v \in EmptyVals :
        /\ (fam = "form" => ~\E i \in DOMAIN v.v : v.v[i] = St(<<>>))   \* "s=" in a urlencoded body: the open region "empty values" (as for parameters)
        /\ case = [part |-> "decode", family |-> fam, schema |-> sc, v |-> v, excludeRO |-> TRUE, enc |-> "default", clen |-> "known", setDefaults |-> FALSE]
   \* the JSON text "null" as the body: present, so never "missing"; accepted exactly when the schema is nullable
   \/ \E sc \in {"SN", "S2"}, v \in {Null, Obj(<<"n">>, <<N(4)>>)}, req \in BOOLEAN :
        case = [part |-> "decode", family |-> "json", schema |-> sc, v |-> v, excludeRO |-> TRUE, enc |-> "default", clen |-> "known",
                setDefaults |-> FALSE, bodyRequired |-> req]
   \/ \E v \in TextVals :
        case = [part |-> "decode", family |-> "text", schema |-> "text", v |-> v, excludeRO |-> FALSE, enc |-> "default", clen |-> "known", setDefaults |-> FALSE]
Next == UNCHANGED case
Spec == Init /\ [][Next]_case
(* the decode cases carry the abstract schema: the realiser builds the document from it *)
Emit == CSVWrite("%1$s", <<ToJson(IF case.part = "decode" THEN case @@ [sch |-> SchemaOf(case)] ELSE case)>>, "cases.ndjson")

(* D: selection is a function with the documented precedence *)
SelectLaws ==
   \A d \in DeclSets, h \in Hdrs \ {[absent |-> TRUE]} :
      /\ (h \in d => Select(d, h) = h)
      /\ (h \notin d /\ Strip(h) \in d => Select(d, h) = Strip(h))
      /\ (Select(d, h) = AnyWild => h \notin d /\ Strip(h) \notin d /\ MT(h.ty, "*", "") \notin d)
ASSUME SelectLaws
=============================================================================
