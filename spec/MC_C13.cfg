SPECIFICATION Spec
CONSTANT RestoreOnEveryReturn = TRUE
INVARIANTS BodyReadable NoSpuriousBodyFailure
CHECK_DEADLOCK FALSE
