SPECIFICATION Spec
CONSTANT Variant = "exclQueryOpOnly"
INVARIANT ResultIsContract
CHECK_DEADLOCK FALSE
