------------------------------ MODULE JsonValue ------------------------------
(***************************************************************************)
(* Tagged JSON values.  TLC's Json module maps {} and [] both to <<>> and  *)
(* cannot compare a string with a number, so every JSON value that crosses *)
(* the TLC <-> Go boundary is tagged:                                      *)
(*   [t |-> "null"]   [t |-> "bool", b |-> TRUE]                           *)
(*   [t |-> "num", q |-> 6]          q = value * 4 (quarters: exact in     *)
(*                                   TLC integers and in float64)          *)
(*   [t |-> "str", cs |-> <<"a","b">>]   sequence of one-character strings;*)
(*                                   "U" stands for one astral rune        *)
(*                                   (2 UTF-16 units), rendered U+1F600    *)
(*   [t |-> "arr", a |-> <<v1, ...>>]                                      *)
(*   [t |-> "obj", k |-> <<"x","y">>, v |-> <<vx, vy>>]   keys sorted      *)
(* A "num" may carry dec |-> TRUE: rendered with a decimal point ("1.0");  *)
(* it never takes part in equality.                                        *)
(***************************************************************************)
EXTENDS Integers, Sequences, FiniteSets

Null     == [t |-> "null"]
Bool(b)  == [t |-> "bool", b |-> b]
Num(q)   == [t |-> "num", q |-> q]
NumDec(q) == [t |-> "num", q |-> q, dec |-> TRUE]
Str(cs)  == [t |-> "str", cs |-> cs]
Arr(a)   == [t |-> "arr", a |-> a]
Obj(k, v) == [t |-> "obj", k |-> k, v |-> v]

Range(f) == {f[i] : i \in DOMAIN f}

IsNull(v) == v.t = "null"

(* position of key in an object's key list, 0 if absent *)
KeyIdx(o, key) == IF \E i \in DOMAIN o.k : o.k[i] = key
                  THEN CHOOSE i \in DOMAIN o.k : o.k[i] = key ELSE 0
HasKey(o, key) == \E i \in DOMAIN o.k : o.k[i] = key
Get(o, key)    == o.v[KeyIdx(o, key)]

(* structural equality: numbers by value (1 = 1.0), objects by key set (keys are sorted) *)
RECURSIVE Eq(_, _)
Eq(x, y) ==
   /\ x.t = y.t
   /\ CASE x.t = "null" -> TRUE
        [] x.t = "bool" -> x.b = y.b
        [] x.t = "num"  -> x.q = y.q
        [] x.t = "str"  -> x.cs = y.cs
        [] x.t = "arr"  -> /\ Len(x.a) = Len(y.a)
                           /\ \A i \in DOMAIN x.a : Eq(x.a[i], y.a[i])
        [] x.t = "obj"  -> /\ x.k = y.k
                           /\ \A i \in DOMAIN x.v : Eq(x.v[i], y.v[i])

(* UTF-16 length of a string value *)
RECURSIVE Utf16Len(_)
Utf16Len(cs) == IF cs = <<>> THEN 0 ELSE (IF Head(cs) = "U" THEN 2 ELSE 1) + Utf16Len(Tail(cs))

(* does the value contain a number anywhere below the top level / at all *)
RECURSIVE HasNum(_)
HasNum(v) == CASE v.t = "num" -> TRUE
               [] v.t = "arr" -> \E i \in DOMAIN v.a : HasNum(v.a[i])
               [] v.t = "obj" -> \E i \in DOMAIN v.v : HasNum(v.v[i])
               [] OTHER -> FALSE

RECURSIVE HasDec(_)
HasDec(v) == CASE v.t = "num" -> "dec" \in DOMAIN v
               [] v.t = "arr" -> \E i \in DOMAIN v.a : HasDec(v.a[i])
               [] v.t = "obj" -> \E i \in DOMAIN v.v : HasDec(v.v[i])
               [] OTHER -> FALSE

(* JSON pointer navigation: ptr is a sequence of tokens; array indices are decimal strings *)
IdxOf(tok) == CASE tok = "0" -> 1 [] tok = "1" -> 2 [] tok = "2" -> 3 [] tok = "3" -> 4
                [] tok = "4" -> 5 [] OTHER -> 0
RECURSIVE Exists(_, _)
Exists(v, ptr) ==
   IF ptr = <<>> THEN TRUE
   ELSE CASE v.t = "obj" -> HasKey(v, Head(ptr)) /\ Exists(Get(v, Head(ptr)), Tail(ptr))
          [] v.t = "arr" -> IdxOf(Head(ptr)) \in DOMAIN v.a /\ Exists(v.a[IdxOf(Head(ptr))], Tail(ptr))
          [] OTHER -> FALSE
RECURSIVE At(_, _)
At(v, ptr) ==
   IF ptr = <<>> THEN v
   ELSE IF v.t = "obj" THEN At(Get(v, Head(ptr)), Tail(ptr))
        ELSE At(v.a[IdxOf(Head(ptr))], Tail(ptr))

(* all string leaves (as char sequences) of a value *)
RECURSIVE StrLeaves(_)
StrLeaves(v) == CASE v.t = "str" -> {v.cs}
                  [] v.t = "arr" -> UNION {StrLeaves(v.a[i]) : i \in DOMAIN v.a}
                  [] v.t = "obj" -> UNION {StrLeaves(v.v[i]) : i \in DOMAIN v.v}
                  [] OTHER -> {}

(* is sequence m a contiguous subsequence of cs *)
Contains(cs, m) == \E i \in 0..(Len(cs) - Len(m)) : \A j \in 1..Len(m) : cs[i + j] = m[j]
=============================================================================
