SPECIFICATION Spec
INVARIANTS Emit
CHECK_DEADLOCK FALSE
