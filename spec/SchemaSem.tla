------------------------------ MODULE SchemaSem ------------------------------
(***************************************************************************)
(* L1: reference semantics of OpenAPI 3.0 schema validation (JSON-Schema   *)
(* draft-4 keywords as restricted by OpenAPI 3.0), written independently   *)
(* of openapi3/schema.go.  It is the oracle of C01 and is imported by the  *)
(* request/response properties (C05 C06 C08 C12 C13 C18 C19).              *)
(*                                                                         *)
(* An abstract schema is a record whose fields are the keywords present:   *)
(*   type nullable enum minimum maximum exclusiveMinimum exclusiveMaximum  *)
(*   multipleOf minLength maxLength pattern minItems maxItems uniqueItems  *)
(*   items pk/ps (properties: keys / schemas, parallel sequences) required *)
(*   minProperties maxProperties apFalse apSchema (additionalProperties)   *)
(*   allOf anyOf oneOf not  readOnly writeOnly default                     *)
(* Numbers are quarters (JsonValue).  side selects the reading:            *)
(*   "plain"  - the schema as such                                         *)
(*   "asreq"  - as a request: readOnly properties must be absent and are   *)
(*              exempt from required; "asreq_noro": the presence check off *)
(*   "asrep"  - as a response: the same for writeOnly; "asrep_nowo"        *)
(***************************************************************************)
EXTENDS JsonValue

Has(s, f) == f \in DOMAIN s

(* The five patterns of the universe, with their meaning on character sequences.  *)
Patterns == {"^a", "b$", "^[ab]+$", "^.{2}$", "a.*c"}
Match(p, cs) ==
   CASE p = "^a"      -> Len(cs) > 0 /\ cs[1] = "a"
     [] p = "b$"      -> Len(cs) > 0 /\ cs[Len(cs)] = "b"
     [] p = "^[ab]+$" -> Len(cs) > 0 /\ \A i \in DOMAIN cs : cs[i] \in {"a", "b"}
     [] p = "^.{2}$"  -> Len(cs) = 2
     [] p = "a.*c"    -> \E i, j \in DOMAIN cs : i < j /\ cs[i] = "a" /\ cs[j] = "c"

TypeIs(ty, v) ==
   CASE ty = "boolean" -> v.t = "bool"
     [] ty = "integer" -> v.t = "num" /\ v.q % 4 = 0
     [] ty = "number"  -> v.t = "num"
     [] ty = "string"  -> v.t = "str"
     [] ty = "array"   -> v.t = "arr"
     [] ty = "object"  -> v.t = "obj"

NumOK(s, q) ==
   /\ Has(s, "minimum") => IF Has(s, "exclusiveMinimum") THEN q > s.minimum ELSE q >= s.minimum
   /\ Has(s, "maximum") => IF Has(s, "exclusiveMaximum") THEN q < s.maximum ELSE q <= s.maximum
   /\ Has(s, "multipleOf") => q % s.multipleOf = 0

(* JSON-Schema draft-4 (5.2.1, 5.2.2): the length of a string is its number of characters *)
(* (Unicode code points, RFC 4627) -- an astral rune counts once, not as two UTF-16 units.  *)
StrOK(s, cs) ==
   /\ Has(s, "minLength") => Len(cs) >= s.minLength
   /\ Has(s, "maxLength") => Len(cs) <= s.maxLength
   /\ Has(s, "pattern") => Match(s.pattern, cs)

PropIdx(s, key) == IF Has(s, "pk") /\ \E i \in DOMAIN s.pk : s.pk[i] = key
                   THEN CHOOSE i \in DOMAIN s.pk : s.pk[i] = key ELSE 0

(* a property that this side forbids to be present / exempts from "required" *)
SideHidden(p, side) ==
   \/ (side \in {"asreq", "asreq_noro"} /\ Has(p, "readOnly"))
   \/ (side \in {"asrep", "asrep_nowo"} /\ Has(p, "writeOnly"))
SideForbidden(p, side) ==
   \/ (side = "asreq" /\ Has(p, "readOnly"))
   \/ (side = "asrep" /\ Has(p, "writeOnly"))

HasXOf(s) == \/ (Has(s, "oneOf") /\ s.oneOf # <<>>)
             \/ (Has(s, "anyOf") /\ s.anyOf # <<>>)
             \/ (Has(s, "allOf") /\ s.allOf # <<>>)

RECURSIVE Valid(_, _, _)

Count(ss, v, side) == Cardinality({i \in DOMAIN ss : Valid(ss[i], v, side)})

Compositions(s, v, side) ==
   /\ Has(s, "not") => ~Valid(s.not, v, side)
   /\ Has(s, "oneOf") => (s.oneOf = <<>> \/ Count(s.oneOf, v, side) = 1)
   /\ Has(s, "anyOf") => (s.anyOf = <<>> \/ Count(s.anyOf, v, side) >= 1)
   /\ Has(s, "allOf") => Count(s.allOf, v, side) = Len(s.allOf)

(* The library's documented reading of "null only where nullable" (schema.go: "we still  *)
(* want to reach visitXOFOperations, since those could allow for a nullable value even   *)
(* though this one doesn't"): null is admitted by a nullable schema, or by a schema with *)
(* compositions all of which admit null.  enum containing null, or no type, does not.    *)
NullRule(s, side) ==
   \/ Has(s, "nullable")
   \/ (HasXOf(s) /\ Compositions(s, Null, side))

ArrOK(s, a, side) ==
   /\ Has(s, "minItems") => Len(a) >= s.minItems
   /\ Has(s, "maxItems") => Len(a) <= s.maxItems
   /\ Has(s, "uniqueItems") => \A i, j \in DOMAIN a : i < j => ~Eq(a[i], a[j])
   /\ Has(s, "items") => \A i \in DOMAIN a : Valid(s.items, a[i], side)

ObjOK(s, o, side) ==
   /\ Has(s, "minProperties") => Len(o.k) >= s.minProperties
   /\ Has(s, "maxProperties") => Len(o.k) <= s.maxProperties
   /\ \A i \in DOMAIN o.k :
         LET pi == PropIdx(s, o.k[i]) IN
         IF pi # 0 THEN ~SideForbidden(s.ps[pi], side) /\ Valid(s.ps[pi], o.v[i], side)
         ELSE IF Has(s, "apFalse") THEN FALSE
         ELSE Has(s, "apSchema") => Valid(s.apSchema, o.v[i], side)
   /\ Has(s, "required") =>
         \A j \in DOMAIN s.required :
            \/ HasKey(o, s.required[j])
            \/ LET pi == PropIdx(s, s.required[j]) IN pi # 0 /\ SideHidden(s.ps[pi], side)

Valid(s, v, side) ==
   IF v.t = "null" THEN NullRule(s, side)
   ELSE /\ Compositions(s, v, side)
        /\ Has(s, "enum") => \E i \in DOMAIN s.enum : Eq(s.enum[i], v)
        /\ Has(s, "type") => TypeIs(s.type, v)
        /\ Has(s, "types") => \E i \in DOMAIN s.types : TypeIs(s.types[i], v)      \* "type" written as a list: any of them
        /\ v.t = "num" => NumOK(s, v.q)
        /\ v.t = "str" => StrOK(s, v.cs)
        /\ v.t = "arr" => ArrOK(s, v.a, side)
        /\ v.t = "obj" => ObjOK(s, v, side)

-----------------------------------------------------------------------------
(* Syntactic helpers used by generators, finding classes and other modules *)
RECURSIVE SubSchemas(_)
SubSchemas(s) ==
   {s} \cup (IF Has(s, "not") THEN SubSchemas(s.not) ELSE {})
       \cup (IF Has(s, "items") THEN SubSchemas(s.items) ELSE {})
       \cup (IF Has(s, "apSchema") THEN SubSchemas(s.apSchema) ELSE {})
       \cup (IF Has(s, "ps") THEN UNION {SubSchemas(s.ps[i]) : i \in DOMAIN s.ps} ELSE {})
       \cup (IF Has(s, "oneOf") THEN UNION {SubSchemas(s.oneOf[i]) : i \in DOMAIN s.oneOf} ELSE {})
       \cup (IF Has(s, "anyOf") THEN UNION {SubSchemas(s.anyOf[i]) : i \in DOMAIN s.anyOf} ELSE {})
       \cup (IF Has(s, "allOf") THEN UNION {SubSchemas(s.allOf[i]) : i \in DOMAIN s.allOf} ELSE {})

Keywords(s) == DOMAIN s
=============================================================================
