SPECIFICATION TSpec
CONSTANTS MaxFeat = 1
 MaxMut = 1
INVARIANTS Judge
POSTCONDITION AllConsumed
CHECK_DEADLOCK FALSE
