------------------------------ MODULE LoaderImpl ------------------------------
(***************************************************************************)
(* L2: the reference resolver of openapi3/loader.go as it is written, on   *)
(* the universes of Layout.tla:                                            *)
(*  - ResolveRefsIn's fixed walk: root components by kind (headers,        *)
(*    parameters, requestBodies, responses, schemas, securitySchemes,      *)
(*    examples, callbacks, links), names sorted, then the                  *)
(*    paths;                                                               *)
(*  - resolve<Kind>Ref: a reference whose raw string is in visitedRefs     *)
(*    (the in-progress set, keyed by the raw ref STRING) is not followed:  *)
(*    it registers a waiter and later receives the value the in-progress   *)
(*    visit of that string ends with; otherwise the string is pushed, the  *)
(*    chain followed (a hop that is itself in progress leaves the whole    *)
(*    chain nil), the children of the reached object are resolved with     *)
(*    all hops still in progress, and the strings are popped;              *)
(*  - (pinned variant only) positions the walk never visits:              *)
(*    parameter/header `examples`, encoding `headers`, components.links;   *)
(*  - an object reached a second time keeps the values of its first visit. *)
(* Value of a site: slot index of the concrete object, 0 = left nil,       *)
(* -1 = loading fails there (dangling / wrong kind).                       *)
(***************************************************************************)
EXTENDS Layout

Texts(stack) == {stack[i].text : i \in DOMAIN stack}
Entry(f, r, kind) == [text |-> RefText(r), f |-> f, r |-> r, kind |-> kind]

(* Before the repairs 9986135 / d78e043 / 326f29b the walk skipped parameter/header `examples`,    *)
(* encoding `headers` and components.links; LoaderVisitsAll = FALSE gives that pinned resolver.      *)
CONSTANT LoaderVisitsAll
UnvisitedSite(ownerKind, site) ==
   \/ site = "discriminator.mapping"          \* a mapping value is a string, not a Reference Object: the loader never resolves (or reads) it
   \/ ~LoaderVisitsAll /\ (\/ (ownerKind \in {"parameters", "headers"} /\ site = "examples")
                           \/ site = "content.encoding.headers")

(* follow a chain of refs: slot index, 0 (nil) or -1 (error).  hops = entries pushed by this chain. *)
RECURSIVE Chain(_, _, _, _, _)
Chain(u, f, r, kind, stack) ==
   LET tf == TargetFile(f, r)
       k  == FragKind(r, kind)
       nm == FragName(r)
       i  == SlotAt(u, tf, k, nm)
   IN
   IF tf # f /\ FileBroken(u, tf) THEN [v |-> -1, hops |-> <<>>]          \* the document cannot be loaded
   ELSE IF IsInlFrag(r)
   THEN LET j == InlSlot(u, tf, r, kind) IN
        (IF j = 0 \/ ~IsConcrete(u.slots[j].c) \/ InlAt(u.slots[j].c, InlSite(r)) = "" THEN [v |-> -1, hops |-> <<>>]
         ELSE [v |-> j, hops |-> <<Entry(f, r, kind)>>, inl |-> InlAt(u.slots[j].c, InlSite(r))])
   ELSE IF k # kind \/ i = 0 THEN [v |-> -1, hops |-> <<>>]
   ELSE IF IsConcrete(u.slots[i].c) THEN [v |-> i, hops |-> <<Entry(f, r, kind)>>]
   ELSE LET r2 == u.slots[i].c.ref IN
        IF RefText(r2) \in Texts(stack) \cup {RefText(r)}
        THEN [v |-> 0, hops |-> <<Entry(f, r, kind)>>]                    \* a hop is in progress: the copy gets the waiter, the chain stays nil
        ELSE LET rest == Chain(u, tf, r2, kind, Append(stack, Entry(f, r, kind))) IN
             [v |-> rest.v, hops |-> <<Entry(f, r, kind)>> \o rest.hops] @@ (IF "inl" \in DOMAIN rest THEN [inl |-> rest.inl] ELSE <<>>)

(* the value a waiter finally receives: what the in-progress visit of the same string resolves to *)
WaiterValue(u, text, stack) ==
   LET j == CHOOSE x \in DOMAIN stack : stack[x].text = text
       e == stack[j] IN
   Chain(u, e.f, e.r, e.kind, SubSeq(stack, 1, j - 1)).v

(* memo: function from site key to value; keys <<"child", slot, j>> *)
RECURSIVE ResolveObject(_, _, _, _)
RECURSIVE ResolveChildren(_, _, _, _, _)

(* resolve one reference site found in file f; returns [v, memo] *)
ResolveSite(u, f, r, kind, stack, memo) ==
   IF RefText(r) \in Texts(stack)
   THEN [v |-> WaiterValue(u, RefText(r), stack), memo |-> memo, inl |-> ""]
   ELSE LET c == Chain(u, f, r, kind, stack) IN
        IF c.v <= 0 THEN [v |-> c.v, memo |-> memo, inl |-> ""]
        ELSE [v |-> c.v, memo |-> (IF "inl" \in DOMAIN c THEN memo ELSE ResolveObject(u, c.v, stack \o c.hops, memo)),
              inl |-> (IF "inl" \in DOMAIN c THEN c.inl ELSE "")]

ResolveChildren(u, i, j, stack, memo) ==
   LET c == u.slots[i].c IN
   IF j > Len(c.ch) THEN memo
   ELSE LET key == <<"child", i, j>> IN
        IF key \in DOMAIN memo \/ UnvisitedSite(u.slots[i].kind, c.ch[j].site)
        THEN ResolveChildren(u, i, j + 1, stack, memo)                   \* already resolved on an earlier visit / never visited
        ELSE LET res == ResolveSite(u, u.slots[i].file, c.ch[j].ref, c.ch[j].kind, stack, memo) IN
             ResolveChildren(u, i, j + 1, stack, (key :> [v |-> res.v, inl |-> res.inl]) @@ res.memo)

ResolveObject(u, i, stack, memo) ==
   IF ~IsConcrete(u.slots[i].c) THEN memo ELSE ResolveChildren(u, i, 1, stack, memo)

KindOrder == <<"headers", "parameters", "requestBodies", "responses", "schemas", "securitySchemes", "examples", "callbacks">>
             \o (IF LoaderVisitsAll THEN <<"links">> ELSE <<>>)

(* the root's own component entries of one kind, names sorted; "U" is the root's own reference when it sits in components *)
NameOrder == <<"A", "Acc", "B", "C", "Cat", "Dog", "H", "L", "Pet", "Rec", "U", "V", "W", "X", "Y", "Z", "e", "p", "schema">>     \* (sorted as sort.Strings does)
RootEntries(u, pos, kind) ==
   LET named == {u.slots[i].name : i \in {i \in DOMAIN u.slots : u.slots[i].file = Root /\ u.slots[i].kind = kind}}
                \cup (IF pos = "comp" /\ u.use.kind = kind THEN {"U"} ELSE {})
   IN SelectSeq(NameOrder, LAMBDA n : n \in named)

RECURSIVE WalkNames(_, _, _, _, _)
WalkNames(u, pos, kind, names, memo) ==
   IF names = <<>> THEN memo
   ELSE LET n == Head(names) IN
        IF n = "U" /\ pos = "comp" /\ u.use.kind = kind /\ SlotAt(u, Root, kind, "U") = 0
        THEN LET res == ResolveSite(u, Root, u.use.ref, kind, <<>>, memo) IN
             WalkNames(u, pos, kind, Tail(names), (<<"use">> :> [v |-> res.v, inl |-> res.inl]) @@ res.memo)
        ELSE LET i == SlotAt(u, Root, kind, n) IN
             IF IsConcrete(u.slots[i].c)
             THEN WalkNames(u, pos, kind, Tail(names), ResolveObject(u, i, <<>>, memo))
             ELSE LET res == ResolveSite(u, Root, u.slots[i].c.ref, kind, <<>>, memo) IN
                  WalkNames(u, pos, kind, Tail(names), (<<"root", kind, n>> :> [v |-> res.v, inl |-> res.inl]) @@ res.memo)

RECURSIVE WalkKinds(_, _, _, _)
WalkKinds(u, pos, k, memo) ==
   IF k > Len(KindOrder) THEN memo
   ELSE WalkKinds(u, pos, k + 1, WalkNames(u, pos, KindOrder[k], RootEntries(u, pos, KindOrder[k]), memo))

(* the whole load: memo of every site the walk resolved *)
Load(u, pos) ==
   LET m1 == WalkKinds(u, pos, 1, <<>>) IN
   IF pos = "op"
   THEN LET res == ResolveSite(u, Root, u.use.ref, u.use.kind, <<>>, m1) IN (<<"use">> :> [v |-> res.v, inl |-> res.inl]) @@ res.memo
   ELSE m1

LoadFails(u, pos) == \E key \in DOMAIN Load(u, pos) : Load(u, pos)[key].v = -1

(* id the model predicts for a site key ("nil" when left unresolved or never visited) *)
PredictedId(u, pos, key) ==
   LET m == Load(u, pos) IN
   IF key \notin DOMAIN m \/ m[key].v <= 0 THEN "nil"
   ELSE IF m[key].inl # "" THEN m[key].inl ELSE u.slots[m[key].v].c.id
=============================================================================
