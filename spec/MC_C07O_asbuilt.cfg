SPECIFICATION Spec
CONSTANT Variant = "asbuilt"
INVARIANT ResultIsContract
CHECK_DEADLOCK FALSE
