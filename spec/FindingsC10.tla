----------------------------- MODULE FindingsC10 -----------------------------
(* Finding classes for C10.                                                                                 *)
(* F-C10-9: a recursive schema whose recursive property has a default (Node.child: {allOf: [{$ref: Node}],  *)
(*   default: {}}): a request body that reaches the schema ("node": {}) has the default installed, the       *)
(*   installed value is visited, lacks its own `child`, gets the default installed ... without end: fatal     *)
(*   stack overflow in visitJSONObject (the process dies; the runner reports "crash").  The document passes   *)
(*   document validation.                                                                                    *)
(* F-C10-10: SchemaError.Error() ends      in panic(err) when encoding/json cannot encode the offending value (or schema): *)
(*   a NaN or an infinity inside an array / object value (query q=NaN&q=1 against an array of numbers with maxItems 1;     *)
(*   YAML .nan / .inf) makes ValidateRequest / ValidateResponse return an error whose Error() panics                       *)
(*   ("json: unsupported value: NaN"), and with it RequestError.Error(), MultiError.Error(), DefaultErrorEncoder.           *)
(*   Trigger: traffic carrying a NaN / infinity token; observation: only the reading of the returned error panics.         *)
(* F-C10-11: visitXOFOperations deep-copies the value before trying each oneOf / anyOf member (mohae/deepcopy); a YAML body  *)
(*   with a null mapping key ({~: x}) decodes to a map[any]any with a nil key, which deepcopy cannot copy: reflect panic    *)
(*   "SetMapIndex on zero Value" out of ValidateRequest / ValidateResponse.  Trigger: a YAML null mapping key meeting a     *)
(*   schema with oneOf / anyOf at or above it; observation: the validating calls panic.                                       *)
EXTENDS Sequences, FiniteSets
SeqSet(q) == {q[i] : i \in DOMAIN q}
NanTraffic(c) ==
   LET named == {"body_yaml_nan", "query_nan_inf", "body_json_nan_token", "resp_body_nan_token"} IN
   IF "kind" \in DOMAIN c /\ c.kind = "shape"
   THEN c.value.n \in {"nan", "infinity", "yaml_nan"} \/ (SeqSet(c.murl) \cup SeqSet(c.mbody) \cup SeqSet(c.mrbody)) \cap named # {}
   ELSE SeqSet(c.muts) \cap named # {}
ErrorReaders == {"error_report", "middleware_lenient", "error_encoder"}
XofWraps == {"oneof", "anyof", "oneof_discriminator", "anyof_array_or_leaf"}
NullKeyMeetsXof(c) == "kind" \in DOMAIN c /\ c.kind = "shape" /\ c.value.n = "yaml_key_null" /\ c.wrap \in XofWraps
Class(line, bad) ==
   IF bad = {"returns_normally"} /\ NullKeyMeetsXof(line.c)
      /\ \A s \in DOMAIN line.obs : line.obs[s] \notin {"hang", "crash"}
   THEN "deepcopy_panics_on_null_yaml_key"
   ELSE
   IF bad = {"returns_normally"} /\ NanTraffic(line.c)
      /\ \A s \in DOMAIN line.obs : line.obs[s] \in {"panic", "hang", "crash"} => (s \in ErrorReaders /\ line.obs[s] = "panic")
   THEN "schema_error_text_panics_on_unencodable_value"
   ELSE
   IF bad = {"returns_normally"} /\ "recursive_schema_default" \in (LET fs == IF "feats" \in DOMAIN line.c THEN line.c.feats ELSE line.c.feat IN {fs[i] : i \in DOMAIN fs})
      (* the overflow is observed as the death of the process, or - on a machine so loaded that filling the maximal stack *)
      (* takes longer than the watchdog allows - as the watchdog's "hang"; in both the call never returns               *)
      /\ "validate_request" \in DOMAIN line.obs /\ line.obs["validate_request"] \in {"crash", "hang"}
      /\ \A s \in DOMAIN line.obs : s # "validate_request" => line.obs[s] \notin {"panic", "hang", "crash"}
   THEN "recursive_default_injection_overflows"
   ELSE "none"
=============================================================================
