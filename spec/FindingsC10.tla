----------------------------- MODULE FindingsC10 -----------------------------
(* Finding classes for C10.                                                                                 *)
(* F-C10-9: a recursive schema whose recursive property has a default (Node.child: {allOf: [{$ref: Node}],  *)
(*   default: {}}): a request body that reaches the schema ("node": {}) has the default installed, the       *)
(*   installed value is visited, lacks its own `child`, gets the default installed ... without end: fatal     *)
(*   stack overflow in visitJSONObject (the process dies; the runner reports "crash").  The document passes   *)
(*   document validation.                                                                                    *)
EXTENDS Sequences, FiniteSets
Class(line, bad) ==
   IF bad = {"returns_normally"} /\ "recursive_schema_default" \in (LET fs == IF "feats" \in DOMAIN line.c THEN line.c.feats ELSE line.c.feat IN {fs[i] : i \in DOMAIN fs})
      /\ "validate_request" \in DOMAIN line.obs /\ line.obs["validate_request"] = "crash"
      /\ \A s \in DOMAIN line.obs : line.obs[s] \notin {"panic", "hang"}
   THEN "recursive_default_injection_overflows"
   ELSE "none"
=============================================================================
