SPECIFICATION Spec
CONSTANTS MaxCalls = 3
          SideCalls = 1
          ExtMax = 0
          ExtDepth = 3
          ZeroStatusFix = FALSE
          InfoFix = FALSE
INVARIANTS TypeOK L2ImpliesL1 HandlerOnlyAfterGate NoClientBytesBeforeCheckInStrict
CHECK_DEADLOCK FALSE
