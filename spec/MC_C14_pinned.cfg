SPECIFICATION Spec
CONSTANTS MaxCalls = 3
          ZeroStatusFix = FALSE
INVARIANTS TypeOK L2ImpliesL1 HandlerOnlyAfterGate NoClientBytesBeforeCheckInStrict
CHECK_DEADLOCK FALSE
