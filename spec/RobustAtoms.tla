---------------------------- MODULE RobustAtoms ----------------------------
(* C10: the named atoms of the feature lattice and of the mutation machine (shared by RobustTraffic and RobustShapes) *)
DocFeatures == {
   "excl_min_without_min", "excl_max_without_max", "multiple_of_zero", "resp_header_by_content", "param_by_content",
   "param_by_content_scalar", "param_schema_untyped", "recursive_schema", "items_is_oneof", "only_default_response",
   "path_level_params_only", "required_undeclared_property", "deepobject_param", "form_body", "multipart_body",
   "security_scheme", "mixed_enum", "nullable_everything", "uncompilable_pattern", "format_and_bounds", "array_param_nonexploded",
   "additional_props_schema", "discriminator_mapping", "no_request_body", "allof_param", "readonly_required",
   "security_undeclared_scheme", "multiple_of_zero_with_default", "required_param_by_content",
   "number_array_param_multipleof", "yaml_body", "param_content_no_schema", "form_allof_object_default",
   "form_body_no_schema", "multipart_body_no_schema", "recursive_schema_default", "type_empty_list"}
(* the base document always has, besides the operation under test, a path item WITHOUT operations  *)
(* (summary and shared parameters only): "/bare/{id}"                                              *)

ReqMutations == {
   "method_propfind", "method_lowercase", "method_empty_like", "path_extra_segment", "path_empty_segment", "path_bad_escape",
   "path_param_garbage", "path_param_long", "query_dup_key", "query_no_value", "query_garbage_value", "query_bad_escape",
   "query_deep_conflict", "query_deep_index", "query_huge_number", "query_content_repeated", "query_content_garbage", "query_many_keys",
   "header_missing", "header_garbage", "header_dup", "cookie_garbage", "cookie_malformed",
   "ct_missing", "ct_garbage", "ct_params", "ct_multipart_no_boundary", "ct_form_for_json", "ct_wildcard",
   "body_truncated", "body_wrong_type_array", "body_wrong_type_scalar", "body_deep_nesting", "body_huge_number", "body_invalid_utf8",
   "body_empty", "body_null", "body_form_bad_escape", "body_multipart_malformed", "body_missing_required", "body_extra_props",
   "body_trailing_garbage", "body_nil", "security_header_missing",
   "query_deep_index_negative", "query_deep_index_gap", "query_deep_index_nonnumeric", "zero_values", "query_deep_scalar_for_object",
   "query_nan_inf", "body_yaml_nan", "body_json_nan_token", "target_bare_path_get", "target_bare_path_delete", "target_bare_path_brew"}

RespMutations == {
   "status_zero", "status_99", "status_600", "status_999", "status_204_with_body", "resp_header_missing", "resp_header_garbage",
   "resp_ct_missing", "resp_ct_garbage", "resp_body_truncated", "resp_body_wrong_type", "resp_body_deep", "resp_body_empty",
   "resp_body_nil", "resp_header_content_json", "resp_header_content_garbage"}

=============================================================================
