------------------------------- MODULE MC_C18 -------------------------------
(* D: design-level check of the generator model (GoGenModel, L2) against the contract      *)
(* (L1) over the type universe and the option sets of Gen_C18: with the component map in   *)
(* which every name holds the schema of its own type, every encoding (GoTypes!Enc) of      *)
(* every value of the covering list must be accepted (GoSchema!Accepts) by the schema the  *)
(* model generates, the references of the model's output must resolve in that map, and     *)
(* Enc is defined (non-empty value list) for every type; and no component may be able to   *)
(* receive the schema of another type.                                                     *)
(*   L2Sound        - the plain statement; violated by the pinned design (MC_C18_pinned)   *)
(*   L2SoundModulo  - the statement outside the classes of the OPEN findings (FindingsC18); *)
(*                    the model without the repairs of F-C18-8, 9, 11 (MC_C18_unrepaired)   *)
(*                    violates it: those behaviours are refuted variants                    *)
EXTENDS Gen_C18, GoGenModel, FindingsC18

(* one invariant, so that the model's output and the encodings are computed once per state *)
Judge(modulo) ==
   LET Fst == IF ghist = "none" THEN NoFirst ELSE First
       m == ModelRun(Fst, gty, gopt)
       s2 == m.s
       c2 == IF ghist = "shared" THEN MergeComps(GenComps(First, gopt), GenCompsSt(m.st, gopt)) ELSE GenCompsSt(m.st, gopt)
       gvs == GoVals(gty)
       missing == MissingNames(s2, c2) IN
   /\ gvs # <<>>                                      \* Enc is defined for every type of the universe
   /\ CompsWellFormed(c2) /\ InFragment(s2, c2)
   /\ \A s \in AllS(s2, c2) : ~Has(s, "refraw")
   /\ UsesTypeNameGen(gopt) => NamesChosen(gty, gopt, s2, c2)
   (* F-C18-6: only with component export and mutually recursive types can a name receive a foreign schema *)
   /\ ForeignCands(gopt, m.st) # {} => (modulo /\ ExportsComponents(gopt) /\ MutualRec(gty))
   (* (the classes of the repaired findings F-C18-8, 9, 11 excuse nothing any more) *)
   /\ IF missing # {} THEN modulo /\ (TngMissing(gty, gopt, missing)         \* F-C18-7
                                      \/ (ghist = "fresh" /\ ReuseMissing(First, gty, gopt, missing)))    \* F-C18-10
      ELSE \A i \in DOMAIN gvs :
              LET v == Enc(gty, gvs[i])
                  fails == Fails(s2, c2, v, <<>>)
                  ref == RefAccepts(s2, c2, v) IN
              /\ ref = ({f \in fails : f.kind # "format"} = {})          \* the two formulations agree
              /\ IF modulo THEN \A f \in fails : KnownFailure(gty, f) ELSE fails = {}

(* the parent-chain cycle detection of the model finds a cycle exactly for the recursive types  *)
(* (GoTypes!Recursive, structural); with ThrowErrorOnCycle those are refused, all others judged *)
CycleDetectionExact == ghist = "none" => ModelCycles(gty, gopt) = Recursive(gty, UsesAllFields(gopt))
Refused == gopt = "throw" /\ Recursive(gty, FALSE)
L2Sound == OptOK => (~Diverges(gty) /\ CycleDetectionExact /\ (Refused \/ Judge(FALSE)))
L2SoundModulo == OptOK => IF Diverges(gty) THEN SelfEmbedding(gty)
                          ELSE CycleDetectionExact /\ (Refused \/ Judge(TRUE))
=============================================================================
