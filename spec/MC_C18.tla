------------------------------- MODULE MC_C18 -------------------------------
(* D: design-level check of the generator model (GoGenModel, L2) against the contract      *)
(* (L1): over the same type universe as Gen_C18, for the option sets without component     *)
(* export, every encoding (GoTypes!Enc) of every value of the covering list must be        *)
(* accepted (GoSchema!Accepts) by the schema the model generates, the references of the    *)
(* model's output must resolve in its component map, and Enc is defined (non-empty value   *)
(* list) for every type.                                                                   *)
(*   L2Sound        - the plain statement; violated by the pinned design (MC_C18_pinned)   *)
(*   L2SoundModulo  - the statement outside the listed finding classes (FindingsC18)       *)
EXTENDS Gen_C18, GoGenModel, FindingsC18

UseAll == opt = "useall"

(* one invariant, so that the model's output and the encodings are computed once per state *)
Judge(modulo) ==
   LET s2 == GenRoot(T, UseAll)
       c2 == GenComps(T, UseAll)
       gvs == GoVals(T) IN
   /\ gvs # <<>>                                      \* Enc is defined for every type of the universe
   /\ CompsWellFormed(c2) /\ RefsResolve(s2, c2) /\ InFragment(s2, c2)
   /\ \A i \in DOMAIN gvs :
         LET v == Enc(T, gvs[i])
             fails == Fails(s2, c2, v, <<>>)
             ref == RefAccepts(s2, c2, v) IN
         /\ ref = ({f \in fails : f.kind # "format"} = {})          \* the two formulations agree
         /\ IF modulo THEN \A f \in fails : KnownFailure(T, f) ELSE fails = {}

L2Sound == ~Diverges(T) /\ Judge(FALSE)
L2SoundModulo == IF Diverges(T) THEN SelfEmbedding(T) ELSE Judge(TRUE)
=============================================================================
