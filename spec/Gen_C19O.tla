------------------------------ MODULE Gen_C19O ------------------------------
(* C19, the "configurations" part of the quantifier: the option sets a rejected marker value is validated  *)
(* under with the message hidden one way or the other.  An option set is a SEQUENCE of option names (the   *)
(* order the options are passed in matters to an implementation that lets one option override another):    *)
(*   mode     nothing | failfast | multi | failfast, multi | multi, failfast                                *)
(*   reading  nothing | asreq | asrep                                                                      *)
(*   extra    nothing | formats (EnableFormatValidation) | nopattern (DisablePatternValidation)            *)
(*   hide     "custom"    : a reason-only message customiser, schema error details ENABLED; the customiser  *)
(*                          is passed first or last                                                         *)
(*            "nodetails" : no customiser, SchemaErrorDetailsDisabled = TRUE                                *)
(* C12 runs every value under the same option sets: mode and customiser change the report, never the       *)
(* verdict, so all option sets with the same reading and extra must give one verdict (Trace_C12).          *)
(* The contract (Trace_C19!Leaks) is the same for every option set.  The harness realises each name as the *)
(* library's option of that name and runs every rejected value under every option set.                     *)
EXTENDS Naturals, Sequences, TLC, Json, CSV

Modes    == {<<>>, <<"failfast">>, <<"multi">>, <<"failfast", "multi">>, <<"multi", "failfast">>}
Readings == {<<>>, <<"asreq">>, <<"asrep">>}
Extras   == {<<>>, <<"formats">>, <<"nopattern">>}

OptSeq(o) == LET body == o.mode \o o.reading \o o.extra IN
             CASE o.hide = "nodetails"    -> body
               [] o.hide = "custom_first" -> <<"custom">> \o body
               [] o.hide = "custom_last"  -> body \o <<"custom">>

VARIABLE o
Init == o \in [mode : Modes, reading : Readings, extra : Extras, hide : {"nodetails", "custom_first", "custom_last"}]
Next == UNCHANGED o
Spec == Init /\ [][Next]_o
(* base: the part of the option set that may change WHAT is checked (C12: option sets with the same base must agree on the verdict) *)
Emit == CSVWrite("%1$s", <<ToJson([opts |-> OptSeq(o), base |-> o.reading \o o.extra, nodetails |-> (o.hide = "nodetails")])>>, "opts.ndjson")
=============================================================================
