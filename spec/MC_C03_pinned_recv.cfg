SPECIFICATION Spec
CONSTANTS MaxGrow = 0
          MaxGrowExt = 0
          MaxShrink = 0
          RandPerKind = 0
          Seed = 1
          MaxHist = 1
INVARIANTS RecvInplaceL1
CHECK_DEADLOCK FALSE
