SPECIFICATION Spec
CONSTANTS Design = "memoPathItem" AllowEdit = FALSE RouteSet = "sibling"
INVARIANT AnswerIsEffective
CHECK_DEADLOCK FALSE
