SPECIFICATION Spec
CONSTANTS MaxDepth = 8
          MaxNest = 1
          MaxPos2 = 1
          Pos2Tail = 2
          DeepMethods = {"get", "post"}
          ShallowBelow = 2
          CbBelow = 3
          AuxDepth = 8
          Lean = FALSE
          Repaired = {1, 2, 4, 5, 7, 9, 10, 11, 12, 13, 14, 16}
INVARIANTS DAndEmit EmitOpts
CHECK_DEADLOCK FALSE
