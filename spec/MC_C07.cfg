SPECIFICATION Spec
INVARIANTS VerdictIsContract CallsAreExpected
CHECK_DEADLOCK FALSE
