SPECIFICATION Spec
CONSTANT UndeclaredAborts = FALSE
INVARIANTS VerdictIsContract CallsAreExpected
CHECK_DEADLOCK FALSE
