---------------------------- MODULE BodyRegistry ----------------------------
(***************************************************************************)
(* C06 / C15, the state their anchors name: the process-wide body DECODER  *)
(* registry (openapi3filter/req_resp_decoder.go bodyDecoders, written by   *)
(* RegisterBodyDecoder / UnregisterBodyDecoder, read by                    *)
(* RegisteredBodyDecoder and by decodeBody for every request body,         *)
(* response body and multipart part) and the body ENCODER registry         *)
(* (req_resp_encoder.go bodyEncoders).                                     *)
(*                                                                         *)
(* A history is a sequence of API calls in one process:                    *)
(*   regd(mt, d) unregd(mt) lookd(mt)     the decoder registry             *)
(*   rege(mt, e) unrege(mt) looke(mt)     the encoder registry             *)
(*   req(mt, ctv)   ValidateRequest of a body sent as media type mt, the   *)
(*                  Content-Type header spelled in variant ctv             *)
(*   resp(mt, ctv)  ValidateResponse likewise                              *)
(*   part(mt)       ValidateRequest of a multipart/form-data body with one *)
(*                  part whose own Content-Type is mt                      *)
(*                                                                         *)
(* L1 (contract).  The registries change through the four (un)register     *)
(* calls only.  A lookup reports what was registered last.  A validation   *)
(* decodes with exactly the decoder registered -- at the time of the call  *)
(* -- for the media type of the Content-Type header read without its       *)
(* parameters, invokes it once, and fails with an unsupported-content-type *)
(* error when there is none; it never changes a registry.  (Open region,   *)
(* excluded: other spellings of the same media type -- letter case, white  *)
(* space before the ';' -- which RFC 7231 calls equivalent and the code    *)
(* compares as strings; C06's statement speaks of strings.)                *)
(*                                                                         *)
(* L2 (implementation-shaped): Policy names the plausible designs          *)
(*   "explicit"        the pinned code                                     *)
(*   "register_on_use" a validation that meets an unregistered +json type  *)
(*                     registers the JSON decoder for it (a convenience    *)
(*                     that writes process-wide state from the request     *)
(*                     path)                                               *)
(*   "raw_header_key"  the registry is consulted with the header text as   *)
(*                     sent (parameters included)                          *)
(*   "unregister_noop" unregistering forgets nothing                       *)
(* TLC checks L2 => L1 over all histories of <= MaxSteps calls.            *)
(***************************************************************************)
EXTENDS Naturals, Sequences, FiniteSets, TLC

CONSTANTS Policy, MaxSteps

MTs  == {"application/json", "application/x-va+json", "text/x-vb"}
Decs == {"json", "d1", "d2"}          \* the library's JSONBodyDecoder; two caller-supplied decoders
Encs == {"json", "e1"}                \* json.Marshal (registered by the library); a caller-supplied encoder
CTVs == {"exact", "param"}            \* application/x-va+json | application/x-va+json; charset=utf-8
None == "none"

InitDec == [m \in MTs |-> IF m = "application/json" THEN "json" ELSE None]
InitEnc == [m \in MTs |-> IF m = "application/json" THEN "json" ELSE None]

(* one call: [op, mt] plus d / e / ctv where they apply *)
Calls ==
   {[op |-> "regd", mt |-> m, d |-> d] : m \in MTs, d \in Decs}
   \cup {[op |-> o, mt |-> m] : o \in {"unregd", "lookd", "unrege", "looke", "part"}, m \in MTs}
   \cup {[op |-> "rege", mt |-> m, e |-> e] : m \in MTs, e \in Encs}
   \cup {[op |-> o, mt |-> m, ctv |-> c] : o \in {"req", "resp"}, m \in MTs, c \in CTVs}

IsValidation(c) == c.op \in {"req", "resp", "part"}

(* what a validation reports: the decoder invoked (exactly once), or "unsupported" *)
Decoded(dec, m) == IF dec[m] = None THEN "unsupported" ELSE dec[m]

(* L1 as a transition function on (dec, enc) *)
L1Step(dec, enc, c) ==
   CASE c.op = "regd"   -> [dec |-> [dec EXCEPT ![c.mt] = c.d], enc |-> enc, obs |-> "done"]
     [] c.op = "unregd" -> [dec |-> [dec EXCEPT ![c.mt] = None], enc |-> enc, obs |-> "done"]
     [] c.op = "lookd"  -> [dec |-> dec, enc |-> enc, obs |-> dec[c.mt]]
     [] c.op = "rege"   -> [dec |-> dec, enc |-> [enc EXCEPT ![c.mt] = c.e], obs |-> "done"]
     [] c.op = "unrege" -> [dec |-> dec, enc |-> [enc EXCEPT ![c.mt] = None], obs |-> "done"]
     [] c.op = "looke"  -> [dec |-> dec, enc |-> enc, obs |-> enc[c.mt]]
     [] IsValidation(c) -> [dec |-> dec, enc |-> enc, obs |-> Decoded(dec, c.mt)]

(* L2: the same calls under the policy *)
L2Step(dec, enc, c) ==
   CASE c.op = "unregd" /\ Policy = "unregister_noop" -> [dec |-> dec, enc |-> enc, obs |-> "done"]
     [] IsValidation(c) /\ Policy = "register_on_use" /\ dec[c.mt] = None /\ c.mt = "application/x-va+json" ->
           [dec |-> [dec EXCEPT ![c.mt] = "json"], enc |-> enc, obs |-> "json"]
     [] c.op \in {"req", "resp"} /\ Policy = "raw_header_key" /\ c.ctv # "exact" ->
           [dec |-> dec, enc |-> enc, obs |-> "unsupported"]
     [] OTHER -> L1Step(dec, enc, c)

VARIABLES rdec, renc,     \* the implementation-shaped registries
          hist            \* the calls so far with what L2 reported
vars == <<rdec, renc, hist>>

Init == rdec = InitDec /\ renc = InitEnc /\ hist = <<>>

Do(c) == LET s == L2Step(rdec, renc, c) IN
         /\ rdec' = s.dec /\ renc' = s.enc
         /\ hist' = Append(hist, [c |-> c, obs |-> s.obs])

Next == Len(hist) < MaxSteps /\ \E c \in Calls : Do(c)
Spec == Init /\ [][Next]_vars

(* the expected observations of a history: L1 folded over the calls *)
RECURSIVE L1Run(_, _, _, _)
L1Run(cs, i, dec, enc) ==
   IF i > Len(cs) THEN <<>>
   ELSE LET s == L1Step(dec, enc, cs[i]) IN <<s.obs>> \o L1Run(cs, i + 1, s.dec, s.enc)
Expected(cs) == L1Run(cs, 1, InitDec, InitEnc)

L2ImpliesL1 == [i \in DOMAIN hist |-> hist[i].obs] = Expected([i \in DOMAIN hist |-> hist[i].c])

(* the registries are written by (un)register calls only (an action property: costs nothing) *)
OnlyRegisterWrites ==
   [][(rdec' # rdec \/ renc' # renc) => hist'[Len(hist')].c.op \in {"regd", "unregd", "rege", "unrege"}]_vars
=============================================================================
