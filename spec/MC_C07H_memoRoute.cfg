SPECIFICATION Spec
CONSTANTS Design = "memoRoute" AllowEdit = TRUE RouteSet = "all"
INVARIANT AnswerIsEffective
CHECK_DEADLOCK FALSE
