------------------------------- MODULE MC_C15 -------------------------------
(* D for C15: SharedState's interleavings under one named DESIGN (Variant).  "as_built" is the  *)
(* code: NoRace, NoDeadlock and the frame condition hold.  Every other variant drops exactly    *)
(* one mechanism (or, for the settings object, one of two that only matter together) and is     *)
(* either still safe (Safe) or has a pinned counterexample; p_c15.py runs them all.             *)
EXTENDS Naturals, Sequences, FiniteSets, TLC
CONSTANTS Variant, MaxOps
VARIABLES prog, held

Variants == {"as_built", "default_aliased", "route_shared", "settings_shared", "settings_toggled", "settings_shared_toggled",
             "registry_lazy", "typeinfos_unlocked", "pattern_cache_plain", "uricache_unlocked", "unique_lazy", "router_hint", "writers_included"}
(* "unique_lazy" is the code as it was before fix 6e03b47 (F-C15-1): the uniqueness checker re-initialised inside the  *)
(* array visit when found nil.  It stays as a refuted design: should the lazy write come back, its counterexample says *)
(* what Gen_C15's process configuration unique_nil will show on the code.                                               *)
(* the two settings edits are each harmless alone *)
(* "router_hint": FindRoute remembers the last match in an atomic -- free of data races, so it is safe HERE; it is refuted *)
(* by RouteOrder (MC_C15R_hinted.cfg): the answers depend on earlier traffic                                               *)
Safe == {"as_built", "settings_shared", "settings_toggled", "router_hint"}
ASSUME Variant \in Variants

SS == INSTANCE SharedState WITH
        DefaultCopied <- Variant # "default_aliased",
        RouteCopied <- Variant # "route_shared",
        SettingsPerCall <- Variant \notin {"settings_shared", "settings_shared_toggled"},
        VisitReadsSettings <- Variant \notin {"settings_toggled", "settings_shared_toggled"},
        RegistryInitOnly <- Variant # "registry_lazy",
        TypeInfosLocked <- Variant # "typeinfos_unlocked",
        PatternCacheAtomic <- Variant # "pattern_cache_plain",
        UriCacheLocked <- Variant # "uricache_unlocked",
        UniqueCheckerReadOnly <- Variant # "unique_lazy",
        RouterStateless <- Variant # "router_hint",
        WithWriters <- Variant = "writers_included"

Spec == SS!Spec
NoRace == SS!NoRace
NoDeadlock == SS!NoDeadlock
(* FRAME, a property of the catalogue rather than of a schedule: as built, no validation-time operation writes *)
(* a location a caller can observe (Trace_C15 demands the observable state unchanged by every run)            *)
ASSUME Frame == Variant \in Safe => SS!FrameHolds
=============================================================================
