------------------------------ MODULE Trace_C06H ------------------------------
(* Trace validation for the registry clause of C06: a log line is one history of BodyRegistry  *)
(* (the calls as realised) with what each call of the real code reported and a final snapshot  *)
(* of both registries (RegisteredBodyDecoder / RegisteredBodyEncoder of every media type).      *)
(* TLC folds L1 over the calls: every observation must be the one L1 gives in the state the     *)
(* preceding (un)register calls produced, and the final snapshot must be L1's final state --    *)
(* so a validation that wrote a registry is seen even if no later call of the history reads it. *)
EXTENDS BodyRegistry, Json, CSV

Trace == ndJsonDeserialize("trace.ndjson")
VARIABLE l
TInit == l = 0 /\ Init
TNext == l < Len(Trace) /\ l' = l + 1 /\ UNCHANGED vars
TSpec == TInit /\ [][TNext]_<<l, vars>>

RECURSIVE L1Final(_, _, _, _)
L1Final(cs, i, dec, enc) ==
   IF i > Len(cs) THEN [dec |-> dec, enc |-> enc]
   ELSE LET s == L1Step(dec, enc, cs[i]) IN L1Final(cs, i + 1, s.dec, s.enc)

SnapOK(line) ==
   LET fin == L1Final(line.c.steps, 1, InitDec, InitEnc) IN
   /\ {line.final[i].mt : i \in DOMAIN line.final} = MTs
   /\ \A i \in DOMAIN line.final : /\ line.final[i].mt \in MTs
                                   /\ line.final[i].d = fin.dec[line.final[i].mt]
                                   /\ line.final[i].e = fin.enc[line.final[i].mt]

Failed(line) ==
   LET st == line.c.steps IN
   (IF \E i \in DOMAIN line.obs : line.obs[i] \in {"panic", "crash", "hang"} THEN {"no_panic"} ELSE {})
   \cup (IF \A i \in DOMAIN st : st[i] \in Calls THEN {} ELSE {"case_realised"})
   \cup (IF Len(line.obs) # Len(st) THEN {"every_call_observed"}
         ELSE IF (\A i \in DOMAIN st : st[i] \in Calls) /\ line.obs # Expected(st)
         THEN {"each_call_reports_what_the_registered_state_says"} ELSE {})
   \cup (IF (\A i \in DOMAIN st : st[i] \in Calls) /\ "final" \in DOMAIN line /\ ~SnapOK(line)
         THEN {"registries_written_by_register_calls_only"} ELSE {})

LineOK(line) ==
   LET bad == Failed(line) IN
   bad = {} \/ CSVWrite("%1$s", <<ToJson([case |-> line.case, c |-> line.c, obs |-> line.obs, failed |-> bad,
                                           final |-> IF "final" \in DOMAIN line THEN line.final ELSE <<>>,
                                           expected |-> IF \A i \in DOMAIN line.c.steps : line.c.steps[i] \in Calls
                                                        THEN Expected(line.c.steps) ELSE <<>>, class |-> "none"])>>,
                        "violations.ndjson")
Judge == l > 0 => LineOK(Trace[l])
AllConsumed == TLCGet("stats").diameter = Len(Trace) + 1
=============================================================================
