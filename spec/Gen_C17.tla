------------------------------- MODULE Gen_C17 -------------------------------
(* Generator of OpenAPI 2 documents for C17: a state is a set of atoms of            *)
(* spec/V2Universe.tla; Next adds one compatible atom.  BFS under K (atoms per       *)
(* document), PairLevel / TripleLevel (which atoms may be combined) and FieldK       *)
(* (keyword subsets) enumerates every single feature and every admitted combination. *)
(* In addition M seeded pseudo-random sets of 3-4 arbitrary atoms (any level) are    *)
(* initial states: combinations beyond the exhaustive bounds, different per Seed.    *)
(* Every distinct state is written once to cases.ndjson as the built document.       *)
EXTENDS V2Universe, Json, CSV

CONSTANTS K, PairLevel, TripleLevel, M, Seed

CatSeq == SetToSeq(Catalogue)
NCat == Len(CatSeq)
Pick(j, r) == CatSeq[(((Seed % 1000) * 1009 + j * 7919 + r * 10007 + ((j * r) % 997) * 31 * (j % 1013)
                       + ((Seed % 1000) * (j % 1013)) * r) % NCat) + 1]   \* every product stays below 2^31
Sample(j) == {Pick(j, r) : r \in 1..(3 + (j % 2))}
Samples == {X \in {Sample(j) : j \in 1..M} : Cardinality(X) >= 3 /\ Compatible(X)}

VARIABLE atoms
Init == atoms = {} \/ atoms \in Samples
Next == \E a \in Catalogue \ atoms :
           LET X == atoms \cup {a} n == Cardinality(atoms) + 1 IN
           /\ n <= K
           /\ n = 2 => \A x \in X : x.c <= PairLevel
           /\ n >= 3 => \A x \in X : x.c <= TripleLevel
           /\ Compatible(X)
           /\ atoms' = X
Spec == Init /\ [][Next]_atoms

Emit == CSVWrite("%1$s", <<ToJson([d |-> Build(atoms), ids |-> SetToSeq({a.id : a \in atoms})])>>, "cases.ndjson")
=============================================================================
