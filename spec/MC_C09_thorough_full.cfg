SPECIFICATION Spec
CONSTANTS Kinds = {"plain", "mixed", "enc", "root"}
          MixedServerSet = {"none", "rel", "relslash", "relroot", "abs", "absvar", "two", "psfirst", "pslast", "relpfx", "abspfx"}
          MixedCoreServers = {"none", "rel", "relslash", "relroot", "abs", "absvar", "two", "psfirst", "pslast", "relpfx", "abspfx"}
          MixedMethKeys = {"G", "P", "GP"}
          PlainMethKeys = {"G", "P", "GP"}
          MaxLen = 2
          MaxT = 2
          ServerSet = {"none", "rel", "relslash", "relroot", "abs", "absvar", "two", "psfirst", "pslast", "relpfx", "abspfx"}
          CoreLen = 2
          CoreT = 2
          CoreServers = {"none", "rel", "relslash", "relroot", "abs", "absvar", "two", "psfirst", "pslast", "relpfx", "abspfx"}
          Slice = 0
          Seed = 1
          DesignAll = TRUE
INVARIANTS DesignOK Emit
CHECK_DEADLOCK FALSE
