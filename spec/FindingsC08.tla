----------------------------- MODULE FindingsC08 -----------------------------
(* Classes of the open findings of C08 (known_findings.json): as narrow as the cause allows -- minimal syntactic      *)
(* trigger /\ the specific wrong observation.                                                                         *)
EXTENDS ResponseCheck

(* F-C08-1: a response header DEFINED under a name that is Content-Type in another letter case is validated against   *)
(* its schema (validate_response.go skips only the exact key "Content-Type"), so a conforming response is rejected.    *)
CtCaseClass(line, bad) ==
   /\ bad = {"conforming_response_accepted"} /\ line.c.part = "hdr"
   /\ \E i \in DOMAIN line.c.hdrs : IsCT(line.c.hdrs[i].name) /\ line.c.hdrs[i].name # "Content-Type"

(* F-C08-2: header schema `oneOf` whose alternatives are of different types, text readable by several of them ("1" is  *)
(* an integer and a string): decodeValue keeps the LAST alternative's decoding, not the one that validates, so a text  *)
(* that satisfies exactly one alternative is rejected.                                                                *)
ReadBy(alt, cs) == "type" \in DOMAIN alt /\ \E v \in PrimReadings(cs, "str") : TypeIs(alt.type, v)
OneOfLastClass(line, bad) ==
   /\ bad = {"conforming_response_accepted"} /\ line.c.part = "hdr"
   /\ \E i \in DOMAIN line.c.hdrs :
         LET h == line.c.hdrs[i] IN
         /\ h.present /\ "oneOf" \in DOMAIN h.hs
         /\ Cardinality({j \in DOMAIN h.hs.oneOf : ReadBy(h.hs.oneOf[j], h.cs)}) >= 2

Class(line, bad) ==
   IF CtCaseClass(line, bad) THEN "declared_content_type_header_case"
   ELSE IF OneOfLastClass(line, bad) THEN "oneof_header_keeps_last_decoding"
   ELSE "none"
=============================================================================
