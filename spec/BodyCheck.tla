------------------------------ MODULE BodyCheck ------------------------------
(***************************************************************************)
(* L1 contract of request-body validation (property C06).                  *)
(***************************************************************************)
EXTENDS SchemaSem, MediaSelect

Json     == MT("application", "json", "")
JsonUtf8 == MT("application", "json", "charset=utf-8")
JsonAscii == MT("application", "json", "charset=ascii")
AppWild  == MT("application", "*", "")
AnyWild  == MT("*", "*", "")
Form     == MT("application", "x-www-form-urlencoded", "")
Multi    == MT("multipart", "form-data", "")
Text     == MT("text", "plain", "")

(* part "select": every declared JSON-family entry accepts exactly the bodies carrying its own *)
(* marker property, so which entry was selected is observable through the verdict.             *)
(* An entry declared WITHOUT a schema ("bare") says nothing about the body: once selected, every body is accepted.     *)
(* No body bytes: nothing is selected; the request fails exactly when the body is required, whatever the header says. *)
SelectAccepts(c) ==
   IF c.empty THEN ~c.required
   ELSE LET sel == Select({c.decl[i] : i \in DOMAIN c.decl}, c.hdr) IN
        ~IsNone(sel) /\ (c.bodyKey = sel \/ ("bare" \in DOMAIN c /\ c.bare = sel))

(* more media types of the universe (round 6b) *)
TextWild  == MT("text", "*", "")
TextUtf8  == MT("text", "plain", "charset=utf-8")
TextAscii == MT("text", "plain", "charset=ascii")
Png       == MT("image", "png", "")
Yaml      == MT("application", "yaml", "")
Octet     == MT("application", "octet-stream", "")

(* part "decode": one declared media type with schema S (or S2 / the text schema) *)
TInt == [type |-> "integer"]
TStr == [type |-> "string"]
(* u1 / u3: properties that carry no "type" of their own (a composition, a bare enum) *)
Props == [pk |-> <<"l", "ls", "n", "ro", "s", "u1", "u3">>,
          ps |-> <<[type |-> "array", items |-> TInt], [type |-> "array", items |-> TStr], TInt, [type |-> "string", readOnly |-> TRUE], TStr,
                   [allOf |-> <<TInt>>], [enum |-> <<Str(<<"a">>), Str(<<"b">>)>>]>>]
(* S3: the read-only property also has a default (the server's value): a request still need not -- must not -- carry it *)
PropsRODefault == [Props EXCEPT !.ps[4] = [type |-> "string", readOnly |-> TRUE, default |-> Str(<<"d">>)]]
S3 == [type |-> "object", required |-> <<"ro">>] @@ PropsRODefault
S1 == [type |-> "object", required |-> <<"n", "ro">>] @@ Props     \* n and the read-only ro are required
S2 == [type |-> "object", required |-> <<"ro">>] @@ Props          \* nothing the client may send is required
TextSchema == [type |-> "string", minLength |-> 2]

(* S4 / S4a: object-level oneOf / anyOf whose alternatives give the SAME property different primitive types: *)
(* a field is typed by the alternative the whole body satisfies                                              *)
AltName == [type |-> "object", required |-> <<"by", "ref">>, pk |-> <<"by", "ref">>,
            ps |-> <<[type |-> "string", enum |-> <<Str(<<"n", "a", "m", "e">>)>>], TStr>>]
AltId   == [type |-> "object", required |-> <<"by", "ref">>, pk |-> <<"by", "ref">>,
            ps |-> <<[type |-> "string", enum |-> <<Str(<<"i", "d">>)>>], TInt>>]
S4  == [type |-> "object", oneOf |-> <<AltId, AltName>>]
S4a == [type |-> "object", anyOf |-> <<AltId, AltName>>]
(* S5: the string property is required (an empty string is a string); S6: it must not be empty *)
S5 == [type |-> "object", required |-> <<"s">>] @@ Props
S6 == [type |-> "object", pk |-> <<"n", "s">>, ps |-> <<TInt, [type |-> "string", minLength |-> 1]>>]

(* SN: the body may be the JSON value null (a body that is there and says null is not an absent body) *)
SN == [type |-> "object", nullable |-> TRUE] @@ Props

(* S7: a write-only property (a request may -- here must -- carry it; it is an ordinary property of a request) next to a read-only one *)
S7 == [type |-> "object", required |-> <<"ro", "wo">>, pk |-> <<"n", "ro", "wo">>,
       ps |-> <<TInt, [type |-> "string", readOnly |-> TRUE], [type |-> "string", writeOnly |-> TRUE]>>]

(* S8: an object-valued property (a multipart part that is itself a JSON document; a nested mapping of a YAML body) *)
S8 == [type |-> "object", required |-> <<>>, pk |-> <<"n", "o", "s">>,
       ps |-> <<TInt, [type |-> "object", required |-> <<"a">>, pk |-> <<"a", "b">>, ps |-> <<TInt, TInt>>], TStr>>]

(* S9: the other primitive types (a boolean, a number that need not be integral) next to the integer *)
TBool == [type |-> "boolean"]
TNum  == [type |-> "number"]
S9 == [type |-> "object", required |-> <<>>, pk |-> <<"b", "f", "n">>, ps |-> <<TBool, TNum, TInt>>]

(* S10: arrays of every primitive type (the properties a per-property Encoding Object of a urlencoded body matters for) *)
S10 == [type |-> "object", required |-> <<>>, pk |-> <<"l", "lb", "lf", "ls">>,
        ps |-> <<[type |-> "array", items |-> TInt], [type |-> "array", items |-> TBool], [type |-> "array", items |-> TNum],
                 [type |-> "array", items |-> [type |-> "string", enum |-> <<Str(<<"a">>), Str(<<"b">>), Str(<<"c">>)>>]]>>]

(* The Encoding Object of a property of a urlencoded body gives style and / or explode, each possibly ABSENT ("none").        *)
(* OpenAPI 3.0.3, Encoding Object: style defaults to form; explode defaults to true when the style is form, to false for every *)
(* other style.  An exploded array is one field per item; otherwise ONE field whose text joins the items by the style's        *)
(* delimiter (form ","  spaceDelimited " "  pipeDelimited "|").  This is how a body ENCODES an array under an encoding.        *)
EffStyle(style) == IF style = "none" THEN "form" ELSE style
EffExplode(style, explode) == IF explode = "none" THEN EffStyle(style) = "form" ELSE explode = "true"
StyleDelim(style) == CASE EffStyle(style) = "spaceDelimited" -> " " [] EffStyle(style) = "pipeDelimited" -> "|" [] OTHER -> ","

(* Schemas of a text/plain body (and of a multipart part decoded as plain text).  The value a plain-text body encodes is *)
(* the string it carries, whatever the schema says -- in particular when the schema has NO "type" keyword (T1..T5): a   *)
(* bare enum, length bounds, a pattern, nullable, a composition.  T6 (type: integer): the text is still a string, so    *)
(* no letter text satisfies it; whether a digit text could is left open (excluded by the generator).                    *)
TextSchemaOf(name) ==
   CASE name = "T1" -> [enum |-> <<Str(<<"a">>), Str(<<"a", "b", "c">>), Str(<<"4", "2">>)>>]
     [] name = "T2" -> [nullable |-> TRUE, maxLength |-> 2]
     [] name = "T3" -> [minLength |-> 2]
     [] name = "T4" -> [pattern |-> "^a"]
     [] name = "T5" -> [oneOf |-> <<[type |-> "string", maxLength |-> 1], [minLength |-> 3]>>]
     [] name = "T6" -> [type |-> "integer"]
     [] name = "T7" -> [type |-> "string", nullable |-> TRUE, maxLength |-> 2]
     [] OTHER -> TextSchema                                                          \* "text" / "T0"

(* wrap: the object schema sits inside a composition / below an array or a property; the request-side reading   *)
(* (read-only absent unless excluded, required read-only exempt, write-only inert) holds wherever the schema sits *)
Wrap(s, w) ==
   CASE w = "anyOf"      -> [anyOf |-> <<[type |-> "boolean"], s>>]
     [] w = "anyOf2"     -> [anyOf |-> <<[s EXCEPT !.required = <<"l", "ls">>], s>>]   \* two object alternatives declaring the same properties
     [] w = "oneOf"      -> [oneOf |-> <<s, [type |-> "boolean"]>>]
     [] w = "allOf"      -> [allOf |-> <<[type |-> "object"], s>>]
     [] w = "allOfT"     -> [type |-> "object", allOf |-> <<s>>]
     [] w = "anyOfT"     -> [type |-> "object", anyOf |-> <<s>>]                        \* (typed at the top: the shape the form decoders ask for)
     [] w = "oneOfT"     -> [type |-> "object", oneOf |-> <<s, [type |-> "boolean"]>>]
     [] w = "allOfAnyOf" -> [allOf |-> <<[anyOf |-> <<s>>]>>]
     [] w = "items"      -> [type |-> "array", items |-> s]
     [] w = "itemsAnyOf" -> [type |-> "array", items |-> [anyOf |-> <<s>>]]
     [] w = "prop"       -> [type |-> "object", pk |-> <<"in">>, ps |-> <<s>>]
     [] w = "propAnyOf"  -> [type |-> "object", pk |-> <<"in">>, ps |-> <<[anyOf |-> <<s, [type |-> "boolean"]>>]>>]
     [] OTHER -> s

BaseSchemaOf(c) == IF c.family \in {"text", "octet", "zip", "csv"} THEN TextSchemaOf(c.schema) ELSE IF c.schema = "SN" THEN SN
               ELSE CASE c.schema = "S1" -> S1 [] c.schema = "S3" -> S3 [] c.schema = "S4" -> S4 [] c.schema = "S4a" -> S4a
                      [] c.schema = "S5" -> S5 [] c.schema = "S6" -> S6 [] c.schema = "S7" -> S7 [] c.schema = "S8" -> S8 [] c.schema = "S9" -> S9 [] c.schema = "S10" -> S10 [] OTHER -> S2
SchemaOf(c) == IF "wrap" \in DOMAIN c THEN Wrap(BaseSchemaOf(c), c.wrap) ELSE BaseSchemaOf(c)

(* the media type a decoder family is declared under and sent as *)
BaseMT(c) == CASE c.family = "json" -> Json [] c.family = "form" -> Form [] c.family = "multipart" -> Multi
               [] c.family = "yaml" -> Yaml [] c.family = "octet" -> Octet [] OTHER -> Text
(* declPar / hdrPar: a parameter on the declared key / on the Content-Type header of a decode case.  The entry is      *)
(* selected by the same precedence as everywhere (exact string, else without parameters); the decoder is the one of    *)
(* the header's media type read without its parameters, so a charset parameter never changes what a body decodes to.   *)
CtSelected(c) ==
   "declPar" \notin DOMAIN c
   \/ ~IsNone(Select({[BaseMT(c) EXCEPT !.par = c.declPar]}, [BaseMT(c) EXCEPT !.par = c.hdrPar]))

DecodeAccepts(c) == CtSelected(c) /\ Valid(SchemaOf(c), c.v, IF c.excludeRO THEN "asreq_noro" ELSE "asreq")

(* part "malformed": the body text is not an encoding of ANY value in the syntax of its media type (truncated JSON,   *)
(* JSON followed by more text, a bad percent escape, a multipart body without boundary / closing delimiter ...): there *)
(* is no value that could satisfy the schema, so the request is rejected -- whatever the schema, even the empty one.    *)
Accepts(c) == CASE c.part = "select" -> SelectAccepts(c)
                [] c.part = "malformed" -> FALSE
                [] OTHER -> DecodeAccepts(c)
=============================================================================
