SPECIFICATION Spec
CONSTANTS Policy = "never"
 MaxSteps = 2
INVARIANTS Emit HistoryIndependent
CHECK_DEADLOCK FALSE
