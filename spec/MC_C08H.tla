------------------------------- MODULE MC_C08H -------------------------------
(* D for the "body stays readable afterwards" clause: spec/BodyKeep.tla, L2 (Design) => L1 over all histories *)
EXTENDS BodyKeep
AllKinds == Kinds
CoreKinds == {"read_ok", "read_bad", "no_content", "head"}
=============================================================================
