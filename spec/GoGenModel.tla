------------------------------ MODULE GoGenModel ------------------------------
(***************************************************************************)
(* C18, L2: an implementation-shaped model of openapi3gen                  *)
(* (openapi3gen.go generateWithoutSaving / generateCycleSchemaRef,         *)
(* field_info.go appendFields, type_info.go getTypeInfo,                   *)
(* NewSchemaRefForValue's copy loop) for every option set of the catalogue:*)
(*  - pointers (named pointer types too) are stripped, nullable = "was a   *)
(*    pointer and is not the root"; a defined type is described by its     *)
(*    kind (type NI8 int8 -> the int8 schema)                              *)
(*  - a field with the "string" tag option whose type encoding/json quotes *)
(*    (GoTypes!Quotable) becomes {type: string} (nullable kept); elsewhere *)
(*    the option is ignored                                                *)
(*  - unexported fields are skipped, except that untagged embedded structs *)
(*    are expanded whatever their name; an untagged embedded non-struct    *)
(*    is dropped (appendFields returns at once on a non-struct)            *)
(*  - the kind switch (type, format, minimum, maximum per Go kind)         *)
(*  - fields: appendFields order, untagged embedded struct(-pointer)s      *)
(*    expanded in place, sorted by JSON name, only tagged ones unless      *)
(*    UseAllExportedFields; a later entry of the same name overwrites      *)
(*  - the table Go type -> finished schema (Generator.Types) is consulted  *)
(*    first, before the cycle check                                        *)
(*  - a type (of any kind, pointers stripped) met again on the parent      *)
(*    chain is cut: generateCycleSchemaRef unwraps pointers, slices and    *)
(*    maps -- named ones too -- down to the struct below them and the      *)
(*    position becomes array-of / object-of a bare $ref to the component   *)
(*    of that struct (nullable is not carried); when the cut type is the   *)
(*    struct itself the reference object carries, as its value, the schema *)
(*    of the struct in whose field loop the cut happened (not of the type  *)
(*    it names).  A container type that is its own element (type Tree      *)
(*    []Tree) is met again while unwrapping and described as "anything"    *)
(*    there (before repair 9 the unwrapping did not end: Diverges)         *)
(*  - with component export every struct below the root (the root too with *)
(*    ExportTopLevelSchema) becomes a reference to the component named by  *)
(*    the (caller's) type-name function; a struct whose component name is  *)
(*    already registered is not generated again                            *)
(*  - NewSchemaRefForValue copies into the caller's map, for every         *)
(*    registered component name, the value of some reference object whose  *)
(*    name matches and whose value has properties: struct schemas match by *)
(*    their Go name, component and cycle references by their component    *)
(*    name -- the latter only with component export (l.138-141).  Which    *)
(*    matching object wins is decided by map iteration order: the model    *)
(*    gives the set of candidates per name                                 *)
(*  - appendFields does not terminate on a struct that embeds a pointer to *)
(*    itself (Diverges)                                                    *)
(*  - option sets "throw" (ThrowErrorOnCycle: the first cut aborts the     *)
(*    whole generation with a CycleError; the model records that a cut     *)
(*    happened, st.cyc) and "custom" (a SchemaCustomizer that changes      *)
(*    nothing: its presence switches the type table off, l.166)            *)
(*  - a Generator that is used again (history of two NewSchemaRefForValue  *)
(*    calls): the type table and the registered component names stay; the  *)
(*    epilogue of the first call has cleared the name of every reference   *)
(*    object that is not a component reference and the value of every one  *)
(*    that is (l.146-150), so none of them can be stored into a component  *)
(*    map again: the second call only stores what it generates anew        *)
(*    (Carry, GenHist)                                                     *)
(* MC_C18 checks this model against the contract (GoSchema!Accepts on      *)
(* every GoTypes!Enc encoding); the trace specification compares it with   *)
(* what the real generator returned (fidelity warnings).                   *)
(***************************************************************************)
EXTENDS GoSchema

(* The listed findings that have been repaired in the code (fix: commits); the model follows the *)
(* repaired code.  The behaviour before each repair stays in the model as a variant              *)
(* (Repaired = {} in MC_C18_unrepaired.cfg), which the design check must refute: a drift guard.  *)
(*   8 - a struct without visible fields is no longer turned into a component reference          *)
(*   9 - generateCycleSchemaRef stops at a container type it has already unwrapped               *)
(*  11 - a pointer type that is the root of a call is not entered into the type table            *)
CONSTANT Repaired

RECURSIVE StripP(_)
StripP(t) == IF U(t).k = "ptr" THEN StripP(U(t).e) ELSE t

(* maximum of uint64 as the library renders it: float64(MaxUint64) = 2^64 is written as *)
(* 18446744073709552000, which lies above the point 2^64                                 *)
MaxU64Rendered == P("18446744073709551616") + 2

KindSchema(k) ==
   CASE k = "bool"    -> [type |-> "boolean"]
     [] k = "int"     -> [type |-> "integer"]
     [] k = "int8"    -> [type |-> "integer", minimum |-> P("-128"), maximum |-> P("127")]
     [] k = "int16"   -> [type |-> "integer", minimum |-> P("-32768"), maximum |-> P("32767")]
     [] k = "int32"   -> [type |-> "integer", format |-> "int32"]
     [] k = "int64"   -> [type |-> "integer", format |-> "int64"]
     [] k = "uint"    -> [type |-> "integer", minimum |-> 0]
     [] k = "uint8"   -> [type |-> "integer", minimum |-> 0, maximum |-> P("255")]
     [] k = "uint16"  -> [type |-> "integer", minimum |-> 0, maximum |-> P("65535")]
     [] k = "uint32"  -> [type |-> "integer", minimum |-> 0, maximum |-> P("4294967295")]
     [] k = "uint64"  -> [type |-> "integer", minimum |-> 0, maximum |-> MaxU64Rendered]
     [] k = "float32" -> [type |-> "number", format |-> "float"]
     [] k = "float64" -> [type |-> "number", format |-> "double"]
     [] k = "string"  -> [type |-> "string"]
     [] k = "bytes"   -> [type |-> "string", format |-> "byte"]
     [] k = "time"    -> [type |-> "string", format |-> "date-time"]

(* appendFields; seen = declared types being expanded (the code has no such guard: see Diverges) *)
RECURSIVE AppendFields(_, _, _)
AppendFields(ST, x, seen) ==
   IF x > Len(ST.f) THEN <<>>
   ELSE LET fd == ST.f[x]
            here == IF Flattens(fd)
                    THEN LET it == IF fd.t.k = "ptr" THEN fd.t.e ELSE fd.t IN
                         IF it.k = "named" /\ it.n \in seen THEN <<>>
                         ELSE AppendFields(StructOf(it), 1, IF it.k = "named" THEN seen \cup {it.n} ELSE seen)
                    ELSE IF Has(fd, "emb") /\ ~Has(fd, "j") THEN <<>>     \* untagged embedded non-struct: dropped
                    ELSE IF Has(fd, "x") THEN <<>>                        \* unexported
                    ELSE <<[name |-> JsonName(fd), tagged |-> Has(fd, "j"), t |-> fd.t, qs |-> Quoted(fd)]>>
        IN here \o AppendFields(ST, x + 1, seen)

(* a struct whose untagged embedded struct(-pointer) fields lead back to itself *)
RECURSIVE EmbedsBack(_, _, _)
EmbedsBack(ST, target, hops) ==
   hops > 0 /\ \E x \in DOMAIN ST.f :
      /\ Flattens(ST.f[x])
      /\ LET it == IF ST.f[x].t.k = "ptr" THEN ST.f[x].t.e ELSE ST.f[x].t IN
         it.k = "named" /\ (it.n = target \/ EmbedsBack(Defs(it.n), target, hops - 1))
(* the struct a cycle reference to t names: pointers, slices and maps (named or not) unwrapped; *)
(* a container that only ever reaches containers has none                                       *)
RECURSIVE CycleTargetH(_, _)
CycleTargetH(t, hops) ==
   LET u == U(t) IN
   IF u.k \in {"ptr", "slice", "map"} THEN (IF hops = 0 THEN [k |-> "none"] ELSE CycleTargetH(u.e, hops - 1)) ELSE t
CycleTarget(t) == CycleTargetH(t, 8)
SelfContainer(T) == \E n \in ReachNames(T) : U(Named(n)).k \in {"slice", "map"} /\ CycleTarget(Named(n)).k = "none"
Diverges(T) == (\E n \in ReachNames(T) : Defs(n).k = "struct" /\ EmbedsBack(Defs(n), n, 3))
               \/ (9 \notin Repaired /\ SelfContainer(T))

WithNullable(s, nullable) ==
   IF ~nullable THEN s ELSE IF DOMAIN s = {} THEN [nullable |-> TRUE] ELSE [nullable |-> TRUE] @@ s

ExportsComponents(opt) == opt \in {"export", "exporttop", "useall_export", "tng_export", "tng_exporttop"}
ExportsTop(opt) == opt \in {"exporttop", "tng_exporttop"}
UsesAllFields(opt) == opt \in {"useall", "useall_export"}
GoNameOf(b) == IF b.k = "named" THEN b.n ELSE ""          \* reflect.Type.Name()
(* generateCycleSchemaRef *)
RECURSIVE CycleSchemaV(_, _, _)
CycleSchemaV(name, t, seen) ==
   LET u == U(t)
       seen2 == seen \cup {t} IN
   IF 9 \in Repaired /\ t \in seen THEN <<>>        \* already unwrapped: the empty schema
   ELSE
   CASE u.k = "ptr"   -> CycleSchemaV(name, u.e, seen2)
     [] u.k = "slice" -> [type |-> "array", items |-> CycleSchemaV(name, u.e, seen2)]
     [] u.k = "map"   -> [type |-> "object", apSchema |-> CycleSchemaV(name, u.e, seen2)]
     [] OTHER         -> [ref |-> name]
CycleSchema(name, t) == CycleSchemaV(name, t, {})

(* Generator state threaded through the depth-first generation:                                  *)
(*   c    - Generator.Types: Go type -> finished result (consulted before anything else, in      *)
(*          particular before the cycle check, generateSchemaRefFor l.166); set of [t, s]         *)
(*   csr  - componentSchemaRefs: the registered component names                                   *)
(*   cand - the reference objects of Generator.SchemaRefs that have a name: [name, pref (the      *)
(*          name is written with the #/components/schemas/ prefix), own (the value is the schema  *)
(*          of the type the name stands for), val]                                                *)
(* GenC returns [s, st]; s = [cycle |-> n] when the type is a declared type on the parent chain   *)
(* (a failed generation is not cached).                                                           *)
EmptySt == [c |-> {}, csr |-> {}, cand |-> {}, cyc |-> FALSE]
CacheHit(cache, T) == \E e \in cache : e.t = T
CacheGet(cache, T) == (CHOOSE e \in cache : e.t = T).s
CycleName(opt, t) == TypeNameOf(opt, GoNameOf(CycleTarget(t)))
AsSub(opt, g) == IF Has(g, "cycle") THEN CycleSchema(CycleName(opt, g.cycle), g.cycle) ELSE g
(* generateCycleSchemaRef registers the component name of the struct it ends at (if it ends at one) *)
AfterChild(opt, x) ==
   IF ~Has(x.s, "cycle") THEN x.st
   ELSE IF CycleTarget(x.s.cycle).k = "none" THEN [x.st EXCEPT !.cyc = TRUE]
   ELSE [x.st EXCEPT !.csr = @ \cup {CycleName(opt, x.s.cycle)}, !.cyc = TRUE]

(* candidate fields in the order the generator visits them: sorted by JSON name, ties in *)
(* appendFields order (sort.Sort on at most 12 elements is an insertion sort)              *)
VisitOrder(es, used) ==
   SortSeq(SelectSeq([i \in DOMAIN es |-> i], LAMBDA x : x \in used),
           LAMBDA x, y : NameIdx(es[x].name) * 100 + x < NameIdx(es[y].name) * 100 + y)

RECURSIVE GenC(_, _, _, _, _), GenFields(_, _, _, _, _, _, _, _)
(* visit the fields order[i..]; acc = the (name, schema) pairs so far, cuts = the declared *)
(* structs cut (directly, not below a container) in this struct's own field loop: only     *)
(* those reference objects are counted in Generator.SchemaRefs                             *)
QuoteSchema(s) == IF Has(s, "nullable") THEN [type |-> "string", nullable |-> TRUE] ELSE [type |-> "string"]
GenFields(order, i, es, parents, opt, st, acc, cuts) ==
   IF i > Len(order) THEN [acc |-> acc, st |-> st, cuts |-> cuts]
   ELSE LET e == es[order[i]]
            r == GenC(e.t, parents, FALSE, opt, st)
        IN GenFields(order, i + 1, es, parents, opt, AfterChild(opt, r),
                     Append(acc, [name |-> e.name, s |-> IF e.qs THEN QuoteSchema(AsSub(opt, r.s)) ELSE AsSub(opt, r.s)]),
                     IF Has(r.s, "cycle") /\ U(r.s.cycle).k = "struct" THEN cuts \cup {GoNameOf(r.s.cycle)} ELSE cuts)

GenC(T, parents, root, opt, st) ==
   IF opt # "custom" /\ CacheHit(st.c, T) THEN [s |-> CacheGet(st.c, T), st |-> st]
   ELSE
   LET b == StripP(T)
       u == U(b)
       nullable == U(T).k = "ptr" /\ ~root
       (* repair 11: what a pointer type got as the root of a call is not kept in the type table *)
       cached(s, st2) == IF 11 \in Repaired /\ root /\ U(T).k = "ptr" THEN [s |-> s, st |-> st2]
                         ELSE [s |-> s, st |-> [st2 EXCEPT !.c = @ \cup {[t |-> T, s |-> s]}]] IN
   IF b \in parents THEN [s |-> [cycle |-> b], st |-> st]
   ELSE LET ps2 == parents \cup {b} IN
   CASE u.k \in BaseKinds -> cached(WithNullable(KindSchema(u.k), nullable), st)
     [] u.k = "slice" -> LET x == GenC(u.e, ps2, FALSE, opt, st) IN
                         cached(WithNullable([type |-> "array", items |-> AsSub(opt, x.s)], nullable), AfterChild(opt, x))
     [] u.k = "map"   -> LET x == GenC(u.e, ps2, FALSE, opt, st) IN
                         cached(WithNullable([type |-> "object", apSchema |-> AsSub(opt, x.s)], nullable), AfterChild(opt, x))
     [] u.k = "struct" ->
          LET tn == TypeNameOf(opt, GoNameOf(b)) IN
          IF ExportsComponents(opt) /\ tn \in st.csr
          THEN cached([ref |-> tn], st)               \* l.335: already a component, not generated again
          ELSE LET es == AppendFields(StructOf(b), 1, IF b.k = "named" THEN {b.n} ELSE {})
                   used == {x \in DOMAIN es : es[x].tagged \/ UsesAllFields(opt)}
                   g == GenFields(VisitOrder(es, used), 1, es, ps2, opt, st, <<>>, {})
                   ks == SortNames({g.acc[x].name : x \in DOMAIN g.acc})
                   last(n) == CHOOSE x \in DOMAIN g.acc :
                                 g.acc[x].name = n /\ \A y \in DOMAIN g.acc : g.acc[y].name = n => y <= x
                   s == WithNullable(IF ks = <<>> THEN <<>>
                                     ELSE [type |-> "object", pk |-> ks,
                                           ps |-> [i \in DOMAIN ks |-> g.acc[last(ks[i])].s]], nullable)
                   (* repair 8: only a struct with properties becomes a component *)
                   isComp == ExportsComponents(opt) /\ (~root \/ ExportsTop(opt)) /\ (8 \in Repaired => ks # <<>>)
                   mine == [name |-> IF isComp THEN tn ELSE GoNameOf(b), pref |-> isComp, own |-> TRUE, val |-> s]
                   held == {[name |-> TypeNameOf(opt, x), pref |-> TRUE, own |-> (b.k = "named" /\ x = b.n), val |-> s] :
                               x \in g.cuts}
               IN cached(IF isComp THEN [ref |-> tn] ELSE s,
                         [g.st EXCEPT !.csr = IF isComp THEN @ \cup {tn} ELSE @,
                                      !.cand = @ \cup {mine} \cup held])

GenAll(T, opt) == GenC(T, {}, TRUE, opt, EmptySt)
(* the generator state a second call starts from *)
Carry(st) == [st EXCEPT !.cand = {}, !.cyc = FALSE]
GenHist(T1, T2, opt) == GenC(T2, {}, TRUE, opt, Carry(GenAll(T1, opt).st))
NoFirst == [k |-> "nofirst"]
ModelRun(Fst, T, opt) == IF Fst.k = "nofirst" THEN GenAll(T, opt) ELSE GenHist(Fst, T, opt)
GenRoot(T, opt) == GenAll(T, opt).s
(* does generation meet a cycle (with ThrowErrorOnCycle: does it fail with a CycleError)? *)
ModelCycles(T, opt) == GenAll(T, opt).st.cyc

(* NewSchemaRefForValue l.136-148: the objects whose value may be stored under component name k *)
Matches(opt, c, k) == Has(c.val, "pk") /\ c.name = k /\ (c.pref => ExportsComponents(opt))
CompCands(opt, st, k) == {c \in st.cand : Matches(opt, c, k)}
CompKeys(opt, st) == {k \in st.csr : CompCands(opt, st, k) # {}}
(* can a component receive the schema of another type? *)
ForeignCands(opt, st) == {c \in st.cand : ~c.own /\ \E k \in st.csr : Matches(opt, c, k)}

RECURSIVE SetToSeq(_)
SetToSeq(S) == IF S = {} THEN <<>> ELSE LET x == CHOOSE x \in S : TRUE IN <<x>> \o SetToSeq(S \ {x})
(* the component map when every name receives the schema of its own type -- the least favourable *)
(* such candidate (not nullable) if there are several                                            *)
GenCompsSt(st, opt) ==
   LET ks == SetToSeq({k \in CompKeys(opt, st) : \E c \in CompCands(opt, st, k) : c.own})
       pick(k) == LET cs == {c.val : c \in {c \in CompCands(opt, st, k) : c.own}}
                      strict == {c \in cs : ~Has(c, "nullable")} IN
                  IF strict # {} THEN CHOOSE c \in strict : TRUE ELSE CHOOSE c \in cs : TRUE
   IN [k |-> ks, v |-> [i \in DOMAIN ks |-> pick(ks[i])]]
GenComps(T, opt) == GenCompsSt(GenAll(T, opt).st, opt)
(* a component map into which a second call has stored its components (overwriting) *)
MergeComps(c1, c2) ==
   LET ks == SetToSeq(Range(c1.k) \cup Range(c2.k)) IN
   [k |-> ks, v |-> [i \in DOMAIN ks |-> IF HasComp(c2, ks[i]) THEN Comp(c2, ks[i]) ELSE Comp(c1, ks[i])]]
=============================================================================
