------------------------------ MODULE GoGenModel ------------------------------
(***************************************************************************)
(* C18, L2: an implementation-shaped model of openapi3gen                  *)
(* (openapi3gen.go generateWithoutSaving / generateCycleSchemaRef,         *)
(* field_info.go appendFields, type_info.go getTypeInfo) for the option    *)
(* sets without component export:                                          *)
(*  - pointers are stripped, nullable = "was a pointer and is not the root"*)
(*  - the kind switch (type, format, minimum, maximum per Go kind)         *)
(*  - fields: appendFields order, untagged embedded struct(-pointer)s      *)
(*    expanded in place, sorted by JSON name, only tagged ones unless      *)
(*    UseAllExportedFields; a later entry of the same name overwrites      *)
(*  - the table Go type -> finished schema (Generator.Types) is consulted  *)
(*    first, before the cycle check                                        *)
(*  - a declared type met again on the parent chain is cut: the position   *)
(*    becomes a bare $ref to the component of that name (nullable is not   *)
(*    carried), and the component map receives the schema of the type      *)
(*  - appendFields does not terminate on a struct that embeds a pointer to *)
(*    itself (Diverges)                                                    *)
(* MC_C18 checks this model against the contract (GoSchema!Accepts on      *)
(* every GoTypes!Enc encoding); the trace specification compares it with   *)
(* what the real generator returned (fidelity warnings).                   *)
(***************************************************************************)
EXTENDS GoSchema

RECURSIVE StripP(_)
StripP(t) == IF t.k = "ptr" THEN StripP(t.e) ELSE t

(* maximum of uint64 as the library renders it: float64(MaxUint64) = 2^64 is written as *)
(* 18446744073709552000, which lies above the point 2^64                                 *)
MaxU64Rendered == P("18446744073709551616") + 2

KindSchema(k) ==
   CASE k = "bool"    -> [type |-> "boolean"]
     [] k = "int"     -> [type |-> "integer"]
     [] k = "int8"    -> [type |-> "integer", minimum |-> P("-128"), maximum |-> P("127")]
     [] k = "int16"   -> [type |-> "integer", minimum |-> P("-32768"), maximum |-> P("32767")]
     [] k = "int32"   -> [type |-> "integer", format |-> "int32"]
     [] k = "int64"   -> [type |-> "integer", format |-> "int64"]
     [] k = "uint"    -> [type |-> "integer", minimum |-> 0]
     [] k = "uint8"   -> [type |-> "integer", minimum |-> 0, maximum |-> P("255")]
     [] k = "uint16"  -> [type |-> "integer", minimum |-> 0, maximum |-> P("65535")]
     [] k = "uint32"  -> [type |-> "integer", minimum |-> 0, maximum |-> P("4294967295")]
     [] k = "uint64"  -> [type |-> "integer", minimum |-> 0, maximum |-> MaxU64Rendered]
     [] k = "float32" -> [type |-> "number", format |-> "float"]
     [] k = "float64" -> [type |-> "number", format |-> "double"]
     [] k = "string"  -> [type |-> "string"]
     [] k = "bytes"   -> [type |-> "string", format |-> "byte"]
     [] k = "time"    -> [type |-> "string", format |-> "date-time"]

(* appendFields; seen = declared types being expanded (the code has no such guard: see Diverges) *)
RECURSIVE AppendFields(_, _, _)
AppendFields(ST, x, seen) ==
   IF x > Len(ST.f) THEN <<>>
   ELSE LET fd == ST.f[x]
            here == IF Flattens(fd)
                    THEN LET it == IF fd.t.k = "ptr" THEN fd.t.e ELSE fd.t IN
                         IF it.k = "named" /\ it.n \in seen THEN <<>>
                         ELSE AppendFields(StructOf(it), 1, IF it.k = "named" THEN seen \cup {it.n} ELSE seen)
                    ELSE <<[name |-> JsonName(fd), tagged |-> Has(fd, "j"), t |-> fd.t]>>
        IN here \o AppendFields(ST, x + 1, seen)

(* a struct whose untagged embedded struct(-pointer) fields lead back to itself *)
RECURSIVE EmbedsBack(_, _, _)
EmbedsBack(ST, target, hops) ==
   hops > 0 /\ \E x \in DOMAIN ST.f :
      /\ Flattens(ST.f[x])
      /\ LET it == IF ST.f[x].t.k = "ptr" THEN ST.f[x].t.e ELSE ST.f[x].t IN
         it.k = "named" /\ (it.n = target \/ EmbedsBack(Defs(it.n), target, hops - 1))
Diverges(T) == \E n \in ReachNames(T) : EmbedsBack(Defs(n), n, 3)

WithNullable(s, nullable) ==
   IF ~nullable THEN s ELSE IF DOMAIN s = {} THEN [nullable |-> TRUE] ELSE [nullable |-> TRUE] @@ s

(* The generator keeps a table  Go type -> finished schema  (Generator.Types) that it consults  *)
(* before anything else (generateSchemaRefFor l.166), in particular before the cycle check, so  *)
(* the model threads that table (cache: a set of [t, s]) through the depth-first generation.    *)
(* GenC returns [s |-> schema, c |-> cache]; s = [cycle |-> n] when the type is a declared type *)
(* on the parent chain (a failed generation is not cached).                                     *)
CacheHit(cache, T) == \E e \in cache : e.t = T
CacheGet(cache, T) == (CHOOSE e \in cache : e.t = T).s
AsSub(g) == IF Has(g, "cycle") THEN [ref |-> g.cycle] ELSE g

(* candidate fields in the order the generator visits them: sorted by JSON name, ties in *)
(* appendFields order (sort.Sort on at most 12 elements is an insertion sort)              *)
VisitOrder(es, used) ==
   SortSeq(SelectSeq([i \in DOMAIN es |-> i], LAMBDA x : x \in used),
           LAMBDA x, y : NameIdx(es[x].name) * 100 + x < NameIdx(es[y].name) * 100 + y)

RECURSIVE GenC(_, _, _, _, _), GenFields(_, _, _, _, _, _, _)
(* visit the fields order[i..]; acc = the (name, schema) pairs so far *)
GenFields(order, i, es, parents, useAll, cache, acc) ==
   IF i > Len(order) THEN [acc |-> acc, c |-> cache]
   ELSE LET e == es[order[i]]
            r == GenC(e.t, parents, FALSE, useAll, cache)
        IN GenFields(order, i + 1, es, parents, useAll, r.c, Append(acc, [name |-> e.name, s |-> AsSub(r.s)]))

GenC(T, parents, root, useAll, cache) ==
   IF CacheHit(cache, T) THEN [s |-> CacheGet(cache, T), c |-> cache]
   ELSE
   LET b == StripP(T)
       nullable == T.k = "ptr" /\ ~root IN
   IF b.k = "named" /\ b.n \in parents THEN [s |-> [cycle |-> b.n], c |-> cache]
   ELSE LET ps2 == IF b.k = "named" THEN parents \cup {b.n} ELSE parents
            r == CASE b.k \in BaseKinds -> [s |-> KindSchema(b.k), c |-> cache]
                   [] b.k = "slice" -> LET x == GenC(b.e, ps2, FALSE, useAll, cache) IN
                                       [s |-> [type |-> "array", items |-> AsSub(x.s)], c |-> x.c]
                   [] b.k = "map"   -> LET x == GenC(b.e, ps2, FALSE, useAll, cache) IN
                                       [s |-> [type |-> "object", apSchema |-> AsSub(x.s)], c |-> x.c]
                   [] b.k \in {"struct", "named"} ->
                        LET es == AppendFields(StructOf(b), 1, IF b.k = "named" THEN {b.n} ELSE {})
                            used == {x \in DOMAIN es : es[x].tagged \/ useAll}
                            g == GenFields(VisitOrder(es, used), 1, es, ps2, useAll, cache, <<>>)
                            ks == SortNames({g.acc[x].name : x \in DOMAIN g.acc})
                            last(n) == CHOOSE x \in DOMAIN g.acc :
                                          g.acc[x].name = n /\ \A y \in DOMAIN g.acc : g.acc[y].name = n => y <= x
                        IN [s |-> IF ks = <<>> THEN <<>>
                                  ELSE [type |-> "object", pk |-> ks, ps |-> [i \in DOMAIN ks |-> g.acc[last(ks[i])].s]],
                            c |-> g.c]
            s == WithNullable(r.s, nullable)
        IN [s |-> s, c |-> r.c \cup {[t |-> T, s |-> s]}]

GenAll(T, useAll) == GenC(T, {}, TRUE, useAll, {})
GenRoot(T, useAll) == GenAll(T, useAll).s

(* The component map receives, for every declared type at which a position was cut, the schema *)
(* of one of the table's entries for that type or a pointer to it -- which one is decided by    *)
(* map iteration order in the code (NewSchemaRefForValue l.136).                                *)
NoNullable(s) == [f \in DOMAIN s \ {"nullable"} |-> s[f]]
RefNamesIn(s) == {x.ref : x \in {y \in SubS(s) : Has(y, "ref")}}
CompCandidates(cache, n) == {e.s : e \in {e \in cache : StripP(e.t) = Named(n) /\ Has(e.s, "pk")}}
CutNames(cache) == UNION {RefNamesIn(e.s) : e \in cache}
AllDefNames == <<"EA", "EB", "ES", "MA", "MB", "N1", "N2", "RMap", "RMapV", "RPSlice", "RPtr", "RPtrOE", "RSS", "RSlice">>
(* the least favourable choice: a candidate that is not nullable, if there is one *)
GenComps(T, useAll) ==
   LET cache == GenAll(T, useAll).c
       ks == SelectSeq(AllDefNames, LAMBDA n : n \in CutNames(cache) /\ CompCandidates(cache, n) # {})
       pick(n) == LET cs == CompCandidates(cache, n)
                      strict == {c \in cs : ~Has(c, "nullable")} IN
                  IF strict # {} THEN CHOOSE c \in strict : TRUE ELSE CHOOSE c \in cs : TRUE
   IN [k |-> ks, v |-> [i \in DOMAIN ks |-> pick(ks[i])]]
=============================================================================
