------------------------------ MODULE Trace_C15 ------------------------------
(* Trace validation for C15.  One line = one concurrent run of a case (Gen_C15):               *)
(*   no_data_race                     the race detector reported nothing during the run          *)
(*   returns_normally                 no panic, no fatal error, no hang                           *)
(*   verdict_the_document_prescribes  every verdict a call gives alone is SharedState!Verdicts   *)
(*   route_the_document_prescribes    over overlapping routes, every call run alone (on a router *)
(*                                    nobody else has used) finds the route RouteOrder prescribes *)
(*   verdict_as_when_run_alone        every result observed under concurrency (per variant;      *)
(*                                    verdict AND the type of the error returned) is one the     *)
(*                                    same call gives alone                                      *)
(*   shared_state_unchanged           the observable shared state (SharedState!Observable: the   *)
(*                                    documents, the decoder / encoder registries, the format    *)
(*                                    tables, the switches) is the same after the run as before: *)
(*                                    the model's catalogue has no write to them (MC_C15!Frame)  *)
EXTENDS Naturals, Sequences, FiniteSets, TLC, Json, CSV
Trace == ndJsonDeserialize("trace.ndjson")
VARIABLE l
Init == l = 0
Next == l < Len(Trace) /\ l' = l + 1
Spec == Init /\ [][Next]_l

SS == INSTANCE SharedState WITH DefaultCopied <- TRUE, RouteCopied <- TRUE, SettingsPerCall <- TRUE, VisitReadsSettings <- TRUE,
         RegistryInitOnly <- TRUE, TypeInfosLocked <- TRUE, PatternCacheAtomic <- TRUE, UriCacheLocked <- TRUE,
         UniqueCheckerReadOnly <- TRUE, RouterStateless <- TRUE, WithWriters <- FALSE, MaxOps <- 1, prog <- <<>>, held <- <<>>
F == INSTANCE FindingsC15
Range(f) == {f[i] : i \in DOMAIN f}
OpOf(r) == <<r.op.e, r.op.f>>
Failed(line) ==
   IF line.outcome = "race" THEN {"no_data_race"}
   ELSE IF line.outcome \in {"panic", "crash", "hang"} THEN {"returns_normally"}
   ELSE (IF \E i \in DOMAIN line.runs : OpOf(line.runs[i]) \notin SS!Ops \/ line.runs[i].verdicts # SS!Verdicts(OpOf(line.runs[i]))
         THEN {"verdict_the_document_prescribes"} ELSE {})
        \cup (IF \E i \in DOMAIN line.runs : ~(Range(line.runs[i].conc) \subseteq Range(line.runs[i].alone))
              THEN {"verdict_as_when_run_alone"} ELSE {})
        \cup (IF \E i \in DOMAIN line.runs : OpOf(line.runs[i]) \in SS!RouteOps /\ line.runs[i].routes # SS!Routes(OpOf(line.runs[i]))
              THEN {"route_the_document_prescribes"} ELSE {})
        \cup (IF line.before # line.after THEN {"shared_state_unchanged"} ELSE {})
LineOK(line) ==
   LET bad == Failed(line) IN
   bad = {} \/ CSVWrite("%1$s", <<ToJson([case |-> line.case, c |-> line.c, failed |-> bad, outcome |-> line.outcome,
                                           runs |-> (IF "runs" \in DOMAIN line THEN line.runs ELSE <<>>),
                                           racefns |-> (IF "racefns" \in DOMAIN line THEN line.racefns ELSE <<>>),
                                           where |-> (IF "racefns" \in DOMAIN line THEN [i \in DOMAIN line.racefns |-> SS!SiteLocation(line.racefns[i])] ELSE <<>>),
                                           before |-> (IF "before" \in DOMAIN line THEN line.before ELSE <<>>),
                                           after |-> (IF "after" \in DOMAIN line THEN line.after ELSE <<>>),
                                           class |-> F!Class(line, bad)])>>,
                        "violations.ndjson")
Judge == l > 0 => LineOK(Trace[l])
AllConsumed == TLCGet("stats").diameter = Len(Trace) + 1
=============================================================================
