------------------------------ MODULE Trace_C15 ------------------------------
(* Trace validation for C15: no data race reported by the race detector during the run;   *)
(* every verdict a call gives alone is the one SharedState!Verdicts prescribes, and every   *)
(* result observed under concurrency (per variant) is the one the same call gives alone.  *)
EXTENDS Naturals, Sequences, FiniteSets, TLC, Json, CSV
Trace == ndJsonDeserialize("trace.ndjson")
VARIABLE l
Init == l = 0
Next == l < Len(Trace) /\ l' = l + 1
Spec == Init /\ [][Next]_l

SS == INSTANCE SharedState WITH DefaultCopied <- TRUE, RouteCopied <- TRUE, MaxOps <- 1, prog <- <<>>, held <- <<>>
Range(f) == {f[i] : i \in DOMAIN f}
Failed(line) ==
   IF line.outcome = "race" THEN {"no_data_race"}
   ELSE IF line.outcome \in {"panic", "crash", "hang"} THEN {"returns_normally"}
   ELSE IF \E i \in DOMAIN line.runs : line.runs[i].verdicts # SS!Verdicts(line.runs[i].op)
        THEN {"verdict_the_document_prescribes"}
   ELSE IF \E i \in DOMAIN line.runs : ~(Range(line.runs[i].conc) \subseteq Range(line.runs[i].alone))
        THEN {"verdict_as_when_run_alone"} ELSE {}
LineOK(line) ==
   LET bad == Failed(line) IN
   bad = {} \/ CSVWrite("%1$s", <<ToJson([case |-> line.case, c |-> line.c, failed |-> bad, outcome |-> line.outcome,
                                           runs |-> (IF "runs" \in DOMAIN line THEN line.runs ELSE <<>>), class |-> "none"])>>,
                        "violations.ndjson")
Judge == l > 0 => LineOK(Trace[l])
AllConsumed == TLCGet("stats").diameter = Len(Trace) + 1
=============================================================================
