SPECIFICATION Spec
CONSTANTS MaxCalls = 4
          SideCalls = 2
          ExtMax = 2
          ExtDepth = 3
          ZeroStatusFix = TRUE
          InfoFix = TRUE
INVARIANTS TypeOK L2ImpliesL1Pure HandlerOnlyAfterGate NoClientBytesBeforeCheckInStrict StrictPanicSilent Emit
CHECK_DEADLOCK FALSE
