------------------------------ MODULE Gen_C20G ------------------------------
(* Generator of the reference-graph cases of C20 (spec/RefGraph.tla): every closed lasso, written in the case format of   *)
(* Gen_C20 (no mutations; base kind "graph") with the graph in field g.                                                   *)
EXTENDS RefGraph, Json, CSV
GEmit == GEmitted =>
           CSVWrite("%1$s", <<ToJson([muts |-> <<>>, entry |-> gentry, allow |-> gallow, yaml |-> gyaml,
                                      base |-> [kind |-> "graph", comps |-> "graph"], g |-> GCase])>>, "cases.ndjson")
=============================================================================
