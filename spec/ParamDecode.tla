------------------------------ MODULE ParamDecode ------------------------------
(***************************************************************************)
(* L2: an implementation-shaped model of openapi3filter's styled-parameter *)
(* decoders for the path cells (pathParamDecoder: cut the style's prefix,  *)
(* split at the delimiter, percent-decode the members, parse them by the   *)
(* schema) and the form cells of the query (urlValuesDecoder over the      *)
(* percent-decoded url.Values; an exploded object takes its properties     *)
(* from ALL query keys of the request and keeps the ones the schema        *)
(* knows).  The model is parameterised by the design decisions whose       *)
(* alternatives are plausible refactorings:                                *)
(*   order  "split_unescape" | "unescape_split"  -- members are unescaped  *)
(*          after / before the text is split at the delimiters;            *)
(*          "split_qunescape" -- after, but by the query's rules ("+" is   *)
(*          a space), which are not those of a path segment                *)
(*   closed "drop" | "keep" | "keep_own" -- what object assembly does with *)
(*          a property the schema does not declare when                    *)
(*          additionalProperties: false: drop it silently; keep it as sent *)
(*          (validation then reports it); keep it, and an exploded form    *)
(*          object with such a closed schema claims only the query keys    *)
(*          its schema declares (the code since fb9cd6e)                   *)
(* MC_C05 checks (D) which designs are inverses of ParamCodec!Wire on the  *)
(* universe of Gen_C05; Trace_C05 compares the as-built design with what   *)
(* the code returned (fidelity).                                           *)
(* Text is a sequence of one-character strings throughout.                 *)
(***************************************************************************)
EXTENDS ParamCodec

StartsWith(ws, pre) == Len(ws) >= Len(pre) /\ SubSeq(ws, 1, Len(pre)) = pre
Drop(ws, n) == SubSeq(ws, n + 1, Len(ws))
RECURSIVE SplitAcc(_, _, _)
SplitAcc(ws, d, cur) ==
   IF ws = <<>> THEN <<cur>>
   ELSE IF StartsWith(ws, d) THEN <<cur>> \o SplitAcc(Drop(ws, Len(d)), d, <<>>)
   ELSE SplitAcc(Tail(ws), d, Append(cur, Head(ws)))
Split(ws, d) == SplitAcc(ws, d, <<>>)                      \* strings.Split(ws, d), d non-empty

UnPct(h1, h2) == IF \E ch \in NonAlnum : Pct(ch) = <<"%", h1, h2>> THEN CHOOSE ch \in NonAlnum : Pct(ch) = <<"%", h1, h2>> ELSE "?"
RECURSIVE Unesc(_, _)
Unesc(ws, plus) ==                                         \* url.PathUnescape / (plus) url.QueryUnescape
   IF ws = <<>> THEN <<>>
   ELSE IF Head(ws) = "%" /\ Len(ws) >= 3 THEN <<UnPct(ws[2], ws[3])>> \o Unesc(Drop(ws, 3), plus)
   ELSE IF Head(ws) = "+" /\ plus THEN <<" ">> \o Unesc(Tail(ws), plus)
   ELSE <<Head(ws)>> \o Unesc(Tail(ws), plus)

Fail == [ok |-> FALSE]
Ok(v) == [ok |-> TRUE, val |-> v]
Absent == [ok |-> TRUE, absent |-> TRUE]
IsAbsent(r) == "absent" \in DOMAIN r

(* parsePrimitive: the first listed type the text is a literal of (numerals: those of the universe) *)
ParseAs(ty, cs) ==
   CASE ty = "integer" -> IF \E q \in NumQs : q % 4 = 0 /\ NumCs(q) = cs THEN Ok(Num(CHOOSE q \in NumQs : q % 4 = 0 /\ NumCs(q) = cs)) ELSE Fail
     [] ty = "number"  -> IF \E q \in NumQs : NumCs(q) = cs THEN Ok(Num(CHOOSE q \in NumQs : NumCs(q) = cs)) ELSE Fail
     [] ty = "boolean" -> IF cs = <<"t", "r", "u", "e">> THEN Ok(Bool(TRUE)) ELSE IF cs = <<"f", "a", "l", "s", "e">> THEN Ok(Bool(FALSE)) ELSE Fail
     [] ty = "string"  -> Ok(Str(cs))
     [] OTHER -> Fail
TypesOf(s) == IF Has(s, "type") THEN <<s.type>> ELSE IF Has(s, "types") THEN s.types ELSE <<>>
RECURSIVE ParseFirst(_, _)
ParseFirst(tys, cs) == IF tys = <<>> THEN Fail ELSE LET r == ParseAs(Head(tys), cs) IN IF r.ok THEN r ELSE ParseFirst(Tail(tys), cs)
ParsePrim(s, cs) == ParseFirst(TypesOf(s), cs)

ParseItems(s, items) ==
   LET rs == [i \in DOMAIN items |-> ParsePrim(s.items, items[i])] IN
   IF \E i \in DOMAIN items : items[i] = <<>> THEN Absent          \* parseArray: an empty item makes the array nil
   ELSE IF \A i \in DOMAIN rs : rs[i].ok THEN Ok(Arr([i \in DOMAIN rs |-> rs[i].val])) ELSE Fail

(* propsFromString on the members of a split text: name,value,name,value or name=value per member *)
RECURSIVE PairUp(_)
PairUp(ms) == IF ms = <<>> THEN <<>> ELSE <<Pair(ms[1], ms[2])>> \o PairUp(Drop(ms, 2))
Props(members, flat, valueDelim) ==
   IF flat THEN (IF Len(members) % 2 = 0 THEN Ok(PairUp(members)) ELSE Fail)
   ELSE LET parts == [i \in DOMAIN members |-> Split(members[i], valueDelim)] IN
        IF \A i \in DOMAIN parts : Len(parts[i]) = 2 THEN Ok([i \in DOMAIN parts |-> Pair(parts[i][1], parts[i][2])]) ELSE Fail

(* makeObject / buildResObj: props = sequence of [k, v] texts (already unescaped) *)
MakeObject(closed, s, props) ==
   LET has(k) == \E i \in DOMAIN props : props[i].k = KeyCs(k)
       txt(k) == props[CHOOSE i \in DOMAIN props : props[i].k = KeyCs(k)].v
       declared(k) == PropIdx(s, k) # 0
       typed(k) == declared(k) \/ Has(s, "apSchema")
       raw(k) == ~typed(k) /\ closed \in {"keep", "keep_own"} /\ Has(s, "apFalse")          \* kept as sent: a string
       kept == SelectSeq(AllKeys, LAMBDA k : has(k) /\ (typed(k) \/ raw(k)))
       parsed == [i \in DOMAIN kept |-> IF raw(kept[i]) THEN Ok(Str(txt(kept[i])))
                                        ELSE ParsePrim(IF declared(kept[i]) THEN s.ps[PropIdx(s, kept[i])] ELSE s.apSchema, txt(kept[i]))] IN
   IF \A i \in DOMAIN parsed : parsed[i].ok THEN Ok(Obj(kept, [i \in DOMAIN parsed |-> parsed[i].val])) ELSE Fail

Kind(s) == IF Has(s, "type") /\ s.type = "array" THEN "arr" ELSE IF Has(s, "type") /\ s.type = "object" THEN "obj" ELSE "prim"

(* ------------------------------- path ------------------------------- *)
PlusIn(order, location) == location = "query" \/ order = "split_qunescape"
Members(order, src, delim, plus) ==
   IF order \in {"split_unescape", "split_qunescape"} THEN LET ms == Split(src, delim) IN [i \in DOMAIN ms |-> Unesc(ms[i], plus)]
   ELSE Split(Unesc(src, plus), delim)

DecodePath(order, closed, c, name, s, seg) ==
   LET k == Kind(s)
       pl == PlusIn(order, "path")
       prefix == CASE c.style = "simple" -> <<>>
                   [] c.style = "label" -> <<".">>
                   [] c.style = "matrix" -> IF k = "obj" /\ c.explode THEN <<";">> ELSE <<";">> \o name \o <<"=">>
       src == Drop(seg, Len(prefix)) IN
   IF ~StartsWith(seg, prefix) THEN Fail
   ELSE CASE k = "prim" -> ParsePrim(s, Unesc(src, pl))
          [] k = "arr"  -> ParseItems(s, Members(order, src, CASE c.style = "label" /\ c.explode -> <<".">>
                                                                 [] c.style = "matrix" /\ c.explode -> <<";">> \o name \o <<"=">>
                                                                 [] OTHER -> <<",">>, pl))
          [] k = "obj"  ->
               LET propsDelim == CASE c.style = "label" /\ c.explode -> <<".">> [] c.style = "matrix" /\ c.explode -> <<";">> [] OTHER -> <<",">>
                   \* the members and, for name=value members, their two halves are unescaped per the same design decision
                   ps == IF order \in {"split_unescape", "split_qunescape"}
                         THEN LET r == Props(Split(src, propsDelim), ~c.explode, <<"=">>) IN
                              IF r.ok THEN Ok([i \in DOMAIN r.val |-> Pair(Unesc(r.val[i].k, pl), Unesc(r.val[i].v, pl))]) ELSE Fail
                         ELSE Props(Split(Unesc(src, pl), propsDelim), ~c.explode, <<"=">>) IN
               IF ps.ok THEN MakeObject(closed, s, ps.val) ELSE Fail

(* ------------------------- query, style form ------------------------- *)
(* pairs: the raw query, a sequence of [k, v] texts as sent *)
Decoded(pairs) == [i \in DOMAIN pairs |-> Pair(Unesc(pairs[i].k, TRUE), Unesc(pairs[i].v, TRUE))]     \* url.Values, in order
ValuesOf(pairs, name) == SelectSeq(pairs, LAMBDA p : Unesc(p.k, TRUE) = name)                         \* raw pairs of one key
FirstPerKey(dp) == SelectSeq(dp, LAMBDA p : p = dp[CHOOSE i \in DOMAIN dp : dp[i].k = p.k /\ \A j \in 1..(i-1) : dp[j].k # p.k])

DecodeForm(order, closed, c, name, s, pairs) ==
   LET k == Kind(s)
       mine == ValuesOf(pairs, name) IN
   CASE k = "prim" -> IF mine = <<>> THEN Absent ELSE ParsePrim(s, Unesc(mine[1].v, TRUE))
     [] k = "arr"  -> IF mine = <<>> THEN Absent
                      ELSE ParseItems(s, IF c.explode THEN [i \in DOMAIN mine |-> Unesc(mine[i].v, TRUE)]
                                         ELSE Members(order, mine[1].v, <<",">>, TRUE))
     [] k = "obj"  ->
          IF c.explode
          THEN LET all == FirstPerKey(Decoded(pairs))
                   \* the candidates: every query key of the request; with a closed schema (keep_own) the declared ones only
                   cand == IF closed = "keep_own" /\ Has(s, "apFalse")
                           THEN SelectSeq(all, LAMBDA p : \E i \in DOMAIN s.pk : KeyCs(s.pk[i]) = p.k) ELSE all
                   r == MakeObject(closed, s, cand) IN
               IF r.ok /\ r.val.k = <<>> THEN Absent ELSE r
          ELSE IF mine = <<>> THEN Absent
               ELSE LET ps == Props(Members(order, mine[1].v, <<",">>, TRUE), TRUE, <<"=">>) IN
                    IF ps.ok THEN MakeObject(closed, s, ps.val) ELSE Fail

(* what else a request of the universe carries next to the parameter (Gen_C05: ot) *)
OtherPairs(ot) == CASE ot = "-" -> <<>> [] ot = "z" -> <<Pair(<<"z">>, <<"1">>)>> [] ot = "upper" -> <<Pair(<<"P">>, <<"z", "z">>)>>
FormReq(c, name, v, m, ot) == (IF ot = "upper" THEN OtherPairs(ot) ELSE <<>>) \o QueryPairsCs(c, name, v, Enc(c, v, m), m)
                              \o (IF ot = "z" THEN OtherPairs(ot) ELSE <<>>)

(* the designs as built today (openapi3filter/req_resp_decoder.go at fb9cd6e): the path decoder splits, then unescapes;  *)
(* the query decoder works on decoded text (F-C05-4, open); undeclared properties under a closed schema are kept for     *)
(* validation, an exploded form object claims only its own keys then                                                    *)
AsBuilt(c, name, s, v, m, ot) ==
   IF c.in = "path" THEN DecodePath("split_unescape", "keep_own", c, name, s, PathCs(c, name, v, Enc(c, v, m)))
   ELSE DecodeForm("unescape_split", "keep_own", c, name, s, FormReq(c, name, v, m, ot))
=============================================================================
