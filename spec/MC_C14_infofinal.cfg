SPECIFICATION Spec
CONSTANTS MaxCalls = 3
          SideCalls = 1
          ExtMax = 1
          ExtDepth = 3
          ZeroStatusFix = TRUE
          InfoFix = FALSE
INVARIANTS TypeOK L2ImpliesL1Pure
CHECK_DEADLOCK FALSE
