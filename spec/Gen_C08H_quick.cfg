SPECIFICATION Spec
CONSTANTS Design = "copy"
 MaxResp = 2
 MaxSteps = 5
 KindsUsed <- CoreKinds
INVARIANTS Emit EmitConc L2ImpliesL1
CHECK_DEADLOCK FALSE
