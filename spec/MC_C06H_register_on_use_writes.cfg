SPECIFICATION Spec
CONSTANTS Policy = "register_on_use"
 MaxSteps = 2
PROPERTIES OnlyRegisterWrites
CHECK_DEADLOCK FALSE
