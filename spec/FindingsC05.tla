----------------------------- MODULE FindingsC05 -----------------------------
EXTENDS ParamCodec
(* F-C05-1: decodeValue's oneOf/anyOf branches return their own untyped error for an absent *)
(* required parameter, so it is rejected but not reported as ErrInvalidRequired.           *)
(*                                                                                         *)
(* F-C05-4: urlValuesDecoder works on the percent-DECODED query (url.Values) and splits a   *)
(* non-exploded form array / object at "," after decoding: a member that holds a comma,     *)
(* sent escaped (p=a%2Cb,c  for ["a,b","c"], RFC 6570 3.2.1/3.2.8), is cut in two.  (The    *)
(* path decoder splits first and unescapes the members.)                                    *)
(*                                                                                         *)
(* F-C05-5: buildResObj keeps only the properties the schema declares (or covers by an      *)
(* additionalProperties schema) and silently drops the others, so additionalProperties:     *)
(* false is never enforced on an object parameter: {w:2,x:1} passes as {x:1}.               *)
(*                                                                                         *)
(* F-C05-6: buildResObj decodes EVERY property sent by the additionalProperties schema when *)
(* there is one -- also the declared ones, overwriting their properly typed value: with     *)
(* properties {y: string} and additionalProperties {type: integer},  y=ab  is a parse error.*)
ObjHas(line) == line.c.presence = "present" /\ line.c.v.t = "obj" /\ "dec" \in DOMAIN line

Class(line, bad) ==
   LET c == line.c IN
   IF bad = {"absent_required_reported_missing"} /\ c.presence = "absent" /\ c.required
      /\ (Has(c.schema, "oneOf") \/ Has(c.schema, "anyOf")) /\ line.verdict = "other"
   THEN "absent_required_composition_untyped_error"
   ELSE IF c.presence = "present" /\ c.cell.in = "query" /\ c.cell.style = "form" /\ ~c.cell.explode
           /\ c.v.t \in {"arr", "obj"} /\ UsesEscapedDelim(c.cell, c.v)
           /\ bad \subseteq {"decoded_is_inverse_of_wire", "valid_value_accepted"} /\ bad # {}
   THEN "query_member_delimiter_unescaped_before_split"
   ELSE IF ObjHas(line) /\ Has(c.schema, "apFalse") /\ UndeclaredKeys(c.schema, c.v) # {}
           /\ bad = {"invalid_value_rejected"} /\ line.verdict = "ok"
   THEN "additional_properties_false_not_enforced"
   ELSE IF ObjHas(line) /\ Has(c.schema, "apSchema") /\ Has(c.schema.apSchema, "type")
           /\ (\E i \in DOMAIN c.v.k : PropIdx(c.schema, c.v.k[i]) # 0 /\ ~TypeIs(c.schema.apSchema.type, c.v.v[i]))
           /\ bad \subseteq {"decoded_is_inverse_of_wire", "valid_value_accepted"} /\ bad # {}
           /\ line.dec.err = "parse" /\ line.verdict = "parse"
   THEN "additional_properties_schema_applied_to_declared"
   ELSE "none"
=============================================================================
