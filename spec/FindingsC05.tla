----------------------------- MODULE FindingsC05 -----------------------------
EXTENDS SchemaSem
(* F-C05-1: decodeValue's oneOf/anyOf branches return their own untyped error for an absent *)
(* required parameter, so it is rejected but not reported as ErrInvalidRequired.           *)
Class(line, bad) ==
   IF bad = {"absent_required_reported_missing"} /\ line.c.presence = "absent" /\ line.c.required
      /\ (Has(line.c.schema, "oneOf") \/ Has(line.c.schema, "anyOf")) /\ line.verdict = "other"
   THEN "absent_required_composition_untyped_error" ELSE "none"
=============================================================================
