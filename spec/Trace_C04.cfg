SPECIFICATION Spec
CONSTANTS Repaired = {1, 2, 4, 5, 7, 9, 10, 11, 12, 13, 14, 16}
INVARIANTS Judge
POSTCONDITION AllConsumed
CHECK_DEADLOCK FALSE
