SPECIFICATION Spec
CONSTANTS Repaired = {7, 9, 10}
INVARIANTS Judge
POSTCONDITION AllConsumed
CHECK_DEADLOCK FALSE
