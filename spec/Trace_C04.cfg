SPECIFICATION Spec
CONSTANTS Repaired = {}
INVARIANTS Judge
POSTCONDITION AllConsumed
CHECK_DEADLOCK FALSE
