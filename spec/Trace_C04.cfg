SPECIFICATION Spec
CONSTANTS Repaired = {1, 2, 4, 5, 7, 9, 10, 11}
INVARIANTS Judge
POSTCONDITION AllConsumed
CHECK_DEADLOCK FALSE
