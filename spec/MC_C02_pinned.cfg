SPECIFICATION MCSpec
CONSTANTS Tier = "thorough"
          Styles = {"plain", "dot", "updown"}
          Allows = {TRUE}
          LoaderVisitsAll = FALSE
INVARIANTS VisitsEverything
CHECK_DEADLOCK FALSE
