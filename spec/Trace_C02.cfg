SPECIFICATION Spec
CONSTANTS LoaderVisitsAll = TRUE
INVARIANTS Judge
POSTCONDITION AllConsumed
CHECK_DEADLOCK FALSE
