---------------------------- MODULE FindingsC03 ----------------------------
(* Finding classes for C03 (see known_findings.json): narrow predicates over one log     *)
(* line and the failed conjunct.  "none" = not a listed finding.  The first three have   *)
(* the same shape: W = the input with exactly the trigger removed/rewritten, the trigger *)
(* is present (W # in), and the observation is what the contract would allow for W.      *)
EXTENDS DocModel

J1(line) == line.obs.j1.v
AllowedFor(ver, w, j1) == Between(Norm(ver, w), j1, w)

(* F-C03-1: a field of type `any' (default, example, Example.value, Link.requestBody ...) is a Go      *)
(* interface with omitempty: an explicit null is indistinguishable from absent and is dropped.         *)
AnyNullDropped(line) ==
   LET w == NoNullAny(line.ver, line.in) IN w # line.in /\ AllowedFor(line.ver, w, J1(line))

(* F-C03-2: every number is decoded into float64 (directly for *float64 fields and interface values,   *)
(* and -- in OpenAPI 3 -- for every field below a map-like container, which re-marshals through        *)
(* map[string]any): integers beyond 2^53 come back rounded (DocModel!RoundBig).                            *)
NumberRounded(line) ==
   LET w == RoundBig(line.in) IN w # line.in /\ AllowedFor(line.ver, w, J1(line))

(* F-C03-3: OpenAPI 2 security scheme: `scopes' (required for oauth2, may be empty) is emitted only    *)
(* when non-empty.                                                                                     *)
V2ScopesDropped(line) ==
   LET w == NoV2Scopes(line.ver, line.in) IN line.ver = 2 /\ w # line.in /\ AllowedFor(line.ver, w, J1(line))

(* F-C03-4: the YAML emitter (github.com/oasdiff/yaml3, used by both YAML writers) writes a multi-line *)
(* string that starts with a line break or a blank as a block scalar with an indentation indicator     *)
(* that its own parser rejects in nested position, and writes the key "<<" unquoted (read back as a    *)
(* merge key).  Only the YAML trips fail; the JSON trips are correct.                                  *)
HostileStr(v) ==
   /\ "cs" \in DOMAIN v /\ Len(v.cs) > 1
   /\ v.cs[1] \in {"U+000A", " "}
   /\ \E i \in DOMAIN v.cs : v.cs[i] = "U+000A"
RECURSIVE HasHostile(_)
HasHostile(v) == CASE v.t = "str" -> HostileStr(v)
                   [] v.t = "arr" -> \E i \in DOMAIN v.a : HasHostile(v.a[i])
                   [] v.t = "obj" -> \E i \in DOMAIN v.k : v.k[i] = "<<" \/ HasHostile(v.v[i])
                   [] OTHER -> FALSE
YamlEmitter(line, failed) ==
   /\ failed \in {"ja", "jb", "ji", "jk", "jyu", "jo"}
   /\ "j2" \in DOMAIN line.obs /\ line.obs.j2.ok /\ line.obs.j2.v = J1(line)
   /\ HasHostile(line.in)
   /\ ~line.obs[failed].ok /\ line.obs[failed].err = "load"

(* F-C03-5: Schema.UnmarshalJSON rewrites a string example ending in "T00:00:00Z" of a format: date schema. *)
DateExampleTrimmed(line) ==
   LET w == DateTrimmed(line.ver, line.in) IN w # line.in /\ AllowedFor(line.ver, w, J1(line))

(* F-C03-6: with the reader option IncludeOrigin the YAML reader adds an "__origin__" entry (key / fields  *)
(* locations) to every mapping that is a map value or a sequence element; the typed objects take it into   *)
(* their Origin field, free-form values (extension values, example / default / enum, Example.value, link    *)
(* parameters and requestBody) keep it: the serialised document holds "__origin__" keys that are not in     *)
(* the input.  W = the observation with exactly those entries removed must be j1.                           *)
OriginShaped(v) == v.t = "obj" /\ SeqRange(v.k) \subseteq {"key", "fields"}
RECURSIVE StripOrigin(_)
StripOrigin(v) ==
   CASE v.t = "arr" -> Av([i \in DOMAIN v.a |-> StripOrigin(v.a[i])])
     [] v.t = "obj" -> LET keep == [i \in DOMAIN v.k |-> ~(v.k[i] = "__origin__" /\ OriginShaped(v.v[i]))]
                       IN Ov(Pick(v.k, keep, 1), Pick([i \in DOMAIN v.v |-> StripOrigin(v.v[i])], keep, 1))
     [] OTHER -> v
OriginInvented(line, failed) ==
   /\ failed = "jo" /\ "jo" \in DOMAIN line.obs /\ line.obs.jo.ok
   /\ line.obs.jo.v # J1(line) /\ StripOrigin(line.obs.jo.v) = J1(line)

(* F-C03-7: with IncludeOrigin the YAML reader (github.com/oasdiff/yaml3 origin.go addOriginInSeq) takes    *)
(* the first key of a mapping that is a sequence element as its location: an EMPTY mapping in a sequence    *)
(* (`security: [{}]` = anonymous access allowed, `allOf: [{}]`, an `enum` / `example` holding [{}])         *)
(* indexes an empty slice: Loader.LoadFromData panics.                                                      *)
RECURSIVE HasEmptyMapInSeq(_)
HasEmptyMapInSeq(v) == CASE v.t = "arr" -> \E i \in DOMAIN v.a : v.a[i] = EmptyO \/ HasEmptyMapInSeq(v.a[i])
                         [] v.t = "obj" -> \E i \in DOMAIN v.v : HasEmptyMapInSeq(v.v[i])
                         [] OTHER -> FALSE
OriginPanic(line, failed) ==
   /\ failed = "jo" /\ "jo" \in DOMAIN line.obs /\ ~line.obs.jo.ok /\ line.obs.jo.err = "panic" /\ line.obs.jo.stage = "load"
   /\ HasEmptyMapInSeq(line.in)
   /\ "ji" \in DOMAIN line.obs /\ line.obs.ji.ok /\ line.obs.ji.v = J1(line)       \* the same YAML text loads without the option

(* F-C03-8: openapi3.T has its MarshalJSON / MarshalYAML on the pointer (every other struct-like kind and   *)
(* openapi2.T have them on the value): json.Marshal of a T held BY VALUE (json.Marshal of a dereferenced doc, a T embedded *)
(* by value in a response struct) does not reach them, encoding/json writes the tagged struct fields and    *)
(* the root's extensions and unknown keys (Extensions is tagged "-") are lost.  W = j1 restricted to the    *)
(* catalogue fields of the root.                                                                            *)
RootKnownOnly(v) == LET keep == [i \in DOMAIN v.k |-> v.k[i] \in FieldNames("T3")] IN Ov(Pick(v.k, keep, 1), Pick(v.v, keep, 1))
ByValueRootExt(line, failed) ==
   /\ failed = "jv" /\ line.ver = 3 /\ "jv" \in DOMAIN line.obs /\ line.obs.jv.ok
   /\ line.obs.jv.v # J1(line) /\ line.obs.jv.v = RootKnownOnly(J1(line))

(* F-C03-9: the reference wrapper types (SchemaRef, ResponseRef ... and openapi2.SchemaRef) unmarshal in    *)
(* place: a reference object sets Ref (and extra / Extensions) and leaves Value, an inline object is        *)
(* decoded into Value and leaves Ref.  A wrapper value that held a reference and is unmarshalled into with *)
(* an inline object still says $ref: the serialisation is the EARLIER reference, the input is lost.         *)
WrapperKeepsRef(line, failed) ==
   /\ failed = "jh" /\ line.hist.entry = "wrap" /\ line.obs.jh.ok
   /\ ~HasKey(line.hist.frag, "$ref")
   /\ \E i \in DOMAIN line.hist.prior : line.hist.prior[i].name \in {"kref", "krefx"}
   /\ line.obs.jh.v = RefObj(line.d.kind)

Class(line, failed) ==
   IF failed = "first"
   THEN IF AnyNullDropped(line) THEN "any_null_dropped"
        ELSE IF NumberRounded(line) THEN "number_beyond_float64_rounded"
        ELSE IF V2ScopesDropped(line) THEN "v2_empty_scopes_dropped"
        ELSE IF DateExampleTrimmed(line) THEN "date_example_time_trimmed"
        ELSE "none"
   ELSE IF YamlEmitter(line, failed) THEN "yaml_emitter_block_scalar_or_merge_key"
   ELSE IF OriginInvented(line, failed) THEN "include_origin_key_invented"
   ELSE IF OriginPanic(line, failed) THEN "include_origin_empty_map_in_sequence_panics"
   ELSE IF ByValueRootExt(line, failed) THEN "v3_T_by_value_drops_root_extensions"
   ELSE IF WrapperKeepsRef(line, failed) THEN "ref_wrapper_unmarshal_keeps_earlier_ref"
   ELSE "none"
=============================================================================
