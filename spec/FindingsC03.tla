---------------------------- MODULE FindingsC03 ----------------------------
(* Finding classes for C03 (see known_findings.json): narrow predicates over one log     *)
(* line and the failed conjunct.  "none" = not a listed finding.  The first three have   *)
(* the same shape: W = the input with exactly the trigger removed/rewritten, the trigger *)
(* is present (W # in), and the observation is what the contract would allow for W.      *)
EXTENDS DocModel

J1(line) == line.obs.j1.v
AllowedFor(ver, w, j1) == Between(Norm(ver, w), j1, w)

(* F-C03-1: a field of type `any' (default, example, Example.value, Link.requestBody ...) is a Go      *)
(* interface with omitempty: an explicit null is indistinguishable from absent and is dropped.         *)
AnyNullDropped(line) ==
   LET w == NoNullAny(line.ver, line.in) IN w # line.in /\ AllowedFor(line.ver, w, J1(line))

(* F-C03-2: every number is decoded into float64 (directly for *float64 fields and interface values,   *)
(* and -- in OpenAPI 3 -- for every field below a map-like container, which re-marshals through        *)
(* map[string]any): integers beyond 2^53 come back rounded (DocModel!RoundBig).                            *)
NumberRounded(line) ==
   LET w == RoundBig(line.in) IN w # line.in /\ AllowedFor(line.ver, w, J1(line))

(* F-C03-3: OpenAPI 2 security scheme: `scopes' (required for oauth2, may be empty) is emitted only    *)
(* when non-empty.                                                                                     *)
V2ScopesDropped(line) ==
   LET w == NoV2Scopes(line.ver, line.in) IN line.ver = 2 /\ w # line.in /\ AllowedFor(line.ver, w, J1(line))

(* F-C03-4: the YAML emitter (github.com/oasdiff/yaml3, used by both YAML writers) writes a multi-line *)
(* string that starts with a line break or a blank as a block scalar with an indentation indicator     *)
(* that its own parser rejects in nested position, and writes the key "<<" unquoted (read back as a    *)
(* merge key).  Only the YAML trips fail; the JSON trips are correct.                                  *)
HostileStr(v) ==
   /\ "cs" \in DOMAIN v /\ Len(v.cs) > 1
   /\ v.cs[1] \in {"U+000A", " "}
   /\ \E i \in DOMAIN v.cs : v.cs[i] = "U+000A"
RECURSIVE HasHostile(_)
HasHostile(v) == CASE v.t = "str" -> HostileStr(v)
                   [] v.t = "arr" -> \E i \in DOMAIN v.a : HasHostile(v.a[i])
                   [] v.t = "obj" -> \E i \in DOMAIN v.k : v.k[i] = "<<" \/ HasHostile(v.v[i])
                   [] OTHER -> FALSE
YamlEmitter(line, failed) ==
   /\ failed \in {"ja", "jb", "ji"}
   /\ line.obs.j2.ok /\ line.obs.j2.v = J1(line)
   /\ HasHostile(line.in)
   /\ ~line.obs[failed].ok /\ line.obs[failed].err = "load"

(* F-C03-5: Schema.UnmarshalJSON rewrites a string example ending in "T00:00:00Z" of a format: date schema. *)
DateExampleTrimmed(line) ==
   LET w == DateTrimmed(line.ver, line.in) IN w # line.in /\ AllowedFor(line.ver, w, J1(line))

Class(line, failed) ==
   IF failed = "first"
   THEN IF AnyNullDropped(line) THEN "any_null_dropped"
        ELSE IF NumberRounded(line) THEN "number_beyond_float64_rounded"
        ELSE IF V2ScopesDropped(line) THEN "v2_empty_scopes_dropped"
        ELSE IF DateExampleTrimmed(line) THEN "date_example_time_trimmed"
        ELSE "none"
   ELSE IF YamlEmitter(line, failed) THEN "yaml_emitter_block_scalar_or_merge_key"
   ELSE "none"
=============================================================================
