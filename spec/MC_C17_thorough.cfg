SPECIFICATION Spec
CONSTANTS K = 3
          PairLevel = 2
          TripleLevel = 1
          FieldK = 2
          M = 12000
          Seed = 1
          Dev = {}
INVARIANTS DesignOK
CHECK_DEADLOCK FALSE
