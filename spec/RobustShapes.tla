---------------------------- MODULE RobustShapes ----------------------------
(***************************************************************************)
(* C10, structured universe.  The property quantifies over all valid        *)
(* documents x all requests / responses x all validation options.  This    *)
(* module spans that product structurally:                                  *)
(*                                                                           *)
(*   a LEAF schema (type family x legal-but-unusual keyword values: the     *)
(*   spec owns every keyword and its JSON text, the harness only assembles) *)
(*   inside a WRAP (how the leaf is nested: array, object, composition,     *)
(*   reference, recursion, discriminator) placed at a SITE (where a schema  *)
(*   meets traffic: path / query / header / cookie parameter of each style  *)
(*   and explode, parameter or header defined by content, request body of   *)
(*   each media type and decoder incl. nested encodings, response header,   *)
(*   response body), in a document with a DOCMOD (security schemes of every *)
(*   kind, callbacks, links, servers, references to components, ...) and    *)
(*   optionally one legacy named feature of RobustTraffic,                  *)
(*                                                                           *)
(*   meeting a VALUE (JSON values of every type and numeric magnitude, and  *)
(*   raw hostile texts: malformed percent-encoding, number look-alikes,     *)
(*   delimiters, truncated JSON, YAML specials) and traffic mutations in    *)
(*   five independent parts (URL / method, headers / cookies / content      *)
(*   type, request body transport, response status / headers, response     *)
(*   body) under an OPTION set.                                             *)
(*                                                                           *)
(* The product is far too large to enumerate; the generator emits an        *)
(* orthogonal array of strength 2: rows (i, j) in P x P (P prime), column c *)
(* holds (i + c*j + off(c)) mod P.  Any two columns take every pair of      *)
(* values in P x P exactly once, hence every pair of atoms of every two     *)
(* dimensions occurs in some case (each dimension has at most P atoms;      *)
(* slots beyond a dimension's length mean "none", so that most parts of a   *)
(* case are unmutated and a mutation of one part seldom masks another).     *)
(* The thorough tier emits K differently offset arrays (other triples).     *)
(***************************************************************************)
EXTENDS Naturals, Sequences, FiniteSets, SequencesExt, TLC, RobustAtoms

CONSTANTS NModes, \* how many of Modes are emitted
          P,      \* prime, >= every dimension's length
          K,      \* number of orthogonal arrays emitted (offsets Seed .. Seed+K-1)
          Seed

kw(k, v) == <<k, v>>

---------------------------------------------------------------------------
(* LEAVES: [n |-> name, fam |-> type family, kws |-> <<keyword, JSON text>>*, vopt |-> document validation option needed] *)
Leaf(n, fam, kws) == [n |-> n, fam |-> fam, kws |-> kws]
IntT == kw("type", "\"integer\"")
NumT == kw("type", "\"number\"")
StrT == kw("type", "\"string\"")
BoolT == kw("type", "\"boolean\"")

Leaves == <<
   Leaf("int", "num", <<IntT>>),
   (* multipleOf is a float64 that document validation does not constrain: fractional, negative, denormal, huge, zero *)
   Leaf("int_mo_half", "num", <<IntT, kw("multipleOf", "0.5")>>),
   Leaf("int_mo_tenth", "num", <<IntT, kw("multipleOf", "0.1")>>),
   Leaf("int_mo_neg", "num", <<IntT, kw("multipleOf", "-2")>>),
   Leaf("int_mo_3", "num", <<IntT, kw("multipleOf", "3")>>),
   Leaf("int_mo_denormal", "num", <<IntT, kw("multipleOf", "1e-320")>>),
   Leaf("int_mo_huge", "num", <<IntT, kw("multipleOf", "1e308")>>),
   Leaf("int_mo_zero", "num", <<IntT, kw("multipleOf", "0")>>),
   Leaf("int_mo_negfrac", "num", <<IntT, kw("multipleOf", "-0.25")>>),
   Leaf("int_min_gt_max", "num", <<IntT, kw("minimum", "5"), kw("maximum", "1")>>),
   Leaf("int_huge_bounds", "num", <<IntT, kw("minimum", "-1e308"), kw("maximum", "1e308")>>),
   Leaf("int_excl_both_zero", "num", <<IntT, kw("minimum", "0"), kw("maximum", "0"), kw("exclusiveMinimum", "true"), kw("exclusiveMaximum", "true")>>),
   Leaf("int_excl_no_bounds", "num", <<IntT, kw("exclusiveMinimum", "true"), kw("exclusiveMaximum", "true")>>),
   Leaf("int_fmt_int32", "num", <<IntT, kw("format", "\"int32\"")>>),
   Leaf("int_fmt_int64", "num", <<IntT, kw("format", "\"int64\"")>>),
   Leaf("int_fmt_madeup", "num", <<IntT, kw("format", "\"made-up\"")>>),
   Leaf("int_enum_mixed", "num", <<IntT, kw("enum", "[1, 2.0, \"1\", null, [1], {\"a\": 1}]")>>),
   Leaf("int_nullable_default", "num", <<IntT, kw("nullable", "true"), kw("default", "4")>>),
   Leaf("int_bounds_beyond_int64", "num", <<IntT, kw("minimum", "-9223372036854775809"), kw("maximum", "18446744073709551616")>>),
   Leaf("num", "num", <<NumT>>),
   Leaf("num_mo_tenth", "num", <<NumT, kw("multipleOf", "0.1")>>),
   Leaf("num_mo_neg", "num", <<NumT, kw("multipleOf", "-2")>>),
   Leaf("num_mo_denormal", "num", <<NumT, kw("multipleOf", "5e-324")>>),
   Leaf("num_mo_huge", "num", <<NumT, kw("multipleOf", "1.7976931348623157e308")>>),
   Leaf("num_fmt_float", "num", <<NumT, kw("format", "\"float\"")>>),
   Leaf("num_fmt_double", "num", <<NumT, kw("format", "\"double\""), kw("minimum", "-0.0")>>),
   Leaf("num_enum_mixed", "num", <<NumT, kw("enum", "[0.1, 1e400, -0.0]")>>),
   Leaf("str", "str", <<StrT>>),
   Leaf("str_min_gt_max", "str", <<StrT, kw("minLength", "5"), kw("maxLength", "1")>>),
   Leaf("str_max_zero", "str", <<StrT, kw("maxLength", "0")>>),
   Leaf("str_max_2_53", "str", <<StrT, kw("minLength", "0"), kw("maxLength", "9007199254740992")>>),
   Leaf("str_pattern", "str", <<StrT, kw("pattern", "\"^[a-z]+$\"")>>),
   Leaf("str_pattern_nested_quant", "str", <<StrT, kw("pattern", "\"^(a+)+$\"")>>),
   Leaf("str_pattern_uncompilable", "str", <<StrT, kw("pattern", "\"(?=x)[\"")>>),
   Leaf("str_fmt_date", "str", <<StrT, kw("format", "\"date\"")>>),
   Leaf("str_fmt_datetime", "str", <<StrT, kw("format", "\"date-time\"")>>),
   Leaf("str_fmt_byte", "str", <<StrT, kw("format", "\"byte\"")>>),
   Leaf("str_fmt_binary", "str", <<StrT, kw("format", "\"binary\"")>>),
   Leaf("str_fmt_email", "str", <<StrT, kw("format", "\"email\""), kw("minLength", "3")>>),
   Leaf("str_fmt_ipv4", "str", <<StrT, kw("format", "\"ipv4\"")>>),
   Leaf("str_fmt_uuid", "str", <<StrT, kw("format", "\"uuid\"")>>),
   Leaf("str_enum_dups", "str", <<StrT, kw("enum", "[\"a\", \"a\", \"\"]")>>),
   Leaf("str_enum_empty", "str", <<StrT, kw("enum", "[]")>>),
   Leaf("str_nullable_default", "str", <<StrT, kw("nullable", "true"), kw("default", "\"d\"")>>),
   Leaf("str_readonly", "str", <<StrT, kw("readOnly", "true")>>),
   Leaf("str_writeonly", "str", <<StrT, kw("writeOnly", "true")>>),
   Leaf("bool", "bool", <<BoolT>>),
   Leaf("bool_enum_false", "bool", <<BoolT, kw("enum", "[false]"), kw("default", "false")>>),
   Leaf("untyped", "any", <<kw("description", "\"anything\"")>>),
   Leaf("untyped_enum_null", "any", <<kw("enum", "[null]"), kw("nullable", "true")>>),
   Leaf("untyped_pattern_and_bounds", "any", <<kw("pattern", "\"^a\""), kw("minimum", "1"), kw("minItems", "1"), kw("minProperties", "1")>>),
   Leaf("not_string", "any", <<kw("not", "{\"type\": \"string\"}")>>),
   Leaf("type_empty_list", "any", <<kw("type", "[]")>>)
>>

---------------------------------------------------------------------------
(* WRAPS: how the leaf is nested.  The harness realises the schema AND the matching value container.     *)
Wraps == <<"direct", "array", "array_unique", "array_minmax_unique", "array_of_array", "object", "object_closed_required", "addprops",
           "oneof", "anyof", "allof", "not_not", "ref", "recursive", "oneof_discriminator", "nullable_object", "array_of_object",
           "allof_object_merge", "anyof_array_or_leaf">>

---------------------------------------------------------------------------
(* SITES *)
ParamSite(in, style, explode) == [n |-> in \o "_" \o style \o (IF explode THEN "_x" ELSE ""), kind |-> "param", in |-> in, style |-> style, explode |-> explode]
ContentParam(in, mt) == [n |-> in \o "_content_" \o mt, kind |-> "param_content", in |-> in, mt |-> mt]
Body(n, mt, enc) == [n |-> n, kind |-> "body", mt |-> mt, enc |-> enc]     \* enc: how a property of a form / multipart body is encoded
RespBody(n, mt, status) == [n |-> n, kind |-> "resp_body", mt |-> mt, status |-> status]
Sites == <<
   ParamSite("path", "simple", FALSE), ParamSite("path", "simple", TRUE), ParamSite("path", "label", FALSE), ParamSite("path", "label", TRUE),
   ParamSite("path", "matrix", FALSE), ParamSite("path", "matrix", TRUE),
   ParamSite("query", "form", TRUE), ParamSite("query", "form", FALSE), ParamSite("query", "spaceDelimited", FALSE), ParamSite("query", "spaceDelimited", TRUE),
   ParamSite("query", "pipeDelimited", FALSE), ParamSite("query", "pipeDelimited", TRUE), ParamSite("query", "deepObject", TRUE),
   ParamSite("header", "simple", FALSE), ParamSite("header", "simple", TRUE), ParamSite("cookie", "form", FALSE), ParamSite("cookie", "form", TRUE),
   ContentParam("query", "application/json"), ContentParam("header", "application/json"), ContentParam("cookie", "application/json"),
   ContentParam("path", "application/json"), ContentParam("query", "text/plain"), ContentParam("query", "application/x-www-form-urlencoded"),
   Body("body_json", "application/json", "none"), Body("body_problem_json", "application/problem+json", "none"),
   Body("body_vendor_json", "application/vnd.acme.v1+json", "none"), Body("body_json_charset", "application/json; charset=utf-8", "none"),
   Body("body_form", "application/x-www-form-urlencoded", "none"), Body("body_form_nonexploded", "application/x-www-form-urlencoded", "form_nonexploded"),
   Body("body_form_pipe", "application/x-www-form-urlencoded", "pipe"), Body("body_form_deep", "application/x-www-form-urlencoded", "deep"),
   Body("body_form_ct_json", "application/x-www-form-urlencoded", "ct_json"),
   Body("body_multipart", "multipart/form-data", "none"), Body("body_multipart_ct_json", "multipart/form-data", "ct_json"),
   Body("body_multipart_part_headers", "multipart/form-data", "headers"), Body("body_multipart_nested_multipart", "multipart/form-data", "ct_multipart"),
   Body("body_multipart_ct_zip_csv", "multipart/form-data", "ct_csv"), Body("body_multipart_ct_yaml", "multipart/form-data", "ct_yaml"),
   Body("body_yaml", "application/yaml", "none"), Body("body_x_yaml", "application/x-yaml", "none"), Body("body_csv", "text/csv", "none"),
   Body("body_zip", "application/zip", "none"), Body("body_text", "text/plain", "none"), Body("body_octet", "application/octet-stream", "none"),
   Body("body_xml_no_decoder", "application/xml", "none"), Body("body_media_range", "application/*", "none"), Body("body_any", "*/*", "none"),
   [n |-> "resp_header", kind |-> "resp_header"], [n |-> "resp_header_content", kind |-> "resp_header_content", mt |-> "application/json"],
   RespBody("resp_json", "application/json", "200"), RespBody("resp_yaml", "application/yaml", "200"), RespBody("resp_text", "text/plain", "200"),
   RespBody("resp_csv", "text/csv", "200"), RespBody("resp_xml_no_decoder", "application/xml", "200"), RespBody("resp_any", "*/*", "200"),
   RespBody("resp_json_2XX", "application/json", "2XX"), RespBody("resp_json_default", "application/json", "default"),
   RespBody("resp_multipart", "multipart/form-data", "200"), RespBody("resp_form", "application/x-www-form-urlencoded", "200")
>>
RespKinds == {"resp_header", "resp_header_content", "resp_body"}

---------------------------------------------------------------------------
(* VALUES: [n, kind, text].  kind "json": a JSON value, serialised by the harness the way the site asks for (style, explode,    *)
(* media type); kind "raw": a text put where the value goes without any escaping.                                            *)
J(n, t) == [n |-> n, kind |-> "json", text |-> t]
R(n, t) == [n |-> n, kind |-> "raw", text |-> t]
Values == <<
   J("zero", "0"), J("one", "1"), J("minus_one", "-1"), J("seven", "7"), J("one_and_half", "1.5"), J("tenth", "0.1"), J("thousand_exp", "1e3"),
   J("minus_zero", "-0"), J("beyond_2_53", "9007199254740993"), J("beyond_int64", "9223372036854775808"), J("max_float", "1.7976931348623157e308"),
   J("denormal", "5e-324"), J("true", "true"), J("false", "false"), J("null", "null"), J("empty_string", "\"\""), J("abc", "\"abc\""),
   J("date", "\"2020-01-01\""), J("digits_string", "\"1\""), J("string_with_delims", "\"a,b|c d;e=f&g.h\""), J("string_nonascii", "\"\\u00e9\\ud83d\\ude00\\u0000\""),
   J("empty_array", "[]"), J("mixed_array", "[1, \"a\", null, [2], {\"k\": 1}]"), J("empty_object", "{}"), J("object_p", "{\"p\": 1}"),
   J("nested_object", "{\"a\": {\"b\": [1, {\"c\": null}]}, \"kind\": \"cat\", \"next\": {\"next\": {\"v\": 1}}}"),
   R("overflow_exp", "1e999"), R("neg_overflow_exp", "-1e999"), R("nan", "NaN"), R("infinity", "Infinity"), R("leading_zero", "01"), R("plus_one", "+1"),
   R("hex", "0x10"), R("underscore_number", "1_000"), R("trailing_dot", "1."), R("leading_dot", ".5"), R("exp_no_digits", "1e"), R("arabic_digits", "ARABIC12"),
   R("percent_zz", "%zz"), R("percent_alone", "%"), R("percent_nul", "%00"), R("percent_invalid_utf8", "%ff%fe"), R("percent_encoded_delims", "a%2Cb%7Cc%20d%2F%3D%26"),
   R("comma_list_holes", "1,,2,"), R("pipes", "1|2||"), R("semicolons_equals", ";x=1;x=2,=,"), R("dots", ".1.2..3"), R("open_bracket", "["), R("truncated_object", "{\"p\":"),
   R("unterminated_string", "\"abc"), R("long_digits", "LONG9"), R("empty", ""), R("yaml_nan", ".nan"), R("yaml_tilde", "~"), R("yaml_undefined_alias", "*a"),
   R("yaml_anchor_cycle", "&a [*a]"), R("yaml_binary_tag", "!!binary ="), R("yaml_merge_key", "{<<: 1}"), R("yaml_int_key", "{1: 2, [3]: 4}")
>>

---------------------------------------------------------------------------
(* DOCMODS: document-level features around the operation *)
DocMods == <<
   "required", "path_level", "op_overrides_path_level", "param_ref", "schema_ref_chain", "body_ref", "response_ref", "header_ref",
   "security_apikey_query", "security_apikey_cookie", "security_http_basic", "security_http_bearer", "security_oauth2_scopes", "security_openid",
   "security_global", "security_empty_requirement", "security_two_alternatives", "security_and_of_two", "security_global_overridden_empty",
   "callbacks", "links", "servers_variables", "servers_path_prefix", "servers_op_level", "deprecated_allow_empty", "allow_reserved",
   "examples_wrong_type", "xml_externaldocs_extensions", "body_optional", "two_media_types", "encoding_for_unknown_property",
   "response_headers_many", "content_type_header_declared", "trailing_slash_path", "sibling_paths_conflict", "head_and_options_ops",
   "default_response_only", "status_ranges_all", "readonly_required_prop", "style_defaults_omitted">>

(* option sets of ValidateRequest / ValidateResponse (openapi3filter.Options) *)
Opts == <<"multi", "exclude_request_body", "exclude_query", "exclude_response_body", "exclude_readonly", "exclude_writeonly",
          "include_response_status", "skip_defaults", "regex_compiler_failing", "regex_compiler_panicking_matcher_free", "custom_schema_error",
          "no_auth_func", "nil_options", "multi_include_status_skip_defaults", "all_excludes",
          (* process-wide settings of package openapi3 (restored after the case) *)
          "schema_error_details_disabled", "formats_defined">>

---------------------------------------------------------------------------
(* TRAFFIC MUTATIONS, by part.  The first three partition ReqMutations of RobustAtoms and add to it; the last two do the same for RespMutations. *)
MutUrl == <<
   "method_propfind", "method_lowercase", "method_empty_like", "path_extra_segment", "path_empty_segment", "path_bad_escape",
   "path_param_garbage", "path_param_long", "query_dup_key", "query_no_value", "query_garbage_value", "query_bad_escape",
   "query_deep_conflict", "query_deep_index", "query_huge_number", "query_content_repeated", "query_content_garbage", "query_many_keys",
   "query_deep_index_negative", "query_deep_index_gap", "query_deep_index_nonnumeric", "zero_values", "query_deep_scalar_for_object",
   "query_nan_inf", "target_bare_path_get", "target_bare_path_delete", "target_bare_path_brew",
   (* new *)
   "method_head", "method_options", "method_connect", "method_trace", "method_empty", "method_get_with_body",
   "path_encoded_slash", "path_encoded_nul", "path_dot_segments", "path_double_slash", "path_trailing_slash", "path_semicolon_params",
   "query_semicolon_separator", "query_invalid_utf8", "query_plus_space", "query_x_repeated", "query_x_bracketed", "query_only_separators",
   "url_opaque", "url_no_host", "url_fragment_userinfo", "url_rawpath_mismatch", "url_rawquery_forced_garbage", "host_odd", "url_nil_like_star">>
MutHdr == <<
   "header_missing", "header_garbage", "header_dup", "cookie_garbage", "cookie_malformed",
   "ct_missing", "ct_garbage", "ct_params", "ct_multipart_no_boundary", "ct_form_for_json", "ct_wildcard", "security_header_missing",
   (* new *)
   "ct_repeated", "ct_huge", "ct_many_params", "ct_uppercase", "ct_spaces", "ct_dup_param", "ct_suffix_json", "ct_just_slash", "ct_empty_boundary",
   "ct_long_boundary", "ct_quoted_param_unterminated", "ct_noncanonical_key", "ct_yaml", "ct_csv", "ct_zip", "ct_text",
   "cookie_header_repeated", "cookie_bad_escape", "cookie_quoted", "cookie_many", "header_noncanonical_key", "header_empty_value",
   "header_huge", "headers_many", "header_x_repeated", "header_nil_map", "authorization_garbage", "authorization_basic_bad_base64",
   "content_encoding_gzip", "content_length_header_lies">>
MutBody == <<
   "body_truncated", "body_wrong_type_array", "body_wrong_type_scalar", "body_deep_nesting", "body_huge_number", "body_invalid_utf8",
   "body_empty", "body_null", "body_form_bad_escape", "body_multipart_malformed", "body_missing_required", "body_extra_props",
   "body_trailing_garbage", "body_nil", "body_yaml_nan", "body_json_nan_token",
   (* new: transport forms of the same bytes, and more byte shapes *)
   "body_chunked_one_byte_reads", "body_reader_error_midway", "body_reader_error_at_start", "body_nobody", "body_content_length_mismatch",
   "body_bom", "body_megabyte", "body_deep_arrays", "body_duplicate_keys", "body_only_whitespace", "body_two_documents",
   "body_multipart_no_final_boundary", "body_multipart_part_without_name", "body_multipart_duplicate_parts", "body_multipart_huge_part_header",
   "body_multipart_part_ct_garbage", "body_form_many_keys", "body_form_semicolons", "body_zip_garbage", "body_zip_empty_archive",
   "body_zip_many_files", "body_csv_bare_quote", "body_csv_ragged", "body_yaml_alias_bomb", "body_yaml_tabs", "body_yaml_multi_doc", "body_close_panics_not">>
MutRespHead == <<
   "status_zero", "status_99", "status_600", "status_999", "status_204_with_body", "resp_header_missing", "resp_header_garbage",
   "resp_ct_missing", "resp_ct_garbage", "resp_header_content_json", "resp_header_content_garbage",
   (* new *)
   "status_negative", "status_100", "status_304", "status_201_undeclared", "status_maxint", "resp_ct_params", "resp_ct_repeated", "resp_ct_uppercase",
   "resp_ct_dup_param", "resp_ct_huge", "resp_ct_multipart_no_boundary", "resp_ct_noncanonical_key", "resp_header_dup", "resp_header_noncanonical_key",
   "resp_header_empty", "resp_header_nil_map", "resp_header_huge", "resp_headers_many">>
MutRespBody == <<
   "resp_body_truncated", "resp_body_wrong_type", "resp_body_deep", "resp_body_empty", "resp_body_nil",
   (* new *)
   "resp_body_reader_error", "resp_body_chunky_reader", "resp_body_megabyte", "resp_body_bom", "resp_body_null", "resp_body_nan_token",
   "resp_body_duplicate_keys", "resp_body_two_documents", "resp_body_invalid_utf8", "resp_body_yaml_alias_bomb", "resp_body_close_error">>

(* every legacy mutation is in a part (so that nothing of RobustTraffic is lost here) *)
ASSUME ReqMutations \subseteq (Range(MutUrl) \cup Range(MutHdr) \cup Range(MutBody))
ASSUME RespMutations \subseteq (Range(MutRespHead) \cup Range(MutRespBody))
FeatSeq == SetToSeq(DocFeatures)

---------------------------------------------------------------------------
(* SERVERS: the servers object of the document AND the concrete URL prefix of a request that matches it (the variable-binding *)
(* code of the routers only runs for a request that matches a templated server).  [n, url, vars: <<name, default, enum>>*,    *)
(* first: a server listed before it that does not match (or ""), level: doc | path | op, base: scheme://host[:port]/prefix]   *)
SV(name, def, enum) == <<name, def, enum>>
Srv(n, url, vars, first, level, base) == [n |-> n, url |-> url, vars |-> vars, first |-> first, level |-> level, base |-> base]
Servers == <<
   Srv("root_slash", "/", <<>>, "", "doc", "http://example.com"),
   Srv("abs_trailing_slash", "http://example.com/api/", <<>>, "", "doc", "http://example.com/api"),
   Srv("host_var", "http://{sub}.example.com/v1", <<SV("sub", "api", <<"api", "www">>)>>, "", "doc", "http://api.example.com/v1"),
   Srv("host_var_non_default", "http://{sub}.example.com/v1", <<SV("sub", "api", <<"api", "www">>)>>, "", "doc", "http://www.example.com/v1"),
   Srv("host_var_outside_enum", "http://{sub}.example.com/v1", <<SV("sub", "api", <<"api", "www">>)>>, "", "doc", "http://zzz.example.com/v1"),
   Srv("var_twice_host_and_path", "https://{region}.example.com/{region}/v1", <<SV("region", "eu", <<>>)>>, "", "doc", "https://eu.example.com/eu/v1"),
   Srv("var_twice_different_values", "https://{region}.example.com/{region}/v1", <<SV("region", "eu", <<>>)>>, "", "doc", "https://eu.example.com/us/v1"),
   Srv("var_twice_adjacent", "http://example.com/{a}{a}", <<SV("a", "x", <<>>)>>, "", "doc", "http://example.com/xx"),
   Srv("var_thrice_op_level", "http://{a}.example.com/{a}/{a}", <<SV("a", "x", <<>>)>>, "", "op", "http://x.example.com/x/x"),
   Srv("four_vars", "{scheme}://{host}:{port}/{base}", <<SV("scheme", "http", <<"http", "https">>), SV("host", "example.com", <<>>), SV("port", "8080", <<>>), SV("base", "b", <<>>)>>,
       "", "doc", "http://example.com:8080/b"),
   Srv("second_server_matches", "http://{sub}.example.com/{sub}", <<SV("sub", "api", <<>>)>>, "https://{sub}.nomatch.example.org/{sub}/{sub}", "doc", "http://api.example.com/api"),
   Srv("relative_with_var_path_level", "/{base}/x", <<SV("base", "b", <<>>)>>, "", "path", "http://example.com/b/x"),
   Srv("whole_url_is_a_var", "{u}", <<SV("u", "http://example.com/w", <<>>)>>, "", "doc", "http://example.com/w"),
   Srv("var_value_with_slash", "http://example.com/{p}", <<SV("p", "a/b", <<>>)>>, "", "doc", "http://example.com/a/b"),
   Srv("var_value_regex_chars", "http://example.com/{p}", <<SV("p", "a.b+(c)", <<>>)>>, "", "doc", "http://example.com/a.b+(c)"),
   Srv("port_var_default_port", "http://example.com:{port}/v1", <<SV("port", "80", <<"80", "8080">>)>>, "", "doc", "http://example.com/v1"),
   Srv("https_explicit_default_port", "https://example.com:443/api", <<>>, "", "doc", "https://example.com/api"),
   Srv("var_value_percent_encoded", "http://example.com/{p}", <<SV("p", "a%2Fb", <<>>)>>, "", "doc", "http://example.com/a%2Fb")
>>

---------------------------------------------------------------------------
(* FOCUS products.  A pairwise array does not promise a triple; where one decoder produces values outside the JSON data model *)
(* the triple site x value x wrap matters (uniqueItems hashing, enum comparison, the type switch of the visitor, error text),   *)
(* so it is emitted in full: every YAML-decoding site x every YAML-only value form x every wrap, the leaf rotating.            *)
YamlValues == <<
   R("yaml_key_int", "{1: x}"), R("yaml_key_null", "{~: x}"), R("yaml_key_bool", "{true: x}"), R("yaml_key_float", "{1.5: x}"),
   R("yaml_key_list", "{[1, 2]: x}"), R("yaml_key_map", "{{a: b}: x}"), R("yaml_key_mixed", "{a: 1, 2: b, [3]: {4: 5}}"),
   R("yaml_nested_key_int", "{a: {b: [{1: x}]}}"), R("yaml_timestamp", "2001-12-14t21:59:43.10-05:00"), R("yaml_date", "2002-12-14"),
   R("yaml_binary", "!!binary aGVsbG8="), R("yaml_set", "!!set {a, b}"), R("yaml_omap", "!!omap [a: 1, b: 2]"),
   R("yaml_bigint", "123456789012345678901234567890"), R("yaml_hex", "0x1F"), R("yaml_octal", "0o17"), R("yaml_inf", ".inf"), R("yaml_neg_inf", "-.inf"),
   R("yaml_nan2", ".NaN"), R("yaml_null_word", "null"), R("yaml_str_tag", "!!str 1"), R("yaml_float_tag", "!!float 1"), R("yaml_int_tag_bad", "!!int x"),
   R("yaml_custom_tag", "!custom {a: 1}"), R("yaml_merge", "{<<: {a: 1}, b: 2}"), R("yaml_merge_list", "{<<: [{a: 1}, {1: 2}], p: 3}"),
   R("yaml_anchor_alias", "&k {p: 1, q: *k}"), R("yaml_uint64_max", "18446744073709551615"), R("yaml_int64_min", "-9223372036854775808")
>>
Focuses == <<
   [n |-> "yaml_values", sites |-> <<"body_yaml", "body_x_yaml", "resp_yaml", "body_multipart_ct_yaml">>, values |-> YamlValues, wraps |-> Wraps]
>>
SiteNamed(n) == CHOOSE x \in {Sites[q] : q \in DOMAIN Sites} : x.n = n
FocusCase(f, a, b, c) ==
   LET F == Focuses[f]
       leaf == Leaves[((a * 7 + b * 3 + c * 5 + Seed) % Len(Leaves)) + 1]
   IN [kind |-> "shape", site |-> SiteNamed(F.sites[a]), leaf |-> leaf, value |-> F.values[b], wrap |-> F.wraps[c],
       dmod |-> <<>>, murl |-> <<>>, mhdr |-> <<>>, mbody |-> <<>>, mrhead |-> <<>>, mrbody |-> <<>>, mode |-> "focus",
       opts |-> IF (a + b + c + Seed) % 3 = 0 THEN <<"multi">> ELSE <<>>, feat |-> <<>>, server |-> <<>>]

---------------------------------------------------------------------------
(* the dimensions in column order *)
Dim(c) == CASE c = 0 -> Sites [] c = 1 -> Leaves [] c = 2 -> Values [] c = 3 -> Wraps [] c = 4 -> DocMods [] c = 5 -> MutUrl [] c = 6 -> MutHdr
            [] c = 7 -> MutBody [] c = 8 -> MutRespHead [] c = 9 -> MutRespBody [] c = 10 -> Opts [] c = 11 -> FeatSeq [] c = 12 -> Servers
NDims == 13
ASSUME \A c \in 0..(NDims-1) : Len(Dim(c)) <= P
ASSUME NDims <= P + 1

Off(c, k) == ((Seed + k) * (c * c + 3 * c + 1)) % P
Slot(c, i, j, k) == (i + c * j + Off(c, k)) % P
(* the atom of column c in row (i, j) of array k; "none" beyond the dimension *)
Has(c, i, j, k) == Slot(c, i, j, k) < Len(Dim(c))
At(c, i, j, k) == Dim(c)[Slot(c, i, j, k) + 1]
Opt1(c, i, j, k) == IF Has(c, i, j, k) THEN <<At(c, i, j, k)>> ELSE <<>>

(* the four core dimensions always have an atom: the slot is folded *)
Core(c, i, j, k) == Dim(c)[(Slot(c, i, j, k) % Len(Dim(c))) + 1]

(* MODES.  A route-breaking URL mutation hides everything behind it; so the array is emitted once per mode, each mode     *)
(* activating one part of the traffic mutations (on a response site: of the response mutations), mode "clean" none of them *)
(* (all pairs of site x leaf x value x wrap x docmod x option x feature on well-formed traffic), mode "all" every part.    *)
Modes == <<"clean", "url", "hdr", "body", "all", "focus">>
ShapeCase(i, j, k0, m) ==
   LET k == k0 * 7 + m
       mode == Modes[m + 1]
       site == Core(0, i, j, k)
       resp == site.kind \in RespKinds
       Act(part, c) == IF mode = "all" \/ mode = part THEN Opt1(c, i, j, k) ELSE <<>>
   IN [kind |-> "shape", site |-> site, leaf |-> Core(1, i, j, k), value |-> Core(2, i, j, k), wrap |-> Core(3, i, j, k),
       dmod |-> Opt1(4, i, j, k),
       (* request-side mutations on request sites, response-side mutations on response sites: the other side stays well-formed, *)
       (* so that the site under test is reached                                                                              *)
       murl |-> IF resp THEN <<>> ELSE Act("url", 5), mhdr |-> IF resp THEN <<>> ELSE Act("hdr", 6),
       mbody |-> IF resp THEN <<>> ELSE Act("body", 7),
       mrhead |-> IF resp /\ mode \in {"url", "hdr", "all"} THEN Opt1(8, i, j, k) ELSE <<>>, mrbody |-> IF resp /\ mode \in {"body", "all"} THEN Opt1(9, i, j, k) ELSE <<>>,
       mode |-> mode,
       opts |-> Opt1(10, i, j, k), feat |-> Opt1(11, i, j, k), server |-> Opt1(12, i, j, k)]

VARIABLES ri, rj, rk, rm
SInit == ri \in 0..(P-1) /\ rj \in 0..(P-1) /\ rk \in 0..(K-1) /\ rm \in 0..(NModes-1)
SNext == UNCHANGED <<ri, rj, rk, rm>>
SSpec == SInit /\ [][SNext]_<<ri, rj, rk, rm>>

---------------------------------------------------------------------------
(* membership of a logged case in the universe (the trace spec checks Realised = Case by this) *)
InSeq(x, s) == \E n \in DOMAIN s : s[n] = x
OptIn(x, s) == Len(x) = 0 \/ (Len(x) = 1 /\ InSeq(x[1], s))
NameIn(r, s) == \E n \in DOMAIN s : s[n].n = r.n
ShapeInUniverse(c) ==
   /\ NameIn(c.site, Sites) /\ NameIn(c.leaf, Leaves) /\ (NameIn(c.value, Values) \/ \E f \in DOMAIN Focuses : NameIn(c.value, Focuses[f].values))
   /\ InSeq(c.wrap, Wraps) /\ (Len(c.server) = 0 \/ (Len(c.server) = 1 /\ NameIn(c.server[1], Servers)))
   /\ OptIn(c.dmod, DocMods) /\ OptIn(c.murl, MutUrl) /\ OptIn(c.mhdr, MutHdr) /\ OptIn(c.mbody, MutBody)
   /\ InSeq(c.mode, Modes) /\ OptIn(c.mrhead, MutRespHead) /\ OptIn(c.mrbody, MutRespBody) /\ OptIn(c.opts, Opts)
   /\ (Len(c.feat) = 0 \/ (Len(c.feat) = 1 /\ c.feat[1] \in DocFeatures))
=============================================================================
