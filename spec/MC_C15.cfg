SPECIFICATION Spec
CONSTANTS DefaultCopied = TRUE
 RouteCopied = TRUE
 MaxOps = 3
INVARIANTS NoRace NoDeadlock
CHECK_DEADLOCK FALSE
