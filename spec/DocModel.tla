------------------------------ MODULE DocModel ------------------------------
(***************************************************************************)
(* C03 -- the document model: object kinds of OpenAPI 3.0.3 and OpenAPI    *)
(* 2.0 with their field catalogues (transcribed from the two OpenAPI       *)
(* specifications, not from the marshallers), sample values per field      *)
(* category, the containment graph (how an object of a kind is hosted in a *)
(* complete document), the normal form Norm (L1), the round-trip contract  *)
(* (L1) and an implementation-shaped model of the marshallers' omit-when-  *)
(* zero conventions (L2).                                                  *)
(*                                                                         *)
(* JSON values are tagged (cf. JsonValue.tla; C03 needs equality only, so  *)
(* strings are plain TLA+ strings and numbers are canonical decimal        *)
(* literals -- TLC integers are 32 bit, the interesting numbers are not):  *)
(*   [t |-> "null"]  [t |-> "bool", b |-> TRUE]  [t |-> "num", lit |-> "2.5"]*)
(*   [t |-> "str", s |-> "abc"]          printable ASCII without " and \   *)
(*   [t |-> "str", cs |-> <<"a","U+000A">>]  any other string, one token   *)
(*                                       per rune ("U+XXXX" = that rune)   *)
(*   [t |-> "arr", a |-> <<..>>]  [t |-> "obj", k |-> <<keys>>, v |-> <<vals>>]*)
(* Values projected by the harness have sorted keys; values built here do  *)
(* not, so Same (order-insensitive) is used where a built value is compared*)
(* with a projected one, and plain = between projected values.             *)
(***************************************************************************)
EXTENDS Integers, Sequences, FiniteSets, TLC

N        == [t |-> "null"]
Bv(b)    == [t |-> "bool", b |-> b]
Nm(lit)  == [t |-> "num", lit |-> lit]
Sv(s)    == [t |-> "str", s |-> s]
Cs(cs)   == [t |-> "str", cs |-> cs]
Av(a)    == [t |-> "arr", a |-> a]
Ov(k, v) == [t |-> "obj", k |-> k, v |-> v]
EmptyO   == Ov(<<>>, <<>>)
EmptyA   == Av(<<>>)
O1(k, v) == Ov(<<k>>, <<v>>)

SeqRange(s) == {s[i] : i \in DOMAIN s}
HasKey(o, key) == \E i \in DOMAIN o.k : o.k[i] = key
KeyIdx(o, key) == CHOOSE i \in DOMAIN o.k : o.k[i] = key
Get(o, key)    == o.v[KeyIdx(o, key)]
(* replace the value of key or append the pair *)
SetKey(o, key, val) ==
   IF HasKey(o, key)
   THEN Ov(o.k, [i \in DOMAIN o.k |-> IF o.k[i] = key THEN val ELSE o.v[i]])
   ELSE Ov(Append(o.k, key), Append(o.v, val))
GetOr(o, key, dflt) == IF HasKey(o, key) THEN Get(o, key) ELSE dflt
(* o2's pairs win *)
RECURSIVE MergeFrom(_, _, _)
MergeFrom(o1, o2, i) == IF i > Len(o2.k) THEN o1 ELSE MergeFrom(SetKey(o1, o2.k[i], o2.v[i]), o2, i + 1)
Merge(o1, o2) == MergeFrom(o1, o2, 1)

RECURSIVE Pick(_, _, _)
Pick(s, flags, i) == IF i > Len(s) THEN <<>>
                     ELSE (IF flags[i] THEN <<s[i]>> ELSE <<>>) \o Pick(s, flags, i + 1)

(* order-insensitive structural equality *)
RECURSIVE Same(_, _)
Same(x, y) ==
   /\ x.t = y.t
   /\ CASE x.t = "arr" -> /\ Len(x.a) = Len(y.a)
                          /\ \A i \in DOMAIN x.a : Same(x.a[i], y.a[i])
        [] x.t = "obj" -> /\ Len(x.k) = Len(y.k)
                          /\ SeqRange(x.k) = SeqRange(y.k)
                          /\ \A i \in DOMAIN x.k : Same(x.v[i], Get(y, x.k[i]))
        [] OTHER -> x = y

(***************************************************************************)
(* Field catalogue.  A field: n name, c category, k kind of the nested     *)
(* object(s) or "", req (the specification requires the field: it is       *)
(* always populated -- documents that omit required fields are outside the *)
(* universe), zr: what the zero value of the category means for this field *)
(*   "red"  = it is the default the specification gives the absent field   *)
(*            (a redundant default: Norm drops it),                        *)
(*   "keep" = it is meaningful and in normal form (must survive),          *)
(*   "none" = the specification is silent (description: "", tags: [] ...): *)
(*            open region, never generated,                                *)
(* oz (L2 only, read off the Go struct): the marshaller omits the field    *)
(* when it holds the Go zero value (non-pointer bool/string/uint64, nil    *)
(* interface, empty slice/map).                                            *)
(* Categories: str strp(ptr string) bool boolp(ptr bool) num(ptr float64) *)
(* umin(uint64) umax(ptr uint64) any anys strs strmap anymap obj map arr   *)
(* secreqs secreqsp sob(schema-or-bool) type pref(path item $ref).         *)
(***************************************************************************)
Fd(n, c, k, req, zr, oz) == [n |-> n, c |-> c, k |-> k, req |-> req, zr |-> zr, oz |-> oz]
Str(n)       == Fd(n, "str", "", FALSE, "none", TRUE)
StrR(n)      == Fd(n, "str", "", TRUE, "none", TRUE)
StrPR(n)     == Fd(n, "strp", "", TRUE, "keep", FALSE)
Bool(n)      == Fd(n, "bool", "", FALSE, "red", TRUE)
BoolP(n, zr) == Fd(n, "boolp", "", FALSE, zr, FALSE)
Num(n)       == Fd(n, "num", "", FALSE, "keep", FALSE)
NumNZ(n)     == Fd(n, "num", "", FALSE, "none", FALSE)
UMin(n)      == Fd(n, "umin", "", FALSE, "red", TRUE)
UMax(n)      == Fd(n, "umax", "", FALSE, "keep", FALSE)
AnyF(n)       == Fd(n, "any", "", FALSE, "none", TRUE)
Anys(n)      == Fd(n, "anys", "", FALSE, "none", TRUE)
Strs(n)      == Fd(n, "strs", "", FALSE, "none", TRUE)
SMap(n)      == Fd(n, "strmap", "", FALSE, "none", TRUE)
SMapR(n, oz) == Fd(n, "strmap", "", TRUE, "keep", oz)
AMap(n)      == Fd(n, "anymap", "", FALSE, "none", TRUE)
Obj(n, k)    == Fd(n, "obj", k, FALSE, "none", FALSE)
ObjR(n, k)   == Fd(n, "obj", k, TRUE, "none", FALSE)
Map(n, k)    == Fd(n, "map", k, FALSE, "none", TRUE)
MapR(n, k, zr, oz) == Fd(n, "map", k, TRUE, zr, oz)
Arr(n, k)    == Fd(n, "arr", k, FALSE, "none", TRUE)
SecReqs(n)   == Fd(n, "secreqs", "", FALSE, "none", TRUE)
SecReqsP(n)  == Fd(n, "secreqsp", "", FALSE, "keep", FALSE)
Sob(n, k)    == Fd(n, "sob", k, FALSE, "red", FALSE)
Typ(n)       == Fd(n, "type", "", FALSE, "none", TRUE)
PRef(n)      == Fd(n, "pref", "", FALSE, "none", TRUE)

(* ---- OpenAPI 3.0.3 ---- *)
InfoF == <<StrR("title"), Str("description"), Str("termsOfService"), Obj("contact", "Contact"),
           Obj("license", "License"), StrR("version")>>
ContactF == <<Str("name"), Str("url"), Str("email")>>
LicenseF == <<StrR("name"), Str("url")>>
TagF == <<StrR("name"), Str("description"), Obj("externalDocs", "ExternalDocs")>>
ExternalDocsF == <<Str("description"), StrR("url")>>
XMLF == <<Str("name"), Str("namespace"), Str("prefix"), Bool("attribute"), Bool("wrapped")>>

ParamCommon(schemaKind, explodeZr) ==
   <<Str("description"), Bool("required"), Bool("deprecated"), Bool("allowEmptyValue"), Str("style"),
     BoolP("explode", explodeZr), Bool("allowReserved"), Obj("schema", schemaKind), AnyF("example"),
     Map("examples", "Example"), Map("content", "MediaType")>>

SchemaCommon(S) ==
   <<Str("title"), NumNZ("multipleOf"), Num("maximum"), Bool("exclusiveMaximum"), Num("minimum"),
     Bool("exclusiveMinimum"), UMax("maxLength"), UMin("minLength"), Str("pattern"), UMax("maxItems"),
     UMin("minItems"), Bool("uniqueItems"), UMax("maxProperties"), UMin("minProperties"),
     Strs("required"), Anys("enum"), Typ("type"), Arr("allOf", S), Obj("items", S),
     Map("properties", S), Sob("additionalProperties", S), Str("description"), Str("format"),
     AnyF("default"), Bool("readOnly"), Obj("xml", "XML"), Obj("externalDocs", "ExternalDocs"),
     AnyF("example")>>

(* non-body parameter / header / items validation keywords of OpenAPI 2.0 *)
V2Simple == <<Str("format"), Obj("items", "Items2"), Str("collectionFormat"), AnyF("default"),
              Num("maximum"), Bool("exclusiveMaximum"), Num("minimum"), Bool("exclusiveMinimum"),
              UMax("maxLength"), UMin("minLength"), Str("pattern"), UMax("maxItems"), UMin("minItems"),
              Bool("uniqueItems"), Anys("enum"), NumNZ("multipleOf")>>

FieldsDef(kind) ==
   CASE kind = "T3" -> <<StrR("openapi"), ObjR("info", "Info"), Arr("servers", "Server"),
                         ObjR("paths", "Paths"), Obj("components", "Components"), SecReqs("security"),
                         Arr("tags", "Tag"), Obj("externalDocs", "ExternalDocs")>>
     [] kind \in {"Info", "Info2"} -> InfoF
     [] kind = "Contact" -> ContactF
     [] kind = "License" -> LicenseF
     [] kind = "Server" -> <<StrR("url"), Str("description"), Map("variables", "ServerVariable")>>
     [] kind = "ServerVariable" -> <<Strs("enum"), StrR("default"), Str("description")>>
     [] kind = "Components" ->
          <<Map("schemas", "Schema"), Map("responses", "Response"), Map("parameters", "Parameter"),
            Map("examples", "Example"), Map("requestBodies", "RequestBody"), Map("headers", "Header"),
            Map("securitySchemes", "SecurityScheme"), Map("links", "Link"), Map("callbacks", "Callback")>>
     (* the entries of a map-like kind are its own keys: the root path, a trailing slash next to its namesake, upper case *)
     [] kind = "Paths" -> <<Obj("/p", "PathItem"), Obj("/q/{id}", "PathItem"), Obj("/", "PathItem"), Obj("/p/", "PathItem"),
                            Obj("/P/{Id}.json", "PathItem")>>
     [] kind = "PathItem" ->
          <<PRef("$ref"), Str("summary"), Str("description"), Obj("get", "Operation"), Obj("put", "Operation"),
            Obj("post", "Operation"), Obj("delete", "Operation"), Obj("options", "Operation"),
            Obj("head", "Operation"), Obj("patch", "Operation"), Obj("trace", "Operation"),
            Arr("servers", "Server"), Arr("parameters", "Parameter")>>
     [] kind = "Operation" ->
          <<Strs("tags"), Str("summary"), Str("description"), Obj("externalDocs", "ExternalDocs"),
            Str("operationId"), Arr("parameters", "Parameter"), Obj("requestBody", "RequestBody"),
            ObjR("responses", "Responses"), Map("callbacks", "Callback"), Bool("deprecated"),
            SecReqsP("security"), Arr("servers", "Server")>>
     [] kind = "ExternalDocs" -> ExternalDocsF
     [] kind = "Parameter" -> <<StrR("name"), StrR("in")>> \o ParamCommon("Schema", "keep")
     [] kind = "Header" -> ParamCommon("Schema", "red")
     [] kind = "RequestBody" -> <<Str("description"), MapR("content", "MediaType", "keep", FALSE), Bool("required")>>
     [] kind = "MediaType" -> <<Obj("schema", "Schema"), AnyF("example"), Map("examples", "Example"),
                                Map("encoding", "Encoding")>>
     [] kind = "Encoding" -> <<Str("contentType"), Map("headers", "Header"), Str("style"),
                               BoolP("explode", "keep"), Bool("allowReserved")>>
     [] kind = "Responses" -> <<Obj("default", "Response"), Obj("200", "Response"), Obj("4XX", "Response"), Obj("404", "Response"),
                                Obj("5xx", "Response")>>
     [] kind = "Response" -> <<StrPR("description"), Map("headers", "Header"), Map("content", "MediaType"),
                               Map("links", "Link")>>
     [] kind = "Callback" -> <<Obj("{$request.body#/url}", "PathItem"), Obj("http://h/{$request.query.id}", "PathItem")>>
     [] kind = "Example" -> <<Str("summary"), Str("description"), AnyF("value"), Str("externalValue")>>
     [] kind = "Link" -> <<Str("operationRef"), Str("operationId"), AMap("parameters"), AnyF("requestBody"),
                           Str("description"), Obj("server", "Server")>>
     [] kind = "Tag" -> TagF
     [] kind = "Schema" ->
          SchemaCommon("Schema") \o
          <<Arr("oneOf", "Schema"), Arr("anyOf", "Schema"), Obj("not", "Schema"), Bool("nullable"),
            Obj("discriminator", "Discriminator"), Bool("writeOnly"), Bool("deprecated")>>
     [] kind = "Discriminator" -> <<StrR("propertyName"), SMap("mapping")>>
     [] kind = "XML" -> XMLF
     [] kind = "SecurityScheme" ->
          <<StrR("type"), Str("description"), Str("name"), Str("in"), Str("scheme"), Str("bearerFormat"),
            Obj("flows", "OAuthFlows"), Str("openIdConnectUrl")>>
     [] kind = "OAuthFlows" -> <<Obj("implicit", "OAuthFlow"), Obj("password", "OAuthFlow"),
                                 Obj("clientCredentials", "OAuthFlow"), Obj("authorizationCode", "OAuthFlow")>>
     [] kind = "OAuthFlow" -> <<Str("authorizationUrl"), Str("tokenUrl"), Str("refreshUrl"), SMapR("scopes", FALSE)>>
     [] kind = "SecurityRequirement" -> <<Strs("k"), Fd("k2", "strs", "", FALSE, "keep", FALSE)>>
     (* ---- OpenAPI 2.0 ---- *)
     [] kind = "T2" ->
          <<StrR("swagger"), ObjR("info", "Info2"), Str("host"), Str("basePath"), Strs("schemes"),
            Strs("consumes"), Strs("produces"), MapR("paths", "PathItem2", "none", TRUE),
            Map("definitions", "Schema2"), Map("parameters", "Parameter2"), Map("responses", "Response2"),
            Map("securityDefinitions", "SecurityScheme2"), SecReqs("security"), Arr("tags", "Tag"),
            Obj("externalDocs", "ExternalDocs")>>
     [] kind = "PathItem2" ->
          <<PRef("$ref"), Obj("get", "Operation2"), Obj("put", "Operation2"), Obj("post", "Operation2"),
            Obj("delete", "Operation2"), Obj("options", "Operation2"), Obj("head", "Operation2"),
            Obj("patch", "Operation2"), Arr("parameters", "Parameter2")>>
     [] kind = "Operation2" ->
          <<Strs("tags"), Str("summary"), Str("description"), Obj("externalDocs", "ExternalDocs"),
            Str("operationId"), Strs("consumes"), Strs("produces"), Arr("parameters", "Parameter2"),
            MapR("responses", "Response2", "none", FALSE), Strs("schemes"), Bool("deprecated"),
            SecReqsP("security")>>
     [] kind = "Parameter2" ->
          <<PRef("$ref"), StrR("name"), StrR("in"), Str("description"), Bool("required"),
            Obj("schema", "Schema2"), Typ("type"), Bool("allowEmptyValue")>> \o V2Simple
     [] kind = "Response2" -> <<PRef("$ref"), StrR("description"), Obj("schema", "Schema2"),
                                Map("headers", "Header2"), AMap("examples")>>
     [] kind = "Header2" -> <<Str("description"), Typ("type")>> \o V2Simple
     (* the Items Object of non-body parameters and headers (the library decodes it into its v2 Schema type) *)
     [] kind = "Items2" -> <<Typ("type")>> \o V2Simple
     [] kind = "Schema2" -> SchemaCommon("Schema2") \o <<Str("discriminator")>>
     [] kind = "SecurityScheme2" ->
          <<StrR("type"), Str("description"), Str("name"), Str("in"), Str("flow"), Str("authorizationUrl"),
            Str("tokenUrl"), SMapR("scopes", FALSE)>>

(* v2 Parameter.$ref / Response.$ref / PathItem.$ref / type: the record must also be usable where   *)
(* `type' is required (Header2) -- parsing does not need it, so it stays optional.                    *)

Kinds3 == {"T3", "Info", "Contact", "License", "Server", "ServerVariable", "Components", "Paths", "PathItem",
           "Operation", "ExternalDocs", "Parameter", "Header", "RequestBody", "MediaType", "Encoding",
           "Responses", "Response", "Callback", "Example", "Link", "Tag", "Schema", "Discriminator", "XML",
           "SecurityScheme", "OAuthFlows", "OAuthFlow", "SecurityRequirement"}
Kinds2 == {"T2", "Info2", "PathItem2", "Operation2", "Parameter2", "Response2", "Header2", "Items2", "Schema2",
           "SecurityScheme2"}
Kinds  == Kinds3 \cup Kinds2
Ver(kind) == IF kind \in Kinds2 THEN 2 ELSE 3
Root(ver) == IF ver = 2 THEN "T2" ELSE "T3"

(* kinds whose entries are the object's own keys (map-like containers) *)
MapLike == {"Paths", "Responses", "Callback", "SecurityRequirement"}
(* kinds that may be replaced by a reference object ($ref wrapper types; path items carry $ref as a field) *)
RefKinds == {"Schema", "Response", "Parameter", "Example", "RequestBody", "Header", "SecurityScheme", "Link",
             "Callback", "PathItem", "Schema2", "Parameter2", "Response2", "PathItem2"}
(* specification extensions (x-) are legal on every object kind except the security requirement;     *)
(* unknown (non x-) keys are kept by the library on the struct-like kinds -- on map-like kinds an     *)
(* unknown key is an entry.                                                                          *)
ExtOK(kind) == kind # "SecurityRequirement"
UnkOK(kind) == kind \notin MapLike

RefStr(kind) ==
   CASE kind = "Schema" -> "#/components/schemas/T"       [] kind = "Response" -> "#/components/responses/T"
     [] kind = "Parameter" -> "#/components/parameters/T" [] kind = "Example" -> "#/components/examples/T"
     [] kind = "RequestBody" -> "#/components/requestBodies/T" [] kind = "Header" -> "#/components/headers/T"
     [] kind = "SecurityScheme" -> "#/components/securitySchemes/T" [] kind = "Link" -> "#/components/links/T"
     [] kind = "Callback" -> "#/components/callbacks/T"   [] kind = "PathItem" -> "#/paths/~1t"
     [] kind = "Schema2" -> "#/definitions/T"             [] kind = "Parameter2" -> "#/parameters/T"
     [] kind = "Response2" -> "#/responses/T"             [] kind = "PathItem2" -> "#/paths/~1t"
RefObj(kind) == O1("$ref", Sv(RefStr(kind)))
(* external references: a whole external file holding a bare object of the kind, and a fragment of an  *)
(* external document (the harness serves both from an in-memory table carried by the case, see ExtOf)   *)
XRefStr(kind)  == "ext/" \o kind \o ".json"
XFragStr(kind) == "ext/doc.json" \o RefStr(kind)
Coll(kind) ==
   CASE kind = "Schema" -> "schemas" [] kind = "Response" -> "responses" [] kind = "Parameter" -> "parameters"
     [] kind = "Example" -> "examples" [] kind = "RequestBody" -> "requestBodies" [] kind = "Header" -> "headers"
     [] kind = "SecurityScheme" -> "securitySchemes" [] kind = "Link" -> "links" [] kind = "Callback" -> "callbacks"

(* tables: TLC evaluates a constant definition once *)
FieldsTab == TLCEval([k \in Kinds |-> FieldsDef(k)])
Fields(kind) == FieldsTab[kind]
FieldNamesTab == TLCEval([k \in Kinds |-> {FieldsTab[k][i].n : i \in DOMAIN FieldsTab[k]}])
FieldNames(kind) == FieldNamesTab[kind]
(* pairs of fields the library refuses to parse together (a parameter or header has either a schema or a content map): *)
(* such documents are not "documents the library parses" *)
Excl(kind) == IF kind \in {"Parameter", "Header"} THEN {<<"schema", "content">>} ELSE {}
Conflicts(kind, n, names) == \E p \in Excl(kind) : (p[1] = n /\ p[2] \in names) \/ (p[2] = n /\ p[1] \in names)
FieldOf(kind, name) == LET fs == Fields(kind) IN fs[CHOOSE i \in DOMAIN fs : fs[i].n = name]
Optional(kind) == {Fields(kind)[i].n : i \in {j \in DOMAIN Fields(kind) : ~Fields(kind)[j].req}}

(***************************************************************************)
(* Sample values.                                                          *)
(***************************************************************************)
FixedStr == [openapi |-> "3.0.3", swagger |-> "2.0", in |-> "query"]
StrOf(n) == IF n \in DOMAIN FixedStr THEN FixedStr[n] ELSE "~" \o n
MapKeyOf(fd) ==
   CASE fd.n = "content" -> "application/json" [] fd.n = "responses" /\ fd.k = "Response2" -> "200"
     [] fd.n = "paths" -> "/p" [] fd.n = "variables" -> "var" [] OTHER -> "k1"

(* two keys (sorted) that a map of this field may carry and that are NOT in any canonical spelling *)
MapKeys2(fd) ==
   CASE fd.n = "content" -> <<"application/EDI-X12", "text/plain; charset=UTF-8">>
     [] fd.n = "responses" /\ fd.k = "Response2" -> <<"404", "default">>
     [] fd.n = "paths" -> <<"/P/{Id}", "/p/">>
     [] OTHER -> <<"K-Upper", "k.1">>

AnyV == Ov(<<"a", "b", "e", "f">>,
           <<Av(<<Nm("1"), Sv("x"), N, Bv(TRUE), Bv(FALSE), Nm("0"), Sv(""), Nm("-2.5")>>),
             O1("c", Nm("0.5")), EmptyO, EmptyA>>)
(* more shapes of a free-form value: a non-empty array at the top (arrays in arrays, an object with a    *)
(* null member), an object whose members are null / look like the library's own keywords ($ref, type,    *)
(* x-), a float, a number written with an exponent (10^21: exact in float64, written 1e+21 by Go)        *)
AnyArr   == Av(<<Av(<<Av(<<Nm("1")>>), EmptyA>>), Ov(<<"n", "o">>, <<N, O1("deep", Av(<<N>>))>>), Sv("s"), Nm("-0.5")>>)
AnyNest  == Ov(<<"n", "$ref", "type", "x-in", "required", "k.1/2 3">>,
               <<N, Sv("#/not/a/reference"), Nm("5"), O1("x-x", N), Bv(TRUE), Av(<<Bv(FALSE)>>)>>)
Exp21    == "1000000000000000000000"
BigInt   == "9007199254740993"        \* 2^53 + 1
BigI64   == "9223372036854775807"     \* max int64
ZeroOf(c) ==
   CASE c \in {"bool", "boolp"} -> Bv(FALSE) [] c \in {"num", "umin", "umax"} -> Nm("0")
     [] c \in {"str", "strp"} -> Sv("") [] c \in {"strs", "arr", "anys", "secreqs", "secreqsp"} -> EmptyA
     [] c \in {"map", "strmap", "anymap"} -> EmptyO [] c = "any" -> N [] c = "sob" -> Bv(TRUE)

CanRef(fd) == fd.c \in {"obj", "map", "arr", "sob"} /\ fd.k \in RefKinds
Variants(fd) ==
   {"v"} \cup (IF fd.zr # "none" THEN {"z"} ELSE {})
         \cup (IF fd.c = "any" THEN {"zf", "z0", "zs", "ze", "za", "null", "big", "s", "t", "flt", "exp", "arr", "nest"} ELSE {})
         \cup (IF fd.c = "num" THEN {"big", "neg"} ELSE {})
         \cup (IF fd.c = "umax" THEN {"big"} ELSE {})
         \cup (IF fd.c = "sob" THEN {"f"} ELSE {})
         \cup (IF CanRef(fd) THEN {"ref", "refsib", "xref", "xfrag", "xrefsib"} ELSE {})
         \cup (IF fd.c = "pref" THEN {"xref", "xfrag"} ELSE {})
         (* the ORDER of a sequence is part of its value.  `type' may be written as an array of names (the     *)
         (* library's reader takes both forms): two names not in alphabetical order, three in reverse order,   *)
         (* two that are.  A one-element array is written back as the bare name and an empty one is dropped:   *)
         (* the statement is silent on those spellings, they are not generated; nor are repeated names.        *)
         \cup (IF fd.c = "type" THEN {"multi", "multi3", "msorted"} ELSE {})
         (* an array of objects: three elements whose names / urls / markers are in no sorted order *)
         \cup (IF fd.c = "arr" THEN {"ord"} ELSE {})
         \cup (IF fd.c \in {"map", "strmap", "anymap"} THEN {"mk"} ELSE {})     \* map keys are data: two keys with upper case, dots, parameters ...
(* variants that leave the document in normal form *)
NormalVariant(fd, var) == ~(var \in {"refsib", "xrefsib"} \/ (var = "z" /\ fd.zr = "red"))

RECURSIVE Val(_, _, _), Min(_), Small(_), Tagged(_, _)
(* Min: required fields only (nested required objects minimal too) *)
Min(kind) ==
   LET fs  == Fields(kind)
       req == Pick([i \in DOMAIN fs |-> i], [i \in DOMAIN fs |-> fs[i].req], 1)
   IN Ov([j \in DOMAIN req |-> fs[req[j]].n], [j \in DOMAIN req |-> Val(kind, fs[req[j]], "min")])
(* Small: Min plus one extension, used as the value of nested-object fields *)
Small(kind) == IF ExtOK(kind) THEN SetKey(Min(kind), "x-s", Sv(kind)) ELSE Min(kind)

(* Tagged: the Small object with tag put in front of every required free string (name, url, title ...) and  *)
(* into a marker extension: elements of one array that differ in everything a sort could look at              *)
Tagged(kind, tag) ==
   LET fs == Fields(kind)
       o  == Small(kind)
       re == [i \in DOMAIN o.k |-> IF \E j \in DOMAIN fs : fs[j].n = o.k[i] /\ fs[j].c = "str" /\ fs[j].req /\ o.k[i] \notin DOMAIN FixedStr
                                   THEN Sv(tag \o o.v[i].s) ELSE o.v[i]]
       t  == Ov(o.k, re)
   IN IF ExtOK(kind) THEN SetKey(t, "x-o", Sv(tag)) ELSE SetKey(t, tag, EmptyA)
(* (the scopes, and the requirements themselves, in no sorted order) *)
SecReqsV == Av(<<Ov(<<"k">>, <<Av(<<Sv("s2"), Sv("s1"), Sv("s3")>>)>>), EmptyO, Ov(<<"k2">>, <<EmptyA>>), Ov(<<"a">>, <<EmptyA>>)>>)
SibOf(ref) == Ov(<<"$ref", "description", "x-sib">>, <<Sv(ref), Sv("sibling"), Nm("1")>>)
RefSib(kind) == SibOf(RefStr(kind))

Val(kind, fd, var) ==
   LET nested(k) == IF var = "min" THEN Min(k)
                    ELSE IF var = "ref" THEN RefObj(k)
                    ELSE IF var = "refsib" THEN RefSib(k)
                    ELSE IF var = "xref" THEN O1("$ref", Sv(XRefStr(k)))
                    ELSE IF var = "xfrag" THEN O1("$ref", Sv(XFragStr(k)))
                    ELSE IF var = "xrefsib" THEN SibOf(XRefStr(k)) ELSE Small(k)
   IN
   IF var = "z" THEN ZeroOf(fd.c)
   ELSE CASE fd.c \in {"str", "strp"} -> Sv(StrOf(fd.n))
          [] fd.c = "pref" -> Sv(IF var = "xref" THEN XRefStr(kind) ELSE IF var = "xfrag" THEN XFragStr(kind) ELSE RefStr(kind))
          [] fd.c = "type" -> CASE var = "multi" -> Av(<<Sv("string"), Sv("null")>>)
                                [] var = "multi3" -> Av(<<Sv("string"), Sv("integer"), Sv("boolean")>>)
                                [] var = "msorted" -> Av(<<Sv("integer"), Sv("string")>>)
                                [] OTHER -> Sv("string")
          [] fd.c \in {"bool", "boolp"} -> Bv(TRUE)
          [] fd.c = "num"  -> IF var = "big" THEN Nm(BigI64) ELSE IF var = "neg" THEN Nm("-1.5") ELSE Nm("2.5")
          [] fd.c = "umin" -> Nm("3")
          [] fd.c = "umax" -> IF var = "big" THEN Nm(BigInt) ELSE Nm("7")
          [] fd.c = "any"  -> CASE var = "zf" -> Bv(FALSE) [] var = "z0" -> Nm("0") [] var = "zs" -> Sv("")
                                [] var = "ze" -> EmptyO [] var = "za" -> EmptyA [] var = "null" -> N
                                [] var = "big" -> Nm(BigInt) [] var = "s" -> Sv(StrOf(fd.n))
                                [] var = "t" -> Bv(TRUE) [] var = "flt" -> Nm("0.1") [] var = "exp" -> Nm(Exp21)
                                [] var = "arr" -> AnyArr [] var = "nest" -> AnyNest
                                [] OTHER -> AnyV
          [] fd.c = "anys" -> Av(<<Sv("a"), Nm("1"), N, Bv(FALSE), O1("o", EmptyA)>>)
          [] fd.c = "strs" -> Av(<<Sv(StrOf(fd.n)), Sv("b")>>)
          [] fd.c = "strmap" -> IF var = "mk" THEN Ov(MapKeys2(fd), <<Sv(StrOf(fd.n)), Sv("v2")>>) ELSE Ov(<<"k1", "k2">>, <<Sv(StrOf(fd.n)), Sv("")>>)
          [] fd.c = "anymap" -> IF var = "mk" THEN Ov(MapKeys2(fd), <<Sv("a"), Nm("1")>>) ELSE Ov(<<"p", "q">>, <<AnyV, Sv("$request.path.id")>>)
          [] fd.c = "obj"  -> nested(fd.k)
          [] fd.c = "map"  -> IF var = "mk" THEN Ov(MapKeys2(fd), <<nested(fd.k), Min(fd.k)>>) ELSE O1(MapKeyOf(fd), nested(fd.k))
          [] fd.c = "arr"  -> IF var = "ord" THEN Av(<<Tagged(fd.k, "m"), Tagged(fd.k, "z"), Tagged(fd.k, "a")>>)
                              ELSE Av(<<nested(fd.k)>>)
          [] fd.c \in {"secreqs", "secreqsp"} -> SecReqsV
          [] fd.c = "sob"  -> IF var = "f" THEN Bv(FALSE) ELSE nested(fd.k)

(***************************************************************************)
(* Containment: how an object of a kind is hosted in a complete document.  *)
(* Site = [p parent kind, via field of the parent, how obj|arr|map, key].  *)
(***************************************************************************)
Site(kind) ==
   LET s(p, via, how, key) == [p |-> p, via |-> via, how |-> how, key |-> key] IN
   CASE kind = "Info" -> s("T3", "info", "obj", "")
     [] kind = "Contact" -> s("Info", "contact", "obj", "")
     [] kind = "License" -> s("Info", "license", "obj", "")
     [] kind = "Server" -> s("T3", "servers", "arr", "")
     [] kind = "ServerVariable" -> s("Server", "variables", "map", "var")
     [] kind = "Components" -> s("T3", "components", "obj", "")
     [] kind = "Paths" -> s("T3", "paths", "obj", "")
     [] kind = "PathItem" -> s("Paths", "/p", "obj", "")
     [] kind = "Operation" -> s("PathItem", "get", "obj", "")
     [] kind = "ExternalDocs" -> s("T3", "externalDocs", "obj", "")
     [] kind = "Parameter" -> s("Operation", "parameters", "arr", "")
     [] kind = "Header" -> s("Response", "headers", "map", "H")
     [] kind = "RequestBody" -> s("Operation", "requestBody", "obj", "")
     [] kind = "MediaType" -> s("RequestBody", "content", "map", "application/json")
     [] kind = "Encoding" -> s("MediaType", "encoding", "map", "e")
     [] kind = "Responses" -> s("Operation", "responses", "obj", "")
     [] kind = "Response" -> s("Responses", "200", "obj", "")
     [] kind = "Callback" -> s("Operation", "callbacks", "map", "C")
     [] kind = "Example" -> s("MediaType", "examples", "map", "E")
     [] kind = "Link" -> s("Response", "links", "map", "L")
     [] kind = "Tag" -> s("T3", "tags", "arr", "")
     [] kind = "Schema" -> s("Components", "schemas", "map", "S")
     [] kind = "Discriminator" -> s("Schema", "discriminator", "obj", "")
     [] kind = "XML" -> s("Schema", "xml", "obj", "")
     [] kind = "SecurityScheme" -> s("Components", "securitySchemes", "map", "K")
     [] kind = "OAuthFlows" -> s("SecurityScheme", "flows", "obj", "")
     [] kind = "OAuthFlow" -> s("OAuthFlows", "implicit", "obj", "")
     [] kind = "SecurityRequirement" -> s("T3", "security", "arr", "")
     [] kind = "Info2" -> s("T2", "info", "obj", "")
     [] kind = "PathItem2" -> s("T2", "paths", "map", "/p")
     [] kind = "Operation2" -> s("PathItem2", "get", "obj", "")
     [] kind = "Parameter2" -> s("Operation2", "parameters", "arr", "")
     [] kind = "Response2" -> s("Operation2", "responses", "map", "200")
     [] kind = "Header2" -> s("Response2", "headers", "map", "H")
     [] kind = "Items2" -> s("Parameter2", "items", "obj", "")
     [] kind = "Schema2" -> s("T2", "definitions", "map", "S")
     [] kind = "SecurityScheme2" -> s("T2", "securityDefinitions", "map", "K")

IsRoot(kind) == kind \in {"T3", "T2"}
RECURSIVE Host(_, _)
Host(kind, x) ==
   IF IsRoot(kind) THEN x
   ELSE LET st == Site(kind)
            shaped == CASE st.how = "obj" -> x [] st.how = "arr" -> Av(<<x>>) [] st.how = "map" -> O1(st.key, x)
        IN Host(st.p, SetKey(Min(st.p), st.via, shaped))

(* every "$ref" string used anywhere in a value *)
RECURSIVE Refs(_)
Refs(v) == CASE v.t = "arr" -> UNION {Refs(v.a[i]) : i \in DOMAIN v.a}
             [] v.t = "obj" -> UNION {IF v.k[i] = "$ref" /\ v.v[i].t = "str" THEN {v.v[i].s} ELSE Refs(v.v[i])
                                       : i \in DOMAIN v.k}
             [] OTHER -> {}
CompKinds == <<"Schema", "Response", "Parameter", "Example", "RequestBody", "Header", "SecurityScheme", "Link", "Callback">>
(* OpenAPI 3 documents go through the loader, which resolves references: give every used one a target *)
AddTarget(doc, kind) ==
   IF kind = "PathItem"
   THEN SetKey(doc, "paths", SetKey(Get(doc, "paths"), "/t", Min("PathItem")))
   ELSE LET comps == GetOr(doc, "components", EmptyO)
            coll  == GetOr(comps, Coll(kind), EmptyO)
        IN SetKey(doc, "components", SetKey(comps, Coll(kind), SetKey(coll, "T", Min(kind))))
RECURSIVE AddTargets(_, _, _)
AddTargets(doc, used, i) ==
   IF i > Len(CompKinds) THEN (IF RefStr("PathItem") \in used THEN AddTarget(doc, "PathItem") ELSE doc)
   ELSE AddTargets(IF RefStr(CompKinds[i]) \in used THEN AddTarget(doc, CompKinds[i]) ELSE doc, used, i + 1)
WithTargets(ver, doc) == IF ver = 3 THEN AddTargets(doc, Refs(doc), 1) ELSE doc

(* The external resources an OpenAPI 3 document refers to, as a sequence of [name, doc]: ext/<Kind>.json *)
(* is a bare Small object of the kind (its x-s extension makes an inlined copy recognisable), ext/doc.json *)
(* a document with one Small target T per component collection and the path /t.                          *)
XKinds == CompKinds \o <<"PathItem">>
ExtDoc ==
   LET comps == Ov([i \in DOMAIN CompKinds |-> Coll(CompKinds[i])], [i \in DOMAIN CompKinds |-> O1("T", Small(CompKinds[i]))])
   IN SetKey(SetKey(Min("T3"), "paths", O1("/t", Small("PathItem"))), "components", comps)
ExtOf(ver, doc) ==
   IF ver # 3 THEN <<>>
   ELSE LET used == Refs(doc)
            whole == [i \in DOMAIN XKinds |-> [name |-> XRefStr(XKinds[i]), doc |-> Small(XKinds[i])]]
            files == Pick(whole, [i \in DOMAIN XKinds |-> XRefStr(XKinds[i]) \in used], 1)
        IN IF \E i \in DOMAIN XKinds : XFragStr(XKinds[i]) \in used
           THEN Append(files, [name |-> "ext/doc.json", doc |-> ExtDoc]) ELSE files

(***************************************************************************)
(* Kind-directed walks over a document.  mode "norm" = L1 normal form:     *)
(* drop redundant defaults and every sibling of $ref.  mode "l2" = the     *)
(* implementation-shaped model: drop what the marshallers omit (Go zero    *)
(* values of omit-when-zero fields; siblings of $ref).  mode "nullany" is  *)
(* used by a finding class.  Keys that are not catalogue fields            *)
(* (extensions, unknown keys) are kept verbatim.                           *)
(***************************************************************************)
IsZero(c, x) == c \in {"bool", "boolp", "num", "umin", "umax", "str", "strp", "strs", "arr", "anys", "secreqs",
                       "secreqsp", "map", "strmap", "anymap", "any", "sob"} /\ x = ZeroOf(c)
Drop(mode, fd, x) ==
   CASE mode = "norm" -> fd.zr = "red" /\ IsZero(fd.c, x)
     [] mode = "l2" -> fd.oz /\ IsZero(fd.c, x)
     [] mode = "nullany" -> fd.c = "any" /\ x = N
     [] mode = "v2scopes" -> fd.n = "scopes" /\ fd.oz /\ x = EmptyO
     [] mode = "datetrim" -> FALSE

(* L2: the library decodes numbers into float64 -- always for *float64 fields, interface-typed fields     *)
(* and extension values; in OpenAPI 3 also everything below a map-like container or a component map,  *)
(* because those re-marshal their entries through map[string]any (that is: every number of the         *)
(* document; uint64 fields of OpenAPI 2 are decoded directly and stay exact).  Integers beyond 2^53     *)
(* come back rounded; F64 = what float64 decoding and formatting yields for the two sample literals.   *)
F64 == [lit \in {BigInt, BigI64} |-> IF lit = BigInt THEN "9007199254740992" ELSE "9223372036854776000"]
RECURSIVE RoundBig(_)
RoundBig(v) == CASE v.t = "num" -> IF v.lit \in DOMAIN F64 THEN Nm(F64[v.lit]) ELSE v
                 [] v.t = "arr" -> Av([i \in DOMAIN v.a |-> RoundBig(v.a[i])])
                 [] v.t = "obj" -> Ov(v.k, [i \in DOMAIN v.v |-> RoundBig(v.v[i])])
                 [] OTHER -> v

(* L2: Schema.UnmarshalJSON (both packages) cuts a trailing "T00:00:00Z" off a string example when the     *)
(* schema's format is "date" (a workaround for YAML timestamps, issue 697).                              *)
DateLong == "2020-01-01T00:00:00Z"
DateShort == "2020-01-01"
SchemaKinds == {"Schema", "Schema2", "Items2"}
TrimDate(o) == IF HasKey(o, "format") /\ Get(o, "format") = Sv("date") /\ HasKey(o, "example") /\ Get(o, "example") = Sv(DateLong)
               THEN SetKey(o, "example", Sv(DateShort)) ELSE o

RECURSIVE Walk(_, _, _)
WalkVal(mode, fd, x) ==
   CASE fd.c \in {"obj", "sob"} -> IF x.t = "obj" THEN Walk(mode, fd.k, x) ELSE x
     [] fd.c = "map" -> IF x.t = "obj" THEN Ov(x.k, [i \in DOMAIN x.v |-> IF x.v[i].t = "obj" THEN Walk(mode, fd.k, x.v[i]) ELSE x.v[i]]) ELSE x
     [] fd.c = "arr" -> IF x.t = "arr" THEN Av([i \in DOMAIN x.a |-> IF x.a[i].t = "obj" THEN Walk(mode, fd.k, x.a[i]) ELSE x.a[i]]) ELSE x
     [] fd.c \in {"num", "any", "anys", "anymap"} -> IF mode = "l2" THEN RoundBig(x) ELSE x
     [] OTHER -> x
Walk(mode, kind, v) ==
   IF kind \in RefKinds /\ HasKey(v, "$ref") /\ mode \in {"norm", "l2"} THEN O1("$ref", Get(v, "$ref"))
   ELSE LET known(i) == v.k[i] \in FieldNames(kind)
            keep  == [i \in DOMAIN v.k |-> ~known(i) \/ ~Drop(mode, FieldOf(kind, v.k[i]), v.v[i])]
            vals  == [i \in DOMAIN v.k |-> IF known(i) THEN WalkVal(mode, FieldOf(kind, v.k[i]), v.v[i])
                                           ELSE IF mode = "l2" THEN RoundBig(v.v[i]) ELSE v.v[i]]
            res   == Ov(Pick(v.k, keep, 1), Pick(vals, keep, 1))
        IN IF mode \in {"l2", "datetrim"} /\ kind \in SchemaKinds THEN TrimDate(res) ELSE res

Norm(ver, doc)    == Walk("norm", Root(ver), doc)
L2RT(ver, doc)    == LET w == Walk("l2", Root(ver), doc) IN IF ver = 3 THEN RoundBig(w) ELSE w
NoNullAny(ver, doc) == Walk("nullany", Root(ver), doc)
NoV2Scopes(ver, doc) == Walk("v2scopes", Root(ver), doc)
DateTrimmed(ver, doc) == Walk("datetrim", Root(ver), doc)

(***************************************************************************)
(* L1, the round-trip contract.  in = the input document, j1 = the JSON    *)
(* serialisation of the parsed input.  Between(Norm(in), j1, in): j1 is    *)
(* the input minus some of its redundant defaults / $ref siblings --       *)
(* nothing else is lost, nothing is invented, every value is unchanged;    *)
(* for normal-form input (Norm(in) = in) this is j1 = in.  Every further   *)
(* trip (JSON, YAML writers; JSON, YAML readers) must reproduce j1.        *)
(* lo, x, hi have sorted keys or not: only key sets are compared.          *)
(***************************************************************************)
RECURSIVE Between(_, _, _)
Between(lo, x, hi) ==
   /\ x.t = hi.t /\ lo.t = hi.t
   /\ CASE x.t = "obj" ->
             /\ Len(x.k) = Cardinality(SeqRange(x.k))
             /\ SeqRange(lo.k) \subseteq SeqRange(x.k) /\ SeqRange(x.k) \subseteq SeqRange(hi.k)
             /\ \A i \in DOMAIN x.k :
                   IF HasKey(lo, x.k[i]) THEN Between(Get(lo, x.k[i]), x.v[i], Get(hi, x.k[i]))
                   ELSE Same(x.v[i], Get(hi, x.k[i]))
        [] x.t = "arr" -> /\ Len(x.a) = Len(hi.a) /\ Len(lo.a) = Len(hi.a)
                          /\ \A i \in DOMAIN x.a : Between(lo.a[i], x.a[i], hi.a[i])
        [] OTHER -> x = hi

FirstTripOK(ver, in, j1) == Between(Norm(ver, in), j1, in)
IsNormal(ver, in) == Same(Norm(ver, in), in)

(***************************************************************************)
(* Receivers and entry points (history).  "Parsing" is an operation ON A    *)
(* VALUE: json.Unmarshal / yaml.Unmarshal / UnmarshalJSON fill a T the      *)
(* caller owns, and a Loader is an object that is used for one document      *)
(* after another.  L1: what is serialised after a successful parse is a      *)
(* function of the parsed input alone -- whatever the receiver held before   *)
(* (nothing, an earlier document, the debris of a parse that failed          *)
(* half-way) has no influence: nothing of an earlier document "appears".     *)
(* A history is a sequence of prior documents parsed into the receiver       *)
(* before the document under test.                                           *)
(*   Entries: how the receiver is filled                                     *)
(*     json  json.Unmarshal(data, &t)        yaml  yaml.Unmarshal(data, &t)  *)
(*     meth  t.UnmarshalJSON(data)           alt   json, yaml, json ... in turn *)
(*     loader (OpenAPI 3) one Loader, LoadFromData for every document        *)
(*     lpath  (OpenAPI 3) one Loader, LoadFromDataWithPath, a new file name in one directory each time *)
(* L2 (implementation-shaped): how UnmarshalJSON of the root treats its      *)
(* receiver.  "replace" (the code: decode into a fresh value, then assign    *)
(* the whole struct) satisfies L1; "inplace" (decode into the receiver:      *)
(* encoding/json assigns only the struct fields whose keys occur in the      *)
(* input; the extension map is rebuilt) does not -- MC_C03H pins both.       *)
(***************************************************************************)
HistEntries(ver) == {"json", "yaml", "meth", "alt"} \cup (IF ver = 3 THEN {"loader", "lpath"} ELSE {})
(* prior documents, by name: every optional root field populated (inline) with extension and unknown key;  *)
(* the bare root; the full document with one field of the wrong JSON type placed last, so that the parse   *)
(* fails after the fields before it have been decoded.                                                     *)
(* "xdoc" (OpenAPI 3): every component collection holds a reference into the external document, the two   *)
(* paths are a whole-file and a fragment reference: a Loader that has loaded it has every external         *)
(* resource in its caches when the document under test asks for the same ones.                            *)
PriorNames(ver) == {"full", "min", "bad"} \cup (IF ver = 3 THEN {"xdoc"} ELSE {})
PriorParses(name) == name # "bad"
RootFullFv(ver) == LET kind == Root(ver) IN
   {n \in Optional(kind) : FieldOf(kind, n).c # "pref"}
RECURSIVE ApplyV(_, _, _)
ApplyV(kind, obj, names) ==
   IF names = {} THEN obj
   ELSE LET n == CHOOSE q \in names : TRUE
        IN ApplyV(kind, SetKey(obj, n, Val(kind, FieldOf(kind, n), "v")), names \ {n})
PriorFull(ver) ==
   LET kind == Root(ver)
       o == ApplyV(kind, Min(kind), RootFullFv(ver))
   IN WithTargets(ver, SetKey(SetKey(o, "x-prior", AnyV), "priorUnknown", O1("u", Nm("1"))))
(* `tags' must be an array: a string there is a type error of the root decoder; tags is moved to the end *)
PriorBad(ver) ==
   LET f == PriorFull(ver)
       keep == [i \in DOMAIN f.k |-> f.k[i] # "tags"]
   IN Ov(Append(Pick(f.k, keep, 1), "tags"), Append(Pick(f.v, keep, 1), Sv("not-an-array")))
PriorX ==
   LET cf == Fields("Components")
       comps == Ov([i \in DOMAIN cf |-> cf[i].n], [i \in DOMAIN cf |-> Val("Components", cf[i], "xfrag")])
       paths == Ov(<<"/p", "/q/{id}">>, <<O1("$ref", Sv(XRefStr("PathItem"))), O1("$ref", Sv(XFragStr("PathItem")))>>)
   IN SetKey(SetKey(Min("T3"), "paths", paths), "components", comps)
PriorDoc(ver, name) == CASE name = "full" -> PriorFull(ver) [] name = "min" -> Min(Root(ver)) [] name = "bad" -> PriorBad(ver)
                         [] name = "xdoc" -> PriorX

RecvPolicies == {"replace", "inplace"}
(* the abstract content of a receiver: a document value, or EmptyO for the zero value *)
DecodeInto(policy, ver, old, name, new) ==
   LET ok == name = "target" \/ PriorParses(name)
       (* in place: catalogue fields of the old content that the input does not mention stay; extension and unknown keys are rebuilt from the input *)
       stale == [i \in DOMAIN old.k |-> old.k[i] \in FieldNames(Root(ver)) /\ ~HasKey(new, old.k[i])]
       merged == Merge(Ov(Pick(old.k, stale, 1), Pick(old.v, stale, 1)), new)
   IN IF policy = "replace" THEN (IF ok THEN new ELSE old) ELSE merged
RECURSIVE RecvFold(_, _, _, _, _)
RecvFold(policy, ver, old, names, i) ==
   IF i > Len(names) THEN old
   ELSE RecvFold(policy, ver, DecodeInto(policy, ver, old, names[i], PriorDoc(ver, names[i])), names, i + 1)
(* what the receiver holds after the history and the document under test *)
RecvAfter(policy, ver, names, target) == DecodeInto(policy, ver, RecvFold(policy, ver, EmptyO, names, 1), "target", target)
(* L1 on the model: the receiver's content is the document under test *)
RecvL1(policy, ver, names, target) == Same(RecvAfter(policy, ver, names, target), target)

(* Kind-level receivers.  Every object kind is a public type with its own UnmarshalJSON ("sets X to a    *)
(* copy of data"), and every referable kind has a wrapper type (SchemaRef ...: a reference or a value).   *)
(* The same clause at that level: a value of the kind's type (entry "kind") or of its wrapper type (entry *)
(* "wrap") that already holds an object -- a reference object, the bare object, the object with every     *)
(* field, extension and unknown key -- is unmarshalled into again; what it serialises to afterwards is    *)
(* what a fresh value gives for the same input.  The input is the bare object of the case (Gen_C03!Frag), *)
(* not a document.                                                                                         *)
WrapKinds == {"Schema", "Response", "Parameter", "Example", "RequestBody", "Header", "SecurityScheme", "Link",
              "Callback", "Schema2"}
KindEntries(kind) == {"kind"} \cup (IF kind \in WrapKinds THEN {"wrap"} ELSE {})
KPriorNames(kind, entry) == {"kfull", "kmin"} \cup (IF entry = "wrap" THEN {"kref", "krefx"} ELSE {})
KFull(kind) ==
   LET names == {n \in Optional(kind) : FieldOf(kind, n).c # "pref" /\ ~\E p \in Excl(kind) : p[2] = n}
       o == ApplyV(kind, Min(kind), names)
   IN IF UnkOK(kind) THEN SetKey(SetKey(o, "x-prior", AnyV), "priorUnknown", O1("u", Nm("1")))
      ELSE IF ExtOK(kind) THEN SetKey(o, "x-prior", AnyV) ELSE o
KPriorDoc(kind, name) ==
   CASE name = "kfull" -> KFull(kind) [] name = "kmin" -> Min(kind)
     [] name = "kref" -> RefObj(kind) [] name = "krefx" -> RefSib(kind)

(* first difference between two values, as a JSON-pointer-like path (for reports) *)
RECURSIVE Diff(_, _)
Diff(x, y) ==
   IF x.t # y.t THEN <<"!type">>
   ELSE CASE x.t = "obj" ->
               LET onlyX == {i \in DOMAIN x.k : ~HasKey(y, x.k[i])}
                   onlyY == {i \in DOMAIN y.k : ~HasKey(x, y.k[i])}
                   bad   == {i \in DOMAIN x.k : HasKey(y, x.k[i]) /\ ~Same(x.v[i], Get(y, x.k[i]))}
               IN IF onlyX # {} THEN <<x.k[CHOOSE i \in onlyX : TRUE], "!lost">>
                  ELSE IF onlyY # {} THEN <<y.k[CHOOSE i \in onlyY : TRUE], "!invented">>
                  ELSE IF bad # {} THEN LET i == CHOOSE j \in bad : TRUE IN <<x.k[i]>> \o Diff(x.v[i], Get(y, x.k[i]))
                  ELSE <<>>
          [] x.t = "arr" ->
               IF Len(x.a) # Len(y.a) THEN <<"!length">>
               ELSE LET bad == {i \in DOMAIN x.a : ~Same(x.a[i], y.a[i])}
                    IN IF bad = {} THEN <<>> ELSE LET i == CHOOSE j \in bad : \A m \in bad : j <= m
                                                  IN <<ToString(i - 1)>> \o Diff(x.a[i], y.a[i])
          [] OTHER -> IF x = y THEN <<>> ELSE <<"!value">>
=============================================================================
