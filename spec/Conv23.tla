-------------------------------- MODULE Conv23 --------------------------------
(***************************************************************************)
(* L2 for C17: an implementation-shaped model of openapi2conv.ToV3 and      *)
(* openapi2conv.FromV3 on document-tagged JSON - one operator per Go        *)
(* function, the same case splits, the same keys copied (only the keys the  *)
(* API normal form of Api23 can see, plus the bookkeeping extensions        *)
(* x-formData-name and x-originalParamName).                                *)
(*                                                                          *)
(* Dev is the set of behaviours of the pinned code that the contract (L1)   *)
(* does not survive; each is a switch:                                      *)
(*   Dev = {}      the repaired design: MC_C17 checks L2 => L1 on the whole *)
(*                 universe (the contract is satisfiable, Api2 / Api3 agree *)
(*                 on what a faithful conversion produces);                 *)
(*   Dev = Pinned  the code as it is: MC_C17 must find a counterexample     *)
(*                 (model-drift guard), and Trace_C17 compares what this    *)
(*                 model predicts with what the code did on every case      *)
(*                 (fidelity warnings, never violations).                   *)
(***************************************************************************)
EXTENDS Api23

CONSTANT Dev

(* switches of defects repaired in /repo by fix: commits are no longer part of Pinned:            *)
(*   "back_no_discriminator" (F-C17-1)                                                             *)
Pinned == {"basepath_needs_host",        \* F-C17-4   servers only when there is a host
           "ap_refs_only",               \* F-C17-6/7/8 below additionalProperties only direct references are converted
           "back_ap_unconverted",        \* F-C17-2
           "back_form_required_in_property", \* F-C17-3
           "back_shared_form_is_definition", \* F-C17-5
           "back_binary_is_parameter",   \* F-C17-11  every binary string schema is taken for a form file parameter
           "back_json_only",             \* F-C17-12
           "back_body_name_search_first"} \* F-C17-15  a free name among body / requestBody is demanded even when x-originalParamName is there

(* switches of behaviours that have been repaired in the tree (not in Pinned any more): *)
(*   "back_no_discriminator"     F-C17-1                                                 *)
(*   "back_binary_param_panics"  F-C17-14 FromV3Parameter dereferenced the nil schema    *)
(*   "back_binary_param_type_format_only"  F-C17-16 ... then kept only type and format   *)
(*   "back_input_nullable_reset" F-C17-18/19 FromV3 reset nullable in its input; a shared *)
(*                               body with several media types lost x-nullable            *)
(*   "shared_form_key_hidden_by_definition" F-C17-20 a shared form parameter was kept in   *)
(*                               components.schemas under its key, where the definition of *)
(*                               that key replaced it (now converted where it is used)     *)
(*   "empty_paths_unset"         F-C17-13 paths was set only when there was a path         *)
(*   "back_form_no_format"       F-C17-9  the format of a form parameter was not copied    *)
(*   "back_http_https_only"      F-C17-10 only http / https server URLs gave a scheme      *)
(* (F-C17-17, the x-formData-name marker written into ToV3's input, was an edit of the    *)
(* input only and never had a switch: the model has no notion of the input changing)      *)
Repaired == {"back_no_discriminator", "back_binary_param_panics", "back_binary_param_type_format_only",
             "back_input_nullable_reset", "shared_form_key_hidden_by_definition",
             "empty_paths_unset", "back_form_no_format", "back_http_https_only"}

RefV(o) == IF o.m["$ref"].t = "str" THEN o.m["$ref"].s ELSE "?"
RefO(r) == O(KV("$ref", S(r)))
Rew(ref, names, from, to) ==
   LET c == {n \in names : from \o n = ref} IN IF c = {} THEN ref ELSE to \o (CHOOSE n \in c : TRUE)
ToV3RefStr(ref, names) ==
   Rew(Rew(Rew(ref, names, "#/definitions/", "#/components/schemas/"),
           names, "#/responses/", "#/components/responses/"),
       names, "#/parameters/", "#/components/parameters/")
FromV3RefStr(ref, names) ==
   Rew(Rew(Rew(Rew(ref, names, "#/components/schemas/", "#/definitions/"),
               names, "#/components/responses/", "#/responses/"),
           names, "#/components/parameters/", "#/parameters/"),
       names, "#/components/requestBodies/", "#/parameters/")

(* ======================================================================= ToV3 *)
(* convertRefsInV3SchemaRef: what the pinned code does below additionalProperties *)
RECURSIVE ApRefsOnly(_, _)
ApRefsOnly(s, names) ==
   IF s.t # "obj" THEN s
   ELSE IF Has(s, "$ref") THEN RefO(ToV3RefStr(RefV(s), names))
   ELSE O([k \in DOMAIN s.m |-> IF k = "additionalProperties" THEN ApRefsOnly(s.m[k], names) ELSE s.m[k]])

(* ToV3SchemaRef *)
RECURSIVE ToV3Schema(_, _)
ToV3Schema(s, names) ==
   IF s.t # "obj" THEN s
   ELSE IF Has(s, "$ref") THEN RefO(ToV3RefStr(RefV(s), names))
   ELSE
      LET m == s.m
          nullable == IsTrue(s, "x-nullable")
          isFile == Opt(s, "type") = S("file")
          ks == (DOMAIN m \ {"x-nullable"}) \cup (IF nullable THEN {"nullable"} ELSE {})
                   \cup (IF isFile THEN {"format"} ELSE {})
          V(k) == CASE k = "nullable" -> B(TRUE)
                    [] k = "type" -> IF isFile THEN S("string") ELSE m[k]
                    [] k = "format" -> IF isFile THEN S("binary") ELSE m[k]
                    [] k = "items" -> ToV3Schema(m[k], names)
                    [] k = "properties" -> IF m[k].t = "obj" THEN O([p \in DOMAIN m[k].m |-> ToV3Schema(m[k].m[p], names)]) ELSE m[k]
                    [] k = "allOf" -> IF m[k].t = "arr" THEN A([i \in DOMAIN m[k].a |-> ToV3Schema(m[k].a[i], names)]) ELSE m[k]
                    [] k = "additionalProperties" ->
                          IF "ap_refs_only" \in Dev THEN ApRefsOnly(m[k], names) ELSE ToV3Schema(m[k], names)
                    [] k = "discriminator" -> IF m[k].t = "str" THEN O(KV("propertyName", m[k])) ELSE m[k]
                    [] OTHER -> m[k]
      IN O([k \in ks |-> V(k)])

ContentFor(mts, schema) ==
   LET ks == IF StrSet(mts) = {} THEN {"*/*"} ELSE StrSet(mts) IN O([k \in ks |-> O(KV("schema", schema))])

(* ToV3Parameter, default branch (query / header / path parameter, response header) *)
ToV3Plain(p, names) ==
   O(If(Has(p, "in"), KV("in", Opt(p, "in"))) @@ If(Has(p, "name"), KV("name", Opt(p, "name")))
     @@ If(IsTrue(p, "required") \/ Opt(p, "in") = S("path"), KV("required", B(TRUE)))
     @@ If(Has(p, "x-nullable"), KV("x-nullable", Opt(p, "x-nullable")))     \* extensions stay on the parameter object
     @@ KV("schema", ToV3Schema(Restrict(p, ParamKeys \cup {"allowEmptyValue"}), names)))    \* allowEmptyValue travels inside the schema
(* ToV3Parameter, body branch *)
ToV3Body(p, names, consumes) ==
   O(If(IsTrue(p, "required"), KV("required", B(TRUE)))
     @@ If(Has(p, "name"), KV("x-originalParamName", Opt(p, "name")))
     @@ If(Has(p, "schema"), KV("content", ContentFor(consumes, ToV3Schema(p.m["schema"], names)))))
(* ToV3Parameter, formData branch: the property schema (with `required: [name]` as a marker) *)
ToV3Form(p, names) ==
   LET isFile == Opt(p, "type") = S("file")
       keys == (Keys(p) \cap ((ParamKeys \ {"items"}) \cup {"allowEmptyValue"})) \cup (IF isFile THEN {"format"} ELSE {})
   IN O([k \in keys |-> CASE k = "type" -> IF isFile THEN S("string") ELSE p.m[k]
                          [] k = "format" -> IF isFile THEN S("binary") ELSE p.m[k]
                          [] OTHER -> p.m[k]]
        @@ KV("x-formData-name", Opt(p, "name"))
        @@ If(Has(p, "x-nullable"), KV("x-nullable", Opt(p, "x-nullable")))  \* extensions go into the property schema as they are
        @@ If(IsTrue(p, "required"), KV("required", A(<<Opt(p, "name")>>)))
        @@ If(Has(p, "items"), KV("items", ToV3Schema(p.m["items"], names))))

ToV3Headers(hs, names) == O([h \in Keys(hs) |-> ToV3Plain(hs.m[h], names)])

(* ToV3Response *)
ToV3Response(r, produces, names) ==
   IF Has(r, "$ref") THEN RefO(ToV3RefStr(RefV(r), names))
   ELSE O(KV("description", Opt(r, "description"))
          @@ If(Has(r, "schema"),
                KV("content", LET ks == IF StrSet(produces) = {} THEN {"application/json"} ELSE StrSet(produces)
                                  sc == ToV3Schema(r.m["schema"], names)
                              IN O([k \in ks |-> O(KV("schema", sc))])))
          @@ If(Keys(Sub(r, "headers")) # {}, KV("headers", ToV3Headers(Sub(r, "headers"), names))))

(* how a parameter (possibly a reference to a shared one) is routed by ToV3Parameter *)
ParamKind(d, x) ==
   IF Has(x, "$ref") THEN
      LET c == RefTarget("#/parameters/", Keys(Sub(d, "parameters")), x.m["$ref"]) IN
      IF c = {} THEN "param"
      ELSE LET t == d.m["parameters"].m[CHOOSE n \in c : TRUE] IN
           IF Opt(t, "in") = S("body") THEN "bodyref" ELSE IF Opt(t, "in") = S("formData") THEN "formref" ELSE "param"
   ELSE IF Opt(x, "in") = S("body") THEN "body" ELSE IF Opt(x, "in") = S("formData") THEN "form" ELSE "param"
SharedOf(d, x) == d.m["parameters"].m[CHOOSE n \in RefTarget("#/parameters/", Keys(Sub(d, "parameters")), x.m["$ref"]) : TRUE]
SharedNameOf(d, x) == CHOOSE n \in RefTarget("#/parameters/", Keys(Sub(d, "parameters")), x.m["$ref"]) : TRUE

ToV3PlainParams(d, ps, names) ==
   A(SetToSeq({IF Has(x, "$ref") THEN RefO(ToV3RefStr(RefV(x), names)) ELSE ToV3Plain(x, names)
                 : x \in {y \in ps : ParamKind(d, y) = "param"}}))

(* ToV3Operation with onlyOneReqBodyParam / formDataBody *)
ToV3Op(d, op, names) ==
   LET consumes == IF StrSet(Opt(op, "consumes")) # {} THEN op.m["consumes"] ELSE Opt(d, "consumes")
       ps == Elems(op, "parameters")
       plain == {x \in ps : ParamKind(d, x) = "param"}
       bodies == {x \in ps : ParamKind(d, x) \in {"body", "bodyref"}}
       forms == {x \in ps : ParamKind(d, x) \in {"form", "formref"}}
       FName(x) == StrOf(Opt(IF Has(x, "$ref") THEN SharedOf(d, x) ELSE x, "name"), "?")
       FReq(x) == IsTrue(IF Has(x, "$ref") THEN SharedOf(d, x) ELSE x, "required")
       \* the repaired design converts a shared form parameter whose key is also a definition's at its place of use
       inlined(x) == Has(x, "$ref") /\ "shared_form_key_hidden_by_definition" \notin Dev /\ SharedNameOf(d, x) \in Keys(Sub(d, "definitions"))
       FSchema(x) == IF Has(x, "$ref") /\ ~inlined(x) THEN RefO("#/components/schemas/" \o SharedNameOf(d, x))
                     ELSE LET f == ToV3Form(IF Has(x, "$ref") THEN SharedOf(d, x) ELSE x, names) IN O([k \in DOMAIN f.m \ {"required"} |-> f.m[k]])
       reqd == {FName(x) : x \in {y \in forms : FReq(y)}}
       formSchema == O(KV("type", S("object"))
                       @@ KV("properties", O([n \in {FName(x) : x \in forms} |-> FSchema(CHOOSE x \in forms : FName(x) = n)]))
                       @@ If(reqd # {}, KV("required", A(SetToSeq({S(n) : n \in reqd})))))
       rb == IF bodies # {} THEN
                LET b == CHOOSE x \in bodies : TRUE IN
                IF Has(b, "$ref") THEN RefO("#/components/requestBodies/" \o SharedNameOf(d, b)) ELSE ToV3Body(b, names, consumes)
             ELSE O(KV("content", ContentFor(consumes, formSchema)))
   IN O(If(Has(op, "operationId"), KV("operationId", Opt(op, "operationId")))
        @@ If(Has(op, "security"), KV("security", Opt(op, "security")))
        @@ If(plain # {}, KV("parameters", ToV3PlainParams(d, ps, names)))
        @@ If(bodies # {} \/ forms # {}, KV("requestBody", rb))
        @@ KV("responses", O([c \in Keys(Sub(op, "responses")) |->
                                 ToV3Response(op.m["responses"].m[c], Opt(op, "produces"), names)])))

ToV3PathItem(d, item, names) ==
   O([m \in Keys(item) \cap Methods2 |-> ToV3Op(d, item.m[m], names)]
     @@ If(Elems(item, "parameters") # {}, KV("parameters", ToV3PlainParams(d, Elems(item, "parameters"), names))))

(* ToV3SecurityScheme *)
ToV3Sec(s) ==
   LET ty == Opt(s, "type") IN
   CASE ty = S("basic") -> O(KV("type", S("http")) @@ KV("scheme", S("basic")))
     [] ty = S("apiKey") -> O(KV("type", S("apiKey")) @@ KV("in", Opt(s, "in")) @@ KV("name", Opt(s, "name")))
     [] ty = S("oauth2") ->
           LET fl == Opt(s, "flow")
               fk == CASE fl = S("implicit") -> "implicit" [] fl = S("accessCode") -> "authorizationCode"
                       [] fl = S("password") -> "password" [] fl = S("application") -> "clientCredentials" [] OTHER -> "?"
               flow == O(If(Has(s, "authorizationUrl"), KV("authorizationUrl", Opt(s, "authorizationUrl")))
                         @@ If(Has(s, "tokenUrl"), KV("tokenUrl", Opt(s, "tokenUrl")))
                         @@ KV("scopes", Sub(s, "scopes")))
           IN O(KV("type", S("oauth2")) @@ KV("flows", O(KV(fk, flow))))
     [] OTHER -> s

V3Prefixes == {"#/components/schemas/", "#/components/parameters/", "#/components/requestBodies/",
               "#/components/responses/", "#/components/headers/"}
V3RefResolves(ref, d3) ==
   \E c \in {"schemas", "parameters", "requestBodies", "responses", "headers"} :
      \E n \in Keys(Sub(Sub(d3, "components"), c)) : ref = "#/components/" \o c \o "/" \o n

(* ToV3WithLoader.  Result: [out |-> "ok" | "error", d3 |-> document] *)
ToV3Doc(d) ==
   LET names == CompNames2(d)
       shared == Sub(d, "parameters")
       kindOf(n) == Opt(shared.m[n], "in")
       pN == {n \in Keys(shared) : kindOf(n) \notin {S("body"), S("formData")}}
       bN == {n \in Keys(shared) : kindOf(n) = S("body")}
       fN == {n \in Keys(shared) : kindOf(n) = S("formData")}
       defs == Sub(d, "definitions")
       \* one namespace for definitions and shared form parameters: the code writes the definitions last
       schemas == [n \in Keys(defs) |-> ToV3Schema(defs.m[n], names)] @@ [n \in fN \ Keys(defs) |-> ToV3Form(shared.m[n], names)]
       comps == O(KV("schemas", O(schemas))
                  @@ If(Keys(shared) # {}, KV("parameters", O([n \in pN |-> ToV3Plain(shared.m[n], names)]))
                                           @@ KV("requestBodies", O([n \in bN |-> ToV3Body(shared.m[n], names, Opt(d, "consumes"))])))
                  @@ If(Keys(Sub(d, "responses")) # {},
                        KV("responses", O([n \in Keys(Sub(d, "responses")) |-> ToV3Response(d.m["responses"].m[n], Opt(d, "produces"), names)])))
                  @@ If(Keys(Sub(d, "securityDefinitions")) # {},
                        KV("securitySchemes", O([n \in Keys(Sub(d, "securityDefinitions")) |-> ToV3Sec(d.m["securityDefinitions"].m[n])]))))
       h == StrOf(Opt(d, "host"), "")
       bp == StrOf(Opt(d, "basePath"), "")
       schemes == IF Opt(d, "schemes").t = "arr" /\ Opt(d, "schemes").a # <<>> THEN Opt(d, "schemes").a ELSE <<S("https")>>
       servers == IF h # "" THEN [i \in DOMAIN schemes |-> O(KV("url", S(StrOf(schemes[i], "?") \o "://" \o h \o (IF bp = "" THEN "/" ELSE bp))))]
                  ELSE IF bp # "" /\ "basepath_needs_host" \notin Dev THEN <<O(KV("url", S(bp)))>>
                  ELSE <<>>
       paths == Sub(d, "paths")
       d3 == O(KV("openapi", S("3.0.3")) @@ KV("info", Opt(d, "info")) @@ KV("components", comps)
               @@ If(Keys(paths) # {} \/ "empty_paths_unset" \notin Dev,
                     KV("paths", O([p \in Keys(paths) |-> ToV3PathItem(d, paths.m[p], names)])))
               @@ If(servers # <<>>, KV("servers", A(servers)))
               @@ If(Has(d, "security"), KV("security", Opt(d, "security"))))
   IN [out |-> IF \A r \in AllRefs(d3) : V3RefResolves(r, d3) THEN "ok" ELSE "error", d3 |-> d3]

(* can the library read the v2 document at all?  (openapi2.Schema.AdditionalProperties is an OpenAPI 3 schema) *)
RECURSIVE ApSubtrees(_)
ApSubtrees(v) ==
   CASE v.t = "obj" -> (IF "additionalProperties" \in DOMAIN v.m /\ v.m["additionalProperties"].t = "obj"
                        THEN {v.m["additionalProperties"]} ELSE {}) \cup UNION {ApSubtrees(v.m[k]) : k \in DOMAIN v.m}
     [] v.t = "arr" -> UNION {ApSubtrees(v.a[i]) : i \in DOMAIN v.a}
     [] OTHER -> {}
RECURSIVE HasStrDiscriminator(_)
HasStrDiscriminator(v) ==
   CASE v.t = "obj" -> ("discriminator" \in DOMAIN v.m /\ v.m["discriminator"].t = "str")
                       \/ \E k \in DOMAIN v.m : HasStrDiscriminator(v.m[k])
     [] v.t = "arr" -> \E i \in DOMAIN v.a : HasStrDiscriminator(v.a[i])
     [] OTHER -> FALSE
ReadV2(d) == IF "ap_refs_only" \in Dev /\ \E x \in ApSubtrees(d) : HasStrDiscriminator(x) THEN "error" ELSE "ok"

(* ===================================================================== FromV3 *)
IsBinaryStr(s) == Opt(s, "type") = S("string") /\ Opt(s, "format") = S("binary")
(* which binary string schemas FromV3SchemaRef takes for a form file parameter *)
TakenForFile(s) == IsBinaryStr(s) /\ ("back_binary_is_parameter" \in Dev \/ Has(s, "x-formData-name"))
IsParam(r) == Has(r, "$param")

(* FromV3SchemaRef.  A schema, or {"$param": parameter} where the code returns a parameter instead *)
RECURSIVE FromV3Schema(_, _, _)
FromV3Schema(s, comps, names) ==
   IF s.t # "obj" THEN s
   ELSE IF Has(s, "$ref") THEN
      LET c == RefTarget("#/components/schemas/", Keys(Sub(comps, "schemas")), s.m["$ref"]) IN
      IF c # {} /\ (LET t == comps.m["schemas"].m[CHOOSE n \in c : TRUE] IN
                    Opt(t, "format") = S("binary") /\ ("back_binary_is_parameter" \in Dev \/ Has(t, "x-formData-name")))
      THEN O(KV("$param", RefO("#/parameters/" \o (CHOOSE n \in c : TRUE))))
      ELSE RefO(FromV3RefStr(RefV(s), names))
   ELSE IF TakenForFile(s) THEN
      LET nm == Opt(s, "x-formData-name") IN
      O(KV("$param", O(KV("in", S("formData")) @@ If(nm.t = "str", KV("name", nm)) @@ KV("type", S("file"))
                       @@ If(nm.t = "str" /\ nm.s \in StrSet(Opt(s, "required")), KV("required", B(TRUE)))
                       @@ [k \in Keys(s) \cap {"enum", "minimum", "maximum", "exclusiveMinimum", "exclusiveMaximum", "minLength",
                                               "maxLength", "default", "minItems", "maxItems", "uniqueItems", "multipleOf"} |-> s.m[k]])))
   ELSE
      LET m == s.m
          nullable == IsTrue(s, "nullable")
          Conv(x) == FromV3Schema(x, comps, names)
          dropItems == "items" \in DOMAIN m /\ IsParam(Conv(m["items"]))
          ks == ((DOMAIN m \ {"nullable"}) \cup (IF nullable THEN {"x-nullable"} ELSE {}))
                   \ ((IF "back_no_discriminator" \in Dev THEN {"discriminator"} ELSE {}) \cup (IF dropItems THEN {"items"} ELSE {}))
          V(k) == CASE k = "x-nullable" -> B(TRUE)
                    [] k = "items" -> Conv(m[k])
                    [] k = "properties" ->
                          IF m[k].t = "obj" THEN O([p \in {q \in DOMAIN m[k].m : ~IsParam(Conv(m[k].m[q]))} |-> Conv(m[k].m[p])]) ELSE m[k]
                    [] k = "allOf" -> IF m[k].t = "arr" THEN A([i \in DOMAIN m[k].a |-> IF IsParam(Conv(m[k].a[i])) THEN Nul ELSE Conv(m[k].a[i])]) ELSE m[k]
                    [] k = "additionalProperties" -> IF "back_ap_unconverted" \in Dev THEN m[k] ELSE Conv(m[k])
                    [] k = "discriminator" ->
                          IF m[k].t = "obj" /\ "propertyName" \in DOMAIN m[k].m THEN m[k].m["propertyName"] ELSE m[k]
                    [] OTHER -> m[k]
      IN O([k \in ks |-> V(k)])

(* FromV3Parameter *)
FromV3Param(p, comps, names) ==
   IF Has(p, "$ref") THEN RefO(FromV3RefStr(RefV(p), names))
   ELSE LET base == If(Has(p, "in"), KV("in", Opt(p, "in"))) @@ If(Has(p, "name"), KV("name", Opt(p, "name")))
                    @@ If(IsTrue(p, "required"), KV("required", B(TRUE)))
                    @@ If(Has(p, "x-nullable"), KV("x-nullable", Opt(p, "x-nullable")))
        IN IF ~Has(p, "schema") THEN O(base)
           ELSE LET r == FromV3Schema(p.m["schema"], comps, names) IN
                IF IsParam(r) THEN
                   IF "back_binary_param_panics" \in Dev
                   THEN O(KV("$panic", S("nil schema")))        \* F-C17-14 (repaired in the tree): the nil schema was dereferenced
                   ELSE O(base @@ [k \in Keys(p.m["schema"]) \cap
                                        (IF "back_binary_param_type_format_only" \in Dev THEN {"type", "format"}
                                         ELSE {"type", "format", "enum", "minLength", "maxLength", "pattern", "default", "allowEmptyValue"})
                                    |-> p.m["schema"].m[k]])   \* the string keywords are copied from the v3 schema
                ELSE IF Has(r, "$ref") THEN O(base @@ KV("schema", r))
                ELSE O(base @@ [k \in Keys(r) \cap (ParamKeys \cup {"allowEmptyValue"}) |-> r.m[k]])

(* FromV3RequestBodyFormData *)
FromV3FormData(sc, comps, names) ==
   LET props == Sub(sc, "properties") IN
   {IF Has(props.m[n], "$ref")
    THEN RefO(Rew(RefV(props.m[n]), Keys(Sub(comps, "schemas")), "#/components/schemas/", "#/parameters/"))
    ELSE LET v == props.m[n]
             reqd == IF "back_form_required_in_property" \in Dev THEN n \in StrSet(Opt(v, "required"))
                     ELSE n \in StrSet(Opt(sc, "required"))
             keep == (Keys(v) \cap ((ParamKeys \ {"items", "format"}) \cup {"allowEmptyValue"}))
                        \cup (IF Has(v, "format") /\ "back_form_no_format" \notin Dev /\ v.m["format"] # S("binary") THEN {"format"} ELSE {})
             it == IF Has(v, "items") THEN FromV3Schema(v.m["items"], EmptyO, names) ELSE Nul
         IN O(KV("in", S("formData")) @@ KV("name", S(n)) @@ If(reqd, KV("required", B(TRUE)))
              @@ If(Has(v, "x-nullable"), KV("x-nullable", Opt(v, "x-nullable")))
              @@ [k \in keep |-> IF k = "type" /\ Opt(v, "format") = S("binary") THEN S("file") ELSE v.m[k]]
              @@ If(Has(v, "items") /\ ~IsParam(it), KV("items", it)))
      : n \in Keys(props)}

FromV3Headers(hs, comps, names) ==
   O([h \in Keys(hs) |-> LET p == FromV3Param(hs.m[h], comps, names) IN O([k \in Keys(p) \ {"in", "name"} |-> p.m[k]])])

(* FromV3Response *)
FromV3Response(r, comps, names) ==
   IF Has(r, "$ref") THEN RefO(FromV3RefStr(RefV(r), names))
   ELSE LET content == Sub(r, "content")
            mt == IF "application/json" \in Keys(content) THEN "application/json"
                  ELSE IF "back_json_only" \in Dev \/ Keys(content) = {} THEN ""
                  ELSE CHOOSE k \in Keys(content) : TRUE
            sc == IF mt # "" /\ Has(content.m[mt], "schema") THEN FromV3Schema(content.m[mt].m["schema"], comps, names) ELSE Nul
        IN O(KV("description", Opt(r, "description"))
             @@ If(sc # Nul /\ ~IsParam(sc), KV("schema", sc))
             @@ If(Keys(Sub(r, "headers")) # {}, KV("headers", FromV3Headers(Sub(r, "headers"), comps, names))))

(* fromV3RequestBodies: [params |-> set of v2 parameters, consumes |-> tagged array or null] *)
(* FromV3SchemaRef resets Nullable on the v3 schema it converts (it edits its input); ToV3 shares one   *)
(* schema between the media types of a body, so of several conversions of that schema only the first  *)
(* still sees nullable.  FromV3Operation keeps the first parameter, the loop over                      *)
(* components.requestBodies in FromV3 keeps the last (keepsLast).                                      *)
RECURSIVE StripNullable(_)
StripNullable(s) ==
   CASE s.t = "obj" -> IF Has(s, "$ref") THEN s ELSE O([k \in DOMAIN s.m \ {"nullable"} |-> StripNullable(s.m[k])])
     [] s.t = "arr" -> A([i \in DOMAIN s.a |-> StripNullable(s.a[i])])
     [] OTHER -> s

FromV3ReqBody(name, rb, comps, names, keepsLast) ==
   IF Has(rb, "$ref") THEN [params |-> {RefO(FromV3RefStr(RefV(rb), names))}, consumes |-> Nul]
   ELSE LET content == Sub(rb, "content")
            formMts == Keys(content) \cap FormMTs
            otherMts == Keys(content) \ FormMTs
            consumes == IF Keys(content) = {} THEN Nul ELSE A(SetToSeq({S(k) : k \in Keys(content)}))
        IN IF formMts # {} THEN
              [params |-> FromV3FormData(Sub(content.m[CHOOSE k \in formMts : TRUE], "schema"), comps, names), consumes |-> consumes]
           ELSE IF otherMts # {} THEN
              LET mt == content.m[CHOOSE k \in otherMts : TRUE]
                  seenBefore == keepsLast /\ Cardinality(otherMts) >= 2 /\ "back_input_nullable_reset" \in Dev
                  sc == IF Has(mt, "schema")
                        THEN FromV3Schema(IF seenBefore THEN StripNullable(mt.m["schema"]) ELSE mt.m["schema"], comps, names)
                        ELSE Nul
                  nm == IF Has(rb, "x-originalParamName") THEN Opt(rb, "x-originalParamName") ELSE S(name)
              IN [params |-> {O(KV("in", S("body")) @@ KV("name", nm) @@ If(IsTrue(rb, "required"), KV("required", B(TRUE)))
                                @@ If(sc # Nul /\ ~IsParam(sc), KV("schema", sc)))},
                  consumes |-> consumes]
           ELSE [params |-> {}, consumes |-> Nul]

(* FromV3Operation *)
FromV3Op(op, comps, names) ==
   LET ps == {FromV3Param(x, comps, names) : x \in Elems(op, "parameters")}
       taken == {StrOf(Opt(x, "name"), "") : x \in Elems(op, "parameters")}
       bodyName == IF "body" \notin taken THEN "body" ELSE "requestBody"
       rb == IF Has(op, "requestBody") THEN FromV3ReqBody(bodyName, op.m["requestBody"], comps, names, FALSE)
             ELSE [params |-> {}, consumes |-> Nul]
       all == ps \cup rb.params
   IN IF Has(op, "requestBody") /\ {"body", "requestBody"} \subseteq taken /\ "back_body_name_search_first" \in Dev
      THEN O(KV("$error", S("could not find a name for request body")))
      ELSE
      O(If(Has(op, "operationId"), KV("operationId", Opt(op, "operationId")))
        @@ If(Has(op, "security"), KV("security", Opt(op, "security")))
        @@ If(all # {}, KV("parameters", A(SetToSeq(all))))
        @@ If(rb.consumes # Nul, KV("consumes", rb.consumes))
        @@ KV("responses", O([c \in Keys(Sub(op, "responses")) |-> FromV3Response(op.m["responses"].m[c], comps, names)])))

(* FromV3SecurityScheme *)
FromV3Sec(s) ==
   LET ty == Opt(s, "type") IN
   CASE ty = S("http") -> IF Opt(s, "scheme") = S("basic") THEN O(KV("type", S("basic")))
                          ELSE O(KV("type", S("apiKey")) @@ KV("in", S("header")) @@ KV("name", S("Authorization")))
     [] ty = S("apiKey") -> O(KV("type", S("apiKey")) @@ KV("in", Opt(s, "in")) @@ KV("name", Opt(s, "name")))
     [] ty = S("oauth2") ->
           LET fl == Sub(s, "flows")
               fk == IF Has(fl, "implicit") THEN "implicit" ELSE IF Has(fl, "authorizationCode") THEN "authorizationCode"
                     ELSE IF Has(fl, "password") THEN "password" ELSE IF Has(fl, "clientCredentials") THEN "clientCredentials" ELSE ""
           IN IF fk = "" THEN O(KV("type", S("oauth2")))
              ELSE LET f == fl.m[fk] IN
                   O(KV("type", S("oauth2")) @@ KV("flow", S(Flow3To2(fk)))
                     @@ If(fk \in {"implicit", "authorizationCode"} /\ Has(f, "authorizationUrl"), KV("authorizationUrl", Opt(f, "authorizationUrl")))
                     @@ If(fk # "implicit" /\ Has(f, "tokenUrl"), KV("tokenUrl", Opt(f, "tokenUrl")))
                     @@ KV("scopes", Sub(f, "scopes")))
     [] OTHER -> s

(* url.Parse by search: the (scheme, host, path) among the candidates that spells the URL *)
UrlParts(url, hosts, bases) ==
   LET cands == {<<s, h, b>> : s \in {"http", "https", "ws", "wss"}, h \in hosts \ {""}, b \in bases \cup {"", "/"}}
                   \cup {<<"", "", b>> : b \in bases \cup {"/"}}
       Spell(t) == IF t[2] = "" THEN t[3] ELSE t[1] \o "://" \o t[2] \o t[3]
       ok == {t \in cands : Spell(t) = url}
   IN IF ok = {} THEN <<"?", "?", "?">> ELSE CHOOSE t \in ok : TRUE

(* FromV3.  hosts / bases: the strings server URLs may be made of (the model cannot split a string) *)
FromV3Doc(d3, hosts, bases) ==
   LET comps == Sub(d3, "components")
       names == CompNames3(d3)
       schemas == Sub(comps, "schemas")
       conv(n) == FromV3Schema(schemas.m[n], comps, names)
       \* a shared form parameter that is not a file: the repaired design brings it back as a parameter
       sharedForm(n) == "back_shared_form_is_definition" \notin Dev /\ Has(schemas.m[n], "x-formData-name") /\ ~IsParam(conv(n))
       asParam(n) == IF IsParam(conv(n))
                     THEN LET p == conv(n).m["$param"] IN IF Has(p, "name") \/ Has(p, "$ref") THEN p ELSE O(p.m @@ KV("name", S(n)))
                     ELSE LET v == schemas.m[n] nm == StrOf(Opt(v, "x-formData-name"), n) IN
                          O(KV("in", S("formData")) @@ KV("name", S(nm))
                            @@ If(nm \in StrSet(Opt(v, "required")), KV("required", B(TRUE)))
                            @@ [k \in Keys(v) \cap ((ParamKeys \ {"items"}) \cup {"x-nullable", "allowEmptyValue"}) |-> v.m[k]]
                            @@ If(Has(v, "items"), KV("items", FromV3Schema(v.m["items"], comps, names))))
       defN == {n \in Keys(schemas) : ~IsParam(conv(n)) /\ ~sharedForm(n)}
       prmN == Keys(schemas) \ defN
       rbs == Sub(comps, "requestBodies")
       rbConv(n) == FromV3ReqBody(n, rbs.m[n], comps, names, TRUE)
       rbParams == UNION {{[n |-> IF Opt(p, "in") = S("formData") THEN StrOf(Opt(p, "name"), n) ELSE n, p |-> p] : p \in rbConv(n).params}
                            : n \in Keys(rbs)}
       rbConsumes == {rbConv(n).consumes : n \in Keys(rbs)} \ {Nul}
       params == [n \in {x.n : x \in rbParams} |-> (CHOOSE x \in rbParams : x.n = n).p]
                 @@ [n \in Keys(Sub(comps, "parameters")) |-> FromV3Param(comps.m["parameters"].m[n], comps, names)]
                 @@ [n \in prmN |-> asParam(n)]
       paths == Sub(d3, "paths")
       item(p) == O([m \in Keys(paths.m[p]) \cap Methods3 |-> FromV3Op(paths.m[p].m[m], comps, names)]
                    @@ If(Elems(paths.m[p], "parameters") # {},
                          KV("parameters", A(SetToSeq({FromV3Param(x, comps, names) : x \in Elems(paths.m[p], "parameters")})))))
       urls == IF Opt(d3, "servers").t = "arr" THEN [i \in DOMAIN d3.m["servers"].a |-> StrOf(Opt(d3.m["servers"].a[i], "url"), "?")] ELSE <<>>
       parts == [i \in DOMAIN urls |-> UrlParts(urls[i], hosts, bases)]
       known == IF "back_http_https_only" \in Dev THEN {"https", "http"} ELSE {"https", "http", "ws", "wss"}
       schemes == {parts[i][1] : i \in DOMAIN parts} \cap known
   IN O(KV("swagger", S("2.0")) @@ KV("info", Opt(d3, "info"))
        @@ If(defN # {}, KV("definitions", O([n \in defN |-> conv(n)])))
        @@ If(DOMAIN params # {}, KV("parameters", O(params)))
        @@ If(Keys(Sub(comps, "responses")) # {},
              KV("responses", O([n \in Keys(Sub(comps, "responses")) |-> FromV3Response(comps.m["responses"].m[n], comps, names)])))
        @@ If(urls # <<>> /\ parts[1][2] # "", KV("host", S(parts[1][2])))
        @@ If(urls # <<>> /\ parts[1][3] # "", KV("basePath", S(parts[1][3])))
        @@ If(schemes # {}, KV("schemes", A(SetToSeq({S(x) : x \in schemes}))))
        @@ If(Keys(paths) # {}, KV("paths", O([p \in Keys(paths) |-> item(p)])))
        @@ If(rbConsumes # {}, KV("consumes", CHOOSE c \in rbConsumes : TRUE))
        @@ If(Has(comps, "securitySchemes"),
              KV("securityDefinitions", O([n \in Keys(Sub(comps, "securitySchemes")) |-> FromV3Sec(comps.m["securitySchemes"].m[n])])))
        @@ If(Has(d3, "security"), KV("security", Opt(d3, "security"))))

(* openapi2.T.MarshalJSON (openapi2/openapi2.go:56): how the library writes an OpenAPI 2 document it has read.  The one   *)
(* place where that is not the document itself: an empty `paths` object is left out.                                     *)
Written2(d) == IF Has(d, "paths") /\ d.m["paths"] = EmptyO THEN O([k \in DOMAIN d.m \ {"paths"} |-> d.m[k]]) ELSE d

FromV3Panics(b) == HasKeyDeep(b, "$panic")
(* the outcomes FromV3 may have: when one operation makes it panic and another makes it return an error, *)
(* which comes first depends on Go's map iteration order                                                *)
FromV3Outcomes(b) == LET bad == (IF FromV3Panics(b) THEN {"panic"} ELSE {}) \cup (IF HasKeyDeep(b, "$error") THEN {"error"} ELSE {})
                     IN IF bad = {} THEN {"ok"} ELSE bad
=============================================================================
