SPECIFICATION Spec
CONSTANTS W = 5
          WS = 5
          Deep = {}
          OptSet = {"default", "useall", "export", "exporttop", "useall_export", "tng", "tng_export", "tng_exporttop", "throw", "custom"}
          Reps = 1
          RepW = 0
          Which = "all"
          MutualFull = FALSE
INVARIANTS Emit
CHECK_DEADLOCK FALSE
