SPECIFICATION Spec
CONSTANTS W = 5
          WS = 5
          Deep = {}
          OptSet = {"default", "useall", "export", "exporttop", "useall_export", "tng", "tng_export", "tng_exporttop"}
INVARIANTS Emit
CHECK_DEADLOCK FALSE
