SPECIFICATION Spec
CONSTANTS W = 5
          WS = 5
          Deep = {}
          OptSet = {"default", "useall", "export", "exporttop", "useall_export"}
INVARIANTS Emit
CHECK_DEADLOCK FALSE
