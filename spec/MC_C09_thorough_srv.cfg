SPECIFICATION Spec
CONSTANTS Kinds = {"plain"}
          MixedServerSet = {}
          MixedCoreServers = {}
          MixedMethKeys = {"G", "GP"}
          MaxLen = 2
          MaxT = 2
          ServerSet = {"schemes", "ports", "dup", "absbv", "relbv", "absbvx", "relbvx", "abshx", "abspx", "psschemes"}
          CoreLen = 2
          CoreT = 1
          CoreServers = {"schemes", "ports", "dup", "absbv", "relbv", "absbvx", "relbvx", "abshx", "abspx", "psschemes"}
          Slice = 3
          Seed = 1
          DesignAll = TRUE
INVARIANTS DesignOK Emit
CHECK_DEADLOCK FALSE
