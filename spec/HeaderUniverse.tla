---------------------------- MODULE HeaderUniverse ----------------------------
(* F (C08, part "hdr"): the declared-header universe.  Schemas of every primitive type, with the keywords that an   *)
(* empty / partly empty / ill-typed text can violate, arrays of them, an object; texts = canonical serialisations of *)
(* values, texts with empty pieces, the empty text, ill-typed texts.                                                 *)
EXTENDS ResponseCheck

HInt        == [type |-> "integer"]
HIntMax     == [type |-> "integer", maximum |-> 20]                      \* <= 5
HNum        == [type |-> "number"]
HBool       == [type |-> "boolean"]
HStr        == [type |-> "string"]
HStrMin1    == [type |-> "string", minLength |-> 1]
HStrEnum    == [type |-> "string", enum |-> <<Str(<<"a">>), Str(<<"b">>)>>]
HStrPat     == [type |-> "string", pattern |-> "^a"]
HArrInt     == [type |-> "array", items |-> HInt]
HArrIntMax2 == [type |-> "array", items |-> HInt, maxItems |-> 2]
HArrUniq    == [type |-> "array", items |-> HInt, uniqueItems |-> TRUE]
HArrStr     == [type |-> "array", items |-> HStr]
HArrStrMin1 == [type |-> "array", items |-> HStrMin1]
HArrBool    == [type |-> "array", items |-> HBool]
HObj        == [type |-> "object", pk |-> <<"x", "y">>, ps |-> <<HInt, HIntMax>>, required |-> <<"x">>]

(* compositions: the header decoders have a branch of their own for each keyword (no `type` at the top: the text is    *)
(* read by the alternatives' types)                                                                                  *)
HAnyOf      == [anyOf |-> <<HInt, HBool>>]
HOneOfDisj  == [oneOf |-> <<HInt, HBool>>]                               \* no text is read by both alternatives
HOneOf      == [oneOf |-> <<HInt, HStrEnum>>]                            \* "1" is the integer 1 (valid) and the string "1" (not in the enum)
HAllOf      == [allOf |-> <<HInt, HIntMax>>]
CompSchemas == {HAnyOf, HOneOfDisj, HOneOf, HAllOf}

PrimSchemas == {HInt, HIntMax, HNum, HBool, HStr, HStrMin1, HStrEnum, HStrPat}
ArrSchemas  == {HArrInt, HArrIntMax2, HArrUniq, HArrStr, HArrStrMin1, HArrBool}
HSchemas    == PrimSchemas \cup ArrSchemas \cup {HObj} \cup CompSchemas

PlainTexts ==
   { <<>>, <<"1">>, <<"7">>, <<"1", "2">>, <<"1", ".", "5">>, <<"-", "1">>, <<"a">>, <<"a", "b">>, <<"b", "c">>,
     <<"t", "r", "u", "e">>,
     <<"1", ",", "2">>, <<"1", ",", ",", "2">>, <<"1", ",">>, <<",", "1">>, <<",">>, <<"a", ",", "b">>, <<"a", ",", ",", "b">>,
     <<"1", ",", "a">>, <<"7", ",", "7">>, <<"1", ",", "2", ",", "3">>, <<"t", "r", "u", "e", ",", "f", "a", "l", "s", "e">>,
     <<"t", "r", "u", "e", ",">> }
ObjTexts ==
   { <<"x", "=", "1", ",", "y", "=", "2">>, <<"x", "=", "1", ",", "y", "=", "7">>, <<"y", "=", "2">>, <<"x", "=", "1">>,
     <<"x", "=">>, <<"x", "=", "1", ",", "y", "=">>, <<"x", "=", "a">>,
     <<"x", ",", "1", ",", "y", ",", "2">>, <<"x", ",", "1", ",", "y", ",", "7">>, <<"y", ",", "2">>, <<"x", ",", "1">>, <<"x", ",">> }
HTexts == PlainTexts \cup ObjTexts

(* the Go parsers take more spellings of a boolean than true / false ("1", "0", "t", ...): left open, never generated *)
HasBool(s) == HBool \in SubSchemas(s)
LenientBool(cs) == \E i \in DOMAIN SplitAt(cs, ",") : SplitAt(cs, ",")[i] \in {<<"0">>, <<"1">>}

Hdr(name, hs, hreq, explode, present, cs) ==
   [name |-> name, hs |-> hs, hreq |-> hreq, explode |-> explode, present |-> present, cs |-> cs, text |-> Concat(cs)]

(* one declared header: the complete product *)
TextsFor(hs) == {t \in HTexts : t \in ObjTexts => hs \in {HObj, HArrStr, HStr}}
OneHeader ==
   UNION {{Hdr("X-A", hs, rq, ex, TRUE, cs) : rq \in BOOLEAN, ex \in BOOLEAN, cs \in TextsFor(hs)} : hs \in HSchemas}
   \cup {Hdr("X-A", hs, rq, FALSE, FALSE, <<>>) : hs \in HSchemas, rq \in BOOLEAN}
OneHeaderOK(h) ==
   /\ (h.explode => h.hs \in ArrSchemas \cup {HObj})                       \* explode says nothing for a primitive
   /\ ~(HasBool(h.hs) /\ LenientBool(h.cs))

(* two declared headers (one spelled in lower case: header names are case-insensitive) in every combination of     *)
(* absent / conforming / violating / empty, required or not: all of them are checked, not only the first            *)
States(hs) == CASE hs = HInt -> {<<"1">>, <<"a">>, <<>>}
                [] hs = HArrStrMin1 -> {<<"a", ",", "b">>, <<"a", ",", ",", "b">>, <<>>}
TwoHeaders ==
   { <<a, b>> : a \in {Hdr("X-A", hs, rq, FALSE, p, cs) : hs \in {HInt, HArrStrMin1}, rq \in BOOLEAN, p \in BOOLEAN,
                                                          cs \in States(HInt) \cup States(HArrStrMin1)},
                b \in {Hdr("x-b", hs, rq, FALSE, p, cs) : hs \in {HInt, HArrStrMin1}, rq \in BOOLEAN, p \in BOOLEAN,
                                                          cs \in States(HInt) \cup States(HArrStrMin1)} }
TwoOK(h) == IF h.present THEN h.cs \in States(h.hs) ELSE h.cs = <<>>

(* one header on two field lines *)
TwoLines ==
   {[Hdr("X-A", hs, rq, FALSE, TRUE, l1) EXCEPT !.text = Concat(l1)] @@ [cs2 |-> l2, text2 |-> Concat(l2)] :
       hs \in {HInt, HArrInt, HArrIntMax2, HStr, HArrStrMin1}, rq \in BOOLEAN,
       l1 \in {<<"1">>, <<"a">>, <<"1", ",", "2">>}, l2 \in {<<"2">>, <<"a">>, <<>>}}

(* a header declared under the name Content-Type (in any letter case: header names are case-insensitive, RFC 9110)  *)
(* "SHALL be ignored" (OAS 3.0.3, Response Object): the content type is checked against `content`, not here          *)
CtCs == <<"a", "p", "p", "l", "i", "c", "a", "t", "i", "o", "n", "/", "j", "s", "o", "n">>
CtHeaders == {Hdr(nm, HInt, rq, FALSE, TRUE, CtCs) : nm \in {"Content-Type", "content-type"}, rq \in BOOLEAN}

ASSUME TextReadingsSound(HTexts)
=============================================================================
