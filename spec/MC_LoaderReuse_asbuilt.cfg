SPECIFICATION Spec
CONSTANTS Design = "asbuilt"
          MaxUses = 4
          BackRef = FALSE
INVARIANTS UsedLikeFresh ReadsOnlyRootWhenOff ReadsOnlyRefDerived
CHECK_DEADLOCK FALSE
