SPECIFICATION Spec
CONSTANTS MaxGrow = 1
          MaxGrowExt = 0
          MaxShrink = 1
          RandPerKind = 4
          Seed = 1
          MaxHist = 1
INVARIANTS NormIdem NormBelow NormalAgrees L2ImpliesL1 L2Idem RecvReplaceL1 Emit
CHECK_DEADLOCK FALSE
