SPECIFICATION Spec
CONSTANTS MaxGrow = 1
          MaxGrowExt = 0
          MaxShrink = 1
          RandPerKind = 4
          Seed = 1
INVARIANTS NormIdem NormBelow NormalAgrees L2ImpliesL1 L2Idem Emit
CHECK_DEADLOCK FALSE
