SPECIFICATION SSpec
CONSTANTS P = 59
 K = 1
 NModes = 4
 Seed = 1
INVARIANT Emit
CHECK_DEADLOCK FALSE
