------------------------------- MODULE Gen_C03 -------------------------------
(* Generator of C03 cases.  A state is one abstract case: an object kind, a set of      *)
(* (field, variant) pairs populated on one object of that kind (on top of its required  *)
(* fields), and an extension mode; gdoc is the complete document hosting that object at  *)
(* the kind's primary site (DocModel!Host), with a target for every reference used.     *)
(*   grow : from the bare object, add fields: singles in every variant of the field's   *)
(*          category (typical, zero, null, big number, $ref, $ref with siblings, external *)
(*          $ref to a whole file / to a fragment of an external document ...),            *)
(*          then pairs/triples of typical values, up to MaxGrow fields;                  *)
(*   full : every optional field populated (inline / as $ref / as external $ref), remove up to *)
(*          MaxShrink fields (all-but-one ...);                                          *)
(*   rand : per kind RandPerKind pseudo-random subsets of 3..8 fields with mixed variants  *)
(*          (a deterministic function of Seed, so TLC enumerates them like any other).   *)
(*   special : hand-written documents (YAML-hostile strings as values, extension values  *)
(*          and keys; deep nesting; date example).                                                     *)
(* ext: none | x (an x- extension) | unk (an unknown key) | xu (both); fields are added  *)
(* under ext = xu up to MaxGrowExt (under x, unk: singles only, if MaxGrowExt > 0).  BFS enumerates all of it; every state is a case.  *)
EXTENDS DocModel, Json, CSV

CONSTANTS MaxGrow, MaxGrowExt, MaxShrink,
          Seed, RandPerKind,  \* per kind, RandPerKind pseudo-random subsets of 3..8 fields (seeded; beyond the exhaustive bounds)
          MaxHist             \* histories: up to MaxHist prior documents parsed into the same receiver before the document under test

(* ghist: how the document under test reaches the library.  NoHist = the document line: a fresh receiver  *)
(* for every reader (all entry points and writers, see Trace_C03!DocTrips).  Otherwise a history line:    *)
(* entry = the way the ONE receiver is filled, prior = the names of the documents parsed into it before.  *)
VARIABLES gcase, gdoc, ghist
vars == <<gcase, gdoc, ghist>>
NoHist == [entry |-> "fresh", prior |-> <<>>]

ExtModes(kind) == {"none"} \cup (IF ExtOK(kind) THEN {"x"} ELSE {})
                           \cup (IF UnkOK(kind) THEN {"unk", "xu"} ELSE {})
FullExt(kind) == {"none"} \cup (IF UnkOK(kind) THEN {"xu"} ELSE IF ExtOK(kind) THEN {"x"} ELSE {})
FullExtMax(kind) == IF UnkOK(kind) THEN "xu" ELSE IF ExtOK(kind) THEN "x" ELSE "none"

(* fields that take part in "full" sets: a $ref on the object itself would make every other field a sibling *)
FullFields(kind) == {n \in Optional(kind) : FieldOf(kind, n).c # "pref"}
EffVar(fd, var) == IF var \in Variants(fd) THEN var ELSE "v"
(* "alt" = typical values, keeping the other member of each mutually exclusive pair *)
ExclDropped(kind, var) == {IF var = "alt" THEN p[1] ELSE p[2] : p \in Excl(kind)}
FullFv(kind, var) == {<<n, EffVar(FieldOf(kind, n), var)>> : n \in FullFields(kind) \ ExclDropped(kind, var)}

RECURSIVE Apply(_, _, _)
Apply(kind, obj, fv) ==
   IF fv = {} THEN obj
   ELSE LET p == CHOOSE q \in fv : TRUE
        IN Apply(kind, SetKey(obj, p[1], Val(kind, FieldOf(kind, p[1]), p[2])), fv \ {p})

Frag(cc) ==
   LET withF == Apply(cc.kind, Min(cc.kind), cc.fv)
       (* one structured and one scalar extension value (a map-like container that mistook x- keys for    *)
       (* entries would still round-trip an object-valued one)                                            *)
       (* extension names are data too: the bare prefix "x-", a name with dot, slash and blank; a null-valued  *)
       (* extension, an array-valued one                                                                   *)
       withX == IF cc.ext \in {"x", "xu"}
                THEN SetKey(SetKey(SetKey(SetKey(SetKey(withF, "x-ext", AnyV), "x-n", Nm("1")), "x-", Sv("bare")), "x-A.b/c d", N), "x-arr", AnyArr)
                ELSE withF
       (* ... and, on a schema, unknown keys that are keywords of LATER drafts (const, if, $comment, examples): still unknown here *)
       withU == IF cc.ext \in {"unk", "xu"} THEN SetKey(withX, "unknownField", O1("u", Nm("1"))) ELSE withX
   IN IF cc.ext \in {"unk", "xu"} /\ cc.kind = "Schema"
      THEN SetKey(SetKey(SetKey(SetKey(withU, "const", Sv("c")), "if", O1("type", Sv("string"))), "$comment", Sv("note")), "examples", Av(<<Nm("1")>>))
      ELSE withU

(* ---- special documents ---- *)
TrickyPlain == <<"true", "null", "123", "1e3", "0x1F", "~", "yes", "on", "2001-01-01", "2001-01-01T00:00:00Z",
                 " lead", "trail ", "a: b", "#c", "- d", "[e", "{f", "*g", "&h", "!i", "|j", ">k", "%l", "@m",
                 "`n", "'q'", "12:30:00", "1_000", ".5", "+1", "0o17", "0b1", ".inf", ".nan", "NULL", "True",
                 "Y", "n", "=", "<<", "a b", "a,b", "?x", "-", "1.0", "0123", "é">>
TrickyCs == << <<"a", "U+000A", "b">>, <<"a", "U+000A">>, <<"U+000A", "a">>, <<"a", "U+000D", "U+000A", "b">>,
               <<"a", "U+0009", "b">>, <<"U+0022", "q", "U+0022">>, <<"b", "U+005C", "s">>, <<"U+00E9">>,
               <<"U+1F600">>, <<"a", "U+000A", "U+000A", "b", "U+000A">>, <<" ", "a", "U+000A", " ", "b">>,
               <<"U+2028">>, <<"U+FEFF", "a">> >>
(* U+0085 (a line break in YAML) and U+007F (not a printable YAML character) are left out: what a YAML *)
(* writer must do with them is a question about YAML, not about this library.                      *)
(* "é" written in a TLA+ string would not be plain ASCII: keep the plain list ASCII only *)
TrickyP == SelectSeq(TrickyPlain, LAMBDA s : s # "é")
NSpecial == Len(TrickyP) + Len(TrickyCs) + 2
NSpecialAll == NSpecial + 1      \* + the date-time document (no trimming may happen there)

Tricky(i) == IF i <= Len(TrickyP) THEN Sv(TrickyP[i]) ELSE Cs(TrickyCs[i - Len(TrickyP)])
TrickyDoc(ver, i) ==
   LET t == Tricky(i)
       ext == Av(<<t, O1("k", t)>>)
       info == SetKey(SetKey(Min(IF ver = 3 THEN "Info" ELSE "Info2"), "description", t), "x-t", ext)
       base == SetKey(Min(Root(ver)), "info", info)
       schema == IF "s" \in DOMAIN t /\ t.s # ""
                 THEN Ov(<<"properties", "required", "example">>, <<O1(t.s, O1("description", t)), Av(<<t>>), t>>)
                 ELSE Ov(<<"enum", "default">>, <<Av(<<t>>), t>>)
   IN IF ver = 3 THEN SetKey(base, "components", O1("schemas", O1("S", schema)))
      ELSE SetKey(base, "definitions", O1("S", schema))
DeepDoc(ver) ==
   LET S == IF ver = 3 THEN "Schema" ELSE "Schema2"
       l3 == Ov(<<"type", "x-l3", "enum">>, <<Sv("string"), AnyV, Av(<<Sv("a"), N>>)>>)
       l2 == Ov(<<"allOf", "x-l2">>, <<Av(<<l3, RefObj(S)>>), Bv(FALSE)>>)
       l1 == Ov(<<"items", "x-l1", "minimum">>, <<l2, Nm("0"), Nm("0")>>)
       top == Ov(<<"properties", "additionalProperties", "x-l0">>, <<Ov(<<"a", "x-notext">>, <<l1, l3>>), l2, N>>)
   IN Host(S, top)
(* a date-format schema whose example carries a midnight time (what a YAML reader makes of an unquoted date) *)
DateDoc(ver) ==
   LET S == IF ver = 3 THEN "Schema" ELSE "Schema2"
   IN Host(S, Ov(<<"type", "format", "example", "default">>, <<Sv("string"), Sv("date"), Sv(DateLong), Sv(DateLong)>>))
(* the same midnight value under format date-time is an ordinary value and must survive untouched *)
DateTimeDoc(ver) ==
   LET S == IF ver = 3 THEN "Schema" ELSE "Schema2"
   IN Host(S, Ov(<<"type", "format", "example", "default">>, <<Sv("string"), Sv("date-time"), Sv(DateLong), Sv(DateLong)>>))
SpecialDoc(ver, i) == IF i <= Len(TrickyP) + Len(TrickyCs) THEN TrickyDoc(ver, i)
                      ELSE IF i = NSpecial THEN DateDoc(ver)
                      ELSE IF i = NSpecialAll THEN DateTimeDoc(ver) ELSE DeepDoc(ver)

DocOf(cc) ==
   IF cc.mode = "special" THEN WithTargets(cc.ver, SpecialDoc(cc.ver, cc.i))
   ELSE WithTargets(Ver(cc.kind), Host(cc.kind, Frag(cc)))
VerOf(cc) == IF cc.mode = "special" THEN cc.ver ELSE Ver(cc.kind)

Case(mode, kind, fv, ext) == [mode |-> mode, kind |-> kind, fv |-> fv, ext |-> ext, rm |-> 0]
(* ---- pseudo-random field subsets (mode "rand"): deterministic in Seed, evaluated by TLC ---- *)
(* variants that trigger no listed finding (a document with two different triggers matches no single class) *)
SafeVariants(fd) == Variants(fd) \ ({"null", "big"} \cup (IF fd.n = "scopes" /\ fd.oz THEN {"z"} ELSE {}))
H(a, b) == (a * 31 + b * 17 + 7) % 65521
RECURSIVE Nth(_, _)
Nth(S, i) == LET x == CHOOSE y \in S : TRUE IN IF i <= 0 THEN x ELSE Nth(S \ {x}, i - 1)
RECURSIVE SeqOfSet(_)
SeqOfSet(S) == IF S = {} THEN <<>> ELSE LET x == CHOOSE y \in S : TRUE IN <<x>> \o SeqOfSet(S \ {x})
KindSeq == SeqOfSet(Kinds)
RandCase(ki, r) ==
   LET kind == KindSeq[ki]
       fs   == Fields(kind)
       h0   == H(H(H(Seed % 65521, r), ki), 11)
       want == 3 + (H(h0, 1) % 6)
       inc  == {j \in DOMAIN fs : fs[j].c # "pref" /\ H(H(h0, j), 3) % Len(fs) < want}
       names == {fs[j].n : j \in inc}
       ok   == {j \in inc : ~\E p \in Excl(kind) : p[2] = fs[j].n /\ p[1] \in names}
       var(j) == LET vs == SafeVariants(fs[j]) IN Nth(vs, H(H(h0, j), 5) % Cardinality(vs))
       exts == ExtModes(kind)
   IN [mode |-> "rand", kind |-> kind, fv |-> {<<fs[j].n, var(j)>> : j \in ok},
       ext |-> Nth(exts, H(h0, 2) % Cardinality(exts)), rm |-> 0]
(* ---- histories (DocModel, "Receivers and entry points") ---- *)
(* documents under test: root-kind documents -- the bare root, every single optional root field, all and *)
(* all-but-one (with extension and unknown key): every subset pattern of fields that the prior document   *)
(* had and the document under test lacks / has too -- plus one document per other kind with everything   *)
(* populated (so that the receiver's nested objects of every kind are overwritten as well).               *)
HistTargets ==
   UNION {LET kind == Root(v) IN
          {Case("grow", kind, {}, "none"), Case("grow", kind, {}, "xu"), Case("full", kind, FullFv(kind, "v"), "xu")}
          \cup {Case("grow", kind, {<<n, "v">>}, "none") : n \in FullFields(kind)}
          \cup {Case("full", kind, FullFv(kind, "v") \ {<<n, "v">>}, "none") : n \in FullFields(kind)} : v \in {2, 3}}
   \cup {Case("full", kind, FullFv(kind, "v"), "none") : kind \in {k \in Kinds : ~IsRoot(k) /\ FullFields(k) # {}}}
   (* documents that ask for external resources (the ones an earlier document of the history may have left in a Loader's caches) *)
   \cup {Case("full", kind, FullFv(kind, var), "none") : kind \in {"Components", "Paths", "Operation", "Response", "MediaType"}, var \in {"xref", "xfrag"}}
RECURSIVE SeqsUpTo(_, _)
SeqsUpTo(S, n) == IF n = 0 THEN {<<>>} ELSE LET shorter == SeqsUpTo(S, n - 1) IN shorter \cup {Append(q, x) : q \in shorter, x \in S}
Hists(v) == {[entry |-> e, prior |-> q] : e \in HistEntries(v), q \in SeqsUpTo(PriorNames(v), MaxHist) \ {<<>>}}
(* kind-level receivers (DocModel "Kind-level receivers"): per kind the bare object, the object with every field  *)
(* (inline; as references where a field can be one) and -- for the wrapper types -- a reference object as input.   *)
KindTargets ==
   UNION {{Case("grow", kind, {}, "none"), Case("full", kind, FullFv(kind, "v"), FullExtMax(kind)),
           Case("full", kind, FullFv(kind, "ref"), "none")} : kind \in {k \in Kinds : FullFields(k) # {}}}
   \cup {Case("grow", kind, {}, "none") : kind \in {k \in Kinds : FullFields(k) = {}}}
KHists(kind) == UNION {{[entry |-> e, prior |-> q] : q \in SeqsUpTo(KPriorNames(kind, e), MaxHist) \ {<<>>}} : e \in KindEntries(kind)}
IsKindHist(h) == h.entry \in {"kind", "wrap"}

InitCase ==
   /\ \/ \E kind \in Kinds : \E ext \in ExtModes(kind) : gcase = Case("grow", kind, {}, ext)
      \/ \E kind \in Kinds, var \in {"v", "ref", "alt", "xref"} : \E ext \in FullExt(kind) :
            /\ FullFields(kind) # {}
            /\ var = "alt" => Excl(kind) # {}
            /\ gcase = Case("full", kind, FullFv(kind, var), ext)
      \/ \E ver \in {2, 3}, i \in 1..NSpecialAll : gcase = [mode |-> "special", ver |-> ver, i |-> i]
      \/ \E ki \in DOMAIN KindSeq, r \in 1..RandPerKind : gcase = RandCase(ki, r)

Init ==
   /\ \/ ghist = NoHist /\ InitCase
      \/ gcase \in HistTargets /\ ghist \in Hists(Ver(gcase.kind))
      \/ gcase \in KindTargets /\ ghist \in KHists(gcase.kind)
   /\ gdoc = DocOf(gcase)

Names(fv) == {p[1] : p \in fv}
Grow ==
   /\ gcase.mode = "grow"
   /\ Cardinality(gcase.fv) < (IF gcase.ext = "none" THEN MaxGrow
                                ELSE IF gcase.ext = "xu" \/ MaxGrowExt = 0 THEN MaxGrowExt ELSE 1)
   /\ \A p \in gcase.fv : p[2] = "v"
   /\ \E n \in FieldNames(gcase.kind) \ Names(gcase.fv) :
         /\ ~Conflicts(gcase.kind, n, Names(gcase.fv))
         /\ \E var \in (IF gcase.fv = {} THEN Variants(FieldOf(gcase.kind, n)) ELSE {"v"}) :
            gcase' = [gcase EXCEPT !.fv = @ \cup {<<n, var>>}]
Shrink ==
   /\ gcase.mode = "full"
   /\ gcase.rm < MaxShrink
   /\ \E p \in gcase.fv : gcase' = [gcase EXCEPT !.fv = @ \ {p}, !.rm = @ + 1]
Next == ghist = NoHist /\ (Grow \/ Shrink) /\ gdoc' = DocOf(gcase') /\ UNCHANGED ghist
Spec == Init /\ [][Next]_vars

(* the case as written to cases.ndjson: descriptor (for reports, classes, replay) and document *)
Descr(cc) == IF cc.mode = "special" THEN cc
             ELSE [mode |-> cc.mode, kind |-> cc.kind, ext |-> cc.ext,
                   fv |-> {[f |-> p[1], var |-> p[2]] : p \in cc.fv}]
(* a history case carries its prior documents (and the external resources of all of them) *)
(* ... a kind-level case its prior objects and the bare object under test (frag) *)
HistOf(v, h) == IF IsKindHist(h)
                THEN [entry |-> h.entry, prior |-> [i \in DOMAIN h.prior |-> [name |-> h.prior[i], doc |-> KPriorDoc(gcase.kind, h.prior[i])]],
                      frag |-> Frag(gcase)]
                ELSE [entry |-> h.entry, prior |-> [i \in DOMAIN h.prior |-> [name |-> h.prior[i], doc |-> PriorDoc(v, h.prior[i])]]]
AllDocs(v, h) == IF IsKindHist(h) THEN gdoc ELSE Av(<<gdoc>> \o [i \in DOMAIN h.prior |-> PriorDoc(v, h.prior[i])])
Emit == CSVWrite("%1$s", <<ToJson([d |-> Descr(gcase), ver |-> VerOf(gcase), doc |-> gdoc, ext |-> ExtOf(VerOf(gcase), AllDocs(VerOf(gcase), ghist)),
                                   hist |-> HistOf(VerOf(gcase), ghist)])>>, "cases.ndjson")
=============================================================================
