----------------------------- MODULE FindingsC20 -----------------------------
(* Finding classes for C20.                                                                   *)
(* F-C20-1: DefaultRefNameResolver panics ("unable to resolve reference to name") when         *)
(*   InternalizeRefs meets a reference that loading left without a resolved location.          *)
(* F-C20-2: nil entries.  A null where an object is expected (element of servers / tags /      *)
(*   variables, entry of a components or examples / links / headers map), or a reference left  *)
(*   unresolved in a position the loader does not visit, is dereferenced by Validate,          *)
(*   MarshalJSON/YAML or InternalizeRefs.  The class is the set of (operator, node) pairs of   *)
(*   the base document harness/c20_doc.json at which this was observed and triaged; any other  *)
(*   nil dereference is reported.  (Generated from a triaged run; regenerate if the base       *)
(*   document changes.)                                                                        *)
EXTENDS Naturals, Sequences, FiniteSets

RefOpsF == {"ref_dangling", "ref_self", "ref_parent", "ref_wrong_kind", "ref_scalar", "ref_array_elem", "ref_escaped_ptr",
            "ref_hash_only", "ref_empty", "ref_ext_scalar", "ref_ext_array", "ref_ext_empty", "ref_ext_nonjson", "ref_ext_missing",
            "ref_cycle_two", "ref_array_len", "ref_array_beyond", "ref_array_neg", "ref_array_nonnum", "ref_deep_array_len",
            "ref_absent_subfield", "ref_through_unresolved_ref", "ref_callback_self",
            "ref_ext_tab", "ref_ext_bom", "ref_ext_null", "ref_ext_yamlsep"}
NilDeref == "runtime error: invalid memory address or nil pointer dereference"
NoName == "unable to resolve reference to name"

(* paths in the base document holding (or lying under) a position the loader never resolves: a reference  *)
(* put there by any reference operator stays nil and is dereferenced later                                  *)
UnresolvedRefPaths == {"components/examples/E", "components/headers/Rate", "components/parameters/Id", "components/requestBodies/Body/content/multipart/form-data/encoding/f/headers/X-P", "components/responses/Ok", "paths//items/{id}/get/responses/4XX/headers/X-R"}
(* (operator, node) points at which a null / truncated entry is dereferenced *)
KnownNullPoints == {<<"to_null", "components">>, <<"to_null", "components/examples/E">>, <<"to_null", "components/headers">>, <<"to_null", "components/links/L">>, <<"to_null", "components/requestBodies/Body/content/multipart/form-data/encoding/f">>, <<"to_null", "components/requestBodies/Body/content/multipart/form-data/encoding/f/headers/X-P">>, <<"to_null", "paths//items/{id}/get/responses/4XX/content/application/json/examples/e">>, <<"to_null", "servers/0">>, <<"to_null", "servers/0/variables/sub">>, <<"to_null", "tags/0">>, <<"truncate_here", "paths//items/{id}/get/responses/4XX/content/application/json/examples">>}
(* a component entry replaced by a whole-file reference to an EMPTY file loads with Value == nil *)
ExtEmptyComponentPaths == {"components/schemas/Err", "components/schemas/Item", "components/schemas/CycA", "components/schemas/CycB",
                           "components/callbacks/Cb", "components/links/L", "components/requestBodies/Body", "components/securitySchemes/key",
                           "components/securitySchemes/oauth"}
SparseNullEntries == {"paths//u/get/responses/200/content/application/json/examples/E", "components/examples/Z", "components/links/Z"}
IsKnownNilPoint(m) == (m.op = "schema_properties_null_entry")       \* a null entry of a properties map (any schema object)
                      \/ (m.op = "ref_ext_empty" /\ m.path \in ExtEmptyComponentPaths) \/ (m.op \in RefOpsF /\ m.path \in UnresolvedRefPaths) \/ <<m.op, m.path>> \in KnownNullPoints

Panicked(obs) == {s \in DOMAIN obs : obs[s] = "panic"}

(* F-C20-8: a component schema that is a composition of itself (allOf / anyOf / oneOf / not -> $ref to itself) and has a     *)
(*   default or example: document validation checks that value against the schema, the composition hands the same value to   *)
(*   the same schema again, without end: fatal stack overflow (the process dies; the runner reports the case as "crash").     *)
(* F-C20-9: InternalizeRefs "inlines" EVERY path item reference by clearing its Ref (derefPaths), also a reference that stays *)
(*   inside the document.  When the referenced path item is reached again from below itself -- its operation declares a        *)
(*   callback whose path item is a reference back to it -- the document no longer has a finite rendering: json.Marshal of the  *)
(*   internalised document overflows the stack (the process dies).  Trigger: a reference graph (spec/RefGraph.tla) in one file *)
(*   whose closing reference points at a PATH ITEM and whose cycle passes through a callback; observation: the process dies in *)
(*   a stage that follows InternalizeRefs.                                                                                    *)
GKindAt(g, n) == IF n = 0 THEN g.root ELSE g.steps[n].to
IsInlinedPathItemCycle(line, bad) ==
   /\ bad = {"returns_normally"} /\ line.c.base.kind = "graph" /\ "g" \in DOMAIN line.c /\ "died_in" \in DOMAIN line
   /\ line.died_in \in {"marshal_after", "internalize_again"} /\ line.obs[line.died_in] \in {"crash", "hang"}   \* (as above)
   /\ LET g == line.c.g IN
        /\ GKindAt(g, g.close.back) = "pathItem"
        /\ \E n \in g.close.back..Len(g.steps) : GKindAt(g, n) = "callback"
SelfOps == {"schema_self_allof_default", "schema_self_anyof_example", "schema_self_not_default"}
Class(line, bad) ==
   \* (one of the mutations -- thorough applies pairs -- is a self-composition operator, and the process dies validating)
   IF bad = {"returns_normally"} /\ line.c.base.comps = "full" /\ (\E i \in DOMAIN line.c.muts : line.c.muts[i].op \in SelfOps)
      /\ ("died_in" \in DOMAIN line => line.died_in \in {"load", "validate", "validate_after"})
      /\ (\E s \in DOMAIN line.obs : line.obs[s] \in {"crash", "hang"}) THEN "self_composition_value_check_overflows" ELSE   \* ("hang": the watchdog may fire before the 1 GB stack is used up)
   IF IsInlinedPathItemCycle(line, bad) THEN "internalize_inlines_path_item_cycle" ELSE
   LET ms == (IF "applied" \in DOMAIN line THEN line.applied ELSE <<>>)  msg == IF "msg" \in DOMAIN line THEN line.msg ELSE "" IN
   IF bad # {"returns_normally"} \/ \E s \in DOMAIN line.obs : line.obs[s] \in {"hang", "crash"} THEN "none"
   ELSE IF line.c.base.comps # "full"                       \* the points listed above are nodes of the full base document;
        THEN (IF msg = NilDeref /\ Panicked(line.obs) \subseteq {"marshal_json", "marshal_yaml"}      \* on a sparse base: a null entry of an examples / links map
                 /\ \E i \in DOMAIN ms : ms[i].op = "to_null" /\ ms[i].path \in SparseNullEntries
              THEN "nil_entry_dereferenced"
              ELSE IF msg = NoName /\ Panicked(line.obs) = {"internalize"} /\ \E i \in DOMAIN ms : ms[i].op \in RefOpsF   \* F-C20-1 does not depend on the base
              THEN "internalize_panics_unresolvable_ref_name" ELSE "none")
   ELSE IF msg = NoName /\ Panicked(line.obs) = {"internalize"} /\ \E i \in DOMAIN ms : ms[i].op \in RefOpsF
        THEN "internalize_panics_unresolvable_ref_name"
   ELSE IF msg = NilDeref /\ \E i \in DOMAIN ms : IsKnownNilPoint(ms[i])
        THEN "nil_entry_dereferenced"
   ELSE "none"
=============================================================================
