----------------------------- MODULE V2Universe -----------------------------
(***************************************************************************)
(* The universe of OpenAPI 2 documents for C17: a fixed skeleton            *)
(*   GET /a (operationId getA, 200 "ok"), POST /b (operationId postB),      *)
(*   definitions.Pet                                                        *)
(* plus a set of ATOMS, each adding one feature of the convertible fragment *)
(* at one place.  Build(atoms) is the document (document-tagged JSON).      *)
(*                                                                          *)
(* atom = [k: kind, id: readable name, slot: two atoms with the same slot   *)
(*         cannot be combined, w: where it goes, n: component / response /  *)
(*         scheme / method name, v: payload, x: extra payload,              *)
(*         c: 1 = core (combined with each other in quick), 2 = combined in *)
(*         thorough, 3 = only ever alone]                                   *)
(*                                                                          *)
(* kinds: param (query/header/path parameter at the operation, at the path  *)
(* item, or shared and referenced from either), body, form (inline or       *)
(* shared), resp (inline or shared), def, sec (+ where the requirement is), *)
(* secnone (operation opts out of security), server, consumes, produces,    *)
(* method, nopaths (the document has no path at all).  Keys of different v2  *)
(* namespaces may coincide: shared parameters keyed Pet / D (definitions)    *)
(* and R_default (shared responses).                                         *)
(*                                                                          *)
(* The ~17 keywords a parameter-like object carries are swept (each alone,  *)
(* and in pairs when FieldK = 2) through every place that copies them by    *)
(* hand: query parameter, response header, form parameter; and alone        *)
(* through path-item / shared / header / path parameters and shared form    *)
(* parameters.  Schema keywords and reference positions are swept through   *)
(* definition, property, items, allOf member, additionalProperties, body    *)
(* schema and response schema.                                              *)
(*                                                                          *)
(* Array parameters, form parameters and response headers carry each        *)
(* collectionFormat their location allows (SerParamAtoms and the cf. atoms   *)
(* of FormAtoms / RespAtoms), nested arrays an inner one.                    *)
(*                                                                          *)
(* Outside the universe (the statement leaves them open or they are not     *)
(* convertible): schemes without host,                                      *)
(* form parameters without form `consumes`, external references, examples.  *)
(***************************************************************************)
EXTENDS DocJson

CONSTANT FieldK      \* 1: keywords swept one at a time; 2: also in pairs

Atom(k, id, slot, w, n, v, x, c) == [k |-> k, id |-> id, slot |-> slot, w |-> w, n |-> n, v |-> v, x |-> x, c |-> c]

(* ------------------------------------------------------- keyword units by type *)
U(n, f) == [n |-> n, f |-> f]

StrU == << U("minLength", KV("minLength", I(1))), U("maxLength", KV("maxLength", I(5))),
           U("pattern", KV("pattern", S("^a"))), U("enum", KV("enum", A(<<S("ab"), S("b")>>))),
           U("default", KV("default", S("ab"))), U("format", KV("format", S("password"))),
           U("binary", KV("format", S("binary"))), U("allowEmptyValue", KV("allowEmptyValue", B(TRUE))) >>
IntU == << U("minimum", KV("minimum", I(1))), U("maximum", KV("maximum", I(9))),
           U("exclusiveMinimum", KV("minimum", I(1)) @@ KV("exclusiveMinimum", B(TRUE))),
           U("exclusiveMaximum", KV("maximum", I(9)) @@ KV("exclusiveMaximum", B(TRUE))),
           U("multipleOf", KV("multipleOf", I(3))), U("default", KV("default", I(3))),
           U("enum", KV("enum", A(<<I(3), I(6)>>))), U("format", KV("format", S("int32"))) >>
NumU == << U("minimum", KV("minimum", N(6))), U("format", KV("format", S("double"))) >>
BoolU == << U("default", KV("default", B(TRUE))) >>
ArrU == << U("minItems", KV("minItems", I(1))), U("maxItems", KV("maxItems", I(3))),
           U("uniqueItems", KV("uniqueItems", B(TRUE))),
           U("itemsInt", KV("items", O(KV("type", S("integer")) @@ KV("minimum", I(1))))),
           U("itemsEnum", KV("items", O(KV("type", S("string")) @@ KV("enum", A(<<S("ab"), S("b")>>))))) >>

(* the same keywords with the values a hand-written copy loses first: zero, false, the empty string, a negative number *)
(* (each set is consistent, so that any two of its units make a valid schema: the default satisfies the bounds)         *)
Str0U == << U("default", KV("default", S(""))), U("maxLength", KV("maxLength", I(0))), U("enum", KV("enum", A(<<S(""), S("b")>>))) >>
Int0U == << U("minimum", KV("minimum", I(0))), U("maximum", KV("maximum", I(0))), U("default", KV("default", I(0))),
            U("enum", KV("enum", A(<<I(0), I(1)>>))), U("minimumNeg", KV("minimum", I(0 - 1))) >>
Bool0U == << U("default", KV("default", B(FALSE))) >>
Arr0U == << U("maxItems", KV("maxItems", I(0))) >>

(* z: a category of zero values (its bare member would repeat the bare member of the type) *)
TypeCat == << [t |-> "string", base |-> KV("type", S("string")), us |-> StrU, z |-> FALSE],
              [t |-> "integer", base |-> KV("type", S("integer")), us |-> IntU, z |-> FALSE],
              [t |-> "number", base |-> KV("type", S("number")), us |-> NumU, z |-> FALSE],
              [t |-> "boolean", base |-> KV("type", S("boolean")), us |-> BoolU, z |-> FALSE],
              [t |-> "array", base |-> KV("type", S("array")) @@ KV("items", O(KV("type", S("string")))), us |-> ArrU, z |-> FALSE],
              [t |-> "string/0", base |-> KV("type", S("string")), us |-> Str0U, z |-> TRUE],
              [t |-> "integer/0", base |-> KV("type", S("integer")), us |-> Int0U, z |-> TRUE],
              [t |-> "boolean/0", base |-> KV("type", S("boolean")), us |-> Bool0U, z |-> TRUE],
              [t |-> "array/0", base |-> KV("type", S("array")) @@ KV("items", O(KV("type", S("string")))), us |-> Arr0U, z |-> TRUE] >>

FName(us, ix) == IF Len(ix) = 0 THEN "bare" ELSE IF Len(ix) = 1 THEN us[ix[1]].n ELSE us[ix[1]].n \o "+" \o us[ix[2]].n
FFun(us, ix) == IF Len(ix) = 0 THEN <<>> ELSE IF Len(ix) = 1 THEN us[ix[1]].f ELSE us[ix[1]].f @@ us[ix[2]].f

PairIdx(us, maxk) == {<<>>} \cup {<<i>> : i \in DOMAIN us}
                     \cup (IF maxk >= 2
                           THEN {ix \in {<<i, j>> : i \in DOMAIN us, j \in DOMAIN us} :
                                    ix[1] < ix[2] /\ DOMAIN us[ix[1]].f \cap DOMAIN us[ix[2]].f = {}}
                           ELSE {})

(* parameter-like keyword sets: [id, f] with f the keyword function (type included) *)
PL(maxk) == UNION {{[id |-> TypeCat[ti].t \o "." \o FName(TypeCat[ti].us, ix), nk |-> Len(ix),
                     f |-> FFun(TypeCat[ti].us, ix) @@ TypeCat[ti].base]
                       : ix \in {x \in PairIdx(TypeCat[ti].us, maxk) : x # <<>> \/ ~TypeCat[ti].z}}
                   : ti \in DOMAIN TypeCat}
Prm(in, name, req, f) == O(KV("in", S(in)) @@ KV("name", S(name)) @@ If(req, KV("required", B(TRUE))) @@ f)
RefTo(r) == O(KV("$ref", S(r)))
PetRef == RefTo("#/definitions/Pet")
Pet == O(KV("type", S("object")) @@ KV("required", A(<<S("id")>>))
         @@ KV("properties", O(KV("id", O(KV("type", S("integer")))) @@ KV("tag", O(KV("type", S("string")))))))

(* --------------------------------------------------- array serialisation atoms *)
(* OpenAPI 2 says how an array parameter is written on the wire with collectionFormat: csv (the default), ssv, tsv,    *)
(* pipes - legal for every parameter location, for response headers and for the items of a nested array - and multi   *)
(* (query and formData only).  Every format goes to every place that can carry it: an array parameter of a valid      *)
(* OpenAPI 2 document, whatever its location and collectionFormat, must come out as a valid OpenAPI 3 parameter with  *)
(* the same constraints; what the contract says about the serialisation itself is in Api23 (SerDiffs).                *)
CFs == {"csv", "ssv", "tsv", "pipes", "multi"}
CFsAt(in) == IF in \in {"query", "formData"} THEN CFs ELSE CFs \ {"multi"}
ArrCF(cf, more) == KV("type", S("array")) @@ KV("items", O(KV("type", S("string")))) @@ KV("collectionFormat", S(cf)) @@ more
(* an array of arrays: the inner array states its own format *)
ArrArrCF(outer, inner) ==
   KV("type", S("array")) @@ If(outer # "", KV("collectionFormat", S(outer)))
   @@ KV("items", O(KV("type", S("array")) @@ KV("collectionFormat", S(inner)) @@ KV("items", O(KV("type", S("integer")) @@ KV("minimum", I(1))))))

SerParamAtoms ==
   UNION {{Atom("param", "q@op:cf." \o cf, "param:op:query:q", "op", "", Prm("query", "q", FALSE, ArrCF(cf, KV("minItems", I(1)))), Nul,
                IF cf = "csv" THEN 1 ELSE IF cf = "pipes" THEN 2 ELSE 3),
           Atom("param", "q@path:cf." \o cf, "param:path:query:q", "path", "", Prm("query", "q", FALSE, ArrCF(cf, <<>>)), Nul, 3),
           Atom("param", "q@shared:cf." \o cf, "param:op:query:q", "shared", "P_q", Prm("query", "q", TRUE, ArrCF(cf, KV("uniqueItems", B(TRUE)))), Nul,
                IF cf = "multi" THEN 2 ELSE 3)}
          : cf \in CFsAt("query")}
   \cup
   UNION {{Atom("param", "h@op:cf." \o cf, "param:op:header:X-H", "op", "", Prm("header", "X-H", TRUE, ArrCF(cf, KV("maxItems", I(3)))), Nul,
                IF cf = "pipes" THEN 1 ELSE IF cf = "ssv" THEN 2 ELSE 3),
           Atom("param", "h@shared:cf." \o cf, "param:op:header:X-H", "shared", "P_h", Prm("header", "X-H", FALSE, ArrCF(cf, <<>>)), Nul, 3),
           Atom("param", "id@op:cf." \o cf, "param:op:path:id", "op", "", Prm("path", "id", TRUE, ArrCF(cf, KV("minItems", I(1)))), Nul,
                IF cf = "ssv" THEN 2 ELSE 3),
           Atom("param", "id@path:cf." \o cf, "param:path:path:id", "path", "", Prm("path", "id", TRUE, ArrCF(cf, <<>>)), Nul, 3)}
          : cf \in CFsAt("header")}
   \cup
   {Atom("param", "q@op:cf.items." \o x[1] \o "." \o x[2], "param:op:query:q", "op", "", Prm("query", "q", FALSE, ArrArrCF(x[1], x[2])), Nul, 3)
      : x \in {<<"", "pipes">>, <<"multi", "csv">>, <<"csv", "ssv">>, <<"pipes", "tsv">>}}
   \cup
   {Atom("param", "h@op:cf.items.pipes", "param:op:header:X-H", "op", "", Prm("header", "X-H", FALSE, ArrArrCF("", "pipes")), Nul, 3)}

(* ------------------------------------------------------------ parameter atoms *)
IsCoreId(id, ids) == id \in ids

ParamAtoms ==
   \* query parameter at the operation: full sweep
   {Atom("param", "q@op:" \o p.id, "param:op:query:q", "op", "", Prm("query", "q", FALSE, p.f), Nul,
         IF p.id \in {"string.minLength"} THEN 1 ELSE IF p.nk <= 1 THEN 2 ELSE 3)
      : p \in PL(FieldK)}
   \cup \* path-item, shared (referenced from the operation / from the path item), header, path: keywords alone
   UNION {{Atom("param", "q@path:" \o p.id, "param:path:query:q", "path", "", Prm("query", "q", FALSE, p.f), Nul,
                IF p.id = "integer.minimum" THEN 1 ELSE 3),
           Atom("param", "q@shared:" \o p.id, "param:op:query:q", "shared", "P_q", Prm("query", "q", FALSE, p.f), Nul,
                IF p.id = "string.pattern" THEN 1 ELSE 3),
           Atom("param", "q@sharedpath:" \o p.id, "param:path:query:q", "sharedpath", "P_q", Prm("query", "q", FALSE, p.f), Nul,
                IF p.id = "integer.enum" THEN 2 ELSE 3),
           Atom("param", "h@op:" \o p.id, "param:op:header:X-H", "op", "", Prm("header", "X-H", FALSE, p.f), Nul,
                IF p.id = "integer.minimum" THEN 1 ELSE 3),
           Atom("param", "id@op:" \o p.id, "param:op:path:id", "op", "", Prm("path", "id", TRUE, p.f), Nul,
                IF p.id = "string.maxLength" THEN 1 ELSE 3)}
          : p \in PL(1)}
   \cup \* requiredness, names that interact with the body parameter's name, a second query parameter
   {Atom("param", "q@op:required", "param:op:query:q", "op", "", Prm("query", "q", TRUE, KV("type", S("integer"))), Nul, 1),
    Atom("param", "q@path:required", "param:path:query:q", "path", "", Prm("query", "q", TRUE, KV("type", S("string"))), Nul, 2),
    Atom("param", "q@shared:required", "param:op:query:q", "shared", "P_q", Prm("query", "q", TRUE, KV("type", S("string"))), Nul, 2),
    Atom("param", "h@shared:required", "param:op:header:X-H", "shared", "P_h", Prm("header", "X-H", TRUE, KV("type", S("string"))), Nul, 2),
    Atom("param", "id@path:string", "param:path:path:id", "path", "", Prm("path", "id", TRUE, KV("type", S("string"))), Nul, 2),
    Atom("param", "id@shared:integer", "param:op:path:id", "shared", "P_id", Prm("path", "id", TRUE, KV("type", S("integer"))), Nul, 2),
    \* the same key in two namespaces: a shared non-body parameter whose key is also a definitions key (Pet is always
    \* there; D when a def atom is combined with it) or also a shared responses key (x carries that response, which the
    \* operation uses as its default response)
    Atom("param", "q@shared=Pet", "param:op:query:q", "shared", "Pet", Prm("query", "q", FALSE, KV("type", S("string")) @@ KV("minLength", I(1))), Nul, 1),
    Atom("param", "q@shared=Pet:required", "param:op:query:q", "shared", "Pet", Prm("query", "q", TRUE, KV("type", S("integer")) @@ KV("maximum", I(9))), Nul, 2),
    Atom("param", "h@shared=Pet", "param:op:header:X-H", "shared", "Pet", Prm("header", "X-H", FALSE, KV("type", S("integer")) @@ KV("minimum", I(1))), Nul, 1),
    Atom("param", "id@shared=Pet", "param:op:path:id", "shared", "Pet", Prm("path", "id", TRUE, KV("type", S("string")) @@ KV("maxLength", I(5))), Nul, 2),
    Atom("param", "q@sharedpath=Pet", "param:path:query:q", "sharedpath", "Pet", Prm("query", "q", FALSE, KV("type", S("array")) @@ KV("items", O(KV("type", S("string")))) @@ KV("minItems", I(1))), Nul, 2),
    Atom("param", "q@shared=D", "param:op:query:q", "shared", "D", Prm("query", "q", FALSE, KV("type", S("string")) @@ KV("pattern", S("^a"))), Nul, 1),
    Atom("param", "h@shared=D", "param:op:header:X-H", "shared", "D", Prm("header", "X-H", TRUE, KV("type", S("string"))), Nul, 2),
    Atom("param", "q@shared=R_default", "param:op:query:q", "shared", "R_default", Prm("query", "q", FALSE, KV("type", S("integer")) @@ KV("minimum", I(1))),
         O(KV("description", S("problem")) @@ KV("schema", PetRef)), 1),
    Atom("param", "h@shared=R_default", "param:op:header:X-H", "shared", "R_default", Prm("header", "X-H", FALSE, KV("type", S("string")) @@ KV("enum", A(<<S("ab"), S("b")>>))),
         O(KV("description", S("problem")) @@ KV("headers", O(KV("X-Why", O(KV("type", S("string"))))))), 2),
    \* a binary string parameter with one more keyword (in quick too; FieldK = 2 sweeps all such pairs)
    Atom("param", "q@op:binary&maxLength", "param:op:query:q", "op", "",
         Prm("query", "q", FALSE, KV("type", S("string")) @@ KV("format", S("binary")) @@ KV("maxLength", I(5))), Nul, 2),
    \* x-nullable as an extension of a non-body parameter, and inside its items
    Atom("param", "q@op:xnullable", "param:op:query:q", "op", "", Prm("query", "q", FALSE, KV("type", S("string")) @@ KV("x-nullable", B(TRUE))), Nul, 2),
    Atom("param", "q@shared:xnullable", "param:op:query:q", "shared", "P_q", Prm("query", "q", FALSE, KV("type", S("integer")) @@ KV("x-nullable", B(TRUE))), Nul, 2),
    Atom("param", "q@op:items.xnullable", "param:op:query:q", "op", "",
         Prm("query", "q", FALSE, KV("type", S("array")) @@ KV("items", O(KV("type", S("string")) @@ KV("x-nullable", B(TRUE))))), Nul, 2),
    Atom("param", "q2@op:boolean", "param:op:query:a2", "op", "", Prm("query", "a2", FALSE, KV("type", S("boolean"))), Nul, 1),
    Atom("param", "body@query", "param:op2:query:body", "op2", "", Prm("query", "body", FALSE, KV("type", S("string"))), Nul, 1),
    \* both names FromV3 tries for a body parameter are taken by query parameters (x carries the second parameter)
    Atom("param", "body+requestBody@query", "param:op2:query:body", "op2", "", Prm("query", "body", FALSE, KV("type", S("string"))),
         Prm("query", "requestBody", FALSE, KV("type", S("string"))), 1),
    \* parameter names are unique per location only: a header parameter and a shared query parameter named like the body parameter
    Atom("param", "body@header", "param:op2:header:body", "op2", "", Prm("header", "body", FALSE, KV("type", S("string"))), Nul, 2),
    Atom("param", "requestBody@query", "param:op2:query:requestBody", "op2", "", Prm("query", "requestBody", TRUE, KV("type", S("integer"))), Nul, 2),
    Atom("param", "z@op2:query", "param:op2:query:zz", "op2", "", Prm("query", "zz", TRUE, KV("type", S("integer")) @@ KV("minimum", I(1))), Nul, 2)}
   \cup SerParamAtoms

(* ----------------------------------------------------------------- form atoms *)
Ext == KV("x-internal-id", S("u1"))
FormAtoms ==
   {Atom("form", "f1@op:" \o p.id, "form:f1", "op", "", Prm("formData", "f1", FALSE, p.f), Nul,
         IF p.nk <= 1 THEN 2 ELSE 3) : p \in PL(FieldK)}
   \cup {Atom("form", "f1@shared:" \o p.id, "form:f1", "shared", "F_f1", Prm("formData", "f1", FALSE, p.f), Nul,
              IF p.id = "string.enum" THEN 2 ELSE 3) : p \in PL(1)}
   \cup {Atom("form", "f1@op:required", "form:f1", "op", "", Prm("formData", "f1", TRUE, KV("type", S("string")) @@ KV("minLength", I(1))), Nul, 1),
         Atom("form", "f1@op:xnullable", "form:f1", "op", "", Prm("formData", "f1", FALSE, KV("type", S("string")) @@ KV("x-nullable", B(TRUE))), Nul, 2),
         Atom("form", "f2@op:integer", "form:f2", "op", "", Prm("formData", "f2", FALSE, KV("type", S("integer")) @@ KV("maximum", I(9))), Nul, 1),
         Atom("form", "f3@op:required", "form:f3", "op", "", Prm("formData", "f3", TRUE, KV("type", S("boolean"))), Nul, 2),
         Atom("form", "file@op", "form:file", "op", "", Prm("formData", "file", FALSE, KV("type", S("file"))), Nul, 2),
         Atom("form", "file@op:required", "form:file", "op", "", Prm("formData", "file", TRUE, KV("type", S("file"))), Nul, 1),
         Atom("form", "f1@shared:required", "form:f1", "shared", "F_f1", Prm("formData", "f1", TRUE, KV("type", S("string")) @@ KV("pattern", S("^a"))), Nul, 1),
         Atom("form", "f2@shared:integer", "form:f2", "shared", "F_f2", Prm("formData", "f2", FALSE, KV("type", S("integer"))), Nul, 2),
         Atom("form", "file@shared", "form:file", "shared", "F_file", Prm("formData", "file", FALSE, KV("type", S("file"))), Nul, 2),
         Atom("form", "file@shared:required", "form:file", "shared", "F_file", Prm("formData", "file", TRUE, KV("type", S("file"))), Nul, 1),
         \* shared form parameters stored under a key unlike their name, carrying a vendor extension of their own
         \* (so the converter's x-formData-name marker has to be added next to it); the same inline
         Atom("form", "f1@shared+ext", "form:f1", "shared", "UploadTitle", Prm("formData", "f1", FALSE, KV("type", S("string")) @@ KV("minLength", I(1)) @@ Ext), Nul, 1),
         Atom("form", "f1@shared+ext:required", "form:f1", "shared", "UploadTitle", Prm("formData", "f1", TRUE, KV("type", S("string")) @@ KV("maxLength", I(5)) @@ Ext), Nul, 1),
         Atom("form", "f2@shared+ext:required", "form:f2", "shared", "UploadCount", Prm("formData", "f2", TRUE, KV("type", S("integer")) @@ KV("minimum", I(1)) @@ Ext), Nul, 2),
         Atom("form", "file@shared+ext", "form:file", "shared", "UploadBlob", Prm("formData", "file", FALSE, KV("type", S("file")) @@ Ext), Nul, 2),
         Atom("form", "file@shared+ext:required", "form:file", "shared", "UploadBlob", Prm("formData", "file", TRUE, KV("type", S("file")) @@ Ext), Nul, 1),
         Atom("form", "f1@op+ext:required", "form:f1", "op", "", Prm("formData", "f1", TRUE, KV("type", S("string")) @@ Ext), Nul, 2),
         Atom("form", "file@op+ext", "form:file", "op", "", Prm("formData", "file", FALSE, KV("type", S("file")) @@ Ext), Nul, 2)}
   \cup \* the same key in two namespaces that OpenAPI 3 keeps in one: a shared form parameter stored under the key of a
        \* definition (Pet is always there; D when a def atom is combined with it).  ToV3 keeps shared form parameters
        \* as component schemas, next to the definitions.
   {Atom("form", "f1@shared=Pet", "form:f1", "shared", "Pet", Prm("formData", "f1", FALSE, KV("type", S("string")) @@ KV("minLength", I(1))), Nul, 2),
    Atom("form", "f2@shared=Pet:required", "form:f2", "shared", "Pet", Prm("formData", "f2", TRUE, KV("type", S("integer")) @@ KV("maximum", I(9))), Nul, 3),
    Atom("form", "file@shared=Pet", "form:file", "shared", "Pet", Prm("formData", "file", FALSE, KV("type", S("file"))), Nul, 3),
    Atom("form", "f1@shared=D", "form:f1", "shared", "D", Prm("formData", "f1", FALSE, KV("type", S("string")) @@ KV("pattern", S("^a"))), Nul, 2)}
   \cup \* array form parameters in each collectionFormat (inline and shared)
   UNION {{Atom("form", "f1@op:cf." \o cf, "form:f1", "op", "", Prm("formData", "f1", FALSE, ArrCF(cf, KV("minItems", I(1)))), Nul,
                IF cf = "multi" THEN 2 ELSE 3),
           Atom("form", "f1@shared:cf." \o cf, "form:f1", "shared", "F_f1", Prm("formData", "f1", TRUE, ArrCF(cf, <<>>)), Nul, 3)}
          : cf \in CFsAt("formData")}

(* ------------------------------------------------------------------- schemas *)
Sc(id, s, c) == [id |-> id, s |-> s, c |-> c]
TObj == KV("type", S("object"))
PropA(s) == KV("properties", O(KV("a", s)))
StrSchema == O(KV("type", S("string")))

LeafSchemas(maxk) == {Sc(p.id, O(p.f), 3) : p \in PL(maxk)}

ObjSchemas ==
   {Sc("props", O(TObj @@ PropA(StrSchema)), 2),
    Sc("required", O(TObj @@ PropA(StrSchema) @@ KV("required", A(<<S("a")>>))), 2),
    Sc("apFalse", O(TObj @@ PropA(StrSchema) @@ KV("additionalProperties", B(FALSE))), 2),
    Sc("apTrue", O(TObj @@ KV("additionalProperties", B(TRUE))), 2),
    Sc("apInline", O(TObj @@ KV("additionalProperties", O(KV("type", S("string")) @@ KV("minLength", I(1))))), 2),
    Sc("apRef", O(TObj @@ KV("additionalProperties", PetRef)), 1),
    Sc("apNestedRef", O(TObj @@ KV("additionalProperties", O(TObj @@ KV("additionalProperties", PetRef)))), 2),
    Sc("apItemsRef", O(TObj @@ KV("additionalProperties", O(KV("type", S("array")) @@ KV("items", PetRef)))), 2),
    Sc("minProperties", O(TObj @@ KV("minProperties", I(1))), 2),
    Sc("maxProperties", O(TObj @@ KV("maxProperties", I(3))), 2),
    Sc("discriminator", O(TObj @@ KV("discriminator", S("kind")) @@ KV("required", A(<<S("kind")>>))
                           @@ KV("properties", O(KV("kind", StrSchema)))), 1),
    Sc("allOf", O(KV("allOf", A(<<PetRef, O(TObj @@ KV("properties", O(KV("b", O(KV("type", S("integer")))))))>>))), 1),
    \* `required` is a constraint of its own: the names it lists need not be keys of the schema's own `properties`.
    \* The composition idiom (a member of allOf requires a property that the referenced parent declares), a name only
    \* additionalProperties admits, a name nobody declares, `required` without any `properties`, `required` next to allOf.
    Sc("allOfRequiresParentProp", O(KV("allOf", A(<<PetRef, O(TObj @@ KV("required", A(<<S("tag"), S("b")>>))
                                                              @@ KV("properties", O(KV("b", O(KV("type", S("integer")))))))>>))), 1),
    Sc("requiredUndeclared", O(TObj @@ PropA(StrSchema) @@ KV("required", A(<<S("a"), S("z")>>))), 2),
    Sc("requiredOnlyUndeclared", O(TObj @@ PropA(StrSchema) @@ KV("required", A(<<S("z")>>))), 3),
    Sc("requiredNoProperties", O(TObj @@ KV("required", A(<<S("z")>>))), 2),
    Sc("requiredByAp", O(TObj @@ PropA(StrSchema) @@ KV("additionalProperties", O(KV("type", S("integer"))))
                          @@ KV("required", A(<<S("k")>>))), 3),
    Sc("requiredNextToAllOf", O(KV("allOf", A(<<PetRef>>)) @@ KV("required", A(<<S("tag")>>))), 3),
    Sc("requiredOneOfTwo", O(TObj @@ KV("properties", O(KV("a", StrSchema) @@ KV("b", O(KV("type", S("integer"))))))
                              @@ KV("required", A(<<S("b")>>))), 3),
    Sc("nestedRequiresUndeclared", O(TObj @@ PropA(O(TObj @@ KV("required", A(<<S("b"), S("z")>>))
                                   @@ KV("properties", O(KV("b", O(KV("type", S("string"))))))))), 3),
    Sc("nullableObj", O(TObj @@ KV("x-nullable", B(TRUE))), 2),
    Sc("nullableStr", O(KV("type", S("string")) @@ KV("x-nullable", B(TRUE))), 1),
    \* nullable AND enumerated: the enum is the enum (null is admitted by the flag, not by a new member)
    Sc("nullableEnum", O(KV("type", S("string")) @@ KV("x-nullable", B(TRUE)) @@ KV("enum", A(<<S("ab"), S("b")>>))), 1),
    Sc("itemsNullableEnum", O(KV("type", S("array")) @@ KV("items", O(KV("type", S("string")) @@ KV("x-nullable", B(TRUE)) @@ KV("enum", A(<<S("ab")>>))))), 2),
    Sc("readOnlyProp", O(TObj @@ PropA(O(KV("type", S("string")) @@ KV("readOnly", B(TRUE))))), 2),
    Sc("propRef", O(TObj @@ PropA(PetRef)), 2),
    Sc("itemsRef", O(KV("type", S("array")) @@ KV("items", PetRef)), 2),
    Sc("propItemsRef", O(TObj @@ PropA(O(KV("type", S("array")) @@ KV("items", PetRef)))), 2),
    Sc("ref", PetRef, 1),
    Sc("nested", O(TObj @@ PropA(O(TObj @@ KV("required", A(<<S("b")>>))
                                   @@ KV("properties", O(KV("b", O(KV("type", S("string")) @@ KV("minLength", I(1))))))))), 2),
    Sc("propBinary", O(TObj @@ PropA(O(KV("type", S("string")) @@ KV("format", S("binary"))))), 2),
    Sc("itemsNullable", O(KV("type", S("array")) @@ KV("items", O(KV("type", S("string")) @@ KV("x-nullable", B(TRUE))))), 2),
    Sc("propNullable", O(TObj @@ PropA(O(KV("type", S("string")) @@ KV("x-nullable", B(TRUE))))), 2),
    Sc("propDiscriminator", O(TObj @@ PropA(O(TObj @@ KV("discriminator", S("kind")) @@ KV("required", A(<<S("kind")>>))
                                              @@ KV("properties", O(KV("kind", StrSchema)))))), 2)}

SchemaCat(maxk) == LeafSchemas(maxk) \cup ObjSchemas

BodyPrm(name, req, s) == O(KV("in", S("body")) @@ KV("name", S(name)) @@ If(req, KV("required", B(TRUE))) @@ KV("schema", s))
RespObj(desc, s) == O(KV("description", S(desc)) @@ KV("schema", s))

Wrap(w, s) == CASE w = "prop" -> O(TObj @@ KV("properties", O(KV("n", s))))
                 [] w = "items" -> O(KV("type", S("array")) @@ KV("items", s))
                 [] w = "allOf" -> O(KV("allOf", A(<<s>>)))
                 [] w = "ap" -> O(TObj @@ KV("additionalProperties", s))

SchemaAtoms ==
   \* definitions: the schema itself (keywords also in pairs), and at the nested places
   {Atom("def", "D:" \o sc.id, "def:D", "", "D", sc.s, Nul, sc.c) : sc \in SchemaCat(FieldK)}
   \cup UNION {{Atom("def", "D.prop:" \o sc.id, "def:D", "", "D", O(TObj @@ KV("properties", O(KV("n", sc.s)))), Nul, IF sc.c = 1 THEN 2 ELSE 3),
                Atom("def", "D.items:" \o sc.id, "def:D", "", "D", O(KV("type", S("array")) @@ KV("items", sc.s)), Nul, 3),
                Atom("def", "D.allOf:" \o sc.id, "def:D", "", "D", O(KV("allOf", A(<<sc.s>>))), Nul, 3),
                Atom("def", "D.ap:" \o sc.id, "def:D", "", "D", O(TObj @@ KV("additionalProperties", sc.s)), Nul, 3),
                Atom("body", "body:" \o sc.id, "body", "op", "", BodyPrm("body", FALSE, sc.s), Nul, IF sc.c <= 2 THEN 2 ELSE 3),
                Atom("resp", "200:" \o sc.id, "resp:200", "op", "200", RespObj("fine", sc.s), Nul, IF sc.c <= 2 THEN 2 ELSE 3)}
               : sc \in SchemaCat(1)}
   \cup \* two levels of nesting: every pair of nesting positions (property, items, allOf member, additionalProperties)
        \* around the schemas whose conversion is more than a copy (reference, x-nullable, discriminator, `required`
        \* naming a parent's property, file / binary, a keyword pair)
   {Atom("def", "D." \o w[1] \o "." \o w[2] \o ":" \o sc.id, "def:D", "", "D", Wrap(w[1], Wrap(w[2], sc.s)), Nul, 3)
      : w \in {"prop", "items", "allOf", "ap"} \X {"prop", "items", "allOf", "ap"},
        sc \in {x \in SchemaCat(1) : x.id \in {"ref", "nullableStr", "discriminator", "allOfRequiresParentProp", "integer.exclusiveMinimum"}}}
   \cup {Atom("def", "D:selfRef", "def:D", "", "D", O(TObj @@ KV("properties", O(KV("next", RefTo("#/definitions/D"))))), Nul, 2),
         Atom("def", "D:refToD2", "def:D", "", "D", O(TObj @@ KV("properties", O(KV("other", RefTo("#/definitions/Pet")) @@ KV("self", RefTo("#/definitions/D"))))), Nul, 3)}

(* -------------------------------------------------------- body / response atoms *)
ObjBody == O(TObj @@ PropA(StrSchema) @@ KV("required", A(<<S("a")>>)))
BodyAtoms ==
   {Atom("body", "body:inline", "body", "op", "", BodyPrm("body", FALSE, ObjBody), Nul, 1),
    Atom("body", "body:refRequired", "body", "op", "", BodyPrm("payload", TRUE, PetRef), Nul, 1),
    Atom("body", "body:shared", "body", "shared", "B1", BodyPrm("body", TRUE, PetRef), Nul, 1),
    Atom("body", "body:sharedInline", "body", "shared", "B1", BodyPrm("thing", FALSE, ObjBody), Nul, 2),
    \* x-nullable inside an inline body schema (top level, property, items), to be combined with several media types:
    \* ToV3 shares one schema between the media types of a body and FromV3 converts it once per media type
    Atom("body", "body:xnull.top", "body", "op", "", BodyPrm("body", FALSE, O(TObj @@ KV("x-nullable", B(TRUE)) @@ PropA(StrSchema))), Nul, 1),
    Atom("body", "body:xnull.prop", "body", "op", "", BodyPrm("body", TRUE,
         O(TObj @@ KV("properties", O(KV("a", O(KV("type", S("string")) @@ KV("x-nullable", B(TRUE)))) @@ KV("b", O(KV("type", S("integer")))))))), Nul, 1),
    Atom("body", "body:xnull.items", "body", "op", "", BodyPrm("body", FALSE,
         O(KV("type", S("array")) @@ KV("items", O(KV("type", S("string")) @@ KV("x-nullable", B(TRUE)))))), Nul, 1),
    Atom("body", "body:shared.xnull", "body", "shared", "B1", BodyPrm("body", FALSE,
         O(TObj @@ PropA(O(KV("type", S("string")) @@ KV("x-nullable", B(TRUE)))))), Nul, 1),
    \* names of body parameters: the two names FromV3 falls back to, inline and shared (a shared one under a key unlike its name)
    Atom("body", "body:named.requestBody", "body", "op", "", BodyPrm("requestBody", TRUE, PetRef), Nul, 2),
    Atom("body", "body:shared.named.requestBody", "body", "shared", "B1", BodyPrm("requestBody", FALSE, ObjBody), Nul, 2),
    Atom("body", "body:shared.keyIsName", "body", "shared", "body", BodyPrm("body", TRUE, PetRef), Nul, 3),
    Atom("body", "body:arrayOfRef", "body", "op", "", BodyPrm("body", TRUE, O(KV("type", S("array")) @@ KV("items", PetRef))), Nul, 2),
    \* a shared body parameter stored under the key of the definition it refers to (request bodies are a namespace of their own in OpenAPI 3)
    Atom("body", "body:shared=Pet", "body", "shared", "Pet", BodyPrm("pet", TRUE, PetRef), Nul, 2)}

Hdr(f) == O(f)
RespAtoms ==
   \* response header: full keyword sweep
   {Atom("resp", "200.header:" \o p.id, "resp:200", "op", "200",
         O(KV("description", S("fine")) @@ KV("headers", O(KV("X-Rate", Hdr(p.f))))), Nul,
         IF p.id = "integer.minimum" THEN 1 ELSE IF p.nk <= 1 THEN 2 ELSE 3) : p \in PL(FieldK)}
   \cup \* array response headers in each collectionFormat (inline response, shared response)
   UNION {{Atom("resp", "200.header:cf." \o cf, "resp:200", "op", "200",
                O(KV("description", S("fine")) @@ KV("headers", O(KV("X-Rate", Hdr(ArrCF(cf, KV("maxItems", I(3)))))))), Nul,
                IF cf = "pipes" THEN 2 ELSE 3),
           Atom("resp", "default:shared.header:cf." \o cf, "resp:default", "shared", "default",
                O(KV("description", S("problem")) @@ KV("headers", O(KV("X-Why", Hdr(ArrCF(cf, <<>>)))))), Nul, 3)}
          : cf \in CFsAt("header")}
   \cup
   {Atom("resp", "404:ref", "resp:404", "op", "404", RespObj("not found", PetRef), Nul, 1),
    Atom("resp", "200:xnull.prop", "resp:200", "op", "200", RespObj("fine",
         O(TObj @@ KV("x-nullable", B(TRUE)) @@ PropA(O(KV("type", S("string")) @@ KV("x-nullable", B(TRUE)))))), Nul, 1),
    Atom("resp", "default:shared.xnull", "resp:default", "shared", "default", RespObj("problem",
         O(KV("type", S("array")) @@ KV("items", O(KV("type", S("string")) @@ KV("x-nullable", B(TRUE)))))), Nul, 2),
    Atom("resp", "200.header:xnullable", "resp:200", "op", "200",
         O(KV("description", S("fine")) @@ KV("headers", O(KV("X-Rate", Hdr(KV("type", S("string")) @@ KV("x-nullable", B(TRUE))))))), Nul, 2),
    Atom("resp", "404:plain", "resp:404", "op", "404", O(KV("description", S("not found"))), Nul, 2),
    Atom("resp", "default:shared", "resp:default", "shared", "default",
         O(KV("description", S("problem")) @@ KV("schema", PetRef) @@ KV("headers", O(KV("X-Why", Hdr(KV("type", S("string"))))))), Nul, 1),
    Atom("resp", "200:shared", "resp:200", "shared", "200", RespObj("shared fine", O(KV("type", S("array")) @@ KV("items", PetRef))), Nul, 2),
    Atom("resp", "200:sharedHeader", "resp:200", "shared", "200",
         O(KV("description", S("fine")) @@ KV("headers", O(KV("X-Rate", Hdr(KV("type", S("integer")) @@ KV("maximum", I(9))))))), Nul, 3),
    Atom("resp", "200:file", "resp:200", "op", "200", RespObj("a file", O(KV("type", S("file")))), Nul, 2),
    Atom("resp", "201:twoHeaders", "resp:201", "op", "201",
         O(KV("description", S("made")) @@ KV("headers", O(KV("X-A", Hdr(KV("type", S("string")) @@ KV("enum", A(<<S("ab")>>))))
                                                              @@ KV("X-B", Hdr(KV("type", S("array")) @@ KV("items", O(KV("type", S("integer")))))))))
         , Nul, 2)}

(* -------------------------------------------------------------- security atoms *)
Scopes == O(KV("read", S("read things")) @@ KV("write", S("write things")))
SecSchemes ==
   {[n |-> "basicAuth", v |-> O(KV("type", S("basic"))), r |-> A(<<>>)],
    [n |-> "keyHeader", v |-> O(KV("type", S("apiKey")) @@ KV("in", S("header")) @@ KV("name", S("X-Key"))), r |-> A(<<>>)],
    \* an API key that travels in the Authorization header is still an API key (whatever a client puts there: "Token abc", ...)
    [n |-> "keyAuthz", v |-> O(KV("type", S("apiKey")) @@ KV("in", S("header")) @@ KV("name", S("Authorization"))), r |-> A(<<>>)],
    [n |-> "keyQuery", v |-> O(KV("type", S("apiKey")) @@ KV("in", S("query")) @@ KV("name", S("key"))), r |-> A(<<>>)],
    [n |-> "oaImplicit", v |-> O(KV("type", S("oauth2")) @@ KV("flow", S("implicit"))
                                  @@ KV("authorizationUrl", S("https://h.example/auth")) @@ KV("scopes", Scopes)), r |-> A(<<S("read")>>)],
    [n |-> "oaCode", v |-> O(KV("type", S("oauth2")) @@ KV("flow", S("accessCode"))
                              @@ KV("authorizationUrl", S("https://h.example/auth")) @@ KV("tokenUrl", S("https://h.example/token"))
                              @@ KV("scopes", Scopes)), r |-> A(<<S("read"), S("write")>>)],
    [n |-> "oaPassword", v |-> O(KV("type", S("oauth2")) @@ KV("flow", S("password"))
                                  @@ KV("tokenUrl", S("https://h.example/token")) @@ KV("scopes", Scopes)), r |-> A(<<S("write")>>)],
    [n |-> "oaApp", v |-> O(KV("type", S("oauth2")) @@ KV("flow", S("application"))
                             @@ KV("tokenUrl", S("https://h.example/token")) @@ KV("scopes", Scopes)), r |-> A(<<S("read")>>)]}
SecAtoms ==
   {Atom("sec", s.n \o "@" \o w, "sec:" \o s.n, w, s.n, s.v, s.r,
         IF <<s.n, w>> \in {<<"basicAuth", "global">>, <<"keyHeader", "op">>, <<"oaImplicit", "global">>, <<"oaCode", "op">>,
                             <<"oaPassword", "none">>, <<"oaApp", "global">>, <<"keyAuthz", "global">>} THEN 1 ELSE 2)
      : s \in SecSchemes, w \in {"global", "op", "none"}}
   \cup {Atom("secnone", "security:[]@op", "secnone", "op", "", Nul, Nul, 1)}
   \cup \* one requirement that names two schemes (both must be satisfied), the second with scopes
   {Atom("secand", "basic&oauth@" \o w, "secand", w, "",
         O(KV("andBasic", O(KV("type", S("basic"))))
           @@ KV("andOauth", O(KV("type", S("oauth2")) @@ KV("flow", S("application"))
                                @@ KV("tokenUrl", S("https://h.example/token")) @@ KV("scopes", Scopes)))),
         O(KV("andBasic", A(<<>>)) @@ KV("andOauth", A(<<S("read"), S("write")>>))), IF w = "op" THEN 2 ELSE 3)
      : w \in {"global", "op"}}

(* ---------------------------------------------- servers, media types, methods *)
Srv(id, h, b, ss, c) == Atom("server", "server:" \o id, "server", "", "",
                             O(If(h # "", KV("host", S(h))) @@ If(b # "", KV("basePath", S(b)))
                               @@ If(ss # <<>>, KV("schemes", A([i \in DOMAIN ss |-> S(ss[i])])))), Nul, c)
ServerAtoms ==
   {Srv("host", "api.example.com", "", <<>>, 2),
    Srv("host+base", "api.example.com", "/v1", <<>>, 2),
    Srv("host+https", "api.example.com", "", <<"https">>, 2),
    Srv("host+base+https", "api.example.com", "/v1", <<"https">>, 1),
    Srv("host+base+http", "api.example.com:8080", "/v1", <<"http">>, 2),
    Srv("host:8443+base+https", "api.example.com:8443", "/v1", <<"https">>, 1),
    Srv("host:8443", "api.example.com:8443", "", <<>>, 2),
    Srv("host+base+both", "api.example.com", "/v1", <<"https", "http">>, 1),
    Srv("host+slash+https", "api.example.com", "/", <<"https">>, 3),
    Srv("host+ws", "api.example.com", "/v1", <<"ws">>, 3),
    Srv("host+https+wss", "api.example.com", "/v1", <<"https", "wss">>, 3),
    Srv("base", "", "/v1", <<>>, 1)}

Mt(id, w, ss, c) == Atom(IF id[1] = "c" THEN "consumes" ELSE "produces", id[2] \o "@" \o w, id[1], w, id[3], A([i \in DOMAIN ss |-> S(ss[i])]), Nul, c)
MediaAtoms ==
   {Mt(<<"c", "consumes:json", "json">>, "op", <<"application/json">>, 1),
    Mt(<<"c", "consumes:xml", "json">>, "op", <<"application/xml">>, 2),
    Mt(<<"c", "consumes:json+xml", "json">>, "op", <<"application/json", "application/xml">>, 1),
    Mt(<<"c", "consumes:xml+json", "json">>, "op", <<"application/xml", "application/json">>, 2),
    Mt(<<"c", "consumes:json+xml+yaml", "json">>, "op", <<"application/json", "application/xml", "application/x-yaml">>, 1),
    Mt(<<"c", "consumes:json+xml", "json">>, "doc", <<"application/json", "application/xml">>, 1),
    Mt(<<"c", "consumes:json+xml+yaml", "json">>, "doc", <<"application/json", "application/xml", "application/x-yaml">>, 2),
    Mt(<<"c", "consumes:json", "json">>, "doc", <<"application/json">>, 2),
    Mt(<<"c", "consumes:urlencoded", "urlenc">>, "op", <<"application/x-www-form-urlencoded">>, 1),
    Mt(<<"c", "consumes:multipart+urlencoded", "both">>, "op", <<"multipart/form-data", "application/x-www-form-urlencoded">>, 2),
    Mt(<<"c", "consumes:multipart", "multi">>, "doc", <<"multipart/form-data">>, 2),
    Mt(<<"p", "produces:json", "json">>, "op", <<"application/json">>, 2),
    Mt(<<"p", "produces:xml", "xml">>, "op", <<"application/xml">>, 1),
    Mt(<<"p", "produces:json+xml", "json">>, "op", <<"application/json", "application/xml">>, 1),
    Mt(<<"p", "produces:xml+json+yaml", "json">>, "op", <<"application/xml", "application/json", "application/x-yaml">>, 2),
    Mt(<<"p", "produces:json+xml", "json">>, "doc", <<"application/json", "application/xml">>, 2),
    Mt(<<"p", "produces:xml", "xml">>, "doc", <<"application/xml">>, 1)}     \* level 1: met by every response atom of level 1 (inheritance)

MethodAtoms ==
   {Atom("method", "method:" \o m, "method:" \o m, "", m,
         O(KV("operationId", S(m \o "A")) @@ KV("responses", O(KV("200", O(KV("description", S("ok"))))))), Nul,
         IF m = "put" THEN 1 ELSE 2)
      : m \in {"put", "delete", "patch", "head", "options"}}
   \cup {Atom("method", "method:get@b", "method:get@b", "b", "get",
              O(KV("operationId", S("getB")) @@ KV("responses", O(KV("204", O(KV("description", S("nothing"))))))), Nul, 2)}

(* a document without any path (a file of shared definitions) *)
NoPathsAtoms == {Atom("nopaths", "paths:empty", "nopaths", "", "", Nul, Nul, 2)}

Catalogue == NoPathsAtoms \cup ParamAtoms \cup FormAtoms \cup SchemaAtoms \cup BodyAtoms \cup RespAtoms \cup SecAtoms
             \cup ServerAtoms \cup MediaAtoms \cup MethodAtoms

(* --------------------------------------------------------------- compatibility *)
IsFormMt(a) == a.n \in {"urlenc", "multi", "both"}
Compatible(X) ==
   /\ \A a, b \in X : a # b => /\ a.slot # b.slot
                               /\ (a.n = "" \/ a.k # b.k \/ a.n # b.n)
   /\ ~(\E a, b \in X : a.k = "body" /\ b.k = "form")
   \* shared parameters of whatever kind live in one namespace (#/parameters/): one key, one parameter
   /\ \A a, b \in X : (a # b /\ {a.k, b.k} \subseteq {"param", "body", "form"}
                          /\ {a.w, b.w} \subseteq {"shared", "sharedpath"}) => a.n # b.n
   \* a shared parameter that brings a shared response of the same key occupies the default response
   /\ \A a \in X : (a.k = "param" /\ a.w \in {"shared", "sharedpath"} /\ a.x.t = "obj") =>
         /\ ~\E b \in X : b.k = "resp" /\ b.n = "default"
         /\ ~\E b \in X : b # a /\ b.k = "param" /\ b.w \in {"shared", "sharedpath"} /\ b.x.t = "obj"
   /\ \A a \in X : a.k = "consumes" =>
         /\ (\E b \in X : b.k = "form") => IsFormMt(a)
         /\ (\E b \in X : b.k = "body") => ~IsFormMt(a)
         /\ (\E b \in X : b.k = "form" /\ Opt(b.v, "type") = S("file")) => a.n \in {"multi", "both"}
         /\ Cardinality(X) > 1 => \E b \in X : b.k \in {"body", "form"}
   /\ \A a \in X : a.k = "secnone" => ~\E b \in X : b.k \in {"sec", "secand"} /\ b.w = "op"
   /\ \A a \in X : a.k = "nopaths" => \A b \in X : b.k \in {"nopaths", "def", "server"} \/ (b.k \in {"sec", "secand"} /\ b.w # "op")
   \* an extra operation on /a shares the path: the path parameter must then sit on the path item
   /\ \A a \in X : (a.k = "method" /\ a.w = "") =>
         ~\E b \in X : b.k = "param" /\ b.w \in {"op", "shared"} /\ Opt(b.v, "in") = S("path")
   \* a shared body parameter has no operation of its own: which `consumes` applies to it is left open
   /\ \A a \in X : (a.k = "body" /\ a.w = "shared") => ~\E b \in X : b.k = "consumes" /\ b.w = "op"

(* --------------------------------------------------------------------- build *)
Build(X) ==
   LET Ks(kind) == {a \in X : a.k = kind}
       prm == Ks("param")
       hasPathParam == \E a \in prm : Opt(a.v, "in") = S("path")
       p1 == IF hasPathParam THEN "/a/{id}" ELSE "/a"
       refP(a) == RefTo("#/parameters/" \o a.n)
       opParams1 == {a.v : a \in {b \in prm : b.w = "op"}} \cup {refP(a) : a \in {b \in prm : b.w = "shared"}}
       itParams1 == {a.v : a \in {b \in prm : b.w = "path"}} \cup {refP(a) : a \in {b \in prm : b.w = "sharedpath"}}
       opParams2 == {a.v : a \in {b \in prm : b.w = "op2"}} \cup {a.x : a \in {b \in prm : b.w = "op2" /\ b.x.t = "obj"}}
                    \cup {a.v : a \in {b \in Ks("body") \cup Ks("form") : b.w = "op"}}
                    \cup {refP(a) : a \in {b \in Ks("body") \cup Ks("form") : b.w = "shared"}}
       sharedP == {a \in prm \cup Ks("body") \cup Ks("form") : a.w \in {"shared", "sharedpath"}}
       rs == Ks("resp")
       prX == {a \in prm : a.w \in {"shared", "sharedpath"} /\ a.x.t = "obj"}   \* shared parameter + shared response under one key
       codes == {"200"} \cup {a.n : a \in rs} \cup (IF prX # {} THEN {"default"} ELSE {})
       respOf(c) == IF c = "default" /\ prX # {} THEN RefTo("#/responses/" \o (CHOOSE a \in prX : TRUE).n)
                    ELSE IF \E a \in rs : a.n = c
                    THEN LET a == CHOOSE b \in rs : b.n = c IN
                         IF a.w = "shared" THEN RefTo("#/responses/R_" \o c) ELSE a.v
                    ELSE O(KV("description", S("ok")))
       sharedR == {a \in rs : a.w = "shared"}
       secs == Ks("sec")
       reqOf(a) == O(KV(a.n, a.x))
       opSec == {a \in secs : a.w = "op"}
       glSec == {a \in secs : a.w = "global"}
       ands == Ks("secand")
       opReqs == {reqOf(a) : a \in opSec} \cup {a.x : a \in {b \in ands : b.w = "op"}}
       glReqs == {reqOf(a) : a \in glSec} \cup {a.x : a \in {b \in ands : b.w = "global"}}
       cons == Ks("consumes")
       prod == Ks("produces")
       needMultipart == Ks("form") # {} /\ cons = {}
       op1 == O(KV("operationId", S("getA"))
                @@ If(opParams1 # {}, KV("parameters", A(SetToSeq(opParams1))))
                @@ KV("responses", O([c \in codes |-> respOf(c)]))
                @@ If(opReqs # {}, KV("security", A(SetToSeq(opReqs))))
                @@ If(Ks("secnone") # {}, KV("security", A(<<>>)))
                @@ If(\E a \in prod : a.w = "op", KV("produces", (CHOOSE a \in prod : TRUE).v)))
       item1 == O(KV("get", op1)
                  @@ [m \in {a.n : a \in {b \in Ks("method") : b.w = ""}} |-> (CHOOSE a \in Ks("method") : a.w = "" /\ a.n = m).v]
                  @@ If(itParams1 # {}, KV("parameters", A(SetToSeq(itParams1)))))
       op2 == O(KV("operationId", S("postB"))
                @@ If(opParams2 # {}, KV("parameters", A(SetToSeq(opParams2))))
                @@ If(needMultipart, KV("consumes", A(<<S("multipart/form-data")>>)))
                @@ If(\E a \in cons : a.w = "op", KV("consumes", (CHOOSE a \in cons : TRUE).v))
                @@ KV("responses", O(KV("200", O(KV("description", S("ok")))))))
       item2 == O(KV("post", op2)
                  @@ If(\E a \in Ks("method") : a.w = "b", KV("get", (CHOOSE a \in Ks("method") : a.w = "b").v)))
       server == IF Ks("server") = {} THEN <<>> ELSE (CHOOSE a \in Ks("server") : TRUE).v.m
   IN O(KV("swagger", S("2.0"))
        @@ KV("info", O(KV("title", S("t")) @@ KV("version", S("1"))))
        @@ KV("paths", IF Ks("nopaths") # {} THEN EmptyO ELSE O(KV(p1, item1) @@ KV("/b", item2)))
        @@ KV("definitions", O(KV("Pet", Pet) @@ [n \in {a.n : a \in Ks("def")} |-> (CHOOSE a \in Ks("def") : a.n = n).v]))
        @@ If(sharedP # {}, KV("parameters", O([n \in {a.n : a \in sharedP} |-> (CHOOSE a \in sharedP : a.n = n).v])))
        @@ If(sharedR # {} \/ prX # {},
              KV("responses", O([n \in {a.n : a \in prX} |-> (CHOOSE a \in prX : a.n = n).x]
                                @@ [n \in {"R_" \o a.n : a \in sharedR} |-> (CHOOSE a \in sharedR : "R_" \o a.n = n).v])))
        @@ If(secs # {} \/ ands # {},
              KV("securityDefinitions", O([n \in {a.n : a \in secs} |-> (CHOOSE a \in secs : a.n = n).v]
                                          @@ (IF ands # {} THEN (CHOOSE a \in ands : TRUE).v.m ELSE <<>>))))
        @@ If(glReqs # {}, KV("security", A(SetToSeq(glReqs))))
        @@ If(\E a \in cons : a.w = "doc", KV("consumes", (CHOOSE a \in cons : TRUE).v))
        @@ If(\E a \in prod : a.w = "doc", KV("produces", (CHOOSE a \in prod : TRUE).v))
        @@ server)
=============================================================================
