SPECIFICATION Spec
CONSTANTS
  EncoderBuffer = "fresh"
  EncodeVar = "own"
  Encoders = {"application/json", "application/problem+json", "application/x-www-form-urlencoded"}
  NoEncoder = "forward"
  CloseBinding = "at_defer"
  Small = TRUE
  MTs = {"application/json", "application/problem+json", "application/x-www-form-urlencoded"}
  MaxV1 = 2
  MaxV2 = 1
  MaxR1 = 1
  MaxR2 = 1
INVARIANTS RequestsAtRestOK
CHECK_DEADLOCK FALSE
