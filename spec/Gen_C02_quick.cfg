SPECIFICATION Spec
CONSTANTS Tier = "quick"
          Styles = {"plain", "dot", "updown"}
          Allows = {TRUE}
INVARIANT Emit
CHECK_DEADLOCK FALSE
