INIT DInit
NEXT DNext
CHECK_DEADLOCK FALSE
