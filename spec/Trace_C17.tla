------------------------------ MODULE Trace_C17 ------------------------------
(* Trace validation for C17.  Every log line is one OpenAPI 2 document d with what the *)
(* library did with it: rd (d as the library reads and writes it back), the outcome of *)
(* ToV3 and the document d3 it returned, the outcome of validating d3 (as returned and *)
(* reloaded), the outcome of FromV3 and the document d2b it returned.  TLC computes    *)
(* the API each document describes (spec/Api23.tla) and rejects the line where the     *)
(* contract fails; each difference is reported on its own, with its place.             *)
EXTENDS FindingsC17, Conv23, Json, CSV

Trace == ndJsonDeserialize("trace.ndjson")

VARIABLE l
Init == l = 0
Next == l < Len(Trace) /\ l' = l + 1
Spec == Init /\ [][Next]_l

V(failed, dir, path, exp, got) == [failed |-> failed, dir |-> dir, path |-> path, exp |-> exp, got |-> got]
Plain(failed) == {V(failed, "", <<>>, Absent, Absent)}
Ds(failed, dir, diffs) == {V(failed, dir, x.path, x.exp, x.got) : x \in diffs}

Step(line, f) == IF f \in DOMAIN line THEN line[f] ELSE "missing"

Fwd(line) ==
   LET d == line.d  d3 == line.d3 IN
   Ds("v3_describes_another_api", "fwd", ApiDiff3(Api2(d), Api3(d3)))
   \cup Ds("v3_states_another_serialisation", "fwd", SerDiffs(Api2(d), Api3(d3)))
   \cup (IF ServersFwdOK(d, d3) THEN {}
         ELSE {V("v3_servers", "fwd", <<"servers">>, Srv2(d, TRUE), A(SetToSeq({S(u) : u \in Servers3(d3)})))})

Back(line) ==
   LET d == line.d  d3 == line.d3  b == line.d2b
       withSchemes == Schemes2(d) # {}
       names == CompNames2(d) \cup CompNames2(b) \cup CompNames3(d3)
       badRefs == {r \in AllRefs(b) : ~V2RefOK(r, names)}
   IN Ds("v2_again_describes_another_api", "back", ApiDiff(Api2(d), Api2(b)))
      \cup Ds("v2_again_states_another_serialisation", "back", SerDiffs(Api2(d), Api2(b)))
      \cup Ds("v2_again_servers", "back", Diff(Srv2(d, withSchemes), Srv2(b, withSchemes), <<"servers">>))
      \cup {V("v2_again_reference_not_v2", "back", <<"$ref">>, Absent, S(r)) : r \in badRefs}

(* A conversion does not edit the document it is given: the input marshalled again after *)
(* the call (rd2 for ToV3, d3b for FromV3) is the document marshalled before it.         *)
(* (rd3: the OpenAPI 2 document again after FromV3 - the OpenAPI 3 document shares parts of it.  A document whose JSON  *)
(* text after the call is the text before it is logged as "<key>Same" only.)                                            *)
InputKept(line) ==
   (IF "rd2" \in DOMAIN line /\ "rd" \in DOMAIN line
    THEN Ds("to_v3_changed_its_input", "input2", Diff(line.rd, line.rd2, <<>>)) ELSE {})
   \cup
   (IF "d3b" \in DOMAIN line /\ "d3" \in DOMAIN line
    THEN Ds("from_v3_changed_its_input", "input3", Diff(line.d3, line.d3b, <<>>)) ELSE {})
   \cup
   (IF "rd3" \in DOMAIN line /\ "rd" \in DOMAIN line
    THEN Ds("from_v3_changed_the_v2_document", "input2", Diff(line.rd, line.rd3, <<>>)) ELSE {})
   \cup
   {V("input_not_marshalled_after_the_call", "", <<k>>, Absent, Absent) : k \in {"rd2Err", "d3bErr", "rd3Err"} \cap DOMAIN line}

(* The document converted back is an OpenAPI 2 document that describes the same API, so the first sentence of the     *)
(* statement holds of it as well: converted to OpenAPI 3 once more (d3a) it passes validation and describes that API.  *)
(* Judged on the lines whose first round trip is clean (a loss on the way is reported once, where it happens).          *)
Again(line) ==
   IF "again" \notin DOMAIN line THEN {}
   ELSE IF line.again # "ok" THEN Plain("to_v3_again_" \o line.again)
   ELSE LET d == line.d
            d3a == IF line.d3aSame THEN line.d3 ELSE line.d3a
        IN (IF line.vala # "ok" THEN Plain("v3_again_invalid_" \o line.vala) ELSE {})
           \cup (IF line.d3aSame THEN {}
                 ELSE Ds("v3_again_describes_another_api", "again", ApiDiff3(Api2(d), Api3(d3a)))
                      \cup Ds("v3_again_states_another_serialisation", "again", SerDiffs(Api2(d), Api3(d3a)))
                      \cup (IF ServersFwdOK(d, d3a) THEN {}
                            ELSE {V("v3_again_servers", "again", <<"servers">>, Srv2(d, TRUE), A(SetToSeq({S(u) : u \in Servers3(d3a)})))}))

FirstTrip(line) ==
   IF Step(line, "un") # "ok" THEN Plain("v2_document_not_read_" \o Step(line, "un"))
   ELSE Ds("realised_differs", "realise", ApiDiff(Api2(line.d), Api2(line.rd)) \cup SerDiffs(Api2(line.d), Api2(line.rd)))
        \cup InputKept(line)
        \cup (IF Step(line, "to3") # "ok" THEN Plain("to_v3_" \o Step(line, "to3"))
              ELSE (IF line.val # "ok" THEN Plain("v3_invalid_" \o line.val) ELSE {})
                   \cup (IF line.lval # "ok" THEN Plain("v3_reloaded_invalid_" \o line.lval) ELSE {})
                   \cup Fwd(line)
                   \cup (IF Step(line, "from3") # "ok" THEN Plain("from_v3_" \o Step(line, "from3"))
                         ELSE Back(line)))

Violations(line) == LET first == FirstTrip(line) IN IF first = {} THEN Again(line) ELSE first

Report(line, v) ==
   [case |-> line.case, ids |-> IF "ids" \in DOMAIN line THEN line.ids ELSE <<>>, d |-> line.d,
    failed |-> v.failed, dir |-> v.dir, path |-> v.path, exp |-> v.exp, got |-> v.got,
    class |-> Class(line, v)]

(* Model fidelity (warnings, never violations): what the implementation-shaped model of *)
(* spec/Conv23.tla with Dev = Pinned predicts, against what the code did.  ToV3 of the   *)
(* model is applied to the case, FromV3 of the model to the document the code's ToV3     *)
(* returned (so one difference does not cascade).                                        *)
Fid(what, diffs) == {[what |-> what, path |-> x.path, model |-> x.exp, code |-> x.got] : x \in diffs}
FidPlain(what, model, code) == {[what |-> what, path |-> <<>>, model |-> S(model), code |-> S(code)]}
Fidelity(line) ==
   LET d == line.d IN
   (IF ReadV2(d) # Step(line, "un") THEN FidPlain("read", ReadV2(d), Step(line, "un")) ELSE {})
   \cup
   (IF Step(line, "un") # "ok" THEN {}
    ELSE LET r == ToV3Doc(d) IN
         (IF r.out # Step(line, "to3") THEN FidPlain("ToV3 outcome", r.out, Step(line, "to3")) ELSE {})
         \cup
         (IF r.out # "ok" \/ Step(line, "to3") # "ok" THEN {}
          ELSE Fid("ToV3 api", Diff(Api3(r.d3), Api3(line.d3), <<>>))
               \cup (IF Servers3(r.d3) # Servers3(line.d3)
                     THEN FidPlain("ToV3 servers", ToString(Servers3(r.d3)), ToString(Servers3(line.d3))) ELSE {})
               \cup (IF Has(r.d3, "paths") # (Opt(line.d3, "paths") # Nul) THEN FidPlain("ToV3 paths", "-", "-") ELSE {})
               \cup (LET b == FromV3Doc(line.d3, {Host2(d)}, {StrOf(Opt(d, "basePath"), "")})
                         mp == FromV3Outcomes(b)
                     IN (IF Step(line, "from3") \notin mp THEN FidPlain("FromV3 outcome", ToString(mp), Step(line, "from3")) ELSE {})
                        \cup (IF mp # {"ok"} \/ Step(line, "from3") # "ok" THEN {}
                              ELSE Fid("FromV3 api", Diff(Api2(b), Api2(line.d2b), <<>>))
                                   \cup Fid("FromV3 servers", Diff(Srv2(b, TRUE), Srv2(line.d2b, TRUE), <<>>))))))

LineOK(line) ==
   /\ \A v \in Violations(line) : CSVWrite("%1$s", <<ToJson(Report(line, v))>>, "violations.ndjson")
   /\ \A f \in Fidelity(line) :
         CSVWrite("%1$s", <<ToJson([case |-> line.case, ids |-> IF "ids" \in DOMAIN line THEN line.ids ELSE <<>>,
                                    what |-> f.what, path |-> f.path, model |-> f.model, code |-> f.code])>>, "fidelity.ndjson")
   /\ (Step(line, "un") = "ok") =>
         \A f \in Fid("the library re-marshals the document differently", Diff(Written2(line.d), line.rd, <<>>)) :
            CSVWrite("%1$s", <<ToJson([case |-> line.case, ids |-> IF "ids" \in DOMAIN line THEN line.ids ELSE <<>>,
                                       what |-> f.what, path |-> f.path, model |-> f.model, code |-> f.code])>>, "fidelity.ndjson")

Judge == l > 0 => LineOK(Trace[l])

AllConsumed == TLCGet("stats").diameter = Len(Trace) + 1
=============================================================================
