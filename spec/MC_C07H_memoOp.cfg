SPECIFICATION Spec
CONSTANTS Design = "memoOp" AllowEdit = FALSE RouteSet = "alias"
INVARIANT AnswerIsEffective
CHECK_DEADLOCK FALSE
