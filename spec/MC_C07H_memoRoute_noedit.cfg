SPECIFICATION Spec
CONSTANTS Design = "memoRoute" AllowEdit = FALSE RouteSet = "all"
INVARIANT AnswerIsEffective
CHECK_DEADLOCK FALSE
