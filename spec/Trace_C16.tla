------------------------------ MODULE Trace_C16 ------------------------------
(* Trace validation for C16 (InternalizeRefs with the default name resolver):              *)
(*   terminates without panic; the serialised result contains no $ref that leaves the      *)
(*   document (#/components/..., or a kept local path-item reference); it loads with external refs disallowed; it validates iff the        *)
(*   original does; every reference site of the original resolves, in the reloaded         *)
(*   document, to the same object (by x-id) -- which also excludes two distinct targets    *)
(*   merged under one component name.                                                      *)
EXTENDS Layout, FindingsC16, Json, CSV

Trace == ndJsonDeserialize("trace.ndjson")
VARIABLE l
Init == l = 0
Next == l < Len(Trace) /\ l' = l + 1
Spec == Init /\ [][Next]_l

(* a reference that stays inside the document: into its components section, or -- a path item that is a reference to another path   *)
(* of the same document ("#/paths/~1x"), which InternalizeRefs keeps as it is (e12d660): there are no components.pathItems in 3.0 to   *)
(* move it to.  It must still resolve to the same object after reloading (Lost), and anything with a file part must be gone.          *)
Local(r) == r.file = "" /\ Len(r.frag) >= 2 /\ r.frag[1] \in {"components", "paths"}

SameSite(a, b) == a.owner = b.owner /\ a.segs = b.segs

(* a reference site of the original (ref # "") must, in the reloaded document, be a reference  *)
(* to -- or an inlined copy of -- the same object                                              *)
Lost(line) == {i \in DOMAIN line.before :
                  line.before[i].ref # "" /\ line.before[i].got \notin {"nil", "noid"}
                  /\ ~\E j \in DOMAIN line.after : SameSite(line.after[j], line.before[i]) /\ line.after[j].got = line.before[i].got}

Failed(line) ==
   IF line.load # "ok" THEN {}
   \* premise: a document all of whose references were resolved by loading (unresolved ones are C02 / C20 matter)
   ELSE IF "before" \in DOMAIN line /\ \E i \in DOMAIN line.before : line.before[i].ref # "" /\ line.before[i].got = "nil" THEN {}
   ELSE IF line.intern \in {"panic", "crash"} THEN {"no_panic"}
   ELSE IF line.intern = "hang" THEN {"terminates"}
   ELSE IF line.marshal # "ok" THEN {"serialisable"}
   ELSE (IF \E i \in DOMAIN line.refs : ~Local(line.refs[i]) THEN {"self_contained"} ELSE {})
        \cup (IF line.reload # "ok" THEN {"reloads_without_external_refs"}
              ELSE (IF (line.va = "ok") # (line.vb = "ok") THEN {"validates_iff_original"} ELSE {})
                   \cup (IF Lost(line) # {} THEN {"resolves_to_same_content"} ELSE {}))

LineOK(line) ==
   LET bad == Failed(line) IN
   bad = {} \/ CSVWrite("%1$s", <<ToJson([case |-> line.case, c |-> line.c, failed |-> bad,
                                           intern |-> (IF "intern" \in DOMAIN line THEN line.intern ELSE "-"),
                                           lost |-> (IF "after" \in DOMAIN line THEN {line.before[i] : i \in Lost(line)} ELSE {}),
                                           reloadErr |-> (IF "reloadErr" \in DOMAIN line THEN line.reloadErr ELSE ""),
                                           class |-> Class(line, bad)])>>, "violations.ndjson")
Judge == l > 0 => LineOK(Trace[l])
AllConsumed == TLCGet("stats").diameter = Len(Trace) + 1
=============================================================================
