SPECIFICATION Spec
CONSTANTS Design = "stateless" AllowEdit = TRUE RouteSet = "all"
INVARIANT AnswerIsEffective
CHECK_DEADLOCK FALSE
