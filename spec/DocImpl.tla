------------------------------ MODULE DocImpl ------------------------------
(***************************************************************************)
(* C04, L2: the shape of kin-openapi's document validation on the pinned   *)
(* tree, as far as it differs from the contract (DocRules): which places   *)
(* its hand-written descent reaches, which checks it makes there, and      *)
(* which references its loader leaves unresolved.  Each deviation is one   *)
(* of the findings F-C04-n (predicates of FindingsC04); Repaired names the *)
(* findings that have been fixed in /repo, for which L2 follows L1 again.  *)
(*   ImplAccept(doc, Vs, opts)   what Validate returns according to L2     *)
(* Role D: MC_C04_pinned.cfg checks L2 => L1 and must find a counter-      *)
(* example while findings are open (model drift guard).  Role B: the trace *)
(* spec reports every verdict that differs from L2 as a fidelity warning   *)
(* (never a violation): with none, the finding classes are exactly the     *)
(* deviations of the code from the contract inside the universe.           *)
(***************************************************************************)
EXTENDS FindingsC04

CONSTANT Repaired     \* subset of 1..11: findings F-C04-n repaired in the tree under test

StillOpen(n) == n \notin Repaired

(* does the descent of Validate reach a place with these containment edges *)
Reached(via, opts) ==
   /\ StillOpen(1) => ~HasEdge(via, "operation", "callbacks")
   /\ StillOpen(2) => ~(HasEdge(via, "pathItem", "servers") \/ HasEdge(via, "operation", "servers"))
   /\ StillOpen(3) => ~HasEdge(via, "encoding", "headers")
   /\ StillOpen(4) => ~HasEdge(via, "header", "examples")
   /\ StillOpen(5) => ~(HasEdge(via, "schema", "discriminator") \/ HasEdge(via, "schema", "xml"))

(* the loader refuses a reference whose target is missing wherever it looks for references at all *)
LoaderVisits(x) == StillOpen(10) => (~UnvisitedByLoader(x) /\ ~HasEdge(x.via, "mediaType", "encoding") /\ ~HasEdge(x.via, "header", "examples"))

ValidateSees(doc, v, opts) ==
   /\ Reached(v.via, opts)
   /\ StillOpen(4) => ~HeaderUnchecked(v)
   /\ StillOpen(6) => ~NestedRefSibling(v)
   /\ StillOpen(7) => ~TemplateConflict(v)
   /\ StillOpen(8) => ~SameCountOtherNames(doc, v)
   /\ StillOpen(9) => ~ParamExtensionMasked(doc, v, opts)
(* the loader also refuses a parameter that has both schema and content (loader.go resolveParameterRef) *)
LoaderRefuses(doc, v) ==
   \/ v.rule = "dangling_ref" /\ LoaderVisits(v)
   \/ v.rule = "schema_xor_content" /\ v.kind = "parameter" /\ Has(AtPtr(doc, v.at), "schema")
ImplSees(doc, v, opts) == LoaderRefuses(doc, v) \/ ValidateSees(doc, v, opts)

(* a conforming place that Validate nevertheless refuses (unless examples validation is off and it sits in an *)
(* examples map, which is then skipped)                                                                      *)
RefusesBase(doc, x) ==
   /\ Reached(x.via, {})
   /\ \/ StillOpen(10) /\ x.isref /\ UnvisitedByLoader(x) /\ Resolves(doc, AtPtr(doc, x.at), SectionOf(x.kind))
      \/ StillOpen(11) /\ ExternalExample(doc, x)
(* the refusing places of a document: computed once per document by callers that judge many option sets *)
Refusers(doc, sites) == {x \in sites : RefusesBase(doc, x)}
SkippedWithoutExamples(x, opts) ==
   "DisEx" \in opts /\ LastEdge(x.via) \in {<<"parameter", "examples">>, <<"mediaType", "examples">>}

ImplAcceptR(doc, Vs, refusers, opts) ==
   /\ \A v \in Vs : Enabled(v, opts) => ~ImplSees(doc, v, opts)
   /\ \A x \in refusers : SkippedWithoutExamples(x, opts)
ImplAccept(doc, Vs, opts) == ImplAcceptR(doc, Vs, Refusers(doc, Sites(doc)), opts)
=============================================================================
