------------------------------ MODULE DocImpl ------------------------------
(***************************************************************************)
(* C04, L2: the shape of kin-openapi's document validation on the pinned   *)
(* tree, as far as it differs from the contract (DocRules): which places   *)
(* its hand-written descent reaches, which checks it makes there, and      *)
(* which references its loader leaves unresolved.  Each deviation is one   *)
(* of the findings F-C04-n (predicates of FindingsC04); Repaired names the *)
(* findings that have been fixed in /repo, for which L2 follows L1 again.  *)
(*   ImplAccept(doc, Vs, opts)   what Validate returns according to L2     *)
(* Role D: MC_C04_pinned.cfg checks L2 => L1 and must find a counter-      *)
(* example while findings are open (model drift guard).  Role B: the trace *)
(* spec reports every verdict that differs from L2 as a fidelity warning   *)
(* (never a violation): with none, the finding classes are exactly the     *)
(* deviations of the code from the contract inside the universe.           *)
(***************************************************************************)
EXTENDS FindingsC04

CONSTANT Repaired     \* subset of 1..16: findings F-C04-n repaired in the tree under test

StillOpen(n) == n \notin Repaired

(* does the descent of Validate reach a place with these containment edges *)
Reached(via, opts) ==
   /\ StillOpen(1) => ~HasEdge(via, "operation", "callbacks")
   /\ StillOpen(2) => ~(HasEdge(via, "pathItem", "servers") \/ HasEdge(via, "operation", "servers"))
   /\ StillOpen(3) => ~HasEdge(via, "encoding", "headers")
   /\ StillOpen(4) => ~HasEdge(via, "header", "examples")
   /\ StillOpen(5) => ~(HasEdge(via, "schema", "discriminator") \/ HasEdge(via, "schema", "xml"))
   /\ StillOpen(16) => ~HasEdge(via, "link", "server")

(* the loader refuses a reference whose target is missing wherever it looks for references at all *)
LoaderVisits(x) == StillOpen(10) => (~UnvisitedByLoader(x) /\ ~HasEdge(x.via, "mediaType", "encoding") /\ ~HasEdge(x.via, "header", "examples"))

(* the mode in which the code judges the example(s) of a place.  The repair of 14 (the mode travels in a context *)
(* derived for the Request Body / Response, not in the shared options) also ends 13.                           *)
ImplMode(sites, via, at, noopt) ==
   IF ~StillOpen(14) THEN ModeOf(via)
   ELSE IF StillOpen(13) /\ noopt THEN "any"
   ELSE StickyMode(sites, via, at)
SeenInImplMode(doc, sites, v, noopt) ==
   (v.rule \in ExR /\ v.kind \in ModeKinds) => v.rule \in ExRulesAt(doc, v.kind, v.at, ImplMode(sites, v.via, v.at, noopt))

ValidateSees(doc, v, opts) ==
   /\ Reached(v.via, opts)
   /\ StillOpen(15) => ~NoSchemaExamples(doc, v)
   /\ StillOpen(4) => ~HeaderUnchecked(v)
   /\ StillOpen(6) => ~NestedRefSibling(v)
   /\ StillOpen(7) => ~TemplateConflict(v)
   /\ StillOpen(8) => ~SameCountOtherNames(doc, v)
   /\ StillOpen(9) => ~ParamExtensionMasked(doc, v, opts)
(* the loader also refuses a parameter that has both schema and content (loader.go resolveParameterRef) *)
LoaderRefuses(doc, v) ==
   \/ v.rule = "dangling_ref" /\ LoaderVisits(v)
   \* the loader's map and reference-holder decoders refuse null; servers, tags, server variables and examples reach Validate
   \/ v.rule = "null_member" /\ v.kind \notin {"server", "tag", "serverVariable", "example"}
   \/ v.rule = "schema_xor_content" /\ v.kind = "parameter" /\ Has(AtPtr(doc, v.at), "schema")
ImplSees(doc, v, opts) == LoaderRefuses(doc, v) \/ ValidateSees(doc, v, opts)

(* a conforming place that Validate nevertheless refuses (unless examples validation is off and it sits in an *)
(* examples map, which is then skipped)                                                                      *)
RefusesBase(doc, x) ==
   /\ Reached(x.via, {})
   /\ \/ StillOpen(10) /\ x.isref /\ UnvisitedByLoader(x) /\ Resolves(doc, AtPtr(doc, x.at), SectionOf(x.kind))
      \/ StillOpen(11) /\ ExternalExample(doc, x)
(* the refusing places of a document: computed once per document by callers that judge many option sets *)
Refusers(doc, sites) == {x \in sites : RefusesBase(doc, x)}
SkippedWithoutExamples(x, opts) ==
   "DisEx" \in opts /\ LastEdge(x.via) \in {<<"parameter", "examples">>, <<"mediaType", "examples">>}

(* msites = ModeSites(doc, sites); noopt: no option at all reaches Validate *)
ImplAcceptR(doc, Vs, refusers, sites, msites, opts, noopt) ==
   /\ \A v \in Vs : Enabled(v, opts) => ~(ImplSees(doc, v, opts) /\ (LoaderRefuses(doc, v) \/ SeenInImplMode(doc, sites, v, noopt)))
   /\ \A x \in refusers : SkippedWithoutExamples(x, opts)
   /\ ("DisEx" \notin opts) =>
         \A x \in msites : Reached(x.via, opts) => ExRulesAt(doc, x.kind, x.at, ImplMode(sites, x.via, x.at, noopt)) \subseteq ExRulesAt(doc, x.kind, x.at, ModeOf(x.via))
ImplAccept(doc, Vs, opts, noopt) ==
   LET sites == Sites(doc) IN ImplAcceptR(doc, Vs, Refusers(doc, sites), sites, ModeSites(doc, sites), opts, noopt)
=============================================================================
