------------------------------ MODULE Trace_C14 ------------------------------
(* Trace validation for C14: the event log of the real middleware (one run per test case, *)
(* runs concatenated) is stepped through Middleware's actions; at the end of each run the  *)
(* contract (L1) is evaluated on what the client actually observed.                        *)
(*                                                                                         *)
(*   cfg    -> TraceReset (Middleware!Init with the logged configuration)                  *)
(*   Enter  -> Invoke                                                                      *)
(*   H      -> HandlerCall(c)                                                              *)
(*   C/Err/Log -> observation bookkeeping only (the model predicts them; see Fidelity)     *)
(*   end    -> the silent epilogue: Gate, or HandlerReturn . RespCheck                     *)
(*                                                                                         *)
(* A line whose action is not enabled in the model (e.g. Enter although the gate should    *)
(* have failed) does not stop validation: the model is marked diverged until the next      *)
(* reset and the verdict comes from the contract alone.  Rejected runs are written to      *)
(* violations.ndjson; model/observation differences that respect the contract go to        *)
(* fidelity.ndjson (warnings).                                                             *)
EXTENDS Middleware, Integers, Json, CSV

Trace == ndJsonDeserialize("trace.ndjson")

VARIABLES l,        \* next line
          caseIdx,  \* case number of the current run
          cScript,  \* the script of the case (what the handler was told to do)
          oRaw,     \* observed raw calls on the client's writer
          oErrs, oLogs, oInvoked, oScript,
          oReal,    \* what a real HTTP client received from a real net/http server running the same case (<<>>: not run)
          oEnd,     \* the end line once consumed, else <<>>
          diverged  \* model could not follow the trace in this run

tvars == <<l, caseIdx, cScript, oRaw, oErrs, oLogs, oInvoked, oScript, oReal, oEnd, diverged>>

Line == Trace[l]
IsEv(e) == l <= Len(Trace) /\ Line.ev = e /\ l' = l + 1

TraceInit ==
   /\ l = 1 /\ caseIdx = -1 /\ cScript = <<>> /\ oRaw = <<>> /\ oErrs = <<>> /\ oLogs = <<>> /\ oInvoked = 0
   /\ oScript = <<>> /\ oReal = <<>> /\ oEnd = <<>> /\ diverged = FALSE
   /\ cfg = [strict |-> FALSE, reqClass |-> "valid_post", errMode |-> "default", gate |-> "validator", opt |-> "none", primer |-> "none", auth |-> "callback", prior |-> "none"]
   /\ phase = "done" /\ w = WInit /\ hdr = "none" /\ script = <<>> /\ cOut = <<>>
   /\ invoked = 0 /\ errs = <<>> /\ logs = <<>>

TraceReset ==
   /\ IsEv("cfg")
   /\ caseIdx' = Line.case /\ cScript' = Line.script
   /\ cfg' = Line.cfg
   /\ phase' = "start" /\ w' = WInit /\ hdr' = "none" /\ script' = <<>> /\ cOut' = <<>>
   /\ invoked' = 0 /\ errs' = <<>> /\ logs' = <<>>
   /\ oRaw' = <<>> /\ oErrs' = <<>> /\ oLogs' = <<>> /\ oInvoked' = 0 /\ oScript' = <<>>
   /\ oEnd' = <<>> /\ oReal' = <<>> /\ diverged' = FALSE

(* take model action A if it is enabled, otherwise mark the run diverged *)
Follow(A) == \/ (~diverged /\ A /\ UNCHANGED diverged)
             \/ ((diverged \/ ~ENABLED A) /\ diverged' = TRUE /\ UNCHANGED vars)

TraceEnter ==
   /\ IsEv("Enter") /\ Follow(Invoke)
   /\ oInvoked' = oInvoked + 1
   /\ UNCHANGED <<caseIdx, cScript, oRaw, oErrs, oLogs, oScript, oReal, oEnd>>

TraceHandlerCall ==
   \* the model also predicts what a Probe finds and what a body read returns (fidelity: a difference marks the run diverged)
   /\ IsEv("H") /\ Follow(/\ HandlerCall(Line.c)
                          /\ ("caps" \in DOMAIN Line => {Line.caps[i] : i \in DOMAIN Line.caps} = Caps(cfg))
                          \* the first read returns what the client sent, a later one finds the body at EOF
                          /\ ("read" \in DOMAIN Line =>
                                Line.read = IF \E i \in DOMAIN oScript : oScript[i].c = "RB" THEN "" ELSE Line.sent))
   /\ oScript' = Append(oScript, Line.c)
   /\ UNCHANGED <<caseIdx, cScript, oRaw, oErrs, oLogs, oInvoked, oReal, oEnd>>

TraceClient ==
   /\ IsEv("C")
   /\ oRaw' = Append(oRaw, CASE Line.e = "WH" -> [e |-> "WH", s |-> Line.s, ct |-> Line.ct]
                             [] Line.e = "W"  -> [e |-> "W", data |-> Line.data, ct |-> Line.ct]
                             [] Line.e = "F"  -> [e |-> "F", ct |-> Line.ct])
   /\ UNCHANGED <<vars, caseIdx, cScript, oErrs, oLogs, oInvoked, oScript, oReal, oEnd, diverged>>

TraceErr ==
   /\ IsEv("Err") /\ oErrs' = Append(oErrs, [status |-> Line.status, code |-> Line.code])
   /\ UNCHANGED <<vars, caseIdx, cScript, oRaw, oLogs, oInvoked, oScript, oReal, oEnd, diverged>>

TraceLog ==
   /\ IsEv("Log") /\ oLogs' = Append(oLogs, Line.msg)
   /\ UNCHANGED <<vars, caseIdx, cScript, oRaw, oErrs, oInvoked, oScript, oReal, oEnd, diverged>>

(* the handler behind the OTHER wrapper of the same ValidationHandler ran: consumed here; the run then fails *)
(* "handler_iff_valid" (the handler under test was not entered) and the passthrough clause                    *)
TraceOther ==
   /\ IsEv("Other")
   /\ UNCHANGED <<vars, caseIdx, cScript, oRaw, oErrs, oLogs, oInvoked, oScript, oReal, oEnd, diverged>>

(* the second pass of the harness: the same case through a real net/http server and client (comes after the first  *)
(* pass's events, before the end line)                                                                              *)
TraceReal ==
   /\ IsEv("Real") /\ oReal' = Line
   /\ UNCHANGED <<vars, caseIdx, cScript, oRaw, oErrs, oLogs, oInvoked, oScript, oEnd, diverged>>

TraceEnd ==
   /\ IsEv("end")
   /\ Follow(Epilogue)       \* the silent epilogue
   /\ oEnd' = Line
   /\ UNCHANGED <<caseIdx, cScript, oRaw, oErrs, oLogs, oInvoked, oScript, oReal>>

TraceNext == TraceReset \/ TraceEnter \/ TraceHandlerCall \/ TraceClient \/ TraceErr \/ TraceLog \/ TraceOther \/ TraceReal \/ TraceEnd

TraceSpec == TraceInit /\ [][TraceNext]_<<vars, tvars>>

-----------------------------------------------------------------------------
Obs == LET eff == Effective(oRaw, oEnd.finalCt) IN
       [invoked |-> oInvoked, errs |-> oErrs,
        \* a panic other than the handler's own scripted one (oEnd.hpanic: the value recovered is the script's sentinel)
        eff |-> [eff EXCEPT !.panicked = @ \/ (oEnd.panic /\ ~oEnd.hpanic)],
        silent |-> oRaw = <<>>]

(* the handler performed exactly the calls of the case (realiser round trip) *)
Realised == oInvoked = 0 \/ (oEnd.panic /\ ~oEnd.hpanic) \/ oScript = cScript

(* The ClientModel of Middleware.tla (how raw ResponseWriter calls add up to a response) is itself bound to the real    *)
(* thing: what a real client received equals what the model makes of the raw calls of the first pass.  A failure here   *)
(* is a defect of the specification (or of the harness's recording writer), not of the library.                        *)
ClientModelOK == \/ oReal = <<>> \/ oReal.err \/ Obs.eff.panicked
                 \/ (oReal.status = Obs.eff.status /\ oReal.body = Obs.eff.body)

RunFailed == Failed(cfg, IF oInvoked > 0 THEN oScript ELSE <<>>, Obs)
             \cup (IF Realised THEN {} ELSE {"harness_realiser"})
             \cup (IF ClientModelOK THEN {} ELSE {"client_model_is_net_http"})

(* Judge is always TRUE; rejected runs are reported and validation continues *)
Judge ==
   (oEnd # <<>>) =>
      \/ RunFailed = {}
      \/ CSVWrite("%1$s", <<ToJson([case |-> caseIdx, failed |-> RunFailed, cfg |-> cfg,
                                     script |-> oScript, obs |-> Obs, class |-> Class(cfg, oScript, RunFailed)])>>,
                  "violations.ndjson")

Fidelity ==
   (oEnd # <<>> /\ RunFailed = {}) =>
      \/ (IsVH(cfg) /\ cfg.errMode = "default" /\ ExpectedGate(cfg) # 0)        \* the default encoders' body is not modelled
      \* errMode "default": the Validator's own errFunc / logFunc are in use, their calls are not observed
      \/ (~diverged /\ cOut = oRaw /\ (cfg.errMode = "custom" => errs = oErrs /\ logs = oLogs))
      \/ CSVWrite("%1$s", <<ToJson([case |-> caseIdx, diverged |-> diverged, model |-> cOut,
                                     observed |-> oRaw, mlogs |-> logs, ologs |-> oLogs])>>,
                  "fidelity.ndjson")

(* count of runs judged, for the evidence file *)
AllConsumed == TLCGet("stats").diameter = Len(Trace) + 1
=============================================================================
