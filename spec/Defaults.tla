------------------------------- MODULE Defaults -------------------------------
(***************************************************************************)
(* L1: what "defaults are added exactly once" means for a request body     *)
(* (property C13).  WithDefaults(s, v) is the least fixed point: every     *)
(* absent property whose schema has a default (and that the client may     *)
(* send: not readOnly) gets it, recursively -- also inside an inserted     *)
(* default, through allOf, through array items, and through oneOf/anyOf    *)
(* only for the branch that matches; a branch "matches" when the value     *)
(* with that branch's own defaults satisfies it.  Being a fixed point is   *)
(* exactly "a second validation changes nothing further".                  *)
(***************************************************************************)
EXTENDS SchemaSem, TLC

(* insert / replace key in an object value, keeping keys sorted: keys are drawn from a fixed   *)
(* small alphabet whose order is given by KeyOrder                                            *)
KeyOrder == <<"a", "b", "c", "cfg", "k", "l", "o", "q", "r", "ro", "t", "x", "y", "z">>      \* ("x", "y": the keys of the C01 universe)
Pos(key) == CHOOSE i \in DOMAIN KeyOrder : KeyOrder[i] = key
RECURSIVE InsertAt(_, _, _, _)
InsertAt(ks, vs, key, val) ==
   IF ks = <<>> THEN [k |-> <<key>>, v |-> <<val>>]
   ELSE IF Head(ks) = key THEN [k |-> ks, v |-> <<val>> \o Tail(vs)]
   ELSE IF Pos(key) < Pos(Head(ks)) THEN [k |-> <<key>> \o ks, v |-> <<val>> \o vs]
   ELSE LET r == InsertAt(Tail(ks), Tail(vs), key, val) IN [k |-> <<Head(ks)>> \o r.k, v |-> <<Head(vs)>> \o r.v]
Put(o, key, val) == LET r == InsertAt(o.k, o.v, key, val) IN Obj(r.k, r.v)

RECURSIVE WithDefaults(_, _)

RECURSIVE ApplyAll(_, _)
ApplyAll(ss, v) == IF ss = <<>> THEN v ELSE ApplyAll(Tail(ss), WithDefaults(Head(ss), v))

Matches(b, v) == Valid(b, WithDefaults(b, v), "asreq")

(* own properties of an object schema, one after the other *)
RECURSIVE PropsDefaults(_, _, _)
PropsDefaults(s, o, i) ==
   IF i > Len(s.pk) THEN o
   ELSE LET key == s.pk[i]  p == s.ps[i] IN
        IF HasKey(o, key) /\ ~IsNull(Get(o, key))
        THEN PropsDefaults(s, Put(o, key, WithDefaults(p, Get(o, key))), i + 1)
        ELSE IF Has(p, "default") /\ ~Has(p, "readOnly")
             THEN PropsDefaults(s, Put(o, key, WithDefaults(p, p.default)), i + 1)
             ELSE PropsDefaults(s, o, i + 1)

WithDefaults(s, v) ==
   LET v1 == IF Has(s, "oneOf") /\ Cardinality({i \in DOMAIN s.oneOf : Matches(s.oneOf[i], v)}) = 1
             THEN WithDefaults(s.oneOf[CHOOSE i \in DOMAIN s.oneOf : Matches(s.oneOf[i], v)], v) ELSE v
       v2 == IF Has(s, "anyOf") /\ \E i \in DOMAIN s.anyOf : Matches(s.anyOf[i], v1)
             THEN WithDefaults(s.anyOf[CHOOSE i \in DOMAIN s.anyOf : Matches(s.anyOf[i], v1)
                                                  /\ \A j \in 1..(i - 1) : ~Matches(s.anyOf[j], v1)], v1) ELSE v1
       v3 == IF Has(s, "allOf") THEN ApplyAll(s.allOf, v2) ELSE v2
   IN
   CASE v3.t = "obj" /\ Has(s, "pk") -> PropsDefaults(s, v3, 1)
     [] v3.t = "arr" /\ Has(s, "items") -> Arr([i \in DOMAIN v3.a |-> WithDefaults(s.items, v3.a[i])])
     [] OTHER -> v3
=============================================================================
