------------------------------ MODULE Gen_C13H ------------------------------
(* Histories for C13.  The property is about the request the NEXT handler gets: "after request validation       *)
(* returns ... the request body can still be read in full by the next handler", "the resulting request          *)
(* validates again and a second validation changes nothing further".  Neither says the next handler reads the    *)
(* body at once, nor that the process validates one request at a time.  A history is a sequence of steps over   *)
(* a pool of two requests handled by one process:                                                               *)
(*    V(r)  ValidateRequest on request r (a fresh input every time)                                             *)
(*    R(r)  the next handler reads the body of r in full, and the request is rewound the way a transport does   *)
(*          it (GetBody when there is one, else the bytes read are put back)                                    *)
(* followed by a final read of every request.  What a request carries is therefore also looked at AFTER other   *)
(* requests were validated, after a second validation without a read in between, after a rewind.                *)
(* Each request has a JSON body (every schema / body of Gen_C13), default-setting on or off, a body stream with  *)
(* or without its own GetBody, an authentication callback that reads the body and passes / rejects, and -- next  *)
(* to the body -- parameters with defaults in the query (array), a header (string) and a cookie (integer), each  *)
(* not declared, absent or present: the query string, the header map and the cookies are the other carriers of   *)
(* installed defaults.                                                                                          *)
EXTENDS Defaults, Json, CSV
CONSTANT Tier     \* "quick": a covering slice; "thorough": the product
VARIABLE case
G == INSTANCE Gen_C13

PDflt == [query |-> Arr(<<Num(4), Num(8)>>), header |-> Str(<<"d">>), cookie |-> Num(20)]
PPs == [none   |-> [query |-> "none",    header |-> "none",    cookie |-> "none"],
        absent |-> [query |-> "absent",  header |-> "absent",  cookie |-> "absent"],
        mixed1 |-> [query |-> "present", header |-> "absent",  cookie |-> "present"],
        mixed2 |-> [query |-> "absent",  header |-> "present", cookie |-> "absent"]]
Opt(skip, preset, sec, pp) == [skip |-> skip, preset |-> preset, sec |-> sec, pp |-> PPs[pp]]
QuickOpts == {Opt(FALSE, FALSE, "none", "none"), Opt(FALSE, TRUE, "pass_read", "absent"), Opt(TRUE, FALSE, "none", "absent"),
              Opt(FALSE, FALSE, "fail_read", "mixed1"), Opt(FALSE, TRUE, "none", "mixed2")}
AllOpts == {Opt(s, p, sec, pp) : s \in BOOLEAN, p \in BOOLEAN, sec \in {"none", "pass_read", "fail_read"}, pp \in DOMAIN PPs}
Opts == IF Tier = "quick" THEN QuickOpts ELSE AllOpts

Req(id, v, o) == [id |-> id, schema |-> G!Schemas[id], v |-> v, mt |-> "application/json", skip |-> o.skip, preset |-> o.preset,
                  sec |-> o.sec, pp |-> o.pp, pdflt |-> PDflt]

(* the second request of the pool: a few fixed ones (another operation, another schema, defaults on / off) *)
QuickPartners == {Req("B1", Obj(<<"b">>, <<Str(<<"s">>)>>), Opt(FALSE, FALSE, "none", "none")),
                  Req("B5", Obj(<<"k">>, <<Str(<<"q">>)>>), Opt(FALSE, TRUE, "pass_read", "absent"))}
Partners == IF Tier = "quick" THEN QuickPartners
            ELSE {Req("B1", Obj(<<"b">>, <<Str(<<"s">>)>>), Opt(FALSE, FALSE, "none", "absent")),
                  Req("B2", Obj(<<>>, <<>>), Opt(FALSE, TRUE, "pass_read", "mixed2"))}

S(op, r) == [op |-> op, r |-> r]
Sym == {S(op, r) : op \in {"V", "R"}, r \in 1..2}
Sym1 == {S(op, 1) : op \in {"V", "R"}}
QuickSteps == { <<S("V", 1), S("V", 2)>>,                 \* B is validated before A's body is read
                <<S("V", 1), S("V", 1)>>,                 \* a second validation without a read in between
                <<S("V", 1), S("V", 2), S("V", 1)>>,
                <<S("V", 1), S("R", 1), S("V", 2)>>,      \* read, then another request, then (final) read again through the rewind
                <<S("R", 1), S("V", 1), S("V", 2)>> }     \* validated after a rewind
AllSteps == {<<a, b>> : a \in Sym1, b \in Sym} \cup {<<S("V", 1), b, c>> : b \in Sym, c \in Sym}
Steps == IF Tier = "quick" THEN QuickSteps ELSE AllSteps
Final == <<S("R", 1), S("R", 2)>>

Init == \E id \in DOMAIN G!Schemas, o \in Opts, p \in Partners, st \in Steps :
          \E v \in G!Bodies[id] :
             case = [kind |-> "hist", reqs |-> <<Req(id, v, o), p>>, steps |-> st \o Final]
Next == UNCHANGED case
Spec == Init /\ [][Next]_case
Emit == CSVWrite("%1$s", <<ToJson(case)>>, "cases.ndjson")
=============================================================================
