SPECIFICATION Spec
CONSTANTS DefaultCopied = FALSE
 RouteCopied = TRUE
 MaxOps = 2
INVARIANTS NoRace
CHECK_DEADLOCK FALSE
