----------------------------- MODULE Internalize -----------------------------
(***************************************************************************)
(* L2 of openapi3.DefaultRefNameResolver (internalize_refs.go): the name a *)
(* reference to an external component gets when it is internalised:        *)
(*   - cut "#/components/<kind>/" from the fragment,                       *)
(*   - cut the file extension(s),                                          *)
(*   - trim the directory shared with the root document,                   *)
(*   - replace every character that is not valid in a component name       *)
(*     ('/' in particular) by '_',                                         *)
(*   - join file part and component name with '_'.                         *)
(* L1 (property C16): distinct external targets are never merged under one *)
(* component name, i.e. the name is injective on (file, component name).   *)
(* File paths are sequences of segments below the root's directory,        *)
(* without extension; segments and names may themselves contain '_' or '.'.*)
(***************************************************************************)
EXTENDS Naturals, Sequences, FiniteSets, TLC

RECURSIVE JoinU(_)
JoinU(p) == IF p = <<>> THEN "" ELSE IF Len(p) = 1 THEN p[1] ELSE p[1] \o "_" \o JoinU(Tail(p))

(* invalid characters are replaced by '_': the universe spells a segment "a.b" as the pair <<"a","b">> joined  *)
(* by '.', which the resolver turns into "a_b"                                                                 *)
Sanitize(seg) == CASE seg = "a.b" -> "a_b" [] OTHER -> seg

(* the name is computed from the PATH of the target's location and the fragment only: scheme and host are dropped *)
RECURSIVE TrimDots(_)
TrimDots(file) == IF file # <<>> /\ Head(file) \in {".", ".."} THEN TrimDots(Tail(file)) ELSE file     \* strings.TrimLeft(filePath, "./")
InternalName(file, name) == JoinU([i \in DOMAIN TrimDots(file) |-> Sanitize(TrimDots(file)[i])] \o <<name>>)
InternalNameAt(origin, file, name) == InternalName(file, name)
Origins == {"", "https://m.example"}

Files == {<<"a">>, <<"b">>, <<"sub", "a">>, <<"sub_a">>, <<"a.b">>, <<"a_b">>, <<"sub", "deep", "a">>, <<"sub", "deep_a">>,
          <<"shared", "x">>, <<"..", "shared", "x">>}      \* the last one lies beside the root's directory: leading "./" and "../" are trimmed
Names == {"X", "X_Y", "a_X"}
Targets == Files \X Names
OTargets == Origins \X Files \X Names

Injective == /\ \A t1, t2 \in Targets : InternalName(t1[1], t1[2]) = InternalName(t2[1], t2[2]) => t1 = t2
             /\ \A t1, t2 \in OTargets : InternalNameAt(t1[1], t1[2], t1[3]) = InternalNameAt(t2[1], t2[2], t2[3]) => t1 = t2

(* the collisions of the naming scheme, as TLC enumerates them (evidence of the open finding F-C16-1) *)
Collisions == {<<t1, t2>> \in Targets \X Targets : t1 # t2 /\ InternalName(t1[1], t1[2]) = InternalName(t2[1], t2[2])}

(***************************************************************************)
(* Deep references: a reference may point BELOW a component, and into a    *)
(* component of another collection than its own kind (the body schema of a *)
(* response: lib#/components/responses/Pet/content/application~1json/      *)
(* schema).  The resolver cuts "components/<collection of the reference's  *)
(* own kind>" out of the fragment and nothing else (design "own"), so the  *)
(* collection of a foreign container stays part of the name.  A target is  *)
(* [coll, name, sub, kind]: the pointer tokens below the component are sub *)
(* (already sanitised), kind is the kind of the reference.                 *)
(* Design "any" (cut "components/<whatever>") is the variant that merges   *)
(* same-named components of two collections; "base" (for references back  *)
(* into the root: keep only the last pointer token) the one that merges    *)
(* same-named leaves of two components.  Both are refuted here at design   *)
(* level and realised against the code by the shapes deepcomp_twocoll,     *)
(* deepback2 and deepback_named of Gen_C02.                                *)
(***************************************************************************)
DeepSegs(design, t) ==
   CASE design = "own" -> (IF t.coll = t.kind THEN <<t.name>> \o t.sub ELSE <<"components", t.coll, t.name>> \o t.sub)
     [] design = "any" -> <<t.name>> \o t.sub
     [] design = "base" -> (IF t.sub = <<>> THEN <<t.name>> ELSE <<t.sub[Len(t.sub)]>>)
DeepName(design, file, t) == JoinU(file \o DeepSegs(design, t))

SubsOf(coll) == CASE coll = "schemas" -> {<<>>, <<"properties", "p">>}
                  [] coll \in {"parameters", "headers"} -> {<<"schema">>}
                  [] coll \in {"requestBodies", "responses"} -> {<<"content", "application_1json", "schema">>}
DeepTargets == UNION {{[coll |-> c, name |-> n, sub |-> sb, kind |-> "schemas"] : n \in {"Pet", "Cat", "p"}, sb \in SubsOf(c)}
                         : c \in {"schemas", "parameters", "headers", "requestBodies", "responses"}}
DeepInjective(design, file) == \A t1, t2 \in DeepTargets : DeepName(design, file, t1) = DeepName(design, file, t2) => t1 = t2

VARIABLE x
Init == x = 0
Next == UNCHANGED x
Spec == Init /\ [][Next]_x
NamesInjective == (x = 0) => Injective
(* external file "lib" and the root document itself (no file part) *)
DeepNamesInjectiveAsBuilt == (x = 0) => (DeepInjective("own", <<"lib">>) /\ DeepInjective("own", <<>>))
DeepNamesInjectiveCutAny == (x = 0) => DeepInjective("any", <<"lib">>)
DeepNamesInjectiveBase == (x = 0) => DeepInjective("base", <<>>)
=============================================================================
