----------------------------- MODULE Internalize -----------------------------
(***************************************************************************)
(* L2 of openapi3.DefaultRefNameResolver (internalize_refs.go): the name a *)
(* reference to an external component gets when it is internalised:        *)
(*   - cut "#/components/<kind>/" from the fragment,                       *)
(*   - cut the file extension(s),                                          *)
(*   - trim the directory shared with the root document,                   *)
(*   - replace every character that is not valid in a component name       *)
(*     ('/' in particular) by '_',                                         *)
(*   - join file part and component name with '_'.                         *)
(* L1 (property C16): distinct external targets are never merged under one *)
(* component name, i.e. the name is injective on (file, component name).   *)
(* File paths are sequences of segments below the root's directory,        *)
(* without extension; segments and names may themselves contain '_' or '.'.*)
(***************************************************************************)
EXTENDS Naturals, Sequences, FiniteSets, TLC

RECURSIVE JoinU(_)
JoinU(p) == IF p = <<>> THEN "" ELSE IF Len(p) = 1 THEN p[1] ELSE p[1] \o "_" \o JoinU(Tail(p))

(* invalid characters are replaced by '_': the universe spells a segment "a.b" as the pair <<"a","b">> joined  *)
(* by '.', which the resolver turns into "a_b"                                                                 *)
Sanitize(seg) == CASE seg = "a.b" -> "a_b" [] OTHER -> seg

(* the name is computed from the PATH of the target's location and the fragment only: scheme and host are dropped *)
RECURSIVE TrimDots(_)
TrimDots(file) == IF file # <<>> /\ Head(file) \in {".", ".."} THEN TrimDots(Tail(file)) ELSE file     \* strings.TrimLeft(filePath, "./")
InternalName(file, name) == JoinU([i \in DOMAIN TrimDots(file) |-> Sanitize(TrimDots(file)[i])] \o <<name>>)
InternalNameAt(origin, file, name) == InternalName(file, name)
Origins == {"", "https://m.example"}

Files == {<<"a">>, <<"b">>, <<"sub", "a">>, <<"sub_a">>, <<"a.b">>, <<"a_b">>, <<"sub", "deep", "a">>, <<"sub", "deep_a">>,
          <<"shared", "x">>, <<"..", "shared", "x">>}      \* the last one lies beside the root's directory: leading "./" and "../" are trimmed
Names == {"X", "X_Y", "a_X"}
Targets == Files \X Names
OTargets == Origins \X Files \X Names

Injective == /\ \A t1, t2 \in Targets : InternalName(t1[1], t1[2]) = InternalName(t2[1], t2[2]) => t1 = t2
             /\ \A t1, t2 \in OTargets : InternalNameAt(t1[1], t1[2], t1[3]) = InternalNameAt(t2[1], t2[2], t2[3]) => t1 = t2

(* the collisions of the naming scheme, as TLC enumerates them (evidence of the open finding F-C16-1) *)
Collisions == {<<t1, t2>> \in Targets \X Targets : t1 # t2 /\ InternalName(t1[1], t1[2]) = InternalName(t2[1], t2[2])}

VARIABLE x
Init == x = 0
Next == UNCHANGED x
Spec == Init /\ [][Next]_x
NamesInjective == (x = 0) => Injective
=============================================================================
