SPECIFICATION Spec
CONSTANT RestoreOnEveryReturn = FALSE
INVARIANTS BodyReadable NoSpuriousBodyFailure
CHECK_DEADLOCK FALSE
