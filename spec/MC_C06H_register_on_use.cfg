SPECIFICATION Spec
CONSTANTS Policy = "register_on_use"
 MaxSteps = 3
INVARIANTS L2ImpliesL1
CHECK_DEADLOCK FALSE
