SPECIFICATION Spec
CONSTANTS Dev <- Pinned
INVARIANTS Judge
POSTCONDITION AllConsumed
CHECK_DEADLOCK FALSE
