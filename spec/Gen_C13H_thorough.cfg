SPECIFICATION Spec
CONSTANT Tier = "thorough"
INVARIANT Emit
CHECK_DEADLOCK FALSE
