------------------------------- MODULE MC_C04 -------------------------------
(***************************************************************************)
(* C04: design check (D) and case generator (F).                           *)
(* A state is a location path through the containment graph, grown one     *)
(* edge at a time from the root (Grow), closed by the choice of a leaf     *)
(* (Finish).  BFS under the bounds below enumerates every location up to   *)
(* that depth and, at each, every conforming variant, every single         *)
(* violation and every reference form of the kind found there.             *)
(* D: on every closed state the builder and the judge agree (Agree): the   *)
(*    judge finds exactly the violation the case names, at the location it *)
(*    names, and nothing in conforming cases; each option switches only    *)
(*    the rule it names (OptionTable); every rule has a reachable subject  *)
(*    (the ASSUME below).                                                  *)
(* F: every closed state is written once to cases.ndjson.                  *)
(***************************************************************************)
EXTENDS DocBuild, DocImpl, Json, CSV

CONSTANTS MaxDepth,      \* longest location path (edges)
          MaxNest,       \* schema-in-schema edges on a path
          MaxPos2,       \* edges on a path taken at the second position of an array / map
          Pos2Tail,      \* a second-position edge must be among the last Pos2Tail edges of a closed path
          DeepMethods,   \* operations explored to full depth; the others to ShallowBelow edges below the operation
          ShallowBelow,
          CbBelow,       \* edges explored below an operation's callbacks edge
          AuxDepth,      \* a schema's externalDocs / discriminator / xml are explored only for schemas at most this deep
          Lean           \* TRUE: the full leaf set only at the shallowest locations of a kind, canaries elsewhere

VARIABLES path, leaf
vars == <<path, leaf>>

Open == [rule |-> "", var |-> ""]
Init == path = <<>> /\ leaf = Open

CountSteps(p, Test(_)) == Cardinality({i \in DOMAIN p : Test(p[i])})
IsNest(st) == st.from = "schema" /\ st.kind = "schema"
IsPos2(st) == st.pos = 2
IsShallowOp(st) == st.kind = "operation" /\ st.f \notin DeepMethods
IsCb(st) == st.from = "operation" /\ st.f = "callbacks"
FirstIdx(p, Test(_)) == CHOOSE i \in DOMAIN p : Test(p[i]) /\ \A j \in DOMAIN p : Test(p[j]) => i <= j

StepOK(p, e, pos) ==
   /\ Len(p) < MaxDepth
   /\ (pos = 2) => /\ e.mode \in {"arr", "map", "self"}
                   /\ ~(e.f = "variables") /\ ~(KindAt(p) = "callback")
                   /\ ~(KindAt(p) \in {"parameter", "header"} /\ e.f = "content")   \* exactly one entry allowed
                   /\ CountSteps(p, IsPos2) < MaxPos2
   /\ (pos = 3) => \/ KindAt(p) = "schema" /\ e.f \in {"items", "properties", "additionalProperties"}
                   \/ KindAt(p) \in {"mediaType", "parameter", "header"} /\ e.f = "examples"
   /\ (KindAt(p) = "schema" /\ e.kind = "schema") => CountSteps(p, IsNest) < MaxNest
   /\ (\E i \in DOMAIN p : IsShallowOp(p[i])) => Len(p) - FirstIdx(p, IsShallowOp) < ShallowBelow
   /\ (\E i \in DOMAIN p : IsCb(p[i])) => /\ Len(p) - FirstIdx(p, IsCb) < CbBelow
                                          /\ ~(KindAt(p) = "operation" /\ e.f = "callbacks")
   /\ (KindAt(p) = "schema" /\ e.kind \in {"externalDocs", "discriminator", "xml"}) => Len(p) <= AuxDepth
   (* an encoding object only means something next to an object schema in a request body *)
   /\ (e.f = "encoding") => \E i \in DOMAIN p : p[i].kind = "requestBody"

Grow == /\ leaf = Open
        /\ \E e \in Edges(KindAt(path)), pos \in {1, 2, 3} :
              /\ StepOK(path, e, pos)
              /\ path' = Append(path, Step(KindAt(path), e, pos))
        /\ UNCHANGED leaf

(* shortest distance of a kind from the root in the containment graph (constant table) *)
RECURSIVE ReachFrom(_, _)
ReachFrom(ks, n) == IF n = 0 THEN ks ELSE ReachFrom(ks \cup UNION {{e.kind : e \in Edges(k)} : k \in ks}, n - 1)
ReachTab == [n \in 0..8 |-> ReachFrom({"root"}, n)]
MinDepthTab == [k \in Kinds |-> CHOOSE n \in 0..8 : k \in ReachTab[n] /\ (n = 0 \/ k \notin ReachTab[n - 1])]

(* lean mode: leaves tried at every location (the others only at the shallowest locations of their kind) *)
CanaryRules == {"ref_ok", "ref_sibling", "ref_ext_sibling", "unresolved", "extra_field",
                "default_mismatch", "example_mismatch", "in_invalid", "bad_style", "description_missing",
                "content_missing", "responses_missing", "value_missing", "operation_missing", "url_missing",
                "default_missing", "dup_param", "examples_mismatch", "value_and_external", "null_member"}
CanaryVars == {"min", "ref", "external", "bogus", "number", "body", "form", "simple", "absent", "twice", "query_simple", "both", "null", "bogus_on_empty"}
Canary(lf) == (lf.rule \in CanaryRules \cup {"none"}) /\ lf.var \in CanaryVars \cup ModeVars
(* a leaf whose verdict depends on the mode of the place: the violation where the mode is in viol, the conforming twin elsewhere; *)
(* tried at media types and headers everywhere, at schemas where they are the schema of a media type / parameter / header / component *)
ModeLeafOK(p, lf) ==
   LET mode == ModeOf(ViaOfPath(p)) IN
   /\ \A m \in ModeLeaves \cup MapLeaves : /\ ((lf.var = m.bad) => (mode \in m.viol))
                             /\ ((lf.var = m.ok) => (mode \notin m.viol))
   /\ (KindAt(p) = "schema" /\ Len(p) > 0) => p[Len(p)].from # "schema"

ExtraVars == UNION {{x.var : x \in ExtraOn(k)} : k \in Kinds}
(* context-dependent leaves *)
LeafOK(p, lf) ==
   /\ Lean => (Len(p) <= MinDepthTab[KindAt(p)] \/ Canary(lf))
   /\ (lf.var \in PathOnlyVars) => (Len(p) = 2 /\ p[1].f = "components")
   /\ (lf.var \in ModeVars) => ModeLeafOK(p, lf)
   (* slicing: the extra field on the empty object is tried at every place (lean: except schema-in-schema ones beyond the shallowest); *)
   (* on the other conforming variants at the places at most two edges deeper than the shallowest place of the kind          *)
   /\ (Lean /\ lf.var = "bogus_on_empty" /\ Len(p) > MinDepthTab[KindAt(p)]) => p[Len(p)].from # "schema"
   /\ (lf.var \in ExtraVars \ {"bogus_on_empty"}) => Len(p) <= MinDepthTab[KindAt(p)] + 2
   /\ (lf.var \in SelfRefVars) => (Len(p) = 2 /\ p[1].f = "components" /\ p[2].f = "schemas" /\ p[2].pos = 1)
   /\ \A i \in DOMAIN p : IsPos2(p[i]) => Len(p) - i < Pos2Tail
   (* a security scheme reference is only meaningful as a component *)
   /\ TRUE

Finish == /\ leaf = Open
          /\ \E lf \in LeafChoices(path) : LeafOK(path, lf) /\ leaf' = lf
          /\ UNCHANGED path

Next == Grow \/ Finish
Spec == Init /\ [][Next]_vars

Closed == leaf # Open

(*--------------------------------- D -------------------------------------*)
(* under every option set, acceptance by the judge = "the rule the case names is not in force"; *)
(* i.e. every option switches exactly the rule it names and no other                              *)
RuleInForce(rule, opts) ==
   CASE rule \in {"example_mismatch", "examples_mismatch"} -> "DisEx" \notin opts
     [] rule = "default_mismatch" -> "DisDef" \notin opts
     [] rule = "bad_pattern" -> "DisPat" \notin opts /\ "RxAny" \notin opts
     [] rule = "unknown_format" -> "EnFmt" \in opts
     [] rule = "ref_sibling" -> "AllowDesc" \notin opts
     [] rule = "ref_sibling_zzz" -> "AllowZzz" \notin opts
     [] rule = "ref_ext_sibling" -> "Prohibit" \in opts
     [] rule \in {"none", "ref_ok"} -> FALSE
     [] OTHER -> TRUE
OptSetTab == [i \in 1..NOptSets |-> OptSet(i)]

CaseRec(d) == [path |-> [i \in DOMAIN path |-> [from |-> path[i].from, f |-> path[i].f, key |-> path[i].key,
                                                  pos |-> path[i].pos, kind |-> path[i].kind]],
               kind |-> KindAt(path), rule |-> leaf.rule, var |-> leaf.var, at |-> PtrOf(path), doc |-> d]

(* one invariant, so that the document and its violations are computed once per state:            *)
(*   Agree        the judge finds exactly what the case names                                     *)
(*   OptionTable  each option switches exactly the rule it names                                  *)
(*   Emit (F)     the case is written to cases.ndjson                                             *)
DAndEmit ==
   Closed =>
      LET d  == Doc(path, leaf)
          Vs == Viol(d) IN
      /\ Strip(Vs) = Expected(path, leaf)
      /\ (leaf.rule # "unresolved") =>
            \A i \in 1..NOptSets : Accept(Vs, OptSetTab[i]) = ~RuleInForce(leaf.rule, OptSetTab[i])
      /\ CSVWrite("%1$s", <<ToJson(CaseRec(d))>>, "cases.ndjson")

(* L2 => L1: the implementation-shaped model gives the contract's verdict.  Violated while findings are open *)
(* (MC_C04_pinned.cfg expects the counterexample); holds with every finding repaired (MC_C04_repaired.cfg).  *)
L2ImpliesL1 ==
   (Closed /\ leaf.rule # "unresolved") =>
      LET d  == Doc(path, leaf)
          Vs == Viol(d)
          sites == Sites(d)
          refusers == Refusers(d, sites)
          msites == ModeSites(d, sites) IN
      \A i \in 1..NOptSets : InScope(Vs, OptSetTab[i])
                               => ImplAcceptR(d, Vs, refusers, sites, msites, OptSetTab[i], NoOptionGiven(OptSeq(i))) = Accept(Vs, OptSetTab[i])

(* every kind is reachable from the root, so every rule has a subject at some location *)
ASSUME ReachTab[8] = Kinds
ASSUME \A i, j \in 1..NOptSets : i # j => OptSeq(i) # OptSeq(j)
ASSUME \A i \in 1..NSubsets : OptSet(i) = SeqRange(OptSeq(i))

(*--------------------------------- F -------------------------------------*)
(* the option sequences, once: line i = OptSeq(i) as a list of option names, applied in that order *)
OptList(i) == OptSeq(i)
EmitOpts == (path = <<>> /\ leaf = Open) =>
               \A i \in 1..NOptSets : CSVWrite("%1$s", <<ToJson([i |-> i, opts |-> OptList(i)])>>, "opts.ndjson")
=============================================================================
