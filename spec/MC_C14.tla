------------------------------- MODULE MC_C14 -------------------------------
(* Exhaustive design check of Middleware (L2 => L1) and generator of the handler       *)
(* behaviours that are replayed against the real middleware: every terminal state is   *)
(* written once as a test case (its cfg and script).                                   *)
EXTENDS Middleware, Json, CSV

Emit == phase = "done" =>
          CSVWrite("%1$s", <<ToJson([cfg |-> cfg, script |-> script])>>, "cases.ndjson")
=============================================================================
