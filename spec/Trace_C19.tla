------------------------------ MODULE Trace_C19 ------------------------------
(* Trace validation for C19: no reason text at any nesting level of a schema error, and  *)
(* no message assembled from reasons alone, contains a string value of the rejected      *)
(* value.  Values carry a unique marker at every string leaf; substring search is done   *)
(* here, on character sequences.                                                         *)
EXTENDS SchemaUniverse, Json, CSV

Trace == ndJsonDeserialize("trace.ndjson")

VARIABLE l
Init == l = 0
Next == l < Len(Trace) /\ l' = l + 1
Spec == Init /\ [][Next]_l

TheVals(line) == IF "vals" \in DOMAIN line THEN line.vals ELSE MVals

(* string values of the schema itself (enum members, defaults): a marker that occurs there is exempt *)
RECURSIVE SchemaStrs(_)
SchemaStrs(s) ==
   UNION {(IF Has(t, "enum") THEN UNION {StrLeaves(t.enum[i]) : i \in DOMAIN t.enum} ELSE {})
          \cup (IF Has(t, "default") THEN StrLeaves(t.default) ELSE {})
          \cup (IF Has(t, "discref") THEN {<<"k">>} ELSE {}) : t \in SubSchemas(s)}       \* the mapping key of "discref"

ErrLists(r) == (IF "de" \in DOMAIN r THEN {r.de} ELSE {}) \cup (IF "me" \in DOMAIN r THEN {r.me} ELSE {})
               \cup (IF "fe" \in DOMAIN r THEN {r.fe} ELSE {})
               \cup {r[k] : k \in {"ce", "cme", "te", "tme", "qce", "pce", "re", "rme"} \cap DOMAIN r}

(* every error list logged for the value, with the option sets it was observed under (<<>> for the fixed runs above); *)
(* r.x: the runs under the option sets of Gen_C19O, identical observations merged by the harness                     *)
Observed(r) == {[es |-> es, opts |-> <<>>] : es \in ErrLists(r)}
               \cup (IF "x" \in DOMAIN r THEN {[es |-> r.x[i].errs, opts |-> r.x[i].opts] : i \in DOMAIN r.x} ELSE {})

Leaks(s, v, r) ==
   LET ms == StrLeaves(v) \ SchemaStrs(s) IN
   {x \in UNION {UNION {{[where |-> "reason", text |-> e.reasons[j], field |-> (IF "field" \in DOMAIN e THEN e.field ELSE "-"), opts |-> ob.opts]
                             : j \in DOMAIN e.reasons}
                         \cup {[where |-> "message", text |-> e.text, field |-> (IF "field" \in DOMAIN e THEN e.field ELSE "-"), opts |-> ob.opts]}
                         : e \in Range(ob.es)}
                 : ob \in Observed(r)}
      : \E m \in ms : Contains(x.text, m)}

Shared(line) == "share" \in DOMAIN line      \* repeated sub-schemas realised as references to one shared component

SchemaLineOK(line) ==
   IF line.load # "ok"
   THEN CSVWrite("%1$s", <<ToJson([case |-> line.case, s |-> line.s, share |-> Shared(line), failed |-> {"schema_does_not_load"},
                                    class |-> "none"])>>, "violations.ndjson")
   ELSE LET vs == TheVals(line) IN
        \A i \in DOMAIN vs :
           LET lk == Leaks(line.s, vs[i], line.r[i]) IN
           lk = {} \/ CSVWrite("%1$s", <<ToJson([case |-> line.case, s |-> line.s, share |-> Shared(line), v |-> vs[i], failed |-> {"reason_leaks_value"},
                                                  leaks |-> lk, class |-> "none"])>>, "violations.ndjson")

ReqLineOK(line) ==
   LET bad == (IF line.verdict # "R" THEN {"harness_realiser"} ELSE {})
              \cup (IF \E i \in DOMAIN line.texts : Contains(line.texts[i], line.marker) THEN {"message_leaks_value"} ELSE {})
   IN bad = {} \/ CSVWrite("%1$s", <<ToJson([case |-> line.case, kind |-> "req", c |-> line.c, failed |-> bad,
                                              texts |-> line.texts, class |-> "none"])>>, "violations.ndjson")

LineOK(line) == IF "kind" \in DOMAIN line /\ line.kind = "req" THEN ReqLineOK(line) ELSE SchemaLineOK(line)

Judge == l > 0 => LineOK(Trace[l])
AllConsumed == TLCGet("stats").diameter = Len(Trace) + 1

(* D: marker discipline -- no marker occurs inside any schema text of the universe *)
=============================================================================
