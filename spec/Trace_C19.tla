------------------------------ MODULE Trace_C19 ------------------------------
(* Trace validation for C19: no reason text at any nesting level of a schema error, and  *)
(* no message assembled from reasons alone, contains a string value of the rejected      *)
(* value.  Values carry a unique marker at every string leaf; substring search is done   *)
(* here, on character sequences.                                                         *)
EXTENDS SchemaUniverse, Json, CSV

Trace == ndJsonDeserialize("trace.ndjson")

VARIABLE l
Init == l = 0
Next == l < Len(Trace) /\ l' = l + 1
Spec == Init /\ [][Next]_l

TheVals(line) == IF "vals" \in DOMAIN line THEN line.vals ELSE MVals

(* string values of the schema itself (enum members, defaults): a marker that occurs there is exempt *)
RECURSIVE SchemaStrs(_)
SchemaStrs(s) ==
   UNION {(IF Has(t, "enum") THEN UNION {StrLeaves(t.enum[i]) : i \in DOMAIN t.enum} ELSE {})
          \cup (IF Has(t, "default") THEN StrLeaves(t.default) ELSE {})
          \cup (IF Has(t, "discref") THEN {<<"k">>} ELSE {}) : t \in SubSchemas(s)}       \* the mapping key of "discref"

FixedLists == {"de", "me", "fe", "ce", "cme", "te", "tme", "qce", "pce", "re", "rme",
               \* history clause (the detail switch is process-wide state): "he" / "hme" are the texts of error objects that had
               \* been rendered once while details were enabled, rendered again after SchemaErrorDetailsDisabled was set -- each
               \* error by itself and the whole returned error (k = "whole").  What a text may contain depends on the switch
               \* at the time of rendering only.
               "he", "hme"}

(* every error list logged for the value, with its name and the option sets it was observed under (<<>> for the fixed runs); *)
(* r.x: the runs under the option sets of Gen_C19O, identical observations merged by the harness                           *)
Observed(r) == {[es |-> r[k], opts |-> <<>>, list |-> k] : k \in FixedLists \cap DOMAIN r}
               \cup (IF "x" \in DOMAIN r THEN {[es |-> r.x[i].errs, opts |-> r.x[i].opts, list |-> "x"] : i \in DOMAIN r.x} ELSE {})

Leaks(s, v, r) ==
   LET ms == StrLeaves(v) \ SchemaStrs(s) IN
   {x \in UNION {UNION {{[where |-> "reason", text |-> e.reasons[j], field |-> (IF "field" \in DOMAIN e THEN e.field ELSE "-"), opts |-> ob.opts, list |-> ob.list]
                             : j \in DOMAIN e.reasons}
                         \cup {[where |-> "message", text |-> e.text, field |-> (IF "field" \in DOMAIN e THEN e.field ELSE "-"), opts |-> ob.opts, list |-> ob.list]}
                         : e \in Range(ob.es)}
                 : ob \in Observed(r)}
      : \E m \in ms : Contains(x.text, m)}

(* F-C19-2 (open): the cause of a "oneOf" error is built with fmt.Errorf("... %w", errors of the alternatives), which renders  *)
(* the text of the alternatives' errors AT VALIDATION TIME; if details were enabled then, the frozen text keeps the value dump *)
(* however the switch stands when the oneOf error is rendered.  Only the history lists, only rendered messages (never a     *)
(* Reason), only for a schema with a oneOf somewhere -- or a format: the cause of a format error whose validator returned a     *)
(* schema error is built the same way (fmt.Errorf("... doesn't match the format %q: %w", format, err)).                        *)
HistoryClass(s, lk) ==
   IF /\ \E t \in SubSchemas(s) : Has(t, "oneOf") \/ Has(t, "discref") \/ Has(t, "format")
      \* (the frozen text is part of the message of the oneOf error and of every error that wraps it: allOf, items, properties, ...)
      /\ \A x \in lk : x.list \in {"he", "hme"} /\ x.where = "message"
   THEN "cause_text_frozen_at_validation" ELSE "none"

Shared(line) == "share" \in DOMAIN line      \* repeated sub-schemas realised as references to one shared component

SchemaLineOK(line) ==
   IF line.load # "ok"
   THEN CSVWrite("%1$s", <<ToJson([case |-> line.case, s |-> line.s, share |-> Shared(line), failed |-> {"schema_does_not_load"},
                                    class |-> "none"])>>, "violations.ndjson")
   ELSE LET vs == TheVals(line) IN
        \A i \in DOMAIN vs :
           LET lk == Leaks(line.s, vs[i], line.r[i]) IN
           lk = {} \/ CSVWrite("%1$s", <<ToJson([case |-> line.case, s |-> line.s, share |-> Shared(line), v |-> vs[i], failed |-> {"reason_leaks_value"},
                                                  leaks |-> lk, class |-> HistoryClass(line.s, lk)])>>, "violations.ndjson")

ReqLineOK(line) ==
   LET bad == (IF line.verdict # "R" THEN {"harness_realiser"} ELSE {})
              \cup (IF \E i \in DOMAIN line.texts : Contains(line.texts[i], line.marker) THEN {"message_leaks_value"} ELSE {})
   IN bad = {} \/ CSVWrite("%1$s", <<ToJson([case |-> line.case, kind |-> "req", c |-> line.c, failed |-> bad,
                                              texts |-> line.texts,
                                              \* F-C19-2 seen through the request / response error: rendered late, failing keyword with a frozen cause
                                              class |-> (IF bad = {"message_leaks_value"} /\ line.c.hide = "nodetails_late" /\ line.c.kw \in {"oneOf", "format"}
                                                         THEN "cause_text_frozen_at_validation" ELSE "none")])>>, "violations.ndjson")

LineOK(line) == IF "kind" \in DOMAIN line /\ line.kind = "req" THEN ReqLineOK(line) ELSE SchemaLineOK(line)

Judge == l > 0 => LineOK(Trace[l])
AllConsumed == TLCGet("stats").diameter = Len(Trace) + 1

(* D: marker discipline -- no marker occurs inside any schema text of the universe *)
=============================================================================
