SPECIFICATION Spec
CONSTANTS
  EncoderBuffer = "fresh"
  EncodeVar = "own"
  Encoders = {"application/json", "application/problem+json"}
  NoEncoder = "forward"
  CloseBinding = "at_defer"
  Small = FALSE
  MTs = {"application/json", "application/problem+json", "application/x-www-form-urlencoded"}
  MaxV1 = 2
  MaxV2 = 1
  MaxR1 = 2
  MaxR2 = 1
INVARIANTS RequestsAtRestOK
CHECK_DEADLOCK FALSE
