----------------------------- MODULE FindingsC09 -----------------------------
(* Finding classes for C09 (see known_findings.json).  Each class is the minimal trigger *)
(* of one defect of the pinned tree together with the specific wrong observation: the    *)
(* observation must be exactly what the implementation-shaped model of the pinned code   *)
(* (Router!MuxObs / Router!LegacyObs with every repair switch off) predicts, and the     *)
(* deviation must be of the named kind.  Any other wrong answer -- on the same input or  *)
(* elsewhere -- is "none" and is reported as a violation.                                *)
EXTENDS Router

(* the model's parameters (template variables) are among the observed ones (which may    *)
(* also carry server variables) and no template variable is observed with another value *)
SameParams(obs, model) == /\ \A i \in 1..Len(model) : \E j \in 1..Len(obs) : obs[j] = model[i]
                          /\ \A j \in 1..Len(obs) : \A i \in 1..Len(model) : obs[j].n = model[i].n => obs[j] = model[i]

TemplOf(doc, path) == doc.templates[CHOOSE t \in 1..Len(doc.templates) : TemplStr(doc.templates[t]) = path]
HasTempl(doc, path) == \E t \in 1..Len(doc.templates) : TemplStr(doc.templates[t]) = path

(* the legacy router did what its pinned model does, and that is a route *)
LegacyAsPinned(doc, req, obs) ==
   LET p == CurLegacyObs(doc, req) IN
   /\ obs.k = "route" /\ p.k = "route" /\ obs.path = p.path /\ obs.m = p.m /\ obs.op = p.op
   /\ SameParams(obs.params, p.params)

(* F-C09-1: pathpattern.Node.matchRemaining lets a {variable} match the empty string     *)
(* (and lets a "/" be consumed at the end of the input), so "/b" is routed to "/b/{x}"   *)
(* and "/c//d" to "/c/{x}/d" with x = "".                                                *)
LegacyEmptyBinding(doc, req, obs) ==
   /\ LegacyAsPinned(doc, req, obs)
   /\ BindsEmpty(TemplOf(doc, obs.path), obs.params)

(* F-C09-2: pathpattern strips every trailing "/" from the input: "/b/v/" is routed like *)
(* "/b/v".  The answer is the correct one for the path without its trailing slashes.     *)
Stripped(req) == [req EXCEPT !.u.path = StripSlashes(req.u.path)]
LegacyTrailingSlash(doc, req, obs) ==
   /\ LegacyAsPinned(doc, req, obs)
   /\ Len(req.u.path) > 0 /\ req.u.path[Len(req.u.path)] = ""
   /\ ~BindsEmpty(TemplOf(doc, obs.path), obs.params)
   /\ Failed(doc, Stripped(req), obs) = {}

(* F-C09-2 seen from the root template: the pattern tree strips the trailing "/" of the template "/" as well, *)
(* so under a server with base path /b the root operation answers "/b", "/b//", ... (any number of trailing   *)
(* slashes other than the one the template has).  The answer is the correct one for "/b/".                     *)
RootSlashed(req) == [req EXCEPT !.u.path = StripSlashes(req.u.path) \o <<"">>]
LegacyRootTrailingSlash(doc, req, obs) ==
   /\ obs.k = "route" /\ obs.path = "/"            \* (obs.params may carry the variables of the matched server; the template has none)
   /\ req.u.path # RootSlashed(req).u.path
   /\ Failed(doc, RootSlashed(req), obs) = {}

(* F-C09-3: legacy FindRoute calls PathItem.GetOperation(method) when the tree has no    *)
(* match but the path is literally a key of paths; GetOperation panics for a method      *)
(* outside the nine it knows.                                                            *)
LegacyUnknownMethodPanic(doc, req, obs) ==
   /\ obs.k = "panic" /\ req.m \notin Std9
   /\ CurLegacyObs(doc, req).k = "panic"

(* the gorillamux router did what its pinned model does *)
MuxAsPinned(doc, req, obs) ==
   LET p == CurMuxObs(doc, req) IN
   /\ Gist(obs) = Gist(p)
   /\ obs.k = "route" => obs.m = p.m /\ obs.op = p.op /\ SameParams(obs.params, p.params)

(* F-C09-4: gorillamux FindRoute returns ErrMethodNotAllowed at the first mux route that *)
(* matches in everything but the method, although a later route (another template that   *)
(* matches the same path) declares the method.                                           *)
MuxMethodShadow(doc, req, obs, failed) ==
   /\ obs = MethodNotAllowed /\ failed = {"declared_request_not_routed"}
   /\ MuxAsPinned(doc, req, obs)
   /\ \/ MuxObs(MuxSees(doc), req, TRUE, FALSE).k = "route"
      \/ HasOverride(doc) /\ MuxObs(MuxSees(doc), req, TRUE, TRUE).k = "route"    \* compound with F-C09-5

(* F-C09-5: gorillamux NewRouter assigns a path item's own servers to the variable that  *)
(* holds the document's servers, so every path after it in matching order is registered  *)
(* under that path item's servers: requests under the document's server are not found,   *)
(* requests under the other path's server are routed.  The observation is the pinned     *)
(* model's, and the model with a loop-local server list answers differently.             *)
MuxServersLeak(doc, req, obs) ==
   /\ HasOverride(doc) /\ MuxAsPinned(doc, req, obs)
   /\ Gist(MuxObs(MuxSees(doc), req, FALSE, TRUE)) # Gist(CurMuxObs(doc, req))

(* F-C09-9 (FIXED in /repo: 55b24e0; CurMuxObs now has portClobbers off, so the predicate  *)
(* below can no longer hold -- a clobbered path parameter is reported as a violation):      *)
(* gorillamux makeServers replaces a port variable by its default and installs a *)
(* varsUpdater that writes name -> default into the map of path parameters AFTER the      *)
(* match: a variable of the matched path template that has the port variable's name is    *)
(* overwritten, so the returned parameters no longer reproduce the request path.  The     *)
(* observation is the pinned model's, and the same route with the template's own value    *)
(* (portClobbers off) satisfies the contract.                                             *)
MuxPortClobbers(doc, req, obs, failed) ==
   /\ obs.k = "route" /\ failed = {"route_does_not_reproduce_path"}
   /\ MuxAsPinned(doc, req, obs)
   /\ MuxObsP(MuxSees(doc), req, FALSE, TRUE, FALSE) # CurMuxObs(doc, req)
   /\ Failed(doc, req, MuxObsP(MuxSees(doc), req, FALSE, TRUE, FALSE)) = {}

(* F-C09-10: gorilla/mux refuses a route whose host template and path template share a    *)
(* variable name ("duplicated route variable"), so gorillamux.NewRouter fails for a valid *)
(* document in which a server's host variable is named like a path parameter of a path    *)
(* offered under it.  The class is exactly the pinned model's prediction.                 *)
BuildClass(doc, router, built) ==
   IF router = "g" /\ built = "error" /\ ~CurMuxBuilds(doc) THEN "mux_newrouter_duplicate_variable" ELSE "none"

(* the legacy router did what its model of the current code does (route or route error) *)
LegacyAsModel(doc, req, obs) ==
   LET p == CurLegacyObs(doc, req) IN
   /\ Gist(obs) = Gist(p)
   /\ obs.k = "route" => obs.m = p.m /\ obs.op = p.op /\ SameParams(obs.params, p.params)

(* F-C09-7 / F-C09-8 (both FIXED in /repo: efc0e5c, f36c066; CurLegacyObs now has wirePath *)
(* on, so the two predicates below can no longer hold -- a fragment or an encoded        *)
(* segment that still changes the result is reported as a violation):                    *)
(* what legacy FindRoute matches is not the wire path.  The           *)
(* observation is the model's, and the model that is handed the wire path (no query, no  *)
(* fragment, not decoded) answers differently.                                           *)
(*  F-C09-7 (servers declared): Servers.MatchURL cuts url.String() at the first "?"      *)
(*    only; a fragment that follows the path directly ("/v1/pets/42#top") stays glued to *)
(*    the last segment: id = "42#top", the literal /pets/mine#top goes to /pets/{id}.    *)
(*  F-C09-8 (no servers): FindRoute matches url.Path, the DECODED path: "/a/x%2Fy" is    *)
(*    split into three segments, the literal template "/a%20b" never matches "/a%20b".   *)
LegacyUrlView(doc, req, obs) ==
   /\ obs.k \in {"route", "rerr"} /\ LegacyAsModel(doc, req, obs)
   /\ LegacyObsH(LegacySees2(doc), req, FALSE, FALSE, TRUE, TRUE, FALSE) # CurLegacyObs(doc, req)
LegacyFragment(doc, req, obs) == Len(doc.servers) > 0 /\ FragGlued(req.u) /\ LegacyUrlView(doc, req, obs)
LegacyDecoded(doc, req, obs) ==
   /\ Len(doc.servers) = 0 /\ \E i \in 1..Len(req.u.path) : IsEnc(req.u.path[i])
   /\ LegacyUrlView(doc, req, obs)

(* F-C09-11 (FIXED in /repo: 56bff20; CurLegacyObs now has seesHost on, so the predicate   *)
(* below can no longer hold): the legacy router matches Request.URL only.  A request in server form (the    *)
(* form every handler of a net/http server receives: path in URL, host in Request.Host,    *)
(* https as Request.TLS) is matched as the relative URL of its path, so under absolute      *)
(* servers it is never found.  The observation is a route error, it is what the model of   *)
(* the pinned code predicts, and the model that sees the request's host answers otherwise. *)
LegacyIgnoresHost(doc, req, obs) ==
   /\ UForm(req.u) = "server" /\ obs.k = "rerr"
   /\ Gist(obs) = Gist(CurLegacyObs(doc, req))
   /\ Gist(LegacyObsH(LegacySees2(doc), req, FALSE, FALSE, TRUE, TRUE, TRUE)) # Gist(CurLegacyObs(doc, req))

(* F-C09-12: the legacy router treats every server variable as a wildcard: a URL whose     *)
(* scheme or port is outside the enum of the variable in that position -- a URL under no   *)
(* declared server (a host label outside its enum is an open region) -- is routed.  The observation is a route, it is what the  *)
(* model of the code (enums erased) predicts, and the same model on the document with its  *)
(* enums answers otherwise.                                                                *)
LegacyIgnoresEnum(doc, req, obs) ==
   /\ obs.k = "route" /\ LegacyAsModel(doc, req, obs)
   /\ Gist(LegacyObsH(doc, req, FALSE, FALSE, TRUE, TRUE, TRUE)) # Gist(CurLegacyObs(doc, req))

(* F-C09-6: the legacy router never looks at path-level servers.  The observation is     *)
(* correct (or deviates in one of the other legacy classes) for the document without     *)
(* its path-level servers, and the document has some.                                    *)
LegacyClass(doc, req, obs) ==
   IF LegacyUnknownMethodPanic(doc, req, obs) THEN "legacy_unknown_method_panic"
   ELSE IF LegacyIgnoresHost(doc, req, obs) THEN "legacy_ignores_request_host"
   ELSE IF LegacyIgnoresEnum(doc, req, obs) THEN "legacy_ignores_server_variable_enum"
   ELSE IF LegacyFragment(doc, req, obs) THEN "legacy_fragment_glued_to_path"
   ELSE IF LegacyDecoded(doc, req, obs) THEN "legacy_noserver_decoded_path"
   ELSE IF obs.k = "route" /\ HasTempl(doc, obs.path) /\ LegacyEmptyBinding(doc, req, obs) THEN "legacy_empty_binding"
   ELSE IF obs.k = "route" /\ HasTempl(doc, obs.path) /\ obs.path # "/" /\ LegacyTrailingSlash(doc, req, obs) THEN "legacy_trailing_slash"
   ELSE IF obs.k = "route" /\ HasTempl(doc, obs.path) /\ LegacyRootTrailingSlash(doc, req, obs) THEN "legacy_trailing_slash"
   ELSE "none"

Class(doc, req, router, obs, failed) ==
   IF router = "l" THEN
      (IF ~HasOverride(doc) THEN LegacyClass(doc, req, obs)
       ELSE IF Gist(obs) # Gist(CurLegacyObs(doc, req)) THEN "none"
       ELSE IF Failed(Flat(doc), req, obs) = {} THEN "legacy_ignores_path_servers"
       ELSE LegacyClass(Flat(doc), req, obs))
   ELSE IF router = "g" /\ obs.k = "rerr" /\ MuxMethodShadow(doc, req, obs, failed) THEN "mux_method_mismatch_shadows_later_template"
   ELSE IF router = "g" /\ obs.k \in {"route", "rerr"} /\ MuxServersLeak(doc, req, obs) THEN "mux_path_servers_leak"
   ELSE IF router = "g" /\ obs.k = "route" /\ MuxPortClobbers(doc, req, obs, failed) THEN "mux_port_variable_overwrites_path_parameter"
   ELSE "none"
=============================================================================
