---------------------------- MODULE RequestCheck ----------------------------
(***************************************************************************)
(* L1 contract of openapi3filter.ValidateRequest (property C07) and an L2  *)
(* model of the security evaluation as a state machine over the calls of   *)
(* the authentication callback.                                            *)
(*                                                                         *)
(* A case is a record                                                      *)
(*   opSec   : [absent |-> TRUE] or [list |-> <<requirement, ...>>]        *)
(*   docSec  : <<requirement, ...>>      requirement = sorted seq of scheme names *)
(*   accepts : set of scheme names the callback accepts                    *)
(*   pparams, oparams : sequences of [in, name, kind]  (path-item / operation level) *)
(*   values  : sequence of [in, name, text]  what the request carries      *)
(*   body    : "none" | "pass" | "fail"                                    *)
(*   multi, exclBody, exclQuery, authReadsBody : BOOLEAN                   *)
(***************************************************************************)
EXTENDS Naturals, Sequences, FiniteSets, TLC

Range(f) == {f[i] : i \in DOMAIN f}

EffSec(c) == IF "absent" \in DOMAIN c.opSec THEN c.docSec ELSE c.opSec.list

ReqOK(r, accepts) == \A i \in DOMAIN r : r[i] \in accepts
SecOK(c) == LET es == EffSec(c) IN es = <<>> \/ \E i \in DOMAIN es : ReqOK(es[i], c.accepts)

Key(p) == <<p.in, p.name>>
Overridden(c, p) == \E o \in Range(c.oparams) : Key(o) = Key(p)
Effective(c) == Range(c.oparams) \cup {p \in Range(c.pparams) : ~Overridden(c, p)}
Considered(c) == {e \in Effective(c) : ~(c.exclQuery /\ e.in = "query")}

TextOf(c, e) == LET vs == {v \in Range(c.values) : <<v.in, v.name>> = Key(e)} IN
                IF vs = {} THEN "absent" ELSE (CHOOSE v \in vs : TRUE).text
(* kind "int": an integer schema; "strx": a string that must start with x; "reqint": a REQUIRED integer;  *)
(* "reqintd": a required integer whose schema also has a default -- a default does not make an absent       *)
(* required parameter present                                                                              *)
IsRequired(e) == e.kind \in {"reqint", "reqintd"}
Passes(c, e) == LET t == TextOf(c, e) IN
                IF t = "absent" THEN ~IsRequired(e)
                ELSE (e.kind \in {"int", "reqint", "reqintd"} /\ t = "1") \/ (e.kind = "strx" /\ t = "x")

BodyFails(c) == c.body = "fail" /\ ~c.exclBody

FailingParts(c) ==
   (IF SecOK(c) THEN {} ELSE {"security"})
   \cup {"param:" \o e.in \o ":" \o e.name : e \in {x \in Considered(c) : ~Passes(c, x)}}
   \cup (IF BodyFails(c) THEN {"body"} ELSE {})

Accepts(c) == FailingParts(c) = {}

-----------------------------------------------------------------------------
(* L2: the security evaluation as the code performs it: requirements in order, the schemes *)
(* of a requirement in sorted order, a requirement abandoned at its first rejected scheme, *)
(* evaluation stops at the first satisfied requirement.                                    *)
Declared == {"A", "B", "C"}              \* the schemes components.securitySchemes declares; "U" is not among them
RECURSIVE CallsOfReq(_, _)
CallsOfReq(r, accepts) ==
   IF r = <<>> THEN <<>>
   ELSE IF Head(r) \notin Declared THEN <<>>          \* looked up before the callback is asked: abandoned without a call
   ELSE IF Head(r) \in accepts THEN <<Head(r)>> \o CallsOfReq(Tail(r), accepts) ELSE <<Head(r)>>
RECURSIVE ExpectedCalls(_, _)
ExpectedCalls(es, accepts) ==
   IF es = <<>> THEN <<>>
   ELSE IF ReqOK(Head(es), accepts) THEN CallsOfReq(Head(es), accepts)
        ELSE CallsOfReq(Head(es), accepts) \o ExpectedCalls(Tail(es), accepts)
=============================================================================
