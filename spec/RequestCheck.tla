---------------------------- MODULE RequestCheck ----------------------------
(***************************************************************************)
(* L1 contract of openapi3filter.ValidateRequest (property C07) and an L2  *)
(* model of the security evaluation as a state machine over the calls of   *)
(* the authentication callback.                                            *)
(*                                                                         *)
(* A case is a record                                                      *)
(*   opSec   : [absent |-> TRUE] or [list |-> <<requirement, ...>>]        *)
(*   docSec  : <<requirement, ...>>      requirement = sorted seq of scheme names *)
(*   accepts : set of scheme names the callback accepts                    *)
(*   pparams, oparams : sequences of [in, name, kind]  (path-item / operation level) *)
(*   values  : sequence of [in, name, text]  what the request carries      *)
(*   method  : the HTTP method under which the path item holds the operation ("get", "put", "post",  *)
(*             "delete", "options", "head", "patch", "trace"); the contract does not look at it: a    *)
(*             declared requestBody is part of the verdict under every method                         *)
(*   bdecl   : "none" | "optional" | "required"   what the operation declares as requestBody          *)
(*   body    : "none" | "empty" | "pass" | "fail" | "otherct" | "badjson"  what the request carries     *)
(*   multi, exclBody, exclQuery, authReadsBody : BOOLEAN                   *)
(*   prefs   : "none" | "path" | "op" | "both": the parameters of that level are $refs to               *)
(*             components.parameters (the contract does not look at it)                               *)
(*   opts    : "plain" | "skipdefaults" | "exclreadonly" | "nocallback" | "nil": options the         *)
(*             statement does not mention leave the verdict alone; "nocallback" = no                  *)
(*             AuthenticationFunc, "nil" = no Options value at all (hence no callback either):        *)
(*             no scheme can be accepted (accepts = {}), nothing is called                            *)
(***************************************************************************)
EXTENDS Naturals, Sequences, FiniteSets, TLC

Range(f) == {f[i] : i \in DOMAIN f}

EffSec(c) == IF "absent" \in DOMAIN c.opSec THEN c.docSec ELSE c.opSec.list

ReqOK(r, accepts) == \A i \in DOMAIN r : r[i] \in accepts
SecOK(c) == LET es == EffSec(c) IN es = <<>> \/ \E i \in DOMAIN es : ReqOK(es[i], c.accepts)

Key(p) == <<p.in, p.name>>
Overridden(c, p) == \E o \in Range(c.oparams) : Key(o) = Key(p)
Effective(c) == Range(c.oparams) \cup {p \in Range(c.pparams) : ~Overridden(c, p)}
Considered(c) == {e \in Effective(c) : ~(c.exclQuery /\ e.in = "query")}

TextOf(c, e) == LET vs == {v \in Range(c.values) : <<v.in, v.name>> = Key(e)} IN
                IF vs = {} THEN "absent" ELSE (CHOOSE v \in vs : TRUE).text
(* kind "int": an integer schema; "strx": a string that must start with x; "reqint": a REQUIRED integer;  *)
(* "cint": an optional integer described by content (application/json) instead of schema;                  *)
(* "reqintd": a required integer whose schema also has a default -- a default does not make an absent       *)
(* required parameter present                                                                              *)
IsRequired(e) == e.kind \in {"reqint", "reqintd"}
Passes(c, e) == LET t == TextOf(c, e) IN
                IF t = "absent" THEN ~IsRequired(e)
                ELSE (e.kind \in {"int", "reqint", "reqintd", "cint"} /\ t = "1") \/ (e.kind = "strx" /\ t = "x")

(* the body part.  What the operation declares and what the request carries are independent:        *)
(*   - no requestBody declared: there is no body part, whatever the request carries                   *)
(*   - the request carries no bytes ("none": no body at all, "empty": a body of length 0): the part   *)
(*     fails exactly when the declaration says required                                               *)
(*   - bytes: "pass" is a JSON document valid against the declared schema; "fail" a JSON document     *)
(*     that is not; "otherct" bytes under a content type the operation does not declare; "badjson"    *)
(*     bytes that are not JSON under the declared JSON content type                                   *)
(* ExcludeRequestBody removes the whole part: presence of a required body included.                   *)
BodyPartFails(c) ==
   /\ c.bdecl # "none"
   /\ IF c.body \in {"none", "empty"} THEN c.bdecl = "required" ELSE c.body # "pass"
BodyFails(c) == BodyPartFails(c) /\ ~c.exclBody

FailingParts(c) ==
   (IF SecOK(c) THEN {} ELSE {"security"})
   \cup {"param:" \o e.in \o ":" \o e.name : e \in {x \in Considered(c) : ~Passes(c, x)}}
   \cup (IF BodyFails(c) THEN {"body"} ELSE {})

Accepts(c) == FailingParts(c) = {}

(* History.  The answer of a validation is a function of the route it is given -- the path item and  *)
(* the operation as they are AT THE TIME OF THE CALL -- the request and the options.  A step of a    *)
(* history is another validation in the same process:                                                *)
(*   via "share"   : through a second path item that holds the SAME Operation value (a document      *)
(*                   assembled in code: an alias path); its path-level parameters are the step's     *)
(*   via "sibling" : of another operation (another method) of the SAME path item; operation-level    *)
(*                   parameters, security and body declaration are the step's                        *)
(*   via "edit"    : through the same route after the document was edited in place (path-level /     *)
(*                   operation-level parameters, operation / document security, requestBody)         *)
(*   via "back"    : through the first route again, its original content restored                    *)
(* View(c, s) is the case as that validation sees it.                                                *)
View(c, s) == [c EXCEPT !.pparams = s.pparams, !.oparams = s.oparams, !.opSec = s.opSec, !.docSec = s.docSec, !.bdecl = s.bdecl]
StepOf(c, via) == [via |-> via, method |-> c.method, pparams |-> c.pparams, oparams |-> c.oparams, opSec |-> c.opSec, docSec |-> c.docSec, bdecl |-> c.bdecl]
(* what a step may change.  Cur is the content of the first route when the step is taken (edits stay until   *)
(* "back" restores the original): a shared Operation value carries its parameters, security and body as they    *)
(* are now; a sibling operation lives under the path item's current parameters and the current document         *)
RECURSIVE CurAt(_, _)
CurAt(c, i) ==
   IF i = 1 THEN StepOf(c, "cur")
   ELSE LET s == c.hist[i - 1] IN
        IF s.via = "edit" THEN s ELSE IF s.via = "back" THEN StepOf(c, "cur") ELSE CurAt(c, i - 1)
StepWellFormed(c, cur, s) ==
   CASE s.via = "share"   -> s.method = c.method /\ s.oparams = cur.oparams /\ s.opSec = cur.opSec /\ s.docSec = cur.docSec /\ s.bdecl = cur.bdecl
     [] s.via = "sibling" -> s.method # c.method /\ s.pparams = cur.pparams /\ s.docSec = cur.docSec
     [] s.via = "edit"    -> s.method = c.method
     [] s.via = "back"    -> s = StepOf(c, "back")
     [] OTHER -> FALSE

-----------------------------------------------------------------------------
(* L2: the security evaluation as the code performs it: requirements in order, the schemes *)
(* of a requirement in sorted order, a requirement abandoned at its first rejected scheme, *)
(* evaluation stops at the first satisfied requirement.                                    *)
(* A scheme atom names a declared scheme and the scopes the requirement lists for it: "A+r" is scheme A with scopes   *)
(* <<"r">>.  The callback is told both and may decide on both, so the outcome is per atom: two alternatives may name  *)
(* the same scheme with different scopes and fare differently.                                                         *)
Declared == {"A", "B", "C", "A+r", "A+w"}   \* atoms over the schemes components.securitySchemes declares; "U" is not declared
RECURSIVE CallsOfReq(_, _)
CallsOfReq(r, accepts) ==
   IF r = <<>> THEN <<>>
   ELSE IF Head(r) \notin Declared THEN <<>>          \* looked up before the callback is asked: abandoned without a call
   ELSE IF Head(r) \in accepts THEN <<Head(r)>> \o CallsOfReq(Tail(r), accepts) ELSE <<Head(r)>>
NoCallback(c) == "opts" \in DOMAIN c /\ c.opts \in {"nocallback", "nil"}
RECURSIVE ExpectedCalls(_, _)
ExpectedCalls(es, accepts) ==
   IF es = <<>> THEN <<>>
   ELSE IF ReqOK(Head(es), accepts) THEN CallsOfReq(Head(es), accepts)
        ELSE CallsOfReq(Head(es), accepts) \o ExpectedCalls(Tail(es), accepts)
=============================================================================
