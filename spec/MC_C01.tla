------------------------------- MODULE MC_C01 -------------------------------
(* D-checks for C01 / C12 on the generator's own state space (no code involved):             *)
(*  L2vsL1     the implementation-shaped model SchemaImpl!Accepts agrees with the reference   *)
(*             semantics SchemaSem!Valid on every (schema, value) of the universe in the       *)
(*             float64 input form, and in the json.Number form deviates only inside the        *)
(*             listed open finding class (FindingsC01);                                           *)
(*  Laws       algebraic laws that guard the transcription of the reference semantics:         *)
(*             not = complement, allOf<<s>> = s, anyOf<<s>> = s, oneOf<<s>> = s (non-null),    *)
(*             enum <<v>> accepts v;                                                           *)
(*  Monotone   adding a keyword other than nullable never enlarges the (non-null)       *)
(*             accepted set (except "properties" next to "additionalProperties").              *)
EXTENDS Gen_C01, SchemaImpl, FindingsC01

NonNull == {i \in DOMAIN Vals : Vals[i].t # "null"}

L2vsL1 ==
   \A i \in DOMAIN Vals :
      LET v == Vals[i]  want == Valid(s, v, "plain") IN
      /\ Accepts(s, v, "f64") = want
      /\ (Accepts(s, v, "num") # want) => UniqueNumberSpelling(s, v)      \* (the enum deviation was repaired: bc49a97)

Laws ==
   \A i \in NonNull :
      LET v == Vals[i] IN
      /\ Valid([not |-> s], v, "plain") = ~Valid(s, v, "plain")
      /\ Valid([allOf |-> <<s>>], v, "plain") = Valid(s, v, "plain")
      /\ Valid([anyOf |-> <<s>>], v, "plain") = Valid(s, v, "plain")
      /\ Valid([oneOf |-> <<s>>], v, "plain") = Valid(s, v, "plain")
      /\ Valid([enum |-> <<v>>], v, "plain")

(* The laws speak about the outermost operator with Valid(s, .) as a black box: checking them for every wrapped    *)
(* schema multiplies the cost of D without reaching another law.  quick: innermost level only (LawsInner);        *)
(* thorough: also every wrapped schema before outer keywords are added (LawsNoOuter).  L2vsL1 runs on every state. *)
LawsInner == wraps = 0 => Laws
LawsNoOuter == (wraps = 0 \/ own = 0) => Laws

Monotone ==
   wraps = 0 =>
      \A a \in Atoms :
         (CanAdd(s, a) /\ a.f # "nullable" /\ own < K
          \* "properties" takes the keys it declares out of the reach of "additionalProperties": next to it, it may enlarge
          /\ (a.f = "props" => ~Has(s, "apFalse") /\ ~Has(s, "apSchema")))
            => \A i \in NonNull : Valid(With(s, a), Vals[i], "plain") => Valid(s, Vals[i], "plain")
=============================================================================
