------------------------------ MODULE Middleware ------------------------------
(***************************************************************************)
(* openapi3filter.Validator.Middleware (middleware.go) as a state machine. *)
(*                                                                         *)
(* L2 (implementation-shaped): the request gate (FindRoute, ValidateRequest)*)
(* the two response wrappers (warnResponseWrapper, strictResponseWrapper)  *)
(* with their headerWritten / status / body state, the response check and  *)
(* the flush / errFunc epilogue.  One action per call the handler makes.   *)
(*                                                                         *)
(* L1 (contract, property C14): Contract(cfg, script, observation).  It is *)
(* stated over what an HTTP client of a net/http-conforming ResponseWriter *)
(* sees (ClientModel below), not over the wrappers' state.                 *)
(*                                                                         *)
(* The same module is used three ways: exhaustive design check L2 => L1    *)
(* (MC_C14), generator of handler behaviours replayed against the real     *)
(* middleware (MC_C14 emits every done-state's script), and trace          *)
(* validation of what the real middleware did (Trace_C14).                 *)
(***************************************************************************)
EXTENDS Naturals, Sequences, FiniteSets, TLC

CONSTANTS MaxCalls,      \* bound on the number of handler calls (exhaustive configs)
          ZeroStatusFix  \* TRUE: wrappers report 200 when the handler never wrote a header (the
                         \* repaired code); FALSE: they report 0 (the pinned tree: D finds the
                         \* WriteHeader(0) panic / unvalidated implicit 200)

Statuses   == {200, 201, 500}
CTs        == {"json", "text"}
Toks       == {"A", "B", "N", "P1", "P2", "E"}
(* request classes realised by the harness against the test document:                      *)
(*   valid_post     POST /items?n=1 with a valid JSON body (operation-level param + body)   *)
(*   valid_plain    GET /plain/5   (operation without own parameters; path-level {id})      *)
(*   valid_secure   GET /secure    (security requirement, callback accepts)                 *)
(*   nf_path / nf_method           no such path / method not declared under the path        *)
(*   inv_body / inv_param          POST /items with a schema-violating body / query param   *)
(*   inv_pathlevel  GET /plain/abc (path-level integer parameter violated)                  *)
(*   inv_security   GET /secure    (callback rejects)                                       *)
(*   valid_upgrade  valid_post carrying "Connection: Upgrade" and "Upgrade: websocket" -- headers a client chooses;     *)
(*                  the handler under test is an ordinary HTTP handler, so they change nothing                        *)
ValidClasses == {"valid_post", "valid_plain", "valid_secure", "valid_upgrade"}
NotFoundClasses == {"nf_path", "nf_method"}
InvalidClasses == {"inv_body", "inv_param", "inv_pathlevel", "inv_security"}
ReqClasses == ValidClasses \cup NotFoundClasses \cup InvalidClasses
ErrModes   == {"default", "custom"}
(* the request the SAME middleware instance served just before the one under observation (realised by the harness):  *)
(*   p204      a valid request whose handler answers 204 without a body                                            *)
(*   pbadresp  a valid request whose handler answers 200 with a body that violates the schema                      *)
(*   pbadreq   a request with a schema-violating body (rejected at the gate)                                       *)
(* The middleware keeps no state between requests (L2 below has none), so the contract ignores the primer.        *)
Primers    == {"none", "p204", "pbadresp", "pbadreq"}

(* the bytes behind each body token; P1 \o P2 = A on purpose (writes in pieces) *)
Bytes(t) == CASE t = "A"  -> "{\"id\":1}"
              [] t = "B"  -> "{\"id\":\"x\"}"
              [] t = "N"  -> "oops"
              [] t = "P1" -> "{\"id\":"
              [] t = "P2" -> "1}"
              [] t = "E"  -> ""

RECURSIVE Str(_)
Str(ts) == IF ts = <<>> THEN "" ELSE Bytes(Head(ts)) \o Str(Tail(ts))

RECURSIVE NonEmpty(_)
NonEmpty(ts) == IF ts = <<>> THEN <<>>
                ELSE IF Head(ts) = "E" THEN NonEmpty(Tail(ts)) ELSE <<Head(ts)>> \o NonEmpty(Tail(ts))

ValidJson == "{\"id\":1}"

(* A body is "clear" when JSON well-formedness is not a matter of opinion: it does not   *)
(* consist of a complete valid document followed by more bytes (encoding/json's Decoder  *)
(* accepts such a prefix; whether that is right belongs to C06/C08, not here).           *)
Clear(ts) == LET n == NonEmpty(ts) IN
   /\ ~(Len(n) > 1 /\ Head(n) = "A")
   /\ ~(Len(n) > 2 /\ n[1] = "P1" /\ n[2] = "P2")

Calls == [c : {"SetCT"}, ct : CTs] \cup [c : {"WH"}, s : Statuses]
           \cup [c : {"W"}, tok : Toks] \cup [c : {"F"}]

-----------------------------------------------------------------------------
(* The response map of the test document's operation:                        *)
(*   200: application/json, schema {type: object, required [id], id: integer}*)
(*   201: description only (no content)                                      *)
(*   anything else: undeclared => accepted (IncludeResponseStatus is off)    *)
(* opt: the ValidationOptions the validator was built with, as far as they change the verdict  *)
(*   "none" | "include_status" (IncludeResponseStatus: undeclared statuses are invalid)          *)
(*          | "exclude_body"   (ExcludeResponseBody: content type and body are not checked)      *)
RespValidOpt(opt, status, ct, body) ==
   IF status = 200 THEN opt = "exclude_body" \/ (ct = "json" /\ body = ValidJson)
   ELSE IF status = 201 THEN TRUE
   ELSE opt # "include_status"
RespValid(status, ct, body) == RespValidOpt("none", status, ct, body)

-----------------------------------------------------------------------------
(* ClientModel: what the peer of a net/http ResponseWriter observes, from the raw calls *)
(* made on that writer.  First WriteHeader wins, Write and Flush imply WriteHeader(200), *)
(* returning without any call is an implicit 200; a status outside 100..999 panics.      *)
(* Every raw event carries ct, the Content-Type in the header map at that instant.       *)
ClientInit == [wrote |-> FALSE, status |-> 0, ct |-> "none", body |-> "", panicked |-> FALSE]

Commit(cl, s, ct) == IF cl.wrote THEN cl ELSE [cl EXCEPT !.wrote = TRUE, !.status = s, !.ct = ct]

ClientStep(cl, ev) ==
   CASE ev.e = "WH" -> IF ev.s < 100 \/ ev.s > 999 THEN [cl EXCEPT !.panicked = TRUE]
                       ELSE Commit(cl, ev.s, ev.ct)
     [] ev.e = "W"  -> LET c == Commit(cl, 200, ev.ct) IN [c EXCEPT !.body = @ \o ev.data]
     [] ev.e = "F"  -> Commit(cl, 200, ev.ct)

RECURSIVE ClientRun(_, _)
ClientRun(cl, evs) == IF evs = <<>> THEN cl ELSE ClientRun(ClientStep(cl, Head(evs)), Tail(evs))

Effective(raw, finalCt) ==
   LET c == Commit(ClientRun(ClientInit, raw), 200, finalCt)
   IN  [status |-> c.status, ct |-> c.ct, body |-> c.body, panicked |-> c.panicked]

-----------------------------------------------------------------------------
(* What the handler's calls amount to when made on an unwrapped writer.      *)
RECURSIVE DirectRaw(_, _, _)
DirectRaw(scr, hdr, flusher) ==
   IF scr = <<>> THEN [raw |-> <<>>, hdr |-> hdr]
   ELSE LET c == Head(scr) IN
        IF c.c = "SetCT" THEN DirectRaw(Tail(scr), c.ct, flusher)
        ELSE LET rest == DirectRaw(Tail(scr), hdr, flusher)
                 ev == CASE c.c = "WH" -> <<[e |-> "WH", s |-> c.s, ct |-> hdr]>>
                         [] c.c = "W"  -> <<[e |-> "W", data |-> Bytes(c.tok), ct |-> hdr]>>
                         [] c.c = "F"  -> IF flusher THEN <<[e |-> "F", ct |-> hdr]>> ELSE <<>>
             IN [raw |-> ev \o rest.raw, hdr |-> rest.hdr]

(* The strict wrapper does not implement http.Flusher, so a well-behaved handler's Flush *)
(* is a no-op there.                                                                     *)
Direct(scr, strict) == LET d == DirectRaw(scr, "none", ~strict) IN Effective(d.raw, d.hdr)

ErrText(status) == CASE status = 404 -> "not found\n"
                     [] status = 400 -> "bad request\n"
                     [] status = 500 -> "server error\n"
ErrCodeOf(status) == CASE status = 404 -> 1 [] status = 400 -> 2 [] status = 500 -> 3

-----------------------------------------------------------------------------
(* L1: the contract of property C14 for one run.                             *)
(*  cfg = [strict, reqClass, errMode]; scr = the calls the handler makes if  *)
(*  invoked; obs = [invoked (count), errs (seq of [status, code]), eff].     *)
ExpectedGate(cfg) == IF cfg.reqClass \in ValidClasses THEN 0
                     ELSE IF cfg.reqClass \in NotFoundClasses THEN 404 ELSE 400

ErrRespOK(cfg, status, eff) ==
   /\ eff.status = status
   /\ eff.body = (IF cfg.errMode = "default" THEN ErrText(status) ELSE "X")

(* errFunc calls are observable only through the custom errFunc; the default one (http.Error) *)
(* is observed through its response.                                                         *)
ErrsAre(cfg, obs, want) == cfg.errMode = "custom" => obs.errs = want

(* the older request-only gate (openapi3filter.ValidationHandler with a ValidationErrorEncoder):  *)
(* the handler runs iff the request is routed and valid, and then writes straight to the client;   *)
(* otherwise the gate answers itself with an error status                                          *)
FailedVH(cfg, scr, obs) ==
   LET gate == ExpectedGate(cfg)  d == Direct(scr, FALSE) IN
   (IF obs.eff.panicked THEN {"no_panic"} ELSE {})
   \cup (IF obs.invoked # (IF gate = 0 THEN 1 ELSE 0) THEN {"handler_iff_valid"} ELSE {})
   \cup (IF gate # 0 /\ obs.eff.status < 400 THEN {"gate_answers_itself"} ELSE {})
   \cup (IF gate = 0 /\ obs.eff # d THEN {"nonstrict_passthrough"} ELSE {})

FailedV(cfg, scr, obs) ==
   LET gate == ExpectedGate(cfg)
       d    == Direct(scr, cfg.strict)
       \* strict mode defers the commit to the flush, so the Content-Type that goes out (and
       \* that the response check must use) is the one in the header map at handler return
       ok   == RespValidOpt(cfg.opt, d.status, DirectRaw(scr, "none", FALSE).hdr, d.body)
   IN
   (IF obs.eff.panicked THEN {"no_panic"} ELSE {})
   \cup (IF obs.invoked # (IF gate = 0 THEN 1 ELSE 0) THEN {"handler_iff_valid"} ELSE {})
   \cup (IF gate # 0 /\ ~(ErrsAre(cfg, obs, <<[status |-> gate, code |-> ErrCodeOf(gate)]>>) /\ ErrRespOK(cfg, gate, obs.eff))
         THEN {"gate_answers_itself"} ELSE {})
   \cup (IF gate = 0 /\ ~cfg.strict /\ ~(ErrsAre(cfg, obs, <<>>) /\ obs.eff = d)
         THEN {"nonstrict_passthrough"} ELSE {})
   \cup (IF gate = 0 /\ cfg.strict /\ ok
            /\ ~(ErrsAre(cfg, obs, <<>>) /\ obs.eff.status = d.status /\ obs.eff.body = d.body)
         THEN {"strict_valid_exact"} ELSE {})
   \cup (IF gate = 0 /\ cfg.strict /\ ~ok
            /\ ~(ErrsAre(cfg, obs, <<[status |-> 500, code |-> 3]>>) /\ ErrRespOK(cfg, 500, obs.eff))
         THEN {"strict_invalid_replaced"} ELSE {})

(* strict_valid_exact compares status and body only: the strict wrapper defers WriteHeader, *)
(* so headers the handler sets after its own WriteHeader still reach the client; the       *)
(* property speaks of status and body.                                                     *)
IsVH(c) == c.gate \in {"vhandler", "vhandler_mw"}
Failed(cfg, scr, obs) == IF IsVH(cfg) THEN FailedVH(cfg, scr, obs) ELSE FailedV(cfg, scr, obs)
Contract(cfg, scr, obs) == Failed(cfg, scr, obs) = {}

-----------------------------------------------------------------------------
(* L2: the middleware's own state machine.                                   *)
VARIABLES
   cfg,       \* [strict, reqClass, errMode]
   phase,     \* "start" | "handler" | "respcheck" | "done"
   w,         \* wrapper state [hw, st, buf]     (headerWritten, status, body tokens)
   hdr,       \* Content-Type currently in the client's header map
   script,    \* handler calls so far (history; it IS the generated test case)
   cOut,      \* raw calls made on the client's ResponseWriter so far
   invoked,   \* number of times the wrapped handler was entered
   errs,      \* errFunc calls [status, code]
   logs       \* logFunc calls (message class)

vars == <<cfg, phase, w, hdr, script, cOut, invoked, errs, logs>>

WInit == [hw |-> FALSE, st |-> 0, buf |-> <<>>]

Init ==
   \* gate "vhandler_mw": ValidationHandler.Middleware(next) around the handler under test, created next to a second
   \* wrapper of the SAME ValidationHandler around another handler (each wrapper must run its own handler)
   /\ cfg \in [strict : BOOLEAN, reqClass : ReqClasses, errMode : ErrModes, gate : {"validator", "vhandler", "vhandler_mw"},
                opt : {"none", "include_status", "exclude_body"}, primer : Primers]
   \* history: a Validator serves many requests; what it did for an earlier one (the primer) never shows in a later one
   /\ (cfg.primer # "none" => cfg.gate = "validator" /\ cfg.strict /\ cfg.errMode = "custom" /\ cfg.opt = "none"
                               /\ cfg.reqClass \in {"valid_post", "inv_body"})
   /\ (cfg.gate \in {"vhandler", "vhandler_mw"} => ~cfg.strict /\ cfg.errMode = "default" /\ cfg.opt = "none")
   /\ (cfg.opt # "none" => cfg.strict /\ cfg.errMode = "custom" /\ cfg.reqClass = "valid_post")   \* options matter for the strict verdict
   /\ phase = "start" /\ w = WInit /\ hdr = "none" /\ script = <<>> /\ cOut = <<>>
   /\ invoked = 0 /\ errs = <<>> /\ logs = <<>>

(* errFunc: the default one is http.Error; the harness's custom one records the call and *)
(* writes WriteHeader(status), Write("X") without touching the header map.               *)
ErrFuncOut(status, h) ==
   IF cfg.errMode = "default"
   THEN [hdr |-> "errtext", out |-> <<[e |-> "WH", s |-> status, ct |-> "errtext"],
                                     [e |-> "W", data |-> ErrText(status), ct |-> "errtext"]>>]
   ELSE [hdr |-> h, out |-> <<[e |-> "WH", s |-> status, ct |-> h],
                             [e |-> "W", data |-> "X", ct |-> h]>>]

(* statuses ConvertErrors + DefaultErrorEncoder give for the request classes of the test document *)
VHStatus(rc) == CASE rc = "nf_path" -> 404 [] rc = "nf_method" -> 405 [] rc = "inv_body" -> 422 [] rc = "inv_param" -> 400
                  [] rc = "inv_pathlevel" -> 404 [] rc = "inv_security" -> 500 [] OTHER -> 500

Gate ==   \* FindRoute / ValidateRequest fail: log, errFunc, return
   /\ phase = "start" /\ cfg.reqClass \notin ValidClasses
   /\ LET status == ExpectedGate(cfg)
          ef == ErrFuncOut(status, hdr) IN
      IF IsVH(cfg)
      THEN \* ErrorEncoder: some error status and body (not modelled further)
           /\ cOut' = cOut \o <<[e |-> "WH", s |-> VHStatus(cfg.reqClass), ct |-> "errjson"], [e |-> "W", data |-> "?", ct |-> "errjson"]>>
           /\ hdr' = "errjson" /\ UNCHANGED <<errs, logs>>
      ELSE
      /\ errs' = Append(errs, [status |-> status, code |-> ErrCodeOf(status)])
      /\ logs' = Append(logs, IF status = 404 THEN "noroute" ELSE "badreq")
      /\ cOut' = cOut \o ef.out /\ hdr' = ef.hdr
   /\ phase' = "done"
   /\ UNCHANGED <<cfg, w, script, invoked>>

Invoke ==
   /\ phase = "start" /\ cfg.reqClass \in ValidClasses
   /\ phase' = "handler" /\ invoked' = invoked + 1
   /\ UNCHANGED <<cfg, w, hdr, script, cOut, errs, logs>>

(* one wrapper method call; returns the new wrapper state, header and client calls *)
WrapStep(strict, ws, h, c) ==
   CASE c.c = "SetCT" -> [w |-> ws, hdr |-> c.ct, out |-> <<>>]
     [] c.c = "WH" ->
          LET w1 == IF ws.hw THEN ws ELSE [ws EXCEPT !.hw = TRUE, !.st = c.s] IN
          [w |-> w1, hdr |-> h,
           out |-> IF strict THEN <<>> ELSE <<[e |-> "WH", s |-> w1.st, ct |-> h]>>]
     [] c.c = "W" ->
          LET w1 == IF ws.hw THEN ws ELSE [ws EXCEPT !.hw = TRUE, !.st = 200]
              pre == IF ws.hw \/ strict THEN <<>> ELSE <<[e |-> "WH", s |-> 200, ct |-> h]>> IN
          [w |-> [w1 EXCEPT !.buf = Append(@, c.tok)], hdr |-> h,
           out |-> IF strict THEN <<>> ELSE pre \o <<[e |-> "W", data |-> Bytes(c.tok), ct |-> h]>>]
     [] c.c = "F" ->
          [w |-> ws, hdr |-> h, out |-> IF strict THEN <<>> ELSE <<[e |-> "F", ct |-> h]>>]

(* no wrapper: the handler's calls are the client's calls *)
DirectStep(ws, h, c) ==
   CASE c.c = "SetCT" -> [w |-> ws, hdr |-> c.ct, out |-> <<>>]
     [] c.c = "WH" -> [w |-> ws, hdr |-> h, out |-> <<[e |-> "WH", s |-> c.s, ct |-> h]>>]
     [] c.c = "W"  -> [w |-> [ws EXCEPT !.buf = Append(@, c.tok)], hdr |-> h, out |-> <<[e |-> "W", data |-> Bytes(c.tok), ct |-> h]>>]
     [] c.c = "F"  -> [w |-> ws, hdr |-> h, out |-> <<[e |-> "F", ct |-> h]>>]

HandlerCall(c) ==
   /\ phase = "handler"
   /\ LET r == IF IsVH(cfg) THEN DirectStep(w, hdr, c) ELSE WrapStep(cfg.strict, w, hdr, c) IN
      /\ w' = r.w /\ hdr' = r.hdr /\ cOut' = cOut \o r.out
   /\ script' = Append(script, c)
   /\ UNCHANGED <<cfg, phase, invoked, errs, logs>>

HandlerReturn ==
   /\ phase = "handler" /\ phase' = "respcheck"
   /\ UNCHANGED <<cfg, w, hdr, script, cOut, invoked, errs, logs>>

(* status the wrappers report to ValidateResponse (statusCode()): the strict wrapper     *)
(* reports 200 if the handler never wrote a header -- that is what its client will see;  *)
(* the warn wrapper reports 0 (affects only what is logged).                             *)
WStatus(ws) == IF ws.st = 0 /\ ZeroStatusFix /\ cfg.strict THEN 200 ELSE ws.st

RespCheckFrom(ph) ==
   /\ phase = ph /\ phase' = "done"
   /\ LET ok == IsVH(cfg) \/ RespValidOpt(cfg.opt, WStatus(w), hdr, Str(w.buf)) IN
      IF ok THEN
         /\ cOut' = IF cfg.strict
                    THEN cOut \o <<[e |-> "WH", s |-> WStatus(w), ct |-> hdr],
                                   [e |-> "W", data |-> Str(w.buf), ct |-> hdr]>>
                    ELSE cOut
         /\ UNCHANGED <<hdr, errs, logs>>
      ELSE
         /\ logs' = Append(logs, "badresp")
         /\ IF cfg.strict
            THEN LET ef == ErrFuncOut(500, hdr) IN
                 /\ errs' = Append(errs, [status |-> 500, code |-> 3])
                 /\ cOut' = cOut \o ef.out /\ hdr' = ef.hdr
            ELSE UNCHANGED <<cOut, hdr, errs>>
   /\ UNCHANGED <<cfg, w, script, invoked>>

RespCheck == RespCheckFrom("respcheck")

(* the generator only builds behaviours whose body is "clear" *)
Growable(c) == Len(script) < MaxCalls
               /\ (c.c = "W" => Clear(Append(w.buf, c.tok)))

Next ==
   \/ Gate \/ Invoke \/ HandlerReturn \/ RespCheck
   \/ \E c \in Calls : Growable(c) /\ HandlerCall(c)

Spec == Init /\ [][Next]_vars

-----------------------------------------------------------------------------
(* Design-level check: in every terminal state of L2 the contract holds for  *)
(* what a client of cOut observes.                                           *)
ModelObs == [invoked |-> invoked, errs |-> errs, eff |-> Effective(cOut, hdr)]

L2ImpliesL1 == phase = "done" => Contract(cfg, script, ModelObs)

TypeOK ==
   /\ phase \in {"start", "handler", "respcheck", "done"}
   /\ w.hw \in BOOLEAN /\ w.st \in Statuses \cup {0}
   /\ invoked \in 0..1
   /\ (cfg.gate = "validator" => (w.hw <=> w.st # 0))

(* the wrapped handler runs at most once and never before the gate has passed *)
HandlerOnlyAfterGate == invoked = 1 => cfg.reqClass \in ValidClasses
NoClientBytesBeforeCheckInStrict ==
   (cfg.strict /\ phase \in {"handler", "respcheck"}) => cOut = <<>>
=============================================================================
