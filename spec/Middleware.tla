------------------------------ MODULE Middleware ------------------------------
(***************************************************************************)
(* openapi3filter.Validator.Middleware (middleware.go) as a state machine. *)
(*                                                                         *)
(* L2 (implementation-shaped): the request gate (FindRoute, ValidateRequest*)
(* under the validator's configured Options), the two response wrappers    *)
(* (warnResponseWrapper, strictResponseWrapper) with their headerWritten / *)
(* status / body state, the response check and the flush / errFunc         *)
(* epilogue.  One action per call the handler makes.                       *)
(*                                                                         *)
(* L1 (contract, property C14): Contract(cfg, script, observation).  It is *)
(* stated over what an HTTP client of a net/http-conforming ResponseWriter *)
(* sees (ClientModel below), not over the wrappers' state.                 *)
(*                                                                         *)
(* The same module is used three ways: exhaustive design check L2 => L1    *)
(* (MC_C14), generator of handler behaviours replayed against the real     *)
(* middleware (MC_C14 emits every done-state's script), and trace          *)
(* validation of what the real middleware did (Trace_C14).                 *)
(***************************************************************************)
EXTENDS Naturals, Sequences, FiniteSets, TLC, FindingsC14

CONSTANTS MaxCalls,      \* bound on the number of handler calls (configurations explored in full depth)
          SideCalls,     \* bound on the number of handler calls for the side configurations (see Depth)
          ExtMax,        \* bound on the number of extended calls (IsExt) in one behaviour
          ExtDepth,      \* bound on the length of a behaviour that contains an extended call
          ZeroStatusFix, \* TRUE: wrappers report 200 when the handler never wrote a header (the
                         \* repaired code); FALSE: they report 0 (the pinned tree: D finds the
                         \* WriteHeader(0) panic / unvalidated implicit 200)
          InfoFix        \* TRUE: the code as it is since fix 14f1d91 (informational responses do not commit:
                         \* warn forwards them, strict drops them); FALSE: the wrappers before it, which took
                         \* WriteHeader(1xx) for the response's status (finding F-C14-2, fixed; MC_C14_infofinal.cfg
                         \* keeps that design as a refuted variant)

FinalStatuses == {200, 201, 500}
NoBodyStatuses == {204}                             \* final statuses that forbid a body: net/http refuses every Write after them
Statuses   == FinalStatuses \cup NoBodyStatuses \cup InfoStatuses      \* InfoStatuses: FindingsC14 (1xx other than 101)
CTs        == {"json", "text"}
Toks       == {"A", "B", "N", "P1", "P2", "E"}
(* request classes realised by the harness against the test documents.                      *)
(* document 1 (no global security):                                                          *)
(*   valid_post     POST /items?n=1 with a valid JSON body (operation-level param + body)   *)
(*   valid_plain    GET /plain/5   (operation without own parameters; path-level {id})      *)
(*   valid_upgrade  valid_post carrying "Connection: Upgrade" and "Upgrade: websocket" -- headers a client chooses;     *)
(*                  the handler under test is an ordinary HTTP handler, so they change nothing                        *)
(*   opt_anon       GET /optional  (security: [{key}, {}] -- anonymous access allowed), no key sent                   *)
(*   nf_path / nf_method           no such path / method (DELETE) not declared under the path *)
(*   nf_options / nf_head          OPTIONS / HEAD on /items: methods with a life of their own in HTTP (preflight, headers    *)
(*                  only) but none in the document -- no route                                                           *)
(*   inv_body / inv_param          POST /items with a schema-violating body / query param   *)
(*   inv_nobody     POST /items?n=1 without a body (requestBody is required)                 *)
(*   inv_ctype      valid_post's body sent as text/plain (no such media type under requestBody) *)
(*   inv_noparam    POST /items without the required query parameter n                        *)
(*   inv_pathlevel  GET /plain/abc (path-level integer parameter violated)                  *)
(*   valid_secure / inv_security / sec_nokey   GET /secure (operation-level security requirement [{key}]) with       *)
(*                  X-Key: good / X-Key: bad / no X-Key header                                                       *)
(* document 2 (global security: [{key}]):                                                                            *)
(*   g_good / g_bad GET /g (inherits the global requirement) with X-Key: good / bad                                   *)
(*   g_open         GET /gopen (security: [] overrides the global requirement), no key                                *)
(* Whether a request that meets a security requirement validates depends on the AuthenticationFunc the gate was      *)
(* configured with (cfg.auth), whether a body / query violation matters depends on the Options (cfg.opt).             *)
BaseValid       == {"valid_post", "valid_plain", "valid_upgrade", "opt_anon", "g_open"}
NotFoundClasses == {"nf_path", "nf_method", "nf_options", "nf_head"}
BaseInvalid     == {"inv_body", "inv_param", "inv_pathlevel", "inv_nobody", "inv_ctype", "inv_noparam"}
SecGood         == {"valid_secure", "g_good"}
SecBad          == {"inv_security", "sec_nokey", "g_bad"}
SecClasses      == SecGood \cup SecBad
ReqClasses == BaseValid \cup NotFoundClasses \cup BaseInvalid \cup SecClasses
ErrModes   == {"default", "custom"}
(* how the gate was given its AuthenticationFunc:                                                                     *)
(*   callback  a function that accepts exactly X-Key: good                                                            *)
(*   noop      openapi3filter.NoopAuthenticationFunc (accepts everybody)                                              *)
(*   nofunc    Validator: ValidationOptions(Options{...}) without AuthenticationFunc;  ValidationHandler: field nil    *)
(*   noopts    Validator: no ValidationOptions option at all                                                          *)
(* Options.AuthenticationFunc: "A document with security schemes defined will not pass validation unless an           *)
(* AuthenticationFunc is defined" -- the Validator fails closed; ValidationHandler.Load installs the no-op one.       *)
Auths      == {"callback", "noop", "nofunc", "noopts"}
Gates      == {"validator", "vhandler", "vhandler_mw", "vhandler_def"}
IsVH(c)    == c.gate \in {"vhandler", "vhandler_mw", "vhandler_def"}
(* opt: the ValidationOptions the validator was built with, as far as they change a verdict                           *)
RespOpts   == {"include_status", "exclude_body"}
ReqOpts    == {"multi_error", "excl_req_body", "excl_query"}
Opts       == {"none"} \cup RespOpts \cup ReqOpts
(* the request the SAME middleware instance served just before the one under observation (realised by the harness):  *)
(*   p204      a valid request whose handler answers 204 without a body                                            *)
(*   pbadresp  a valid request whose handler answers 200 with a body that violates the schema                      *)
(*   pbadreq   a request with a schema-violating body (rejected at the gate)                                       *)
(*   cbadresp / cbadreq  the same instance serves a stream of pbadresp / pbadreq requests on other goroutines      *)
(*             WHILE it serves the request under observation                                                       *)
(* The middleware keeps no state between requests (L2 below has none), so the contract ignores the primer.        *)
Primers    == {"none", "p204", "pbadresp", "pbadreq", "cbadresp", "cbadreq"}

AuthAccepts(c) ==
   CASE c.auth = "callback" -> c.reqClass \in SecGood
     [] c.auth = "noop"     -> TRUE
     [] OTHER               -> IsVH(c)

(* "a route is found and the request validates" (under the gate's configured options) *)
RequestValid(c) ==
   \/ c.reqClass \in BaseValid
   \/ c.reqClass \in SecClasses /\ AuthAccepts(c)
   \/ c.reqClass \in {"inv_body", "inv_nobody", "inv_ctype"} /\ c.opt = "excl_req_body"     \* Options.ExcludeRequestBody
   \/ c.reqClass \in {"inv_param", "inv_noparam"} /\ c.opt = "excl_query"      \* Options.ExcludeRequestQueryParams

(* the bytes behind each body token; P1 \o P2 = A on purpose (writes in pieces) *)
Bytes(t) == CASE t = "A"  -> "{\"id\":1}"
              [] t = "B"  -> "{\"id\":\"x\"}"
              [] t = "N"  -> "oops"
              [] t = "P1" -> "{\"id\":"
              [] t = "P2" -> "1}"
              [] t = "E"  -> ""

RECURSIVE Str(_)
Str(ts) == IF ts = <<>> THEN "" ELSE Bytes(Head(ts)) \o Str(Tail(ts))

RECURSIVE NonEmpty(_)
NonEmpty(ts) == IF ts = <<>> THEN <<>>
                ELSE IF Head(ts) = "E" THEN NonEmpty(Tail(ts)) ELSE <<Head(ts)>> \o NonEmpty(Tail(ts))

ValidJson == "{\"id\":1}"

(* A body is "clear" when JSON well-formedness is not a matter of opinion: it does not   *)
(* consist of a complete valid document followed by more bytes (encoding/json's Decoder  *)
(* accepts such a prefix; whether that is right belongs to C06/C08, not here).           *)
Clear(ts) == LET n == NonEmpty(ts) IN
   /\ ~(Len(n) > 1 /\ Head(n) = "A")
   /\ ~(Len(n) > 2 /\ n[1] = "P1" /\ n[2] = "P2")

(* The handler alphabet.  Core: Header().Set, WriteHeader (final status), Write, Flush.                              *)
(* Extended (IsExt): WriteHeader(1xx) (informational: net/http sends it and leaves the header open),                *)
(*   WriteHeader(204) (a final status that forbids a body: what the handler writes afterwards never leaves the server) *)
(*   Copy   io.Copy(w, reader over the token) -- no ReaderFrom on the wrappers: one Write per chunk, NO call at all  *)
(*          for an empty reader (unlike Write of an empty slice, which commits the header)                           *)
(*   FC     http.NewResponseController(w).Flush()  -- same meaning as F, other route to the Flusher                  *)
(*   RB     the handler reads the request body to EOF and closes it                                                  *)
(*   Probe  the handler asks w for its optional interfaces (Flusher, Hijacker, ReaderFrom, Pusher, Unwrap)           *)
(*   Panic  the handler panics (always its last call)                                                                *)
CoreCalls == [c : {"SetCT"}, ct : CTs] \cup [c : {"WH"}, s : FinalStatuses]
               \cup [c : {"W"}, tok : Toks] \cup [c : {"F"}]
ExtCalls  == [c : {"WH"}, s : InfoStatuses \cup NoBodyStatuses] \cup [c : {"Copy"}, tok : {"A", "B", "E"}]
               \cup [c : {"FC"}] \cup [c : {"RB"}] \cup [c : {"Probe"}] \cup [c : {"Panic"}]
Calls     == CoreCalls \cup ExtCalls
IsExt(c)  == c.c \in {"Copy", "FC", "RB", "Probe", "Panic"} \/ (c.c = "WH" /\ c.s \in InfoStatuses \cup NoBodyStatuses)

(* what a call amounts to on an http.ResponseWriter: one of SetCT / WH / W / F, or nothing *)
Nop == [c |-> "Nop"]
Norm(c) == CASE c.c = "Copy" -> (IF c.tok = "E" THEN Nop ELSE [c |-> "W", tok |-> c.tok])
             [] c.c = "FC"   -> [c |-> "F"]
             [] c.c \in {"RB", "Probe", "Panic"} -> Nop
             [] OTHER -> c

HasPanic(scr) == scr # <<>> /\ scr[Len(scr)].c = "Panic"

-----------------------------------------------------------------------------
(* The response map of the test document's operations:                       *)
(*   200: application/json, schema {type: object, required [id], id: integer}*)
(*   201: description only (no content)                                      *)
(*   anything else: undeclared => accepted (IncludeResponseStatus is off)    *)
(*   "include_status" (IncludeResponseStatus: undeclared statuses are invalid)                   *)
(*   "exclude_body"   (ExcludeResponseBody: content type and body are not checked)               *)
RespValidOpt(opt, status, ct, body) ==
   IF status = 200 THEN opt = "exclude_body" \/ (ct = "json" /\ body = ValidJson)
   ELSE IF status = 201 THEN TRUE
   ELSE opt # "include_status"
RespValid(status, ct, body) == RespValidOpt("none", status, ct, body)

-----------------------------------------------------------------------------
(* ClientModel: what the peer of a net/http ResponseWriter observes, from the raw calls *)
(* made on that writer.  First WriteHeader with a final status wins, WriteHeader(1xx)    *)
(* (other than 101) sends an informational response and commits nothing, Write and Flush *)
(* imply WriteHeader(200), returning without any call is an implicit 200; a status       *)
(* outside 100..999 panics; once a status that forbids a body (204, 304) is committed,   *)
(* Write is refused (http.ErrBodyNotAllowed) and nothing of it reaches the client.       *)
(* Every raw event carries ct, the Content-Type in the header map at that instant.       *)
ClientInit == [wrote |-> FALSE, status |-> 0, ct |-> "none", body |-> "", panicked |-> FALSE]

Commit(cl, s, ct) == IF cl.wrote THEN cl ELSE [cl EXCEPT !.wrote = TRUE, !.status = s, !.ct = ct]

Informational(s) == s >= 100 /\ s <= 199 /\ s # 101

ClientStep(cl, ev) ==
   CASE ev.e = "WH" -> IF ev.s < 100 \/ ev.s > 999 THEN [cl EXCEPT !.panicked = TRUE]
                       ELSE IF Informational(ev.s) THEN cl
                       ELSE Commit(cl, ev.s, ev.ct)
     [] ev.e = "W"  -> LET c == Commit(cl, 200, ev.ct) IN
                       IF c.status \in {204, 304} THEN c ELSE [c EXCEPT !.body = @ \o ev.data]
     [] ev.e = "F"  -> Commit(cl, 200, ev.ct)

RECURSIVE ClientRun(_, _)
ClientRun(cl, evs) == IF evs = <<>> THEN cl ELSE ClientRun(ClientStep(cl, Head(evs)), Tail(evs))

Effective(raw, finalCt) ==
   LET c == Commit(ClientRun(ClientInit, raw), 200, finalCt)
   IN  [status |-> c.status, ct |-> c.ct, body |-> c.body, panicked |-> c.panicked]

-----------------------------------------------------------------------------
(* What the handler's calls amount to when made on an unwrapped writer.      *)
RECURSIVE DirectRaw(_, _, _)
DirectRaw(scr, hdr, flusher) ==
   IF scr = <<>> THEN [raw |-> <<>>, hdr |-> hdr]
   ELSE LET c == Norm(Head(scr)) IN
        IF c.c = "SetCT" THEN DirectRaw(Tail(scr), c.ct, flusher)
        ELSE LET rest == DirectRaw(Tail(scr), hdr, flusher)
                 ev == CASE c.c = "WH" -> <<[e |-> "WH", s |-> c.s, ct |-> hdr]>>
                         [] c.c = "W"  -> <<[e |-> "W", data |-> Bytes(c.tok), ct |-> hdr]>>
                         [] c.c = "F"  -> IF flusher THEN <<[e |-> "F", ct |-> hdr]>> ELSE <<>>
                         [] c.c = "Nop" -> <<>>
             IN [raw |-> ev \o rest.raw, hdr |-> rest.hdr]

(* The strict wrapper does not implement http.Flusher, so a well-behaved handler's Flush *)
(* is a no-op there.                                                                     *)
Direct(scr, strict) == LET d == DirectRaw(scr, "none", ~strict) IN Effective(d.raw, d.hdr)

ErrText(status) == CASE status = 404 -> "not found\n"
                     [] status = 400 -> "bad request\n"
                     [] status = 500 -> "server error\n"
                     [] OTHER -> "?"
ErrCodeOf(status) == CASE status = 404 -> 1 [] status = 400 -> 2 [] status = 500 -> 3

-----------------------------------------------------------------------------
(* L1: the contract of property C14 for one run.                             *)
(*  cfg = [strict, reqClass, errMode, gate, opt, primer, auth]; scr = the    *)
(*  calls the handler makes if invoked; obs = [invoked (count), errs (seq of *)
(*  [status, code]), eff (what the client ends up with), silent (no call at  *)
(*  all was made on the client's writer)].                                   *)
ExpectedGate(cfg) == IF cfg.reqClass \in NotFoundClasses THEN 404
                     ELSE IF RequestValid(cfg) THEN 0 ELSE 400

ErrRespOK(cfg, status, eff) ==
   /\ eff.status = status
   /\ eff.body = (IF cfg.errMode = "default" THEN ErrText(status) ELSE "X")

(* errFunc calls are observable only through the custom errFunc; the default one (http.Error) *)
(* is observed through its response.                                                         *)
ErrsAre(cfg, obs, want) == cfg.errMode = "custom" => obs.errs = want

(* the older request-only gate (openapi3filter.ValidationHandler):                                  *)
(* the handler runs iff the request is routed and valid, and then writes straight to the client;   *)
(* otherwise the gate answers itself with an error status: through its ErrorEncoder -- the         *)
(* harness's custom one records the call as [499, 0] and answers 499 "X"                           *)
FailedVH(cfg, scr, obs) ==
   LET gate == ExpectedGate(cfg)  d == Direct(scr, FALSE) IN
   (IF obs.eff.panicked THEN {"no_panic"} ELSE {})
   \cup (IF obs.invoked # (IF gate = 0 THEN 1 ELSE 0) THEN {"handler_iff_valid"} ELSE {})
   \cup (IF gate # 0 /\ ~(/\ obs.eff.status >= 400
                          /\ (cfg.errMode = "custom" => (obs.errs = <<[status |-> 499, code |-> 0]>> /\ ErrRespOK(cfg, 499, obs.eff))))
         THEN {"gate_answers_itself"} ELSE {})
   \cup (IF gate = 0 /\ ~(ErrsAre(cfg, obs, <<>>) /\ obs.eff = d) THEN {"nonstrict_passthrough"} ELSE {})

FailedV(cfg, scr, obs) ==
   LET gate == ExpectedGate(cfg)
       d    == Direct(scr, cfg.strict)
       hp   == HasPanic(scr)
       \* strict mode defers the commit to the flush, so the Content-Type that goes out (and
       \* that the response check must use) is the one in the header map at handler return
       ok   == RespValidOpt(cfg.opt, d.status, DirectRaw(scr, "none", FALSE).hdr, d.body)
   IN
   (IF obs.eff.panicked THEN {"no_panic"} ELSE {})
   \cup (IF obs.invoked # (IF gate = 0 THEN 1 ELSE 0) THEN {"handler_iff_valid"} ELSE {})
   \cup (IF gate # 0 /\ ~(ErrsAre(cfg, obs, <<[status |-> gate, code |-> ErrCodeOf(gate)]>>) /\ ErrRespOK(cfg, gate, obs.eff))
         THEN {"gate_answers_itself"} ELSE {})
   \* a handler that panics has, on an unwrapped writer, sent what it sent before the panic
   \cup (IF gate = 0 /\ ~cfg.strict /\ ~(ErrsAre(cfg, obs, <<>>) /\ obs.eff = d)
         THEN {"nonstrict_passthrough"} ELSE {})
   \cup (IF gate = 0 /\ cfg.strict /\ ~hp /\ ok
            /\ ~(ErrsAre(cfg, obs, <<>>) /\ obs.eff.status = d.status /\ obs.eff.body = d.body)
         THEN {"strict_valid_exact"} ELSE {})
   \cup (IF gate = 0 /\ cfg.strict /\ ~hp /\ ~ok
            /\ ~(ErrsAre(cfg, obs, <<[status |-> 500, code |-> 3]>>) /\ ErrRespOK(cfg, 500, obs.eff))
         THEN {"strict_invalid_replaced"} ELSE {})
   \* strict mode, handler panicked: its response was never validated, so nothing of it may reach the client
   \* (the statement leaves open whether the panic propagates or is answered with a server error)
   \cup (IF gate = 0 /\ cfg.strict /\ hp
            /\ ~(obs.silent \/ (ErrsAre(cfg, obs, <<[status |-> 500, code |-> 3]>>) /\ ErrRespOK(cfg, 500, obs.eff)))
         THEN {"strict_unvalidated_withheld"} ELSE {})

(* strict_valid_exact compares status and body only: the strict wrapper defers WriteHeader, *)
(* so headers the handler sets after its own WriteHeader still reach the client; the       *)
(* property speaks of status and body.                                                     *)
Failed(cfg, scr, obs) == IF IsVH(cfg) THEN FailedVH(cfg, scr, obs) ELSE FailedV(cfg, scr, obs)
Contract(cfg, scr, obs) == Failed(cfg, scr, obs) = {}

-----------------------------------------------------------------------------
(* L2: the middleware's own state machine.                                   *)
VARIABLES
   cfg,       \* [strict, reqClass, errMode, gate, opt, primer, auth]
   phase,     \* "start" | "handler" | "aborted" | "done"
   w,         \* wrapper state [hw, st, buf]     (headerWritten, status, body tokens)
   hdr,       \* Content-Type currently in the client's header map
   script,    \* handler calls so far (history; it IS the generated test case)
   cOut,      \* raw calls made on the client's ResponseWriter so far
   invoked,   \* number of times the wrapped handler was entered
   errs,      \* errFunc calls [status, code]
   logs       \* logFunc calls (message class)

vars == <<cfg, phase, w, hdr, script, cOut, invoked, errs, logs>>

WInit == [hw |-> FALSE, st |-> 0, buf |-> <<>>]

(* the configurations of the universe *)
CfgOK(c) ==
   \* history: a Validator serves many requests; what it did for an earlier one (the primer), or does for others at the
   \* same time, never shows in this one
   /\ (c.primer # "none" => c.gate = "validator" /\ c.strict /\ c.errMode = "custom" /\ c.opt = "none" /\ c.auth = "callback"
                             /\ c.reqClass \in {"valid_post", "inv_body"})
   \* gate "validator": NewValidator(router, options...).Middleware(handler under test); the same Validator then wraps a
   \*    second handler (one Validator, many wrappers: each runs its own handler)
   \* gate "vhandler": ValidationHandler{Handler, AuthenticationFunc, ErrorEncoder}.ServeHTTP;
   \* gate "vhandler_mw": ValidationHandler.Middleware(next) around the handler under test, created next to a second
   \*    wrapper of the SAME ValidationHandler around another handler (each wrapper must run its own handler)
   \* gate "vhandler_def": ValidationHandler{File} alone: Load installs http.DefaultServeMux (where the handler under test is
   \*    registered), NoopAuthenticationFunc and DefaultErrorEncoder
   /\ (IsVH(c) => ~c.strict /\ c.opt = "none" /\ c.auth \in {"callback", "noop", "nofunc"})
   /\ (c.gate = "vhandler_mw"  => c.auth = "callback" /\ c.errMode = "default")
   /\ (c.gate = "vhandler_def" => c.auth = "nofunc" /\ c.errMode = "default")
   /\ (c.gate = "vhandler" /\ c.errMode = "custom" => c.auth = "callback")
   /\ (c.opt \in RespOpts => c.strict /\ c.errMode = "custom" /\ c.reqClass = "valid_post" /\ c.auth = "callback")   \* options that matter for the strict verdict
   /\ (c.opt \in ReqOpts => c.errMode = "custom" /\ c.auth \in {"callback", "nofunc"})                               \* options that matter at the gate
   /\ (c.auth = "noopts" => c.opt = "none")
   /\ (c.auth # "callback" /\ c.gate = "validator" => c.errMode = "custom")

Init ==
   /\ cfg \in [strict : BOOLEAN, reqClass : ReqClasses, errMode : ErrModes, gate : Gates, opt : Opts, primer : Primers, auth : Auths]
   /\ CfgOK(cfg)
   /\ phase = "start" /\ w = WInit /\ hdr = "none" /\ script = <<>> /\ cOut = <<>>
   /\ invoked = 0 /\ errs = <<>> /\ logs = <<>>

(* errFunc: the default one is http.Error; the harness's custom one records the call and *)
(* writes WriteHeader(status), Write("X") without touching the header map.  errMode      *)
(* "default" builds the Validator with neither OnErr nor OnLog (its own http.Error /     *)
(* log.Printf callbacks), "custom" with both.                                            *)
ErrFuncOut(status, h) ==
   IF cfg.errMode = "default"
   THEN [hdr |-> "errtext", out |-> <<[e |-> "WH", s |-> status, ct |-> "errtext"],
                                     [e |-> "W", data |-> ErrText(status), ct |-> "errtext"]>>]
   ELSE [hdr |-> h, out |-> <<[e |-> "WH", s |-> status, ct |-> h],
                             [e |-> "W", data |-> "X", ct |-> h]>>]

(* statuses ConvertErrors + DefaultErrorEncoder give for the request classes of the test document *)
VHStatus(rc) == CASE rc = "nf_path" -> 404 [] rc \in {"nf_method", "nf_options", "nf_head"} -> 405 [] rc = "inv_body" -> 422 [] rc = "inv_param" -> 400
                  [] rc = "inv_pathlevel" -> 404 [] OTHER -> 500

Gate ==   \* FindRoute / ValidateRequest fail: log, errFunc, return
   /\ phase = "start" /\ ExpectedGate(cfg) # 0
   /\ LET status == ExpectedGate(cfg)
          ef == ErrFuncOut(status, hdr) IN
      IF IsVH(cfg)
      THEN IF cfg.errMode = "custom"
           THEN /\ errs' = Append(errs, [status |-> 499, code |-> 0])
                /\ cOut' = cOut \o <<[e |-> "WH", s |-> 499, ct |-> hdr], [e |-> "W", data |-> "X", ct |-> hdr]>>
                /\ UNCHANGED <<hdr, logs>>
           ELSE \* ErrorEncoder: some error status and body (not modelled further)
                /\ cOut' = cOut \o <<[e |-> "WH", s |-> VHStatus(cfg.reqClass), ct |-> "errjson"], [e |-> "W", data |-> "?", ct |-> "errjson"]>>
                /\ hdr' = "errjson" /\ UNCHANGED <<errs, logs>>
      ELSE
      /\ errs' = Append(errs, [status |-> status, code |-> ErrCodeOf(status)])
      /\ logs' = Append(logs, IF status = 404 THEN "noroute" ELSE "badreq")
      /\ cOut' = cOut \o ef.out /\ hdr' = ef.hdr
   /\ phase' = "done"
   /\ UNCHANGED <<cfg, w, script, invoked>>

Invoke ==
   /\ phase = "start" /\ ExpectedGate(cfg) = 0
   /\ phase' = "handler" /\ invoked' = invoked + 1
   /\ UNCHANGED <<cfg, w, hdr, script, cOut, errs, logs>>

(* one wrapper method call; returns the new wrapper state, header and client calls *)
WrapStep(strict, ws, h, c0) ==
   LET c == Norm(c0) IN
   CASE c.c = "SetCT" -> [w |-> ws, hdr |-> c.ct, out |-> <<>>]
     [] c.c = "Nop"   -> [w |-> ws, hdr |-> h, out |-> <<>>]
     [] c.c = "WH" /\ InfoFix /\ c.s \in InfoStatuses /\ ~ws.hw ->
          \* repaired wrappers: an informational response is not the response's status
          [w |-> ws, hdr |-> h, out |-> IF strict THEN <<>> ELSE <<[e |-> "WH", s |-> c.s, ct |-> h]>>]
     [] c.c = "WH" /\ ~(InfoFix /\ c.s \in InfoStatuses /\ ~ws.hw) ->
          LET w1 == IF ws.hw THEN ws ELSE [ws EXCEPT !.hw = TRUE, !.st = c.s] IN
          [w |-> w1, hdr |-> h,
           out |-> IF strict THEN <<>> ELSE <<[e |-> "WH", s |-> w1.st, ct |-> h]>>]
     [] c.c = "W" ->
          LET w1 == IF ws.hw THEN ws ELSE [ws EXCEPT !.hw = TRUE, !.st = 200]
              pre == IF ws.hw \/ strict THEN <<>> ELSE <<[e |-> "WH", s |-> 200, ct |-> h]>> IN
          [w |-> [w1 EXCEPT !.buf = Append(@, c.tok)], hdr |-> h,
           out |-> IF strict THEN <<>> ELSE pre \o <<[e |-> "W", data |-> Bytes(c.tok), ct |-> h]>>]
     [] c.c = "F" ->
          [w |-> ws, hdr |-> h, out |-> IF strict THEN <<>> ELSE <<[e |-> "F", ct |-> h]>>]

(* no wrapper: the handler's calls are the client's calls *)
DirectStep(ws, h, c0) ==
   LET c == Norm(c0) IN
   CASE c.c = "SetCT" -> [w |-> ws, hdr |-> c.ct, out |-> <<>>]
     [] c.c = "Nop" -> [w |-> ws, hdr |-> h, out |-> <<>>]
     [] c.c = "WH" -> [w |-> ws, hdr |-> h, out |-> <<[e |-> "WH", s |-> c.s, ct |-> h]>>]
     [] c.c = "W"  -> [w |-> [ws EXCEPT !.buf = Append(@, c.tok)], hdr |-> h, out |-> <<[e |-> "W", data |-> Bytes(c.tok), ct |-> h]>>]
     [] c.c = "F"  -> [w |-> ws, hdr |-> h, out |-> <<[e |-> "F", ct |-> h]>>]

(* the optional interfaces the writer handed to the handler offers: the client's writer itself (Flusher, Hijacker)  *)
(* behind the request-only gate; the warn wrapper passes Flush through; the strict wrapper offers none; neither     *)
(* wrapper has Unwrap, so http.ResponseController finds nothing more                                                *)
Caps(c) == IF IsVH(c) THEN {"flusher", "hijacker"} ELSE IF c.strict THEN {} ELSE {"flusher"}

HandlerCall(c) ==
   /\ phase = "handler"
   /\ LET r == IF IsVH(cfg) THEN DirectStep(w, hdr, c) ELSE WrapStep(cfg.strict, w, hdr, c) IN
      /\ w' = r.w /\ hdr' = r.hdr /\ cOut' = cOut \o r.out
   /\ script' = Append(script, c)
   \* a panic leaves the middleware through every frame: no response check, no flush, no errFunc
   /\ phase' = IF c.c = "Panic" THEN "aborted" ELSE phase
   /\ UNCHANGED <<cfg, invoked, errs, logs>>

Aborted ==
   /\ phase = "aborted" /\ phase' = "done"
   /\ UNCHANGED <<cfg, w, hdr, script, cOut, invoked, errs, logs>>

(* status the wrappers report to ValidateResponse (statusCode()): the strict wrapper     *)
(* reports 200 if the handler never wrote a header -- that is what its client will see;  *)
(* the warn wrapper reports 0 (affects only what is logged).                             *)
WStatus(ws) == IF ws.st = 0 /\ ZeroStatusFix /\ cfg.strict THEN 200 ELSE ws.st

RespCheckFrom(ph) ==
   /\ phase = ph /\ phase' = "done"
   /\ LET ok == IsVH(cfg) \/ RespValidOpt(cfg.opt, WStatus(w), hdr, Str(w.buf)) IN
      IF ok THEN
         /\ cOut' = IF cfg.strict
                    THEN cOut \o <<[e |-> "WH", s |-> WStatus(w), ct |-> hdr],
                                   [e |-> "W", data |-> Str(w.buf), ct |-> hdr]>>
                    ELSE cOut
         /\ UNCHANGED <<hdr, errs, logs>>
      ELSE
         /\ logs' = Append(logs, "badresp")
         /\ IF cfg.strict
            THEN LET ef == ErrFuncOut(500, hdr) IN
                 /\ errs' = Append(errs, [status |-> 500, code |-> 3])
                 /\ cOut' = cOut \o ef.out /\ hdr' = ef.hdr
            ELSE UNCHANGED <<cOut, hdr, errs>>
   /\ UNCHANGED <<cfg, w, script, invoked>>

(* the handler returns: response check and flush / errFunc *)
RespCheck == RespCheckFrom("handler")

(* what happens, silently for the trace, after the last handler call *)
Epilogue == Gate \/ RespCheck \/ Aborted

-----------------------------------------------------------------------------
(* The generator: which behaviours are built for which configuration.                                                   *)
(* Full depth (MaxCalls) for the configurations the response path depends on; the configurations that only vary the     *)
(* gate (AuthenticationFunc, request-side options, the security classes of the second document) get SideCalls calls;    *)
(* extended calls only under the main request class.                                                                    *)
Full(c)   == /\ c.auth = "callback" /\ c.opt \notin ReqOpts
             /\ c.reqClass \in {"valid_post", "valid_plain", "valid_secure", "valid_upgrade"}
             /\ ~(c.gate = "vhandler" /\ c.errMode = "custom")
Depth(c)  == IF Full(c) THEN MaxCalls ELSE SideCalls
ExtCfg(c) == Full(c) /\ c.reqClass = "valid_post" /\ c.primer = "none"
ExtCount(scr) == Cardinality({i \in DOMAIN scr : IsExt(scr[i])})

(* the generator only builds behaviours whose body is "clear" *)
Growable(c) == /\ Len(script) < Depth(cfg)
               /\ (IsExt(c) => ExtCfg(cfg) /\ ExtCount(script) < ExtMax)
               /\ (IsExt(c) \/ ExtCount(script) > 0 => Len(script) < ExtDepth)
               /\ (Norm(c).c = "W" => Clear(Append(w.buf, Norm(c).tok)))

Next ==
   \/ Gate \/ Invoke \/ RespCheck \/ Aborted
   \/ \E c \in Calls : Growable(c) /\ HandlerCall(c)

Spec == Init /\ [][Next]_vars

-----------------------------------------------------------------------------
(* Design-level check: in every terminal state of L2 the contract holds for  *)
(* what a client of cOut observes.                                           *)
ModelObs == [invoked |-> invoked, errs |-> errs, eff |-> Effective(cOut, hdr), silent |-> cOut = <<>>]

(* the contract, up to the classes of open findings (FindingsC14; none is open at present) *)
L2ImpliesL1 == phase = "done" =>
   LET bad == Failed(cfg, script, ModelObs) IN bad = {} \/ Class(cfg, script, bad) # "none"
(* the contract, no exception: what the main configurations check *)
L2ImpliesL1Pure == phase = "done" => Contract(cfg, script, ModelObs)

TypeOK ==
   /\ phase \in {"start", "handler", "aborted", "done"}
   /\ w.hw \in BOOLEAN /\ w.st \in Statuses \cup {0}
   /\ invoked \in 0..1
   /\ (cfg.gate = "validator" => (w.hw <=> w.st # 0))

(* the wrapped handler runs at most once and never before the gate has passed *)
HandlerOnlyAfterGate == invoked = 1 => RequestValid(cfg) /\ cfg.reqClass \notin NotFoundClasses
NoClientBytesBeforeCheckInStrict ==
   (cfg.strict /\ phase \in {"handler", "aborted"}) => cOut = <<>>
(* ... and none at all when the handler panicked *)
StrictPanicSilent == (cfg.strict /\ phase = "done" /\ HasPanic(script)) => cOut = <<>>
=============================================================================
