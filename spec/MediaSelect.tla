----------------------------- MODULE MediaSelect -----------------------------
(* L1: selection of the declared media type for a Content-Type header, by the documented *)
(* precedence: exact string (parameters included), then without parameters, then type/*, *)
(* then */*; an absent header matches */* only.                                          *)
(* A media type is [ty, sub, par] (par = "" when there are no parameters).               *)
EXTENDS Sequences, FiniteSets, TLC

MT(ty, sub, par) == [ty |-> ty, sub |-> sub, par |-> par]
Render(m) == m.ty \o "/" \o m.sub \o (IF m.par = "" THEN "" ELSE "; " \o m.par)

Strip(m) == [m EXCEPT !.par = ""]

(* declared: a set of media types; h: a media type, or [absent |-> TRUE] *)
Select(declared, h) ==
   IF "absent" \in DOMAIN h
   THEN IF MT("*", "*", "") \in declared THEN MT("*", "*", "") ELSE [none |-> TRUE]
   ELSE IF h \in declared THEN h
   ELSE IF Strip(h) \in declared THEN Strip(h)
   ELSE IF MT(h.ty, "*", "") \in declared THEN MT(h.ty, "*", "")
   ELSE IF MT("*", "*", "") \in declared THEN MT("*", "*", "")
   ELSE [none |-> TRUE]

IsNone(m) == "none" \in DOMAIN m
=============================================================================
