------------------------------- MODULE DocJson -------------------------------
(***************************************************************************)
(* Tagged JSON for whole documents (C17).  Same idea as JsonValue.tla, but  *)
(* objects are TLA+ functions from key strings to tagged values and strings *)
(* are TLC strings (document checks never look inside a string; they only   *)
(* compare strings and build them with \o):                                 *)
(*   [t |-> "null"]  [t |-> "bool", b |-> TRUE]  [t |-> "num", q |-> 6]     *)
(*   [t |-> "str", s |-> "abc"]  [t |-> "arr", a |-> <<v1, ...>>]           *)
(*   [t |-> "obj", m |-> [key |-> value, ...]]     (empty object: m = <<>>) *)
(* q = value * 4 (quarters).  A number that is not a multiple of 1/4 is     *)
(* projected by the harness as [t |-> "numx", s |-> "<text>"].              *)
(* Every field name carries one type only, so TLC's record comparison never *)
(* meets two values of different types under the same name.                 *)
(***************************************************************************)
EXTENDS Integers, Sequences, FiniteSets, TLC

Nul    == [t |-> "null"]
B(b)   == [t |-> "bool", b |-> b]
N(q)   == [t |-> "num", q |-> q]
I(n)   == [t |-> "num", q |-> 4 * n]
S(s)   == [t |-> "str", s |-> s]
A(a)   == [t |-> "arr", a |-> a]
O(m)   == [t |-> "obj", m |-> m]
Absent == [t |-> "absent"]          \* "no value here" in difference reports
EmptyO == O(<<>>)

Range(f) == {f[i] : i \in DOMAIN f}

IsObj(v) == v.t = "obj"
IsArr(v) == v.t = "arr"
IsStr(v) == v.t = "str"

Keys(o)    == IF o.t = "obj" THEN DOMAIN o.m ELSE {}
Has(o, k)  == o.t = "obj" /\ k \in DOMAIN o.m
Opt(o, k)  == IF Has(o, k) THEN o.m[k] ELSE Nul          \* value or null
Sub(o, k)  == IF Has(o, k) /\ o.m[k].t = "obj" THEN o.m[k] ELSE EmptyO   \* sub-object or {}
Elems(o, k) == IF Has(o, k) /\ o.m[k].t = "arr" THEN Range(o.m[k].a) ELSE {}   \* members of an array field
IsTrue(o, k) == Has(o, k) /\ o.m[k] = B(TRUE)
StrOf(v, dflt) == IF v.t = "str" THEN v.s ELSE dflt

(* the strings of an array of strings, as an "object set" (order-insensitive) *)
StrSet(v) == IF v.t = "arr" THEN {v.a[i].s : i \in {j \in DOMAIN v.a : v.a[j].t = "str"}} ELSE {}
SetObj(ss) == O([x \in ss |-> Nul])

(* optional key *)
KV(k, v) == k :> v
If(c, f) == IF c THEN f ELSE <<>>

RECURSIVE SetToSeq(_)
SetToSeq(X) == IF X = {} THEN <<>> ELSE LET x == CHOOSE y \in X : TRUE IN <<x>> \o SetToSeq(X \ {x})

(* every string that is the value of a "$ref" key anywhere in v *)
RECURSIVE AllRefs(_)
AllRefs(v) ==
   CASE v.t = "obj" -> (IF "$ref" \in DOMAIN v.m /\ v.m["$ref"].t = "str" THEN {v.m["$ref"].s} ELSE {})
                          \cup UNION {AllRefs(v.m[k]) : k \in DOMAIN v.m}
     [] v.t = "arr" -> UNION {AllRefs(v.a[i]) : i \in DOMAIN v.a}
     [] OTHER -> {}

(* does the key occur anywhere in v *)
RECURSIVE HasKeyDeep(_, _)
HasKeyDeep(v, key) ==
   CASE v.t = "obj" -> key \in DOMAIN v.m \/ \E k \in DOMAIN v.m : HasKeyDeep(v.m[k], key)
     [] v.t = "arr" -> \E i \in DOMAIN v.a : HasKeyDeep(v.a[i], key)
     [] OTHER -> FALSE

(* Structural difference of two tagged values: the set of places (paths of keys /    *)
(* array indices) where they differ, with what is there on each side.                *)
RECURSIVE Diff(_, _, _)
Diff(e, g, path) ==
   IF e = g THEN {}
   ELSE IF e.t = "obj" /\ g.t = "obj" THEN
      UNION {IF k \notin DOMAIN g.m THEN {[path |-> Append(path, k), exp |-> e.m[k], got |-> Absent]}
             ELSE IF k \notin DOMAIN e.m THEN {[path |-> Append(path, k), exp |-> Absent, got |-> g.m[k]]}
             ELSE Diff(e.m[k], g.m[k], Append(path, k)) : k \in DOMAIN e.m \cup DOMAIN g.m}
   ELSE IF e.t = "arr" /\ g.t = "arr" /\ Len(e.a) = Len(g.a) THEN
      UNION {Diff(e.a[i], g.a[i], Append(path, ToString(i))) : i \in DOMAIN e.a}
   ELSE {[path |-> path, exp |-> e, got |-> g]}
=============================================================================
