--------------------------- MODULE RobustTraffic ---------------------------
(***************************************************************************)
(* C10: hostile traffic against valid but unusual documents.  The space is *)
(* the product of a lattice of legal-but-unusual document features and a   *)
(* mutation machine over a well-formed request / response; the oracle is   *)
(* the outcome alphabet (every call returns normally).                     *)
(***************************************************************************)
EXTENDS Naturals, Sequences, FiniteSets, FiniteSetsExt, TLC, RobustAtoms

CONSTANTS MaxFeat, MaxMut

VARIABLES feats, muts, side, multi
vars == <<feats, muts, side, multi>>

Init == /\ feats \in UNION {kSubset(k, DocFeatures) : k \in 0..MaxFeat}
        /\ muts = <<>> /\ side \in {"request", "response"} /\ multi \in BOOLEAN
Mutate(m) == /\ Len(muts) < MaxMut /\ ~\E i \in DOMAIN muts : muts[i] = m
             /\ muts' = Append(muts, m) /\ UNCHANGED <<feats, side, multi>>
Next == \E m \in (IF side = "request" THEN ReqMutations ELSE RespMutations) : Mutate(m)
Spec == Init /\ [][Next]_vars

(* L1: outcome alphabet of one run; obs maps every call to ok | error | skipped | panic | hang | crash.  The calls: router *)
(* construction (both routers), FindRoute (both), ValidateRequest (with the route of either router), ConvertErrors,           *)
(* ValidateResponse, the strict and the lenient middleware's ServeHTTP, the go-kit style error encoder, reading the returned  *)
(* errors (text, typed parts, causes: "reported as an error" - observed on traffic nested at most 500 deep, the text of an    *)
(* error being quadratic in depth), and the same request and response validated once more against the same loaded document.  *)
(* Every one of them returns normally: ok or error.                                                                          *)
Abnormal == {"panic", "hang", "crash"}
Normal == {"ok", "error", "skipped"}
Failed(obs) ==
   (IF \E s \in DOMAIN obs : obs[s] \in Abnormal THEN {"returns_normally"} ELSE {})
   \cup (IF \E s \in DOMAIN obs : s # "doc" /\ obs[s] \notin (Abnormal \cup Normal) THEN {"outcome_alphabet"} ELSE {})
=============================================================================
