------------------------------ MODULE Gen_C08H ------------------------------
(* D + F for the clause "the response body stays readable afterwards" of C08: every history of spec/BodyKeep.tla    *)
(* (<= MaxResp responses, MaxSteps calls: validate(r) / read(r, n)), each response kind realised as an ordinary C08  *)
(* case (KindCase), to be replayed in ONE process.  The case carries no expectation: Trace_C08H folds L1 over it.    *)
EXTENDS BodyKeep, ResponseCheck, Json, CSV

AllKinds == Kinds
CoreKinds == {"read_ok", "read_bad", "no_content", "head"}

(* bodies differ in content and in length from response to response: "n" is a run of 3r digits r *)
Pad(r) == [i \in 1..(3 * r) |-> ToString(r)]
RECURSIVE Cat(_)
Cat(ss) == IF ss = <<>> THEN "" ELSE Head(ss) \o Cat(Tail(ss))
DefBase(r) == [part |-> "def", hd |-> "none", hv |-> "absent", decl |-> "json", ct |-> Json, req |-> "qw", ctText |-> Render(Json),
               body |-> Obj(<<"n", "q">>, <<Str(Pad(r)), Num(4)>>), excludeBody |-> FALSE, excludeWO |-> FALSE, multi |-> FALSE]
BadBody(r) == Obj(<<"n", "q">>, <<Str(Pad(r)), Str(<<"x">>)>>)
KindCase(k, r) ==
   CASE k = "read_ok"    -> DefBase(r)
     [] k = "read_bad"   -> [DefBase(r) EXCEPT !.body = BadBody(r)]
     [] k = "bad_ct"     -> [DefBase(r) EXCEPT !.ct = MT("text", "plain", ""), !.ctText = "text/plain"]
     [] k = "no_content" -> [DefBase(r) EXCEPT !.decl = "none", !.body = BadBody(r)]
     [] k = "exclude"    -> [DefBase(r) EXCEPT !.excludeBody = TRUE, !.body = BadBody(r)]         \* would be rejected if it were read
     \* exempt responses whose body WOULD be rejected if they were checked (it carries the marker of another entry)
     [] k = "head"       -> [part |-> "pick", keys |-> <<"200", "404">>, status |-> 200, method |-> "HEAD", includeStatus |-> FALSE,
                             bodyKey |-> "404", pad |-> Cat(Pad(r))]
     [] k = "s304"       -> [part |-> "pick", keys |-> <<"200", "default">>, status |-> 304, method |-> "GET", includeStatus |-> FALSE,
                             bodyKey |-> "200", pad |-> Cat(Pad(r))]

(* the verdict table of BodyKeep is the one-shot contract *)
ASSUME \A k \in Kinds, r \in 1..3 : Accepts(KindCase(k, r)) <=> OkKind(k)
ASSUME \A k \in Kinds, r \in 1..3 : Reads(k) => (KindCase(k, r).decl = "json" /\ ~KindCase(k, r).excludeBody)

(* the same responses validated and read back CONCURRENTLY (one goroutine per response, started together, many rounds): *)
(* every goroutine must see what it sees alone -- its own verdict, its own bytes                                       *)
EmitConc == hist = <<>> =>
   CSVWrite("%1$s", <<ToJson([kinds |-> kind, resps |-> [r \in R |-> KindCase(kind[r], r)], steps |-> <<>>, conc |-> TRUE])>>,
            "cases_h.ndjson")
Emit == (Complete \/ ~ENABLED Next) =>
   CSVWrite("%1$s", <<ToJson([kinds |-> kind, resps |-> [r \in R |-> KindCase(kind[r], r)],
                              steps |-> [i \in DOMAIN hist |-> hist[i].c]])>>, "cases_h.ndjson")
=============================================================================
