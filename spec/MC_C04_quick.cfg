SPECIFICATION Spec
CONSTANTS MaxDepth = 8
          MaxNest = 1
          MaxPos2 = 1
          Pos2Tail = 1
          DeepMethods = {"get"}
          ShallowBelow = 1
          CbBelow = 2
          AuxDepth = 3
          Lean = TRUE
          Repaired = {1, 2, 4, 5, 7, 9, 10, 11, 12, 13, 14, 16}
INVARIANTS DAndEmit EmitOpts
CHECK_DEADLOCK FALSE
