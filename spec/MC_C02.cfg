SPECIFICATION MCSpec
CONSTANTS Tier = "thorough"
          Styles = {"plain", "dot", "updown"}
          Allows = {TRUE}
          LoaderVisitsAll = TRUE
INVARIANTS L2vsL1 StrictOnClean ReproducesConflation ReproducesPureCycle
CHECK_DEADLOCK FALSE
