------------------------------- MODULE MC_C05 -------------------------------
(* D for C05: which designs of the decoder (ParamDecode, L2) are inverses of the style table (ParamCodec!Wire, L1)  *)
(* on the universe of Gen_C05.  No behaviour: the statements are ASSUMEs, evaluated by TLC at start-up.             *)
EXTENDS Gen_C05, ParamDecode

InScope(sh) == sh.id \in {"int", "int32", "num", "bool", "str", "arrint", "arrstr", "obj", "objk", "multitype", "multitype_str"}
PathCells == {c \in Cells : c.in = "path"}
FormCells == {c \in Cells : c.in = "query" /\ c.style = "form"}
EncModes == {"min", "all"}
Others == {"-", "z", "upper"}

(* the judged points: (cell, shape, schema, value) with a determined wire and a determined decoded value *)
Points(cells) == {pt \in [c : cells, sh : {x \in Shapes : InScope(x)}] : TRUE}
SV(sh) == {sv \in [s : sh.schemas, v : sh.vals] : Typed(sv.s, sv.v)}

PathTrip(order, closed, c, s, v, m) ==
   LET r == DecodePath(order, closed, c, P, s, PathCs(c, P, v, Enc(c, v, m))) IN r.ok /\ ~IsAbsent(r) /\ Eq(r.val, v)

FormTrip(order, closed, c, s, v, m, ot) ==
   LET r == DecodeForm(order, closed, c, P, s, FormReq(c, P, v, m, ot)) IN r.ok /\ ~IsAbsent(r) /\ Eq(r.val, v)
FormAbsent(closed, c, s, ot) == IsAbsent(DecodeForm("split_unescape", closed, c, P, s, OtherPairs(ot)))

PathAll(order, closed) ==
   \A pt \in Points(PathCells) : \A sv \in SV(pt.sh), m \in EncModes :
      Defined(pt.c, sv.v) => PathTrip(order, closed, pt.c, sv.s, sv.v, m)
FormFailures(order, closed) ==
   {x \in [pt : Points(FormCells), m : EncModes, ot : Others] :
      \E sv \in SV(x.pt.sh) : /\ Defined(x.pt.c, sv.v) /\ Attributable(x.pt.c, x.pt.sh, sv.s, sv.v, x.ot)
                               /\ ~FormTrip(order, closed, x.pt.c, sv.s, sv.v, x.m, x.ot)}
AbsentFailures(closed) ==
   {x \in [pt : Points(FormCells), ot : Others] :
      \E s \in x.pt.sh.schemas : /\ AnyDefined(x.pt.c, x.pt.sh) /\ Attributable(x.pt.c, x.pt.sh, s, SomeVal(x.pt.c, x.pt.sh), x.ot)
                                 /\ ~FormAbsent(closed, x.pt.c, s, x.ot)}

(* 1. the decoder that splits first and unescapes the members is an inverse of Wire: every path cell, every form cell  *)
(*    next to every other query content, both encoding modes; an absent parameter is absent                            *)
ASSUME PathAll("split_unescape", "drop")
ASSUME FormFailures("split_unescape", "drop") = {}
ASSUME AbsentFailures("drop") = {}
(* 2. the universe tells the orders apart: unescaping before splitting is NOT an inverse, in every path cell           *)
ASSUME \A c \in PathCells : \E sh \in Shapes : InScope(sh) /\ \E sv \in SV(sh) :
          Defined(c, sv.v) /\ ~PathTrip("unescape_split", "drop", c, sv.s, sv.v, "min")
(* 3. in the query that order is the one built today (url.Values is decoded text): it fails exactly on non-exploded     *)
(*    values that hold an escaped comma -- the class of finding F-C05-4, nothing else                                   *)
ASSUME FormFailures("unescape_split", "drop") # {}
ASSUME \A x \in FormFailures("unescape_split", "drop") : ~x.pt.c.explode /\ x.pt.sh.id \in {"arrstr", "obj", "objk"}
(* 4. keeping undeclared properties under additionalProperties: false is harmless where the text names the object's      *)
(*    properties (path) and wrong where the exploded object shares the query with other parameters                       *)
ASSUME PathAll("split_unescape", "keep")
ASSUME FormFailures("split_unescape", "keep") # {} /\ \A x \in FormFailures("split_unescape", "keep") : x.pt.c.explode /\ x.ot # "-"
ASSUME AbsentFailures("keep") # {} /\ \A x \in AbsentFailures("keep") : x.pt.c.explode /\ x.ot # "-"

DInit == case = [d |-> TRUE]
DNext == UNCHANGED case
=============================================================================
