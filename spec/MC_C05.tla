------------------------------- MODULE MC_C05 -------------------------------
(* D for C05: which designs of the decoder (ParamDecode, L2) are inverses of the style table (ParamCodec!Wire, L1)  *)
(* on the universe of Gen_C05.  No behaviour: the statements are ASSUMEs, evaluated by TLC at start-up.             *)
EXTENDS Gen_C05, ParamDecode

InScope(sh) == sh.id \in {"int", "int32", "num", "bool", "str", "arrint", "arrstr", "obj", "objk", "multitype", "multitype_str"}
PathCells == {c \in Cells : c.in = "path"}
FormCells == {c \in Cells : c.in = "query" /\ c.style = "form"}
EncModes == {"min", "all", "alt"}
Others == {"-", "z", "upper"}

(* the judged points: (cell, shape, schema, value) with a determined wire and a determined decoded value *)
Points(cells) == {pt \in [c : cells, sh : {x \in Shapes : InScope(x)}] : TRUE}
SV(sh) == {sv \in [s : sh.schemas, v : sh.vals] : Typed(sv.s, sv.v)}
SV0 == UNION {[s : sh.schemas, v : sh.vals] : sh \in {x \in Shapes : InScope(x)}}          \* typed or not

PathTrip(order, closed, c, s, v, m) ==
   LET r == DecodePath(order, closed, c, P, s, PathCs(c, P, v, Enc(c, v, m))) IN r.ok /\ ~IsAbsent(r) /\ Eq(r.val, v)

FormTrip(order, closed, c, s, v, m, ot) ==
   LET r == DecodeForm(order, closed, c, P, s, FormReq(c, P, v, m, ot)) IN r.ok /\ ~IsAbsent(r) /\ Eq(r.val, v)
FormAbsent(closed, c, s, ot) == IsAbsent(DecodeForm("split_unescape", closed, c, P, s, OtherPairs(ot)))

PathAll(order, closed) ==
   \A pt \in Points(PathCells) : \A sv \in SV(pt.sh), m \in EncModes :
      Defined(pt.c, sv.v) => PathTrip(order, closed, pt.c, sv.s, sv.v, m)
FormFailures(order, closed) ==
   {x \in [pt : Points(FormCells), m : EncModes, ot : Others] :
      \E sv \in SV(x.pt.sh) : /\ Defined(x.pt.c, sv.v) /\ Attributable(x.pt.c, x.pt.sh, sv.s, sv.v, x.ot)
                               /\ ~FormTrip(order, closed, x.pt.c, sv.s, sv.v, x.m, x.ot)}
AbsentFailures(closed) ==
   {x \in [pt : Points(FormCells), ot : Others] :
      \E s \in x.pt.sh.schemas : /\ AnyDefined(x.pt.c, x.pt.sh) /\ Attributable(x.pt.c, x.pt.sh, s, SomeVal(x.pt.c, x.pt.sh), x.ot)
                                 /\ ~FormAbsent(closed, x.pt.c, s, x.ot)}

(* the values a closed schema (additionalProperties: false) must get to see whole: they carry a property it does not    *)
(* declare.  The decoder has no type for that property, but it must not lose it: the decoded object keeps every key,     *)
(* so that validation can reject the value (the statement: accepted exactly when the value satisfies the schema).         *)
ClosedPoints(cells) == {x \in [c : cells, sv : SV0] : Has(x.sv.s, "apFalse") /\ UndeclaredKeys(x.sv.s, x.sv.v) # {} /\ Defined(x.c, x.sv.v)}
KeepsKeys(r, v) == r.ok /\ ~IsAbsent(r) /\ \A i \in DOMAIN v.k : HasKey(r.val, v.k[i])
PathKeeps(closed, x) == KeepsKeys(DecodePath("split_unescape", closed, x.c, P, x.sv.s, PathCs(x.c, P, x.sv.v, Enc(x.c, x.sv.v, "min"))), x.sv.v)
FormKeeps(closed, x) == KeepsKeys(DecodeForm("split_unescape", closed, x.c, P, x.sv.s, FormReq(x.c, P, x.sv.v, "min", "-")), x.sv.v)

(* 1. the design of the code as it is since fb9cd6e, with the split-then-unescape order: an inverse of Wire on every path   *)
(*    cell and every form cell next to every other query content, both encoding modes; an absent parameter is absent;       *)
(*    a value with an undeclared property reaches a closed schema whole (path cells, non-exploded form)                     *)
ASSUME PathAll("split_unescape", "keep_own")
ASSUME FormFailures("split_unescape", "keep_own") = {}
ASSUME AbsentFailures("keep_own") = {}
ASSUME ClosedPoints(PathCells) # {} /\ \A x \in ClosedPoints(PathCells) : PathKeeps("keep_own", x)
ASSUME \A x \in ClosedPoints({c \in FormCells : ~c.explode}) : FormKeeps("keep_own", x)
(* 2. the universe tells the orders apart: unescaping before splitting is NOT an inverse, in every path cell           *)
ASSUME \A c \in PathCells : \E sh \in Shapes : InScope(sh) /\ \E sv \in SV(sh) :
          Defined(c, sv.v) /\ ~PathTrip("unescape_split", "keep_own", c, sv.s, sv.v, "min")
(*    ... and so does the way members are unescaped: by the rules of the query ("+" is a space) no path cell is inverted  *)
ASSUME \A c \in PathCells : \E sh \in Shapes : InScope(sh) /\ \E sv \in SV(sh), m \in EncModes :
          Defined(c, sv.v) /\ ~PathTrip("split_qunescape", "keep_own", c, sv.s, sv.v, m)
(* 3. in the query that order is the one built today (url.Values is decoded text): it fails exactly on non-exploded     *)
(*    values that hold an escaped comma -- the class of the open finding F-C05-4, nothing else                          *)
ASSUME FormFailures("unescape_split", "keep_own") # {}
ASSUME \A x \in FormFailures("unescape_split", "keep_own") : ~x.pt.c.explode /\ x.pt.sh.id \in {"arrstr", "obj", "objk"}
(* 4. the two designs the code has left behind or could fall back to.  "drop" (before fb9cd6e, F-C05-5) is an inverse on    *)
(*    typed values but loses the undeclared property in every cell; "keep" without the exploded form object confining      *)
(*    itself to its own keys (seeded change C05-l) is fine in the path and wrong exactly where the exploded object shares   *)
(*    the query with other parameters                                                                                     *)
ASSUME PathAll("split_unescape", "drop") /\ FormFailures("split_unescape", "drop") = {}
ASSUME \A x \in ClosedPoints(PathCells) : ~PathKeeps("drop", x)
ASSUME PathAll("split_unescape", "keep")
ASSUME FormFailures("split_unescape", "keep") # {} /\ \A x \in FormFailures("split_unescape", "keep") : x.pt.c.explode /\ x.ot # "-"
ASSUME AbsentFailures("keep") # {} /\ \A x \in AbsentFailures("keep") : x.pt.c.explode /\ x.ot # "-"

DInit == case = [d |-> TRUE]
DNext == UNCHANGED case
=============================================================================
