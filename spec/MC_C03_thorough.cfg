SPECIFICATION Spec
CONSTANTS MaxGrow = 3
          MaxGrowExt = 2
          MaxShrink = 1
          RandPerKind = 60
          Seed = 1
          MaxHist = 2
INVARIANTS NormIdem NormBelow NormalAgrees L2ImpliesL1 L2Idem RecvReplaceL1 Emit
CHECK_DEADLOCK FALSE
