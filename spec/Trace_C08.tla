------------------------------ MODULE Trace_C08 ------------------------------
(* Trace validation for C08: verdict = ResponseCheck!Accepts(case); the bytes readable    *)
(* from the response body after validation are the bytes supplied.                        *)
EXTENDS FindingsC08, Json, CSV

Trace == ndJsonDeserialize("trace.ndjson")
VARIABLE l
Init == l = 0
Next == l < Len(Trace) /\ l' = l + 1
Spec == Init /\ [][Next]_l

Failed(line) ==
   IF line.doc # "ok" THEN {"document_rejected"}
   ELSE (IF line.verdict \in {"panic", "crash", "hang"} THEN {"no_panic"} ELSE {})
        \cup (IF Accepts(line.c) /\ line.verdict # "ok" THEN {"conforming_response_accepted"} ELSE {})
        \cup (IF Rejects(line.c) /\ line.verdict = "ok" THEN {"violating_response_rejected"} ELSE {})
        \cup (IF line.verdict \notin {"panic", "crash", "hang"} /\ line.after # line.sent THEN {"body_readable_afterwards"} ELSE {})

LineOK(line) ==
   LET bad == Failed(line) IN
   bad = {} \/ CSVWrite("%1$s", <<ToJson([case |-> line.case, c |-> line.c, failed |-> bad, verdict |-> line.verdict,
                                           class |-> Class(line, bad)])>>, "violations.ndjson")
Judge == l > 0 => LineOK(Trace[l])
AllConsumed == TLCGet("stats").diameter = Len(Trace) + 1
=============================================================================
