SPECIFICATION Spec
CONSTANTS Policy = "on_success"
 MaxSteps = 3
INVARIANT HistoryIndependent
CHECK_DEADLOCK FALSE
