SPECIFICATION Spec
CONSTANTS MaxCalls = 3
          SideCalls = 1
          ExtMax = 2
          ExtDepth = 3
          ZeroStatusFix = TRUE
          InfoFix = TRUE
INVARIANTS TypeOK L2ImpliesL1Pure HandlerOnlyAfterGate NoClientBytesBeforeCheckInStrict StrictPanicSilent
CHECK_DEADLOCK FALSE
