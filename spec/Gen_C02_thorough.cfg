SPECIFICATION Spec
CONSTANTS Tier = "thorough"
          Styles = {"plain", "dot", "updown"}
          Allows = {TRUE}
INVARIANT Emit
CHECK_DEADLOCK FALSE
