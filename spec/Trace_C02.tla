------------------------------ MODULE Trace_C02 ------------------------------
(* Trace validation for C02.  A log line is one universe (spec/Layout.tla) with the load   *)
(* outcome and every reference site found in the returned document: (id of the object that *)
(* owns the site, ref text, kind, id of the object it resolved to).  L1:                    *)
(*   load ok    => every site resolved to the object its ref designates from the file that  *)
(*                 contains it (Layout!Designated);                                         *)
(*   load error => some reference the loader had to resolve designates nothing              *)
(*                 (dangling, wrong kind, pure reference cycle);                            *)
(*   loading terminates without panic.                                                      *)
EXTENDS LoaderImpl, FindingsC02, Json, CSV

Trace == ndJsonDeserialize("trace.ndjson")
VARIABLE l
Init == l = 0
Next == l < Len(Trace) /\ l' = l + 1
Spec == Init /\ [][Next]_l

AllRefs(u) == {u.use.ref}
              \cup UNION {IF IsConcrete(u.slots[i].c) THEN {u.slots[i].c.ch[j].ref : j \in DOMAIN u.slots[i].c.ch}
                          ELSE {u.slots[i].c.ref} : i \in DOMAIN u.slots}
KnownIds(u) == {"root"} \cup {u.slots[i].c.id : i \in {i \in DOMAIN u.slots : IsConcrete(u.slots[i].c)}}

SiteBad(u, s) ==
   LET rs == {r \in AllRefs(u) : RefText(r) = s.ref} IN
   IF rs = {} \/ s.owner \notin KnownIds(u) THEN "harness_unknown_site"
   ELSE LET r == CHOOSE x \in rs : TRUE
            exp == Designated(u, FileOfId(u, s.owner), r, s.kind) IN
        IF "id" \notin DOMAIN exp THEN "unresolvable_ref_accepted"
        ELSE IF s.got # exp.id THEN "resolved_to_designated_object"
        ELSE "ok"

Failed(line) ==
   LET u == line.c.u IN
   IF line.load \in {"panic", "crash"} THEN {"no_panic"}
   ELSE IF line.load = "hang" THEN {"terminates"}
   ELSE IF line.load = "error" THEN (IF AllResolvable(u) THEN {"valid_document_loads"} ELSE {})
   ELSE {SiteBad(u, line.sites[i]) : i \in DOMAIN line.sites} \ {"ok"}

BadSites(line) == IF line.load # "ok" THEN <<>>
                  ELSE SelectSeq(line.sites, LAMBDA s : SiteBad(line.c.u, s) # "ok")

(* model fidelity: the object each observed site resolved to is the one the implementation-shaped  *)
(* resolver model LoaderImpl predicts (including the listed deviations)                             *)
GoKind(k) == CASE k = "Schemas" -> "schemas" [] k = "Parameters" -> "parameters" [] k = "Headers" -> "headers"
               [] k = "RequestBodies" -> "requestBodies" [] k = "Responses" -> "responses" [] k = "SecuritySchemes" -> "securitySchemes"
               [] k = "Examples" -> "examples" [] k = "Links" -> "links" [] k = "Callbacks" -> "callbacks" [] OTHER -> k
Strip(nm) == nm     \* "[X]" is compared through the table below
BracketNames == [n \in {"A", "Acc", "B", "C", "Cat", "Dog", "H", "L", "Pet", "Rec", "U", "V", "W", "X", "Y", "Z", "e", "p", "schema"} |-> "[" \o n \o "]"]
NameOfBracket(b) == IF \E n \in DOMAIN BracketNames : BracketNames[n] = b
                    THEN CHOOSE n \in DOMAIN BracketNames : BracketNames[n] = b ELSE ""
KeyOf(u, pos, s) ==
   IF s.owner = "root"
   THEN IF Len(s.segs) >= 3 /\ s.segs[1] = "Components"
        THEN LET k == GoKind(s.segs[2])  n == NameOfBracket(s.segs[3]) IN
             IF n = "U" /\ pos = "comp" /\ SlotAt(u, Root, k, "U") = 0 THEN <<"use">> ELSE <<"root", k, n>>
        ELSE <<"use">>
   ELSE LET I == {i \in DOMAIN u.slots : IsConcrete(u.slots[i].c) /\ u.slots[i].c.id = s.owner} IN
        IF I = {} THEN <<"unknown">>
        ELSE LET i == CHOOSE x \in I : TRUE
                 J == {j \in DOMAIN u.slots[i].c.ch : RefText(u.slots[i].c.ch[j].ref) = s.ref} IN
             IF J = {} THEN <<"unknown">> ELSE <<"child", i, CHOOSE j \in J : TRUE>>

ModelAgrees(line) ==
   LET u == line.c.u  pos == IF line.c.pos = "op2" THEN "op" ELSE line.c.pos IN      \* two operations carrying the use: one use for the walk
   IF line.load = "error" THEN LoadFails(u, pos)
   ELSE IF line.load # "ok" THEN TRUE
   ELSE /\ ~LoadFails(u, pos)
        /\ \A i \in DOMAIN line.sites :
              LET key == KeyOf(u, pos, line.sites[i]) IN
              key = <<"unknown">> \/ line.sites[i].got = PredictedId(u, pos, key)

LineOK(line) ==
   LET bad == Failed(line) IN
   \* (LoaderImpl models ONE load on a fresh Loader: with file_abs_prior the documents come out of the cache as earlier loads left them -- LoaderReuse's matter, F-C02-7)
   /\ (line.c.entry \in {"file_rel_default", "file_abs_prior"} \/ ModelAgrees(line)
        \/ CSVWrite("%1$s", <<ToJson([case |-> line.case, shape |-> line.c.shape, kind |-> line.c.kind, site |-> line.c.site,
                                        load |-> line.load])>>, "fidelity.ndjson"))
   /\ bad = {} \/ CSVWrite("%1$s", <<ToJson([case |-> line.case, c |-> line.c, failed |-> bad, load |-> line.load,
                                           err |-> (IF "err" \in DOMAIN line THEN line.err ELSE ""),
                                           badsites |-> BadSites(line), class |-> Class(line, bad, BadSites(line))])>>,
                        "violations.ndjson")
Judge == l > 0 => LineOK(Trace[l])
AllConsumed == TLCGet("stats").diameter = Len(Trace) + 1
=============================================================================
