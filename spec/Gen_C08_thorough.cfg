SPECIFICATION Spec
INVARIANT Emit
CONSTANTS Keys <- KeysThorough
 Statuses <- StatusesThorough
CHECK_DEADLOCK FALSE
