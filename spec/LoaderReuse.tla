----------------------------- MODULE LoaderReuse -----------------------------
(***************************************************************************)
(* L2: what an openapi3.Loader keeps BETWEEN uses (loader.go), as a state  *)
(* machine over histories of uses of one Loader on one universe: the root  *)
(* document holds one reference into one external document.                *)
(*   cache   visitedDocuments: a document is entered BEFORE it is resolved *)
(*           (loadFromDataWithPathInternal) and served from there when its *)
(*           location is loaded again; it is never reset;                  *)
(*   inprog  visitedRefs: pushed by visitRef, popped by a deferred         *)
(*           unvisitRef that is registered only after the reference        *)
(*           resolved -- an error return leaves the reference pushed;      *)
(*   used    visitedPathItemRefs # nil: ResolveRefsIn resets the per-load  *)
(*           state only on a Loader that was never used; the Load* entry   *)
(*           points always reset it first;                                 *)
(*   allow   the public switch IsExternalRefsAllowed, which the caller may *)
(*           flip between two uses (Toggle).                               *)
(* Design = "pinned": the code as it is.  "repaired": a failed load drops  *)
(* the document from the cache and the outermost ResolveRefsIn resets the  *)
(* in-progress set when it returns an error (_report/fix-F-C02-6.diff).    *)
(* L1 (C02, C11): every use behaves like the use of a fresh Loader with    *)
(* the switch as it stands at that time: with external references allowed  *)
(* it succeeds with the reference resolved; with them disallowed nothing   *)
(* but the root is read.  (Whether a Loader that resolved the root with    *)
(* the switch on may hand the same document out again after the switch is  *)
(* turned off, reading nothing, is left open by the statement of C11:      *)
(* NeverServedWhenOff is defined, and not required.)                       *)
(* Bound to the code by the entries file_abs_toggled, resolvein_toggled,   *)
(* file_abs_retry, resolvein_retry of Gen_C02 (harness/c02.go c02Load):    *)
(* the two *_retry entries are the shortest counterexamples of the pinned  *)
(* design (finding F-C02-6).                                               *)
(***************************************************************************)
EXTENDS Naturals, FiniteSets, TLC

CONSTANTS Design, MaxUses
ASSUME Design \in {"pinned", "repaired"}

VARIABLES allow, cache, inprog, used, uses, last
vars == <<allow, cache, inprog, used, uses, last>>

NoUse == [allow |-> FALSE, ok |-> FALSE, resolved |-> FALSE, reads |-> {}]

Init == /\ allow \in BOOLEAN
        /\ cache = [d \in {"root", "ext"} |-> "none"]
        /\ inprog = {}
        /\ used = FALSE
        /\ uses = 0
        /\ last = NoUse

Toggle == /\ allow' = ~allow
          /\ UNCHANGED <<cache, inprog, used, uses, last>>

(* following the root's reference: the external document comes from the cache when it is there *)
ExtReads == IF cache["ext"] = "none" THEN {"ext"} ELSE {}

(* LoadFromFile(root): resets the per-load state, reads the root, serves it from the cache when it is there *)
LoadFromFile ==
   /\ uses < MaxUses
   /\ uses' = uses + 1
   /\ used' = TRUE
   /\ UNCHANGED allow
   /\ IF cache["root"] # "none"
      THEN /\ last' = [allow |-> allow, ok |-> TRUE, resolved |-> (cache["root"] = "resolved"), reads |-> {"root"}]
           /\ inprog' = {}
           /\ UNCHANGED cache
      ELSE IF allow
      THEN /\ last' = [allow |-> allow, ok |-> TRUE, resolved |-> TRUE, reads |-> {"root"} \cup ExtReads]
           /\ cache' = [d \in {"root", "ext"} |-> "resolved"]
           /\ inprog' = {}
      ELSE /\ last' = [allow |-> allow, ok |-> FALSE, resolved |-> FALSE, reads |-> {"root"}]
           /\ cache' = [cache EXCEPT !["root"] = IF Design = "pinned" THEN "half" ELSE "none"]
           /\ inprog' = IF Design = "pinned" THEN {"ref"} ELSE {}

(* ResolveRefsIn(doc parsed by the caller, location of the root): no reset on a used Loader; the root is not read *)
ResolveRefsIn ==
   /\ uses < MaxUses
   /\ uses' = uses + 1
   /\ used' = TRUE
   /\ UNCHANGED allow
   /\ LET ip == IF used THEN inprog ELSE {} IN
      IF "ref" \in ip
      THEN \* "already being visited": a waiter is registered that nobody will ever run; the reference stays unresolved
           /\ last' = [allow |-> allow, ok |-> TRUE, resolved |-> FALSE, reads |-> {}]
           /\ inprog' = ip
           /\ UNCHANGED cache
      ELSE IF allow
      THEN /\ last' = [allow |-> allow, ok |-> TRUE, resolved |-> TRUE, reads |-> ExtReads]
           /\ cache' = [cache EXCEPT !["ext"] = "resolved"]
           /\ inprog' = {}
      ELSE /\ last' = [allow |-> allow, ok |-> FALSE, resolved |-> FALSE, reads |-> {}]
           /\ inprog' = IF Design = "pinned" THEN {"ref"} ELSE {}
           /\ UNCHANGED cache

Next == Toggle \/ LoadFromFile \/ ResolveRefsIn
Spec == Init /\ [][Next]_vars

(* L1 *)
UsedLikeFresh == (uses > 0 /\ last.allow) => (last.ok /\ last.resolved)
ReadsOnlyRootWhenOff == (uses > 0 /\ ~last.allow) => last.reads \subseteq {"root"}
ReadsOnlyRefDerived == last.reads \subseteq {"root", "ext"}
NeverServedWhenOff == (uses > 0 /\ ~last.allow) => ~(last.ok /\ last.resolved)      \* (open by the statement; violated by both designs; not required)
=============================================================================
