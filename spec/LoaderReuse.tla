----------------------------- MODULE LoaderReuse -----------------------------
(***************************************************************************)
(* L2: what an openapi3.Loader keeps BETWEEN uses (loader.go), as a state  *)
(* machine over histories of uses of one Loader on one universe: the root  *)
(* document holds one reference into one external document; with BackRef   *)
(* the external document also refers back into the root (root.A -> ext.V   *)
(* -> root.B).                                                             *)
(*   cache   visitedDocuments: a document is entered BEFORE it is resolved *)
(*           (loadFromDataWithPathInternal) and served from there when its *)
(*           location is loaded again; it is never reset between loads;    *)
(*   inprog  visitedRefs: pushed by visitRef, popped by a deferred         *)
(*           unvisitRef that is registered only after the reference        *)
(*           resolved -- an error return leaves the reference pushed;      *)
(*   used    visitedPathItemRefs # nil: ResolveRefsIn resets the per-load  *)
(*           state only on a Loader that was never used; the Load* entry   *)
(*           points always reset it first;                                 *)
(*   allow   the public switch IsExternalRefsAllowed, which the caller may *)
(*           flip between two uses (Toggle).                               *)
(* Design:                                                                 *)
(*   "asbuilt"  the code as it is (since fcc1715): a failed load deletes   *)
(*              the document from the cache and the outermost              *)
(*              ResolveRefsIn resets the in-progress set when it returns   *)
(*              an error; the cache itself still lives as long as the      *)
(*              Loader;                                                    *)
(*   "pinned"   the design before fcc1715 (refuted: finding F-C02-6): a    *)
(*              failed load left the half-resolved document in the cache   *)
(*              and the reference in the in-progress set;                  *)
(*   "perload"  a variant not built: the visited documents belong to one   *)
(*              load (reset by every Load* entry point).                   *)
(* L1 (C02, C11): every use behaves like the use of a fresh Loader with    *)
(* the switch as it stands at that time: with external references allowed  *)
(* it succeeds with every reference resolved; with them disallowed nothing *)
(* but the root is read.  (Whether a Loader that resolved the root with    *)
(* the switch on may hand the same document out again after the switch is  *)
(* turned off, reading nothing, is left open by the statement of C11:      *)
(* NeverServedWhenOff is defined, and not required.)                       *)
(* Checked (lib/verif/p_c02.py): asbuilt without BackRef satisfies L1;     *)
(* pinned does not (F-C02-6, repaired); asbuilt WITH BackRef does not      *)
(* either -- a Loader that loaded ext as a root of its own has the root    *)
(* in its cache as that load left it, root.A unresolved because ext.V was  *)
(* in progress then (open finding F-C02-7); perload satisfies L1 there.    *)
(* Bound to the code by the entries file_abs_toggled, resolvein_toggled,   *)
(* file_abs_retry, resolvein_retry (the shortest counterexamples of        *)
(* "pinned") and file_abs_prior x crossdoc_local (the counterexample of    *)
(* asbuilt with BackRef) of Gen_C02 (harness/c02.go c02Load).              *)
(***************************************************************************)
EXTENDS Naturals, FiniteSets, TLC

CONSTANTS Design, MaxUses, BackRef
ASSUME Design \in {"asbuilt", "pinned", "perload"} /\ BackRef \in BOOLEAN

VARIABLES allow, cache, inprog, used, uses, last
vars == <<allow, cache, inprog, used, uses, last>>

Docs == {"root", "ext"}
NoUse == [allow |-> FALSE, ok |-> FALSE, resolved |-> FALSE, reads |-> {}]
Empty == [d \in Docs |-> "none"]

Init == /\ allow \in BOOLEAN
        /\ cache = Empty
        /\ inprog = {}
        /\ used = FALSE
        /\ uses = 0
        /\ last = NoUse

Toggle == /\ allow' = ~allow
          /\ UNCHANGED <<cache, inprog, used, uses, last>>

(* the cache a Load* entry point starts from *)
StartCache == IF Design = "perload" THEN Empty ELSE cache
(* following the root's reference: the external document comes from the cache when it is there *)
ExtReads(c) == IF c["ext"] = "none" THEN {"ext"} ELSE {}

(* LoadFromFile(root): resets the per-load state, reads the root, serves it from the cache when it is there.  *)
(* cache value "partial": entered and completed, but with a reference left nil (it was in progress then).    *)
LoadFromFile ==
   /\ uses < MaxUses
   /\ uses' = uses + 1
   /\ used' = TRUE
   /\ UNCHANGED allow
   /\ LET c == StartCache IN
      IF c["root"] # "none"
      THEN /\ last' = [allow |-> allow, ok |-> TRUE, resolved |-> (c["root"] = "resolved"), reads |-> {"root"}]
           /\ inprog' = {}
           /\ cache' = c
      ELSE IF allow
      THEN /\ last' = [allow |-> allow, ok |-> TRUE, resolved |-> TRUE, reads |-> {"root"} \cup ExtReads(c)]
           /\ cache' = [d \in Docs |-> "resolved"]
           /\ inprog' = {}
      ELSE /\ last' = [allow |-> allow, ok |-> FALSE, resolved |-> FALSE, reads |-> {"root"}]
           /\ cache' = [c EXCEPT !["root"] = IF Design = "pinned" THEN "half" ELSE "none"]
           /\ inprog' = IF Design = "pinned" THEN {"ref"} ELSE {}

(* LoadFromFile(ext) -- the external document loaded as a root document of its own (only of interest with BackRef: *)
(* ext.V -> root.B pulls the root in; the root's walk meets root.A -> ext.V while ext.V is in progress and leaves  *)
(* it nil; the root enters the cache like that).  Not counted as a use of the universe: it is the earlier history. *)
LoadExtAsRoot ==
   /\ BackRef /\ allow /\ uses < MaxUses
   /\ used' = TRUE
   /\ inprog' = {}
   /\ LET c == StartCache IN
      cache' = [c EXCEPT !["ext"] = IF c["ext"] = "none" THEN "resolved" ELSE c["ext"],
                         !["root"] = IF c["root"] = "none" /\ c["ext"] = "none" THEN "partial" ELSE c["root"]]
   /\ UNCHANGED <<allow, uses, last>>

(* ResolveRefsIn(doc parsed by the caller, location of the root): no reset on a used Loader; the root is not read *)
ResolveRefsIn ==
   /\ uses < MaxUses
   /\ uses' = uses + 1
   /\ used' = TRUE
   /\ UNCHANGED allow
   /\ LET ip == IF used THEN inprog ELSE {} IN
      IF "ref" \in ip
      THEN \* "already being visited": a waiter is registered that nobody will ever run; the reference stays unresolved
           /\ last' = [allow |-> allow, ok |-> TRUE, resolved |-> FALSE, reads |-> {}]
           /\ inprog' = ip
           /\ UNCHANGED cache
      ELSE IF allow
      THEN /\ last' = [allow |-> allow, ok |-> TRUE, resolved |-> TRUE, reads |-> ExtReads(cache)]
           /\ cache' = [cache EXCEPT !["ext"] = IF cache["ext"] = "none" THEN "resolved" ELSE cache["ext"]]
           /\ inprog' = {}
      ELSE /\ last' = [allow |-> allow, ok |-> FALSE, resolved |-> FALSE, reads |-> {}]
           /\ inprog' = IF Design = "pinned" THEN {"ref"} ELSE {}
           /\ UNCHANGED cache

Next == Toggle \/ LoadFromFile \/ LoadExtAsRoot \/ ResolveRefsIn
Spec == Init /\ [][Next]_vars

(* L1 *)
UsedLikeFresh == (uses > 0 /\ last.allow) => (last.ok /\ last.resolved)
ReadsOnlyRootWhenOff == (uses > 0 /\ ~last.allow) => last.reads \subseteq {"root"}
ReadsOnlyRefDerived == last.reads \subseteq {"root", "ext"}
NeverServedWhenOff == (uses > 0 /\ ~last.allow) => ~(last.ok /\ last.resolved)      \* (open by the statement; violated by every design here; not required)
=============================================================================
