SPECIFICATION Spec
CONSTANTS Kinds = {"plain"}
          MixedServerSet = {}
          MixedCoreServers = {}
          MixedMethKeys = {"G", "GP"}
          PlainMethKeys = {"G", "P", "GP"}
          MaxLen = 3
          MaxT = 3
          ServerSet = {"none", "rel", "relslash", "relroot", "abs", "absvar", "two", "psfirst", "pslast", "relpfx", "abspfx"}
          CoreLen = 3
          CoreT = 3
          CoreServers = {"none", "rel", "relslash", "relroot", "abs", "absvar", "two", "psfirst", "pslast", "relpfx", "abspfx"}
          Slice = 0
          Seed = 1
          DesignAll = TRUE
INVARIANTS DesignOK Emit
CHECK_DEADLOCK FALSE
