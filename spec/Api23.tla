-------------------------------- MODULE Api23 --------------------------------
(***************************************************************************)
(* L1 for C17: "the API a document describes", as a normal form computed    *)
(* from an OpenAPI 2 document (Api2) and from an OpenAPI 3 document (Api3). *)
(* Both normal forms are tagged JSON objects (DocJson) of the same shape,   *)
(* so "describes the same API" is equality and a violation is located by    *)
(* DocJson!Diff.                                                            *)
(*                                                                          *)
(*  api   = { ops: {"<path> <method>": op}, defs: {name: schema},           *)
(*            sec: {name: scheme}, security: <requirements | null> }        *)
(*  op    = { opId, params: {"<in>:<name>": {required, cons}}, body,        *)
(*            responses: {code: resp}, security }                           *)
(*  body  = null | {kind:"body", required, schema, mts, name (v2 only)}     *)
(*               | {kind:"form", fields: {name: {required, cons}}, mts}     *)
(*  resp  = { description, headers: {name: cons}, schema }                  *)
(*  cons / schema = schema normal form (Norm): the constraint keywords,     *)
(*            default-valued keywords removed, required as a set,           *)
(*            x-nullable / nullable -> nullable, v2 discriminator string /  *)
(*            v3 {propertyName} -> string, type file == string + binary,    *)
(*            $ref -> {"$ref": <definition name>} whatever the prefix of    *)
(*            the version ("dereferenced by name class").                   *)
(* Shared parameters, request bodies and responses are inlined at their use *)
(* site (the API is what an operation ends up with, not where it is stored);*)
(* path-item parameters are merged into each operation (operation wins).    *)
(*                                                                          *)
(* Not part of the normal form (the statement does not speak of them):      *)
(* titles, descriptions other than a response's, examples, tags, summary,   *)
(* externalDocs, xml, extensions, response media types; the serialisation   *)
(* of arrays (collectionFormat / style, explode) only as far as SerDiffs     *)
(* goes.  An operation without `consumes` accepts any media *)
(* type ("*/*").                                                            *)
(***************************************************************************)
EXTENDS DocJson

Methods2 == {"get", "put", "post", "delete", "options", "head", "patch"}
Methods3 == Methods2 \cup {"trace"}
FormMTs  == {"application/x-www-form-urlencoded", "multipart/form-data"}

(* ------------------------------------------------------------------ schemas *)
LeafKeys   == {"type", "format", "enum", "default", "minimum", "maximum", "exclusiveMinimum",
               "exclusiveMaximum", "minLength", "maxLength", "pattern", "minItems", "maxItems",
               "uniqueItems", "multipleOf", "minProperties", "maxProperties", "readOnly"}
StructKeys == {"items", "properties", "allOf", "additionalProperties", "required", "discriminator", "not"}
SchemaKeys == LeafKeys \cup StructKeys
(* the keywords a v2 non-body parameter / header / form parameter carries itself *)
ParamKeys  == {"type", "format", "enum", "default", "minimum", "maximum", "exclusiveMinimum",
               "exclusiveMaximum", "minLength", "maxLength", "pattern", "minItems", "maxItems",
               "uniqueItems", "multipleOf", "items"}

IsDefault(k, v) ==
   \/ k \in {"uniqueItems", "exclusiveMinimum", "exclusiveMaximum", "readOnly"} /\ v = B(FALSE)
   \/ k \in {"minLength", "minItems", "minProperties"} /\ v = N(0)
   \/ k \in {"required", "allOf", "enum"} /\ v = A(<<>>)
   \/ k = "properties" /\ v.t = "obj" /\ DOMAIN v.m = {}

SchemaPrefix(ver) == IF ver = 2 THEN "#/definitions/" ELSE "#/components/schemas/"

(* the names n of `names` with prefix \o n = the reference string *)
RefTarget(prefix, names, refv) == IF refv.t = "str" THEN {n \in names : prefix \o n = refv.s} ELSE {}

RECURSIVE Norm(_, _, _)
Norm(ver, names, s) ==
   IF s.t # "obj" THEN s
   ELSE IF "$ref" \in DOMAIN s.m THEN
      LET c == RefTarget(SchemaPrefix(ver), names, s.m["$ref"]) IN
      IF c = {} THEN O(KV("$badref", s.m["$ref"])) ELSE O(KV("$ref", S(CHOOSE n \in c : TRUE)))
   ELSE
      LET m == s.m
          nk == IF ver = 2 THEN "x-nullable" ELSE "nullable"
          nullable == nk \in DOMAIN m /\ m[nk] = B(TRUE)
          isFile == "type" \in DOMAIN m /\ m["type"] = S("file")
          ks == {k \in DOMAIN m \cap SchemaKeys : ~IsDefault(k, m[k])}
                   \cup (IF nullable THEN {"nullable"} ELSE {})
                   \cup (IF isFile THEN {"format"} ELSE {})
          V(k) == CASE k = "nullable" -> B(TRUE)
                    [] k = "type" -> IF isFile THEN S("string") ELSE m[k]
                    [] k = "format" -> IF isFile THEN S("binary") ELSE m[k]
                    [] k \in {"items", "not"} -> Norm(ver, names, m[k])
                    [] k = "additionalProperties" -> Norm(ver, names, m[k])
                    [] k = "properties" ->
                          IF m[k].t = "obj" THEN O([p \in DOMAIN m[k].m |-> Norm(ver, names, m[k].m[p])]) ELSE m[k]
                    [] k = "allOf" ->
                          IF m[k].t = "arr" THEN A([i \in DOMAIN m[k].a |-> Norm(ver, names, m[k].a[i])]) ELSE m[k]
                    [] k = "required" -> SetObj(StrSet(m[k]))
                    [] k = "discriminator" ->
                          IF ver = 2 THEN m[k]
                          ELSE IF m[k].t = "obj" /\ DOMAIN m[k].m = {"propertyName"} THEN m[k].m["propertyName"]
                          ELSE O(KV("$bad", m[k]))
                    [] OTHER -> m[k]
      IN O([k \in ks |-> V(k)])

Restrict(o, ks) == O([k \in Keys(o) \cap ks |-> o.m[k]])

(* constraints of a v2 parameter-like object (parameter, header, form parameter) *)
(* allowEmptyValue (query / form parameters) is a constraint like the others: it decides whether "?q=" is acceptable. *)
(* OpenAPI 3 defines it on the Parameter Object; the converter keeps it inside the parameter's schema (openapi3.Schema   *)
(* has the field).  As for x-nullable, either place counts as saying it.                                               *)
WithAllowEmpty(c, yes) == IF yes /\ c.t = "obj" /\ "$badref" \notin DOMAIN c.m THEN O(KV("allowEmptyValue", B(TRUE)) @@ c.m) ELSE c
ParamCons2(names, p) == WithAllowEmpty(Norm(2, names, Restrict(p, ParamKeys \cup {"x-nullable"})), IsTrue(p, "allowEmptyValue"))
(* constraints of a v3 parameter / header: its schema *)
(* x-nullable on a v2 parameter / header / form parameter is an extension of the parameter object; the  *)
(* statement does not say where OpenAPI 3 must carry it, so "nullable: true" in the schema and the        *)
(* extension kept on the v3 parameter (or on the form property schema) both count as saying "nullable";   *)
(* for schema objects proper (definitions, body, response) only "nullable" counts.                        *)
WithNullable(c, yes) == IF yes /\ c.t = "obj" /\ "$badref" \notin DOMAIN c.m THEN O(KV("nullable", B(TRUE)) @@ c.m) ELSE c
ParamCons3(names, p) == WithAllowEmpty(WithNullable(IF Has(p, "schema") THEN Norm(3, names, p.m["schema"]) ELSE EmptyO, IsTrue(p, "x-nullable")),
                                       IsTrue(p, "allowEmptyValue") \/ (Has(p, "schema") /\ IsTrue(p.m["schema"], "allowEmptyValue")))
Req(p) == B(IsTrue(p, "required"))

(* one-level dereference of x into the component table `table` *)
Deref(prefix, table, x) ==
   IF Has(x, "$ref") THEN
      LET c == RefTarget(prefix, Keys(table), x.m["$ref"]) IN
      IF c = {} THEN O(KV("$badref", x.m["$ref"])) ELSE table.m[CHOOSE n \in c : TRUE]
   ELSE x

PKey(p) == StrOf(Opt(p, "in"), "?") \o ":" \o StrOf(Opt(p, "name"), "?")
MtsOf(v) == IF v.t = "arr" /\ v.a # <<>> THEN SetObj(StrSet(v)) ELSE SetObj({"*/*"})

(* ------------------------------------------------------ array serialisation *)
(* How an array value is written on the wire: OpenAPI 2 collectionFormat (csv when absent), OpenAPI 3 style / explode *)
(* (form + explode for query parameters and form fields, simple for header and path parameters and response headers    *)
(* when absent).  The statement lists a parameter's name, location, requiredness and constraints - not its             *)
(* serialisation - and the converter is silent about it in both directions, so silence is accepted (the defaults of    *)
(* the target version then apply).  What "describes the same API" does exclude: a converted document that STATES a     *)
(* serialisation other than the original's.  Per operation the normal form carries                                     *)
(*    ser     : {"<in>:<name>" | "resp:<code>:<header>": format}   of every array parameter / form field / header      *)
(*    serSaid : the same, only where the document says it (collectionFormat; style or explode)                         *)
(* in OpenAPI 2 terms (csv, ssv, tsv, pipes, multi; "style:<s>" for an OpenAPI 3 style OpenAPI 2 cannot express).       *)
(* ser / serSaid are left out of the equality of the two normal forms (ApiDiff) and compared by SerDiffs: wherever     *)
(* the converted document says a format, it is the format of the original.  Inner arrays are not looked at.            *)
IsArr2(p) == Opt(p, "type") = S("array")
Ser2Of(p) == StrOf(Opt(p, "collectionFormat"), "csv")
Says3(x) == Has(x, "style") \/ Has(x, "explode")
Ser3Of(x, dflt) ==
   LET st == StrOf(Opt(x, "style"), dflt)
       ex == IF Has(x, "explode") THEN x.m["explode"] = B(TRUE) ELSE st = "form"
   IN CASE st \in {"form", "spaceDelimited", "pipeDelimited"} /\ ex -> "multi"
        [] st \in {"form", "simple"} -> "csv"
        [] st = "spaceDelimited" -> "ssv"
        [] st = "pipeDelimited" -> "pipes"
        [] OTHER -> "style:" \o st
HKey(c, h) == "resp:" \o c \o ":" \o h

(* response headers of a v2 operation that are arrays (said: only those that state a collectionFormat) *)
HdrSer2(d, op, said) ==
   LET rs == Sub(op, "responses")
       R(c) == Deref("#/responses/", Sub(d, "responses"), rs.m[c])
       H(k) == R(k[1]).m["headers"].m[k[2]]
       ks == {k \in UNION {{<<c, h>> : h \in Keys(Sub(R(c), "headers"))} : c \in Keys(rs)} :
                 IsArr2(H(k)) /\ (said => Has(H(k), "collectionFormat"))}
   IN [key \in {HKey(k[1], k[2]) : k \in ks} |-> S(Ser2Of(H(CHOOSE k \in ks : HKey(k[1], k[2]) = key)))]
PrmSer2(ps, said) ==
   LET as == {p \in ps : IsArr2(p) /\ (said => Has(p, "collectionFormat"))} IN
   [key \in {PKey(p) : p \in as} |-> S(Ser2Of(CHOOSE p \in as : PKey(p) = key))]

(* response headers of a v3 operation that state style / explode *)
HdrSer3(d, op) ==
   LET comps == Sub(d, "components")
       rs == Sub(op, "responses")
       R(c) == Deref("#/components/responses/", Sub(comps, "responses"), rs.m[c])
       H(k) == Deref("#/components/headers/", Sub(comps, "headers"), R(k[1]).m["headers"].m[k[2]])
       ks == {k \in UNION {{<<c, h>> : h \in Keys(Sub(R(c), "headers"))} : c \in Keys(rs)} : Says3(H(k))}
   IN [key \in {HKey(k[1], k[2]) : k \in ks} |-> S(Ser3Of(H(CHOOSE k \in ks : HKey(k[1], k[2]) = key), "simple"))]
PrmSer3(ps) ==
   LET as == {p \in ps : Says3(p)} IN
   [key \in {PKey(p) : p \in as} |->
      LET p == CHOOSE x \in as : PKey(x) = key IN S(Ser3Of(p, IF Opt(p, "in") \in {S("query"), S("cookie")} THEN "form" ELSE "simple"))]
(* form fields: the encoding objects of the form media types of a request body *)
FormSer3(content) ==
   LET encs == {e \in UNION {{<<mt, n>> : n \in Keys(Sub(content.m[mt], "encoding"))} : mt \in Keys(content) \cap FormMTs} :
                   Says3(content.m[e[1]].m["encoding"].m[e[2]])}
       names == {e[2] : e \in encs}
       said(n) == {Ser3Of(content.m[e[1]].m["encoding"].m[n], "form") : e \in {x \in encs : x[2] = n}}
   IN [key \in {"formData:" \o n : n \in names} |->
         LET n == CHOOSE x \in names : "formData:" \o x = key IN
         IF Cardinality(said(n)) = 1 THEN S(CHOOSE x \in said(n) : TRUE) ELSE S("differing")]

(* --------------------------------------------------------------- OpenAPI 2 *)
Resp2(d, names, r0) ==
   LET r == Deref("#/responses/", Sub(d, "responses"), r0) IN
   IF Has(r, "$badref") THEN r
   ELSE O(KV("description", Opt(r, "description"))
          @@ KV("headers", O([h \in Keys(Sub(r, "headers")) |-> ParamCons2(names, r.m["headers"].m[h])]))
          @@ KV("schema", IF Has(r, "schema") THEN Norm(2, names, r.m["schema"]) ELSE Nul))

Op2(d, item, op) ==
   LET names == Keys(Sub(d, "definitions"))
       ptab == Sub(d, "parameters")
       R(x) == Deref("#/parameters/", ptab, x)
       opp == {R(x) : x \in Elems(op, "parameters")}
       itp == {R(x) : x \in Elems(item, "parameters")}
       eff == opp \cup {p \in itp : \A q \in opp : PKey(q) # PKey(p)}
       nb == {p \in eff : Opt(p, "in") \in {S("query"), S("header"), S("path")}}
       bodies == {p \in eff : Opt(p, "in") = S("body")}
       forms == {p \in eff : Opt(p, "in") = S("formData")}
       other == eff \ (nb \cup bodies \cup forms)
       mts == MtsOf(IF Has(op, "consumes") THEN op.m["consumes"] ELSE Opt(d, "consumes"))
       params == O([key \in {PKey(p) : p \in nb} |->
                      LET p == CHOOSE x \in nb : PKey(x) = key IN
                      O(KV("required", Req(p)) @@ KV("cons", ParamCons2(names, p)))]
                   @@ If(other # {}, KV("$bad", A(SetToSeq(other)))))
       body == IF bodies = {} /\ forms = {} THEN Nul
               ELSE IF Cardinality(bodies) = 1 /\ forms = {} THEN
                  LET b == CHOOSE x \in bodies : TRUE IN
                  O(KV("kind", S("body")) @@ KV("required", Req(b)) @@ KV("mts", mts)
                    @@ KV("name", Opt(b, "name"))       \* OpenAPI 2 only: see ApiDiff3
                    @@ KV("schema", IF Has(b, "schema") THEN Norm(2, names, b.m["schema"]) ELSE Nul))
               ELSE IF bodies = {} THEN
                  O(KV("kind", S("form")) @@ KV("mts", mts)
                    @@ KV("fields", O([n \in {StrOf(Opt(p, "name"), "?") : p \in forms} |->
                          LET p == CHOOSE x \in forms : StrOf(Opt(x, "name"), "?") = n IN
                          O(KV("required", Req(p)) @@ KV("cons", ParamCons2(names, p)))])))
               ELSE O(KV("$bad", S("body and form parameters")))
   IN O(KV("opId", Opt(op, "operationId"))
        @@ KV("params", params)
        @@ KV("body", body)
        @@ KV("responses", O([c \in Keys(Sub(op, "responses")) |-> Resp2(d, names, op.m["responses"].m[c])]))
        @@ KV("security", Opt(op, "security"))
        @@ KV("ser", O(PrmSer2(nb \cup forms, FALSE) @@ HdrSer2(d, op, FALSE)))
        @@ KV("serSaid", O(PrmSer2(nb \cup forms, TRUE) @@ HdrSer2(d, op, TRUE))))

OpKeys(paths, methods) == {<<p, m>> : p \in Keys(paths), m \in methods}

Sec2Scheme(s) ==
   LET ty == Opt(s, "type") IN
   CASE ty = S("basic") -> O(KV("type", S("basic")))
     [] ty = S("apiKey") -> O(KV("type", S("apiKey")) @@ KV("in", Opt(s, "in")) @@ KV("name", Opt(s, "name")))
     [] ty = S("oauth2") -> O(KV("type", S("oauth2")) @@ KV("flow", Opt(s, "flow"))
                              @@ If(Has(s, "authorizationUrl") /\ s.m["authorizationUrl"] # S(""), KV("authorizationUrl", Opt(s, "authorizationUrl")))
                              @@ If(Has(s, "tokenUrl") /\ s.m["tokenUrl"] # S(""), KV("tokenUrl", Opt(s, "tokenUrl")))
                              @@ KV("scopes", Sub(s, "scopes")))
     [] OTHER -> O(KV("$bad", s))

Api2(d) ==
   LET paths == Sub(d, "paths")
       names == Keys(Sub(d, "definitions"))
       keys == {k \in OpKeys(paths, Methods2) : Has(paths.m[k[1]], k[2])}
   IN O(KV("ops", O([key \in {k[1] \o " " \o k[2] : k \in keys} |->
                       LET k == CHOOSE x \in keys : x[1] \o " " \o x[2] = key IN
                       Op2(d, paths.m[k[1]], paths.m[k[1]].m[k[2]])]))
        @@ KV("defs", O([n \in names |-> Norm(2, names, d.m["definitions"].m[n])]))
        @@ KV("sec", O([n \in Keys(Sub(d, "securityDefinitions")) |-> Sec2Scheme(d.m["securityDefinitions"].m[n])]))
        @@ KV("security", Opt(d, "security")))

(* --------------------------------------------------------------- OpenAPI 3 *)
(* the one schema all media types of a content map agree on *)
ContentSchema(names, content) ==
   LET scs == {Opt(content.m[mt], "schema") : mt \in Keys(content)} IN
   IF scs = {} THEN Nul
   ELSE IF Cardinality(scs) = 1 THEN Norm(3, names, CHOOSE x \in scs : TRUE)
   ELSE O(KV("$differing", A(SetToSeq(scs))))

Resp3(d, names, r0) ==
   LET comps == Sub(d, "components")
       r == Deref("#/components/responses/", Sub(comps, "responses"), r0) IN
   IF Has(r, "$badref") THEN r
   ELSE O(KV("description", Opt(r, "description"))
          @@ KV("headers", O([h \in Keys(Sub(r, "headers")) |->
                   ParamCons3(names, Deref("#/components/headers/", Sub(comps, "headers"), r.m["headers"].m[h]))]))
          @@ KV("schema", ContentSchema(names, Sub(r, "content"))))

(* a form field of a v3 form body: its schema, looked up when it is a reference to a    *)
(* component schema (v2 form parameters are never schema references), as parameter    *)
(* constraints                                                                        *)
FormCons3(names, stab, prop) ==
   LET x == Deref(SchemaPrefix(3), stab, prop) IN
   IF Has(x, "$badref") THEN x
   ELSE WithAllowEmpty(WithNullable(Norm(3, names, Restrict(x, ParamKeys \cup {"nullable"})), IsTrue(x, "x-nullable")), IsTrue(x, "allowEmptyValue"))

Op3(d, item, op) ==
   LET comps == Sub(d, "components")
       stab == Sub(comps, "schemas")
       names == Keys(stab)
       R(x) == Deref("#/components/parameters/", Sub(comps, "parameters"), x)
       opp == {R(x) : x \in Elems(op, "parameters")}
       itp == {R(x) : x \in Elems(item, "parameters")}
       eff == opp \cup {p \in itp : \A q \in opp : PKey(q) # PKey(p)}
       nb == {p \in eff : Opt(p, "in") \in {S("query"), S("header"), S("path")}}
       other == eff \ nb
       params == O([key \in {PKey(p) : p \in nb} |->
                      LET p == CHOOSE x \in nb : PKey(x) = key IN
                      O(KV("required", Req(p)) @@ KV("cons", ParamCons3(names, p)))]
                   @@ If(other # {}, KV("$bad", A(SetToSeq(other)))))
       body == IF ~Has(op, "requestBody") THEN Nul
               ELSE
                 LET rb == Deref("#/components/requestBodies/", Sub(comps, "requestBodies"), op.m["requestBody"])
                     content == Sub(rb, "content")
                     mts == Keys(content)
                     scs == {Opt(content.m[mt], "schema") : mt \in mts}
                 IN
                 IF Has(rb, "$badref") THEN rb
                 ELSE IF mts # {} /\ mts \subseteq FormMTs THEN
                    IF Cardinality(scs) # 1 THEN O(KV("$differing", A(SetToSeq(scs))))
                    ELSE LET sc == Deref(SchemaPrefix(3), stab, CHOOSE x \in scs : TRUE)
                             props == Sub(sc, "properties")
                             reqd == StrSet(Opt(sc, "required"))
                         IN O(KV("kind", S("form")) @@ KV("mts", SetObj(mts))
                              @@ KV("fields", O([n \in Keys(props) |->
                                    O(KV("required", B(n \in reqd)) @@ KV("cons", FormCons3(names, stab, props.m[n])))])))
                 ELSE O(KV("kind", S("body")) @@ KV("required", Req(rb))
                        @@ KV("mts", IF mts = {} THEN SetObj({"*/*"}) ELSE SetObj(mts))
                        @@ KV("schema", ContentSchema(names, content)))
   IN O(KV("opId", Opt(op, "operationId"))
        @@ KV("params", params)
        @@ KV("body", body)
        @@ KV("responses", O([c \in Keys(Sub(op, "responses")) |-> Resp3(d, names, op.m["responses"].m[c])]))
        @@ KV("security", Opt(op, "security"))
        @@ KV("serSaid", O(PrmSer3(nb) @@ HdrSer3(d, op)
                           @@ (IF Has(op, "requestBody")
                               THEN FormSer3(Sub(Deref("#/components/requestBodies/", Sub(comps, "requestBodies"), op.m["requestBody"]), "content"))
                               ELSE <<>>))))

Flow3To2(f) == CASE f = "implicit" -> "implicit" [] f = "authorizationCode" -> "accessCode"
                 [] f = "password" -> "password" [] f = "clientCredentials" -> "application" [] OTHER -> "?" \o f

Sec3Scheme(s) ==
   LET ty == Opt(s, "type") IN
   CASE ty = S("http") /\ Opt(s, "scheme") = S("basic") -> O(KV("type", S("basic")))
     [] ty = S("apiKey") -> O(KV("type", S("apiKey")) @@ KV("in", Opt(s, "in")) @@ KV("name", Opt(s, "name")))
     [] ty = S("oauth2") /\ Cardinality(Keys(Sub(s, "flows"))) = 1 ->
           LET fk == CHOOSE k \in Keys(Sub(s, "flows")) : TRUE
               f == s.m["flows"].m[fk] IN
           O(KV("type", S("oauth2")) @@ KV("flow", S(Flow3To2(fk)))
             @@ If(Has(f, "authorizationUrl") /\ f.m["authorizationUrl"] # S(""), KV("authorizationUrl", Opt(f, "authorizationUrl")))
             @@ If(Has(f, "tokenUrl") /\ f.m["tokenUrl"] # S(""), KV("tokenUrl", Opt(f, "tokenUrl")))
             @@ KV("scopes", Sub(f, "scopes")))
     [] OTHER -> O(KV("$bad", s))

Api3(d) ==
   LET paths == Sub(d, "paths")
       comps == Sub(d, "components")
       names == Keys(Sub(comps, "schemas"))
       keys == {k \in OpKeys(paths, Methods3) : Has(paths.m[k[1]], k[2])}
   IN O(KV("ops", O([key \in {k[1] \o " " \o k[2] : k \in keys} |->
                       LET k == CHOOSE x \in keys : x[1] \o " " \o x[2] = key IN
                       Op3(d, paths.m[k[1]], paths.m[k[1]].m[k[2]])]))
        @@ KV("defs", O([n \in names |-> Norm(3, names, comps.m["schemas"].m[n])]))
        @@ KV("sec", O([n \in Keys(Sub(comps, "securitySchemes")) |-> Sec3Scheme(comps.m["securitySchemes"].m[n])]))
        @@ KV("security", Opt(d, "security")))

(* ---------------------------------------------------------------- servers *)
(* host / basePath / schemes of a v2 document.  An absent basePath and "/" are the    *)
(* same base path.  Documents with schemes but no host are outside the universe (v3   *)
(* cannot say "this scheme, whatever the host").                                      *)
Host2(d) == StrOf(Opt(d, "host"), "")
Base2(d) == LET b == StrOf(Opt(d, "basePath"), "") IN IF b = "/" THEN "" ELSE b
Schemes2(d) == StrSet(Opt(d, "schemes"))
Servers3(d) == {StrOf(Opt(s, "url"), "?") : s \in Elems(d, "servers")}

(* the server lists that say what (host, basePath, schemes) says; when the v2 document *)
(* names no scheme the choice of http / https is left open                             *)
ServerSetsFor(d2) ==
   LET h == Host2(d2) b == Base2(d2) ss == Schemes2(d2) IN
   IF h = "" THEN (IF b = "" THEN {{}, {"/"}} ELSE {{b}, {b \o "/"}})
   ELSE LET Urls(schs, tail) == {s \o "://" \o h \o tail : s \in schs}
            tails == IF b = "" THEN {"", "/"} ELSE {b}
            schsets == IF ss # {} THEN {ss} ELSE {{"https"}, {"http"}, {"http", "https"}}
        IN {Urls(schs, tl) : schs \in schsets, tl \in tails}
ServersFwdOK(d2, d3) == Servers3(d3) \in ServerSetsFor(d2)

(* way back: same host and base path; same schemes when the original named any *)
Srv2(d, withSchemes) ==
   O(KV("host", S(Host2(d))) @@ KV("basePath", S(Base2(d)))
     @@ If(withSchemes, KV("schemes", SetObj(Schemes2(d)))))

(* ------------------------------------------------------------- references *)
V2RefOK(ref, names) ==
   \E n \in names : ref \in {"#/definitions/" \o n, "#/parameters/" \o n, "#/responses/" \o n}
CompNames3(d3) == UNION {Keys(Sub(Sub(d3, "components"), c)) :
                            c \in {"schemas", "parameters", "requestBodies", "responses", "headers"}}
CompNames2(d2) == UNION {Keys(Sub(d2, c)) : c \in {"definitions", "parameters", "responses"}}

(* ---------------------------------------------------------------- L1 parts *)
(* definitions are compared one way: every definition of the original must be there   *)
(* with the same constraints (a converter may add components of its own)              *)
OnlyDefsOf(api, ref) ==
   O([k \in DOMAIN api.m |-> IF k = "defs" THEN Restrict(api.m["defs"], Keys(ref.m["defs"])) ELSE api.m[k]])
(* the serialisation fields are compared on their own (SerDiffs) *)
NoSer(api) ==
   O([k \in DOMAIN api.m |->
        IF k = "ops" /\ api.m[k].t = "obj"
        THEN O([o \in DOMAIN api.m[k].m |-> LET op == api.m[k].m[o] IN
                  IF op.t = "obj" THEN O([f \in DOMAIN op.m \ {"ser", "serSaid"} |-> op.m[f]]) ELSE op])
        ELSE api.m[k]])
ApiDiff(expApi, gotApi) == Diff(NoSer(expApi), OnlyDefsOf(NoSer(gotApi), expApi), <<>>)
(* A body parameter is a parameter: it has a name (inline, or that of the shared parameter it refers to).  An OpenAPI 3  *)
(* request body has none, so the name is no part of the comparison of an OpenAPI 2 with an OpenAPI 3 document (ApiDiff3);  *)
(* between two OpenAPI 2 documents - the original and the one converted back - it is compared like everything else       *)
(* (ApiDiff): how the converter carries the name through OpenAPI 3 is its own business.                                   *)
NoBodyName(api) ==
   O([k \in DOMAIN api.m |->
        IF k = "ops" /\ api.m[k].t = "obj"
        THEN O([o \in DOMAIN api.m[k].m |-> LET op == api.m[k].m[o] IN
                  IF op.t = "obj" /\ Has(op, "body") /\ Has(op.m["body"], "name")
                  THEN O([f \in DOMAIN op.m |-> IF f = "body" THEN O([g \in DOMAIN op.m[f].m \ {"name"} |-> op.m[f].m[g]]) ELSE op.m[f]])
                  ELSE op])
        ELSE api.m[k]])
ApiDiff3(expApi2, gotApi3) == ApiDiff(NoBodyName(expApi2), gotApi3)
(* wherever the converted document states a serialisation of an array the original has, it states the original's *)
SerDiffs(expApi, gotApi) ==
   LET eo == Sub(expApi, "ops")  go == Sub(gotApi, "ops") IN
   UNION {LET e == Sub(eo.m[o], "ser")  g == Sub(go.m[o], "serSaid") IN
          {[path |-> <<"ops", o, "ser", k>>, exp |-> e.m[k], got |-> g.m[k]] : k \in {x \in Keys(e) \cap Keys(g) : e.m[x] # g.m[x]}}
          : o \in Keys(eo) \cap Keys(go)}
=============================================================================
