SPECIFICATION TSpec
CONSTANTS Policy = "never"
 MaxSteps = 3
INVARIANTS Judge
POSTCONDITION AllConsumed
CHECK_DEADLOCK FALSE
