------------------------------ MODULE Gen_C20S ------------------------------
(* Generator of the shared-target cases of C20 (spec/RefShare.tla), in the case format of Gen_C20 (base kind "share"). *)
EXTENDS RefShare, Json, CSV
SEmit == CSVWrite("%1$s", <<ToJson([muts |-> <<>>, entry |-> sentry, allow |-> sallow, yaml |-> FALSE,
                                    base |-> [kind |-> "share", comps |-> "share"], s |-> [k1 |-> sc.k1, k2 |-> sc.k2, content |-> sc.content, frag |-> sc.frag, spell |-> sspell]])>>, "cases.ndjson")
=============================================================================
