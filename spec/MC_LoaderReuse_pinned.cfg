SPECIFICATION Spec
CONSTANTS Design = "pinned"
          MaxUses = 4
          BackRef = FALSE
INVARIANTS UsedLikeFresh
CHECK_DEADLOCK FALSE
