SPECIFICATION Spec
CONSTANTS Design = "pinned"
          MaxUses = 4
INVARIANTS UsedLikeFresh
CHECK_DEADLOCK FALSE
