SPECIFICATION GSpec
CONSTANTS MaxFeat = 2
 MaxMut = 2
 Slice = 7
 HeavySlice = 7
 Seed = 1
INVARIANT Emit
CHECK_DEADLOCK FALSE
