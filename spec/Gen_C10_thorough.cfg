SPECIFICATION Spec
CONSTANTS MaxFeat = 2
 MaxMut = 2
INVARIANT Emit
CHECK_DEADLOCK FALSE
