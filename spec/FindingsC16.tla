----------------------------- MODULE FindingsC16 -----------------------------
(* Finding classes for C16; each names the generated trigger (shape / kind / position) and   *)
(* the specific wrong observation.                                                           *)
EXTENDS Sequences, FiniteSets

LostIds(line, lost) == {x.got : x \in lost}

Class(line, bad) ==
   LET c == line.c IN
   (* F-C16-1: DefaultRefNameResolver maps sub/a.json#/../X and sub_a.json#/../X to the same name *)
   (*          and ignores the origin: <dir>/a.json#/../X and https://m.example<dir>/a.json#/../X get the same name too     *)
   (*          and trims leading "../": with a root loaded from a relative path, shared/x.json (below the root's directory) and  *)
   (*          ../shared/x.json (beside it) both become "shared_x_X"                                                                *)
   IF c.shape \in {"collision", "samepath_twohosts"} /\ bad = {"resolves_to_same_content"} THEN "default_name_collision"
   ELSE IF c.shape = "sametail" /\ bad = {"resolves_to_same_content"}
           /\ c.entry \in {"file_rel", "file_rel_default", "data", "reader", "uri_remote"}      \* (it shows only when the root's own location is relative, absent or remote; under an
        THEN "default_name_collision"                                                            \*  absolute file path the two files get different names, and must)
   (* F-C16-2: references inside a callback that lives in an external file are not rewritten      *)
   ELSE IF c.kind = "callbacks" /\ c.shape \in {"childlocal", "childlocal_shadow", "childpair_local", "localalias_childlocal", "samelocal_twofiles", "selfcycle", "mutualcycle"}     \* (a cycle through a callback is such a local reference)
           /\ bad \subseteq {"reloads_without_external_refs", "resolves_to_same_content"}
        THEN "callback_inner_refs_not_internalised"
   (* F-C16-3: a root component that is a whole-file reference to a header / response              *)
   \*         (any shape whose root reference is of the whole-file form: wholefile, and the whole-file elements with local definitions)
   (* F-C16-9: the loader gives a whole-file reference to an EXAMPLE, a LINK or a SECURITY SCHEME the location of the REFERRING document as      *)
   (*          its RefPath (loader.go resolve{Example,Link,SecurityScheme}Ref drop the location loadSingleElementFromURI returns; the other seven *)
   (*          resolvers keep it).  InternalizeRefs derives the component name from RefPath: for a document loaded from memory RefPath is nil    *)
   (*          and DefaultRefNameResolver panics; from a file the name is that of the referring document and the reference ends up elsewhere.    *)
   ELSE IF c.shape \in {"wholefile_plain", "rootchild_whole", "pctname_whole"}
           /\ (IF c.shape = "rootchild_whole" THEN c.u.slots[1].c.ch[1].kind ELSE c.kind) \in {"examples", "links", "securitySchemes"}
           /\ (\/ (bad = {"no_panic"} /\ c.entry \in {"data", "reader"})
               \/ ((c.shape = "rootchild_whole" \/ c.pos # "comp") /\ bad \subseteq {"validates_iff_original", "resolves_to_same_content", "reloads_without_external_refs"}))
        THEN "wholefile_refpath_of_referring_document"
   \*         (F-C16-3, next: wholefile_plain brought whole-file root components of the kinds without child sites: links, examples, security schemes)
   \*         (pctname_whole: the same whole-file root component, its file merely has a percent sign in its name -- a probe gives the same
   \*          self-reference {"U": {"$ref": "#/components/examples/U"}} for w.json, "pet%20v2.json" and "pet v2.json")
   ELSE IF c.shape \in {"wholefile", "wholefile_plain", "pctname_whole", "wholedef", "wholedef_ref", "wholedef_reffrag"} /\ c.u.use.ref.frag = <<>> /\ c.pos = "comp"
           /\ c.kind \in {"headers", "responses", "links", "examples", "securitySchemes"}
           /\ bad \subseteq {"validates_iff_original", "resolves_to_same_content", "reloads_without_external_refs"}
        THEN "wholefile_component_self_reference"
   (* F-C16-6 (= F-C02-5 seen from here; repaired, f4a43a7): a local pointer BELOW a header component loads from a file only through the loader's raw   *)
   (*          re-read of the root; the internalised document, loaded from memory, meets the typed walk alone and fails to load      *)
   ELSE IF bad = {"reloads_without_external_refs"} /\ c.u.use.ref.path = <<>> /\ c.u.use.ref.frag # <<>>
           /\ c.u.use.ref.frag[1] = "#compinl" /\ c.u.use.ref.frag[2] = "headers"
        THEN "pointer_below_header_component"
   (* F-C16-7: the descent of InternalizeRefs stops at a schema / header it has visited before (T.visited), whatever it knew about the     *)
   (*          parent then: an external object FIRST reached through a local alias of the root (components are walked by name: A -> #/../B,  *)
   (*          B -> b.json#X) is descended into as if it were local, and when it is reached again as an external object the visited set      *)
   (*          refuses; its same-document references ("#/components/schemas/Y" of b.json) stay as they are and now mean the ROOT's            *)
   (*          components: dangling (reload fails) or, when the root owns that name, another object (the conflation universe, which loads     *)
   (*          correctly only on a Loader that has loaded a.json before).                                                                    *)
   ELSE IF c.shape = "localalias_childlocal" /\ c.kind \in {"schemas", "headers"}
           /\ bad \subseteq {"reloads_without_external_refs", "resolves_to_same_content"} THEN "local_alias_hides_external_parent"
   ELSE IF c.shape = "conflation" /\ c.entry = "file_abs_prior" /\ bad = {"resolves_to_same_content"} THEN "local_alias_hides_external_parent"
   (* F-C16-8: a document loaded FROM MEMORY (no location of its own) whose component header / response B is a reference into an external  *)
   (*          file and has a local alias A = {$ref: "#/components/<k>/B"}: after InternalizeRefs B is {$ref: "#/components/<k>/B"}, a          *)
   (*          reference to itself; the external object is gone (without the alias B becomes a reference to the new component sub_b_X).       *)
   ELSE IF c.shape = "localalias_childlocal" /\ c.entry \in {"data", "reader"} /\ c.kind \in {"headers", "responses"}
           /\ bad \subseteq {"resolves_to_same_content", "validates_iff_original"} THEN "aliased_component_self_reference"
   ELSE "none"
=============================================================================
