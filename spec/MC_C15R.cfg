SPECIFICATION Spec
CONSTANTS Hinted = FALSE
 MaxCalls = 4
INVARIANT AnswerIsPrescribed
CHECK_DEADLOCK FALSE
