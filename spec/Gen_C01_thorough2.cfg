SPECIFICATION Spec
CONSTANTS K = 3
          KO = 0
          SK = 2
          W = 0
          Ext = FALSE
          ValSet = "plain"
INVARIANTS Emit EmitVals
CHECK_DEADLOCK FALSE
