SPECIFICATION TSpec
CONSTANTS Policy = "explicit"
 MaxSteps = 3
INVARIANTS Judge
POSTCONDITION AllConsumed
CHECK_DEADLOCK FALSE
