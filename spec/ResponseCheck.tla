---------------------------- MODULE ResponseCheck ----------------------------
(***************************************************************************)
(* L1 contract of openapi3filter.ValidateResponse (property C08).          *)
(***************************************************************************)
EXTENDS HeaderRead, MediaSelect

ClassKey(status) == CASE status \div 100 = 1 -> "1XX" [] status \div 100 = 2 -> "2XX" [] status \div 100 = 3 -> "3XX"
                      [] status \div 100 = 4 -> "4XX" [] status \div 100 = 5 -> "5XX" [] OTHER -> "-"

(* exact code, then status class (100..599), then default *)
Pick(keys, status) ==
   IF ToString(status) \in keys THEN ToString(status)
   ELSE IF status >= 100 /\ status <= 599 /\ ClassKey(status) \in keys THEN ClassKey(status)
   ELSE IF "default" \in keys THEN "default"
   ELSE "none"

(* the ONLY responses that are not checked: HEAD, and the four redirect / not-modified statuses *)
Skipped(method, status) == method = "HEAD" \/ status \in {301, 304, 307, 308}

(* part 1: which entry is checked.  Entry k accepts exactly the bodies carrying property "e"+k. *)
(* Variants ("pv"): "xb" = ExcludeResponseBody (the marker body is not looked at: any picked entry accepts; a status   *)
(* without definition is still refused under strict status); "reqhdr" = every entry also requires a header the response  *)
(* does not carry (a checked response is rejected whatever entry is picked; an exempt one -- HEAD, 301/304/307/308 -- and *)
(* a status without definition are not).                                                                                 *)
PickAccepts(c) ==
   IF Skipped(c.method, c.status) THEN TRUE
   ELSE LET p == Pick({c.keys[i] : i \in DOMAIN c.keys}, c.status)
            pv == IF "pv" \in DOMAIN c THEN c.pv ELSE "plain" IN
        IF p = "none" THEN ~c.includeStatus
        ELSE CASE pv = "xb" -> TRUE [] pv = "reqhdr" -> FALSE [] OTHER -> c.bodyKey = p

(* part 2: the selected definition.  Header X-A declared as hd, carrying text hv. *)
TInt == [type |-> "integer"]
HeaderOK(hd, hv) ==
   CASE hd = "none"   -> TRUE
     [] hv = "absent" -> hd \notin {"intReq", "contentReq"}
     [] hd \in {"intReq", "intOpt"} -> hv = "5"                       \* "abc" and "1,2" are not integers
     [] hd = "arrOpt" -> hv \in {"5", "1,2"}                          \* array of integers, simple style
     [] hd = "arrMax1" -> hv = "5"                                    \* ... with maxItems 1
     \* an object header {a: integer (required), b: integer <= 5}, simple style: exploded "a=1,b=2", not exploded "a,1,b,2"
     [] hd = "objExp" -> hv = "a=1,b=2"
     [] hd = "objNoExp" -> hv = "a,1,b,2"
     [] hd = "contentReq" -> TRUE                                     \* defined by `content`: only presence is checkable
     [] hd = "contentOpt" -> TRUE

(* two body schemas: in the second the read-only property is required too (a response must carry it; *)
(* only write-only properties are exempt from "required" on the response side)                       *)
BodySchemaOf(req) == [type |-> "object", pk |-> <<"q", "r", "w">>,
               ps |-> <<TInt, [type |-> "string", readOnly |-> TRUE], [type |-> "string", writeOnly |-> TRUE]>>,
               required |-> (IF req = "qw" THEN <<"q", "w">> ELSE <<"q", "r", "w">>)]
BodySchema == BodySchemaOf("qw")
(* the same schema reached through a composition keyword or one level down: the response side (read-only required, *)
(* write-only forbidden) applies at every depth and in every alternative                                          *)
BodySchemaW(req, wrap) ==
   CASE wrap = "plain" -> BodySchemaOf(req)
     [] wrap = "anyOf" -> [anyOf |-> <<[type |-> "boolean"], BodySchemaOf(req)>>]
     [] wrap = "oneOf" -> [oneOf |-> <<BodySchemaOf(req), [type |-> "boolean"]>>]
     [] wrap = "allOf" -> [allOf |-> <<[type |-> "object"], BodySchemaOf(req)>>]
     [] wrap = "items" -> [type |-> "array", items |-> BodySchemaOf(req)]
     [] wrap = "itemsAnyOf" -> [type |-> "array", items |-> [anyOf |-> <<BodySchemaOf(req)>>]]
     [] wrap = "prop"  -> [type |-> "object", pk |-> <<"in">>, ps |-> <<BodySchemaOf(req)>>]
TextSchema == [type |-> "string", minLength |-> 2]

Json == MT("application", "json", "")
Declared(d) == CASE d = "none" -> {} [] d = "json" -> {Json} [] d = "jsonNoSchema" -> {Json}
                 [] d = "text" -> {MT("text", "plain", "")} [] d = "wild" -> {MT("application", "*", "")}
                 [] d = "jsonAndText" -> {Json, MT("text", "plain", "")}
                 [] d = "any" -> {MT("*", "*", "")}

(* the content of the selected definition: declared content type, then the body against its schema read as a response *)
BodyAccepts(c) ==
   \/ c.excludeBody
   \/ c.decl = "none"
   \/ LET sel == Select(Declared(c.decl), c.ct) IN
      /\ ~IsNone(sel)
      /\ \/ c.decl = "jsonNoSchema"
         \/ IF sel.ty = "text"
            THEN c.body.t = "str" /\ Valid(TextSchema, c.body, "asrep")
            ELSE c.body.t \notin {"str", "raw"}        \* a text body / truncated text is not JSON
                 /\ Valid(BodySchemaW(c.req, IF "wrap" \in DOMAIN c THEN c.wrap ELSE "plain"), c.body,
                          IF c.excludeWO THEN "asrep_nowo" ELSE "asrep")

DefAccepts(c) == HeaderOK(c.hd, c.hv) /\ BodyAccepts(c)

(* part 3 ("hdr"): ANY set of declared headers, each [name, hs (a schema of SchemaSem), hreq, explode, present, cs (the  *)
(* text sent)].  A declared header that the response carries must satisfy its schema (HeaderRead: some reading of the    *)
(* text is valid) -- whether it is required or not, and also when its text is empty: a header sent without a value is   *)
(* PRESENT; one that is not sent must not be required.  Headers the definition does not declare are ignored.  Where the *)
(* two readings of an empty piece disagree the verdict is open (neither HdrAccepts nor HdrRejects).                     *)
(* A definition under the name Content-Type (any letter case) is ignored (OAS 3.0.3 Response Object).                    *)
IsCT(name) == name \in {"Content-Type", "content-type", "CONTENT-TYPE"}
(* A header sent on SEVERAL field lines ("cs2": the second line): RFC 9110 5.3 lets a recipient read the lines as one *)
(* comma-joined list; the statement does not say whether the first line or the joined list is "the header", so the   *)
(* contract binds only where both readings agree.                                                                    *)
Joined(h) == h.cs \o <<",">> \o h.cs2
TxtGood(h) == /\ TextMustAccept(h.hs, h.cs, h.explode)
              /\ ("cs2" \in DOMAIN h => TextMustAccept(h.hs, Joined(h), h.explode))
TxtBad(h)  == /\ TextMustReject(h.hs, h.cs, h.explode)
              /\ ("cs2" \in DOMAIN h => TextMustReject(h.hs, Joined(h), h.explode))
HdrGood(h) == IsCT(h.name) \/ IF h.present THEN TxtGood(h) ELSE ~h.hreq
HdrBad(h)  == ~IsCT(h.name) /\ IF h.present THEN TxtBad(h) ELSE h.hreq
HdrAccepts(c) == (\A i \in DOMAIN c.hdrs : HdrGood(c.hdrs[i])) /\ BodyAccepts(c)
HdrRejects(c) == (\E i \in DOMAIN c.hdrs : HdrBad(c.hdrs[i])) \/ ~BodyAccepts(c)

(* part 4 ("media"): which entry of the definition's `content` map is used.  The keys of the map are media types / media  *)
(* ranges and MAY carry parameters ("application/json; charset=utf-8"); c.decls is the declared set (a sequence of media    *)
(* types), c.ct the response's Content-Type, and entry i accepts exactly the bodies carrying the marker property "m"+i.     *)
(* The entry used is MediaSelect!Select: the Content-Type verbatim (parameters included), then without its parameters,      *)
(* then type/*, then */*; none => the content type is undeclared and the response is rejected.                              *)
MediaAccepts(c) ==
   LET sel == Select({c.decls[i] : i \in DOMAIN c.decls}, c.ct) IN
   ~IsNone(sel) /\ c.decls[c.mark] = sel

Accepts(c) == CASE c.part = "pick" -> PickAccepts(c) [] c.part = "hdr" -> HdrAccepts(c) [] c.part = "media" -> MediaAccepts(c)
                [] OTHER -> DefAccepts(c)
Rejects(c) == IF c.part = "hdr" THEN HdrRejects(c) ELSE ~Accepts(c)
=============================================================================
