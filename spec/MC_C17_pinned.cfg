SPECIFICATION Spec
CONSTANTS K = 1
          PairLevel = 0
          TripleLevel = 0
          FieldK = 1
          M = 0
          Seed = 1
          Dev <- Pinned
INVARIANTS DesignOK
CHECK_DEADLOCK FALSE
