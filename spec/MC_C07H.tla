------------------------------ MODULE MC_C07H ------------------------------
(* D (history): which parameters ValidateRequest checks, as a state machine over a process  *)
(* that serves several validations of one document while the document may be edited.        *)
(*                                                                                          *)
(* The document: path item pi1 holds the operations op1 and op2 (siblings), path item pi2    *)
(* holds op1 as well (an alias path: the SAME Operation value under two path items, as a     *)
(* document assembled in code may have).  Every object carries a parameter list that an      *)
(* Edit step may replace.  A Validate step through a route <<path item, operation>> works    *)
(* out the list of parameters to check the way the code does -- the path item's parameters   *)
(* minus those the operation overrides (GetByInAndName), then the operation's -- and the     *)
(* contract is RequestCheck!Effective on the content AT THE TIME OF THE CALL.                *)
(*                                                                                          *)
(* Design = "stateless" is the code as built (nothing remembered between calls).  The other  *)
(* designs remember the list: per operation ("memoOp"), per route ("memoRoute"), or the      *)
(* inherited half per path item ("memoPathItem").  TLC refutes each of them, and each by      *)
(* another kind of history (the .cfg files restrict the histories accordingly): memoOp by    *)
(* the alias path alone, memoPathItem by the sibling operation alone, memoRoute holds on a   *)
(* document that is never edited and is refuted only by an edit -- which is why the          *)
(* conformance histories of Gen_C07 contain all three kinds (share, sibling, edit).          *)
EXTENDS RequestCheck
CONSTANTS Design, AllowEdit, RouteSet

P(in, name, kind) == [in |-> in, name |-> name, kind |-> kind]
Lists == {<<>>, <<P("query", "a", "int")>>, <<P("query", "a", "reqint")>>, <<P("header", "a", "reqint")>>}
Objects == {"pi1", "pi2", "op1", "op2"}
AllRoutes == {<<"pi1", "op1">>, <<"pi1", "op2">>, <<"pi2", "op1">>}
(* RouteSet restricts the histories: "alias" = op1 through both of its path items, "sibling" = both operations of pi1 *)
Routes == CASE RouteSet = "alias" -> {<<"pi1", "op1">>, <<"pi2", "op1">>} [] RouteSet = "sibling" -> {<<"pi1", "op1">>, <<"pi1", "op2">>} [] OTHER -> AllRoutes
MaxSteps == 3

VARIABLES content, memo, known, answer, want, n
vars == <<content, memo, known, answer, want, n>>

AsCase(r, cont) == [pparams |-> cont[r[1]], oparams |-> cont[r[2]]]
(* the list as the code builds it *)
Inherited(r, cont) == SelectSeq(cont[r[1]], LAMBDA p : ~\E o \in Range(cont[r[2]]) : Key(o) = Key(p))
ListOf(r, cont) == Inherited(r, cont) \o cont[r[2]]

MemoKeys == IF Design = "memoRoute" THEN AllRoutes ELSE Objects
MemoKey(r) == CASE Design = "memoOp" -> r[2] [] Design = "memoRoute" -> r [] OTHER -> r[1]

Init == /\ content \in [Objects -> Lists] /\ memo = [k \in MemoKeys |-> <<>>] /\ known = {} /\ answer = {} /\ want = {} /\ n = 0

Remember(k, l) == memo' = [memo EXCEPT ![k] = l] /\ known' = known \cup {k}
Validate(r) ==
   /\ n < MaxSteps /\ n' = n + 1
   /\ want' = Effective(AsCase(r, content))
   /\ LET k == MemoKey(r) IN
      CASE Design = "stateless" -> answer' = Range(ListOf(r, content)) /\ UNCHANGED <<memo, known>>
        [] Design = "memoPathItem" ->     \* the inherited half is remembered per path item, the operation's own half is read afresh
             IF k \in known THEN answer' = Range(memo[k] \o content[r[2]]) /\ UNCHANGED <<memo, known>>
             ELSE answer' = Range(ListOf(r, content)) /\ Remember(k, Inherited(r, content))
        [] OTHER ->
             IF k \in known THEN answer' = Range(memo[k]) /\ UNCHANGED <<memo, known>>
             ELSE answer' = Range(ListOf(r, content)) /\ Remember(k, ListOf(r, content))
   /\ UNCHANGED content
Edit(o, l) ==
   /\ AllowEdit /\ n < MaxSteps /\ n' = n + 1 /\ content[o] # l
   /\ content' = [content EXCEPT ![o] = l]
   /\ UNCHANGED <<memo, known, answer, want>>
Next == (\E r \in Routes : Validate(r)) \/ (\E o \in Objects, l \in Lists : Edit(o, l))
Spec == Init /\ [][Next]_vars

(* the parameters checked are exactly the parameters in effect for this call *)
AnswerIsEffective == answer = want
=============================================================================
