------------------------------ MODULE Trace_C12 ------------------------------
(* Trace validation for C12.  A log line is one schema with, per value of the value     *)
(* list, the verdicts of VisitJSON in default / fail-fast / multi-error mode, with and  *)
(* without a message customiser, and of IsMatching, plus every schema error returned    *)
(* directly or as a direct member of the MultiError (pointer, field, quoted value).     *)
(*   (a) same_verdict : all verdicts are equal (and none is a panic)                    *)
(*   (b) pointer_in_data / quoted_value : the error's JSON pointer resolves inside the  *)
(*       validated value (to the enclosing object for a missing required property) and  *)
(*       the value the error quotes is the value found there                            *)
EXTENDS SchemaUniverse, FindingsC12, Json, CSV

Trace == ndJsonDeserialize("trace.ndjson")

VARIABLE l
Init == l = 0
Next == l < Len(Trace) /\ l' = l + 1
Spec == Init /\ [][Next]_l

TheVals(line) == IF "vals" \in DOMAIN line THEN line.vals ELSE Vals \o VX

FrontOf(p) == SubSeq(p, 1, Len(p) - 1)

Verdicts(r) == {r.d, r.f, r.m, r.dc, r.mc, r.im}
ReqVerdicts(r) == {r.qd, r.qf, r.qm}      \* read as a request
RepVerdicts(r) == {r.pd, r.pf, r.pm}      \* read as a response
NoPatVerdicts(r) == {r.nd, r.nf, r.nm}    \* pattern validation disabled
FmtVerdicts(r) == {r.ed, r.ef, r.em}      \* format validation enabled

ErrBad(v, e) ==
   IF e.k # "schema" THEN {}
   ELSE IF e.ptr2 # e.ptr THEN {"pointer_stable_under_reading"}
   ELSE IF e.field = "required"
   THEN IF ~(Len(e.ptr) > 0 /\ Exists(v, FrontOf(e.ptr)) /\ At(v, FrontOf(e.ptr)).t = "obj")
        THEN {"pointer_in_data"}
        ELSE IF "val" \in DOMAIN e /\ ~Eq(At(v, FrontOf(e.ptr)), e.val) THEN {"quoted_value"} ELSE {}
   ELSE IF ~Exists(v, e.ptr) THEN {"pointer_in_data"}
        ELSE IF "val" \in DOMAIN e /\ ~Eq(At(v, e.ptr), e.val) THEN {"quoted_value"} ELSE {}

ErrKeys == {"de", "me", "qde", "qme", "pde", "pme"}      \* default / multi-error mode; the same read as a request, as a response
Errs(r) == UNION {IF k \in DOMAIN r THEN {<<k, i>> : i \in DOMAIN r[k]} ELSE {} : k \in ErrKeys}
ErrAt(r, x) == r[x[1]][x[2]]

FailedAt(v, r) ==
   (IF Cardinality(Verdicts(r)) # 1 \/ "P" \in Verdicts(r) THEN {"same_verdict"} ELSE {})
   \cup (IF Cardinality(ReqVerdicts(r)) # 1 \/ "P" \in ReqVerdicts(r) THEN {"same_verdict_as_request"} ELSE {})
   \cup (IF Cardinality(RepVerdicts(r)) # 1 \/ "P" \in RepVerdicts(r) THEN {"same_verdict_as_response"} ELSE {})
   \cup (IF Cardinality(NoPatVerdicts(r)) # 1 \/ "P" \in NoPatVerdicts(r) THEN {"same_verdict_patterns_disabled"} ELSE {})
   \cup (IF Cardinality(FmtVerdicts(r)) # 1 \/ "P" \in FmtVerdicts(r) THEN {"same_verdict_formats_enabled"} ELSE {})
   \* the option sets of spec/Gen_C19O.tla (mode and message customiser in every order, per reading and extra option): r.xg[i].vs
   \* is the list of distinct verdicts observed under the option sets whose base is r.xg[i].base -- one verdict, never a panic,
   \* and with the empty base the verdict of the plain default run
   \cup (IF "xg" \in DOMAIN r /\ \E i \in DOMAIN r.xg : Len(r.xg[i].vs) # 1 \/ r.xg[i].vs[1] = "P" \/ (r.xg[i].base = <<>> /\ r.xg[i].vs[1] # r.d)
         THEN {"same_verdict_under_every_option_order"} ELSE {})
   \* the errors of a directed reading point into the value as that reading left it (defaults installed): logged as <key>v
   \cup UNION {ErrBad(IF (x[1] \o "v") \in DOMAIN r THEN r[x[1] \o "v"] ELSE v, ErrAt(r, x)) : x \in Errs(r)}

Shared(line) == "share" \in DOMAIN line      \* repeated sub-schemas realised as references to one shared component

LineOK(line) ==
   IF line.load # "ok"
   THEN CSVWrite("%1$s", <<ToJson([case |-> line.case, s |-> line.s, share |-> Shared(line), failed |-> {"schema_does_not_load"},
                                    class |-> "none"])>>, "violations.ndjson")
   ELSE LET vs == TheVals(line) IN
        \A i \in DOMAIN vs :
           LET bad == FailedAt(vs[i], line.r[i]) IN
           bad = {} \/ CSVWrite("%1$s", <<ToJson([case |-> line.case, s |-> line.s, share |-> Shared(line), v |-> vs[i], failed |-> bad,
                                                   r |-> line.r[i], class |-> Class(line.s, vs[i], line.r[i], bad)])>>,
                                "violations.ndjson")

Judge == l > 0 => LineOK(Trace[l])
AllConsumed == TLCGet("stats").diameter = Len(Trace) + 1
=============================================================================
