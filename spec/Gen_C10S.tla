------------------------------ MODULE Gen_C10S ------------------------------
(* F for the structured universe of C10: one case per row of the orthogonal array(s) of RobustShapes *)
EXTENDS RobustShapes, Json, CSV
Emit == CSVWrite("%1$s", <<ToJson(ShapeCase(ri, rj, rk, rm))>>, "cases_shape.ndjson")
=============================================================================
