------------------------------ MODULE MC_C07O ------------------------------
(* D (orchestration): ValidateRequest as a state machine over the parts it visits --       *)
(* security, the path item's parameters one by one (skipping the overridden and, under      *)
(* ExcludeRequestQueryParams, the query ones), the operation's parameters one by one, the   *)
(* body -- returning at the first failing part in fail-first mode and collecting in         *)
(* multi-error mode.  For every operation / request / option combination of a small         *)
(* universe TLC checks that the machine's result is the contract of RequestCheck:           *)
(*   ok  <=>  FailingParts = {} ;  multi-error: the collected errors are exactly            *)
(*   FailingParts, each once ;  fail-first: the one error names a failing part.             *)
(*                                                                                          *)
(* Variant = "asbuilt" is the code.  The other variants are orchestration designs the       *)
(* contract refutes (each .cfg expects a counterexample):                                   *)
(*   "exclQueryOpOnly"  the query exclusion is applied in the operation's loop only         *)
(*   "bodyPresenceFirst" the body step tests 'required but missing' before it looks at      *)
(*                      ExcludeRequestBody (the exclusion folded into the body validator)   *)
(*   "multiEarlyReturn" multi-error mode returns after the security part failed             *)
(*   "overrideByName"   a path-level parameter counts as overridden by an operation         *)
(*                      parameter of the same name in ANY location                          *)
(*   "bodyByMethod"     the body step is taken only under methods for which RFC 7231        *)
(*                      defines a payload (not under get / head / delete)                   *)
EXTENDS RequestCheck
CONSTANT Variant

P(in, name, kind) == [in |-> in, name |-> name, kind |-> kind]
V(in, name, text) == [in |-> in, name |-> name, text |-> text]
Absent == [absent |-> TRUE]
PLists == {<<>>, <<P("query", "a", "int")>>, <<P("header", "a", "reqint")>>, <<P("query", "a", "strx"), P("header", "a", "int")>>}
Values == {<<>>, <<V("query", "a", "1")>>, <<V("query", "a", "x"), V("header", "a", "1")>>}
Cases ==
   {cc \in {[opSec |-> os, docSec |-> <<>>, accepts |-> acc, pparams |-> pp, oparams |-> op, values |-> vs, bdecl |-> bd, body |-> body,
     multi |-> mu, exclBody |-> xb, exclQuery |-> xq, method |-> m] :
      m \in {"post", "delete"},
      os \in {Absent, [list |-> << <<"A">> >>]}, acc \in {{}, {"A"}}, pp \in PLists, op \in PLists, vs \in Values,
      bd \in {"none", "optional", "required"}, body \in {"none", "pass", "fail"}, mu \in BOOLEAN, xb \in BOOLEAN, xq \in BOOLEAN} :
      \* (the outcome set only matters when there is a requirement; the payload-less method only where a body is declared)
      ~("absent" \in DOMAIN cc.opSec /\ cc.accepts = {"A"}) /\ (cc.method = "delete" => cc.bdecl # "none")}

VARIABLES c, pc, i, errs, ret
vars == <<c, pc, i, errs, ret>>

Init == c \in Cases /\ pc = "sec" /\ i = 1 /\ errs = <<>> /\ ret = "running"

PartName(e) == "param:" \o e.in \o ":" \o e.name
(* a part failed: return it at once (fail-first) or note it and go on (multi-error) *)
Fail(part, nextpc, nexti) ==
   IF c.multi /\ ~(Variant = "multiEarlyReturn" /\ part = "security")
   THEN errs' = Append(errs, part) /\ pc' = nextpc /\ i' = nexti /\ UNCHANGED ret
   ELSE errs' = Append(errs, part) /\ pc' = "done" /\ i' = 1 /\ ret' = "error"
Go(nextpc, nexti) == pc' = nextpc /\ i' = nexti /\ UNCHANGED <<errs, ret>>

Sec == /\ pc = "sec"
       /\ IF SecOK(c) THEN Go("pp", 1) ELSE Fail("security", "pp", 1)
       /\ UNCHANGED c
OverriddenIn(p) ==
   IF Variant = "overrideByName" THEN \E o \in Range(c.oparams) : o.name = p.name
   ELSE \E o \in Range(c.oparams) : Key(o) = Key(p)
PathParam ==
   /\ pc = "pp" /\ UNCHANGED c
   /\ IF i > Len(c.pparams) THEN Go("op", 1)
      ELSE LET p == c.pparams[i] IN
           IF (Variant # "exclQueryOpOnly" /\ c.exclQuery /\ p.in = "query") \/ OverriddenIn(p) \/ Passes(c, p)
           THEN Go("pp", i + 1) ELSE Fail(PartName(p), "pp", i + 1)
OpParam ==
   /\ pc = "op" /\ UNCHANGED c
   /\ IF i > Len(c.oparams) THEN Go("body", 1)
      ELSE LET p == c.oparams[i] IN
           IF (c.exclQuery /\ p.in = "query") \/ Passes(c, p) THEN Go("op", i + 1) ELSE Fail(PartName(p), "op", i + 1)
Body ==
   /\ pc = "body" /\ UNCHANGED c
   /\ IF Variant = "bodyByMethod" /\ c.method \in {"get", "head", "delete"} THEN Go("fin", 1)
      ELSE IF Variant = "bodyPresenceFirst"
      THEN IF c.bdecl # "none" /\ ((c.body = "none" /\ c.bdecl = "required") \/ (~c.exclBody /\ c.body = "fail"))
           THEN Fail("body", "fin", 1) ELSE Go("fin", 1)
      ELSE IF c.bdecl # "none" /\ ~c.exclBody /\ BodyPartFails(c) THEN Fail("body", "fin", 1) ELSE Go("fin", 1)
Fin == /\ pc = "fin" /\ pc' = "done" /\ ret' = (IF errs = <<>> THEN "ok" ELSE "error") /\ UNCHANGED <<c, i, errs>>
Next == Sec \/ PathParam \/ OpParam \/ Body \/ Fin
Spec == Init /\ [][Next]_vars

ResultIsContract ==
   pc = "done" =>
      LET fp == FailingParts(c) IN
      /\ (ret = "ok") <=> (fp = {})
      /\ (ret = "error" /\ c.multi) => (Range(errs) = fp /\ Len(errs) = Cardinality(fp))
      /\ (ret = "error" /\ ~c.multi) => (Len(errs) = 1 /\ errs[1] \in fp)
=============================================================================
