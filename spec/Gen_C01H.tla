------------------------------ MODULE Gen_C01H ------------------------------
(* F for the history clause of C01: every history of MaxSteps validations (pattern x value x   *)
(* engine x entry point) of spec/PatternCache.tla, replayed in ONE process against the real     *)
(* process-wide cache.  The case carries no expectation: L1 is evaluated by Trace_C01H.         *)
EXTENDS PatternCache, Json, CSV
Emit == Len(hist) = MaxSteps =>
   CSVWrite("%1$s", <<ToJson([steps |-> [i \in DOMAIN hist |-> [kind |-> hist[i].kind, p |-> hist[i].p, v |-> hist[i].v, e |-> hist[i].e]]])>>,
            "cases_hist.ndjson")
=============================================================================
