SPECIFICATION Spec
CONSTANTS Design = "copy"
 MaxResp = 3
 MaxSteps = 5
 KindsUsed <- AllKinds
INVARIANTS Emit EmitConc L2ImpliesL1
CHECK_DEADLOCK FALSE
