------------------------------ MODULE DocRules ------------------------------
(***************************************************************************)
(* C04, L1: the structural rules of an OpenAPI 3.0 document that           *)
(* kin-openapi's document validation enforces, written as a judge over the *)
(* document itself (a tagged JSON value, spec/DocValue.tla).               *)
(*                                                                         *)
(*   Viol(doc)        the set of rule violations of a document, each with  *)
(*                    its rule, the kind of its subject, the JSON pointer  *)
(*                    of the subject and the containment edges leading to  *)
(*                    it.  The walk follows the containment graph Edges:   *)
(*                    every place at which a rule's subject can occur is   *)
(*                    visited, whatever container it sits in.              *)
(*   Enabled(v, opts) whether a violation counts under a set of validation *)
(*                    options: each option switches exactly the rule it    *)
(*                    names.                                               *)
(*   Accept(V, opts)  == no enabled violation.                             *)
(*                                                                         *)
(* The contract of C04 is: Validate(doc, opts) = nil  <=>  Accept.         *)
(* Nothing here mentions how the library walks a document.                 *)
(***************************************************************************)
EXTENDS DocValue

(*------------------------------ vocabulary -------------------------------*)
(* character sequences of every string the judge has to look inside        *)
cExt      == <<"x","-","e">>
cBogus    == <<"b","o","g","u","s">>
cDescr    == <<"d","e","s","c","r","i","p","t","i","o","n">>
cPathP    == <<"/","p">>
cPathQ    == <<"/","q">>
cPathNoSl == <<"p">>
cPathId   == <<"/","p","/","{","i","d","}">>
cPathK    == <<"/","p","/","{","k","}">>
cPathIdK  == <<"/","p","/","{","i","d","}","/","{","k","}">>
cPathQId  == <<"/","q","/","{","i","d","}">>
cNameS    == <<"S">>
cNameT    == <<"T">>
cNameR    == <<"R","0">>
cNameR1   == <<"R","1">>
cNameDot  == <<"a",".","b","_","c","-","1">>
cNameSp   == <<"a"," ","b">>
cNameDol  == <<"a","$">>
cEmpty    == <<>>                       \* the empty string (as a component name, a path, ...)
cNameSl   == <<"a","/","b">>
(* "{U+00E9}" is one character, e with acute accent: the driver renders this token as that rune (and reads it *)
(* back), because TLC's Json module does not carry non-ASCII text                                            *)
cNameUni  == <<"a","{U+00E9}">>
cName1    == <<"a">>
cNameDots == <<".">>
cNameDash == <<"-">>
cNameUnd  == <<"_">>
cNameMix  == <<".","_","-">>
cNameDig  == <<"1","a">>
cExtUp    == <<"X","-","e">>            \* not an extension: the prefix is lower-case x-
cExtBare  == <<"x","-">>                \* an extension: nothing is required after the prefix
cPathVar  == <<"{","i","d","}">>
cPathEV   == <<"/","p","/","{","}">>
cUrlPlain == <<"h","t","t","p",":","/","/","h">>
cUrlVar   == <<"h","t","t","p",":","/","/","h","/","{","v","}">>
cUrlOpen  == <<"h","t","t","p",":","/","/","h","/","{","v">>
cUrlVar2  == <<"h","t","t","p",":","/","/","h","/","{","v","}","/","{","v","}">>     \* one variable used twice
cPatOk    == <<"a","+">>
cPatBad   == <<"(","a">>
cExpr     == <<"{","$","r","e","q","u","e","s","t",".","b","o","d","y","#","/","u","}">>
cUrlBad   == <<":","/","/","h">>        \* no scheme before the colon: not a URI reference (RFC 3986), refused by net/url
CharVocab == {cExt, cBogus, cDescr, cPathP, cPathQ, cPathNoSl, cPathId, cPathK, cPathIdK, cPathQId,
              cNameS, cNameT, cNameR, cNameR1, cNameDot, cNameSp, cNameDol, cEmpty, cNameSl, cNameUni, cName1, cNameDots,
              cNameDash, cNameUnd, cNameMix, cNameDig, cExtUp, cExtBare, cPathVar, cPathEV, cUrlPlain, cUrlVar, cUrlVar2, cUrlOpen, cPatOk, cPatBad, cExpr, cUrlBad}

(* constant table (evaluated once by TLC): the strings of the vocabulary with their characters *)
VocabTab == {[s |-> Join(cs), cs |-> cs] : cs \in CharVocab}
ASSUME \A x, y \in VocabTab : x.s = y.s => x.cs = y.cs
Analysable(s) == \E x \in VocabTab : x.s = s
CharsOf(s)    == (CHOOSE x \in VocabTab : x.s = s).cs
(* a key outside the vocabulary is not an extension key (every x- key of the universe is in it) *)
IsExt(k) == Analysable(k) /\ IsPrefix(<<"x","-">>, CharsOf(k))

Lower == {"a","b","c","d","e","f","g","h","i","j","k","l","m","n","o","p","q","r","s","t","u","v","w","x","y","z"}
Upper == {"A","B","C","D","E","F","G","H","I","J","K","L","M","N","O","P","Q","R","S","T","U","V","W","X","Y","Z"}
Digit == {"0","1","2","3","4","5","6","7","8","9"}
IdentChars == Lower \cup Upper \cup Digit \cup {".", "_", "-"}
IsIdent(k) == Analysable(k) /\ CharsOf(k) # <<>> /\ \A i \in DOMAIN CharsOf(k) : CharsOf(k)[i] \in IdentChars

(* names between braces of a template, and the template with the names blanked *)
RECURSIVE VarsFrom(_, _, _)
VarsFrom(cs, inv, acc) ==
   IF cs = <<>> THEN {}
   ELSE LET c == Head(cs) IN
        IF inv THEN IF c = "}" THEN {Join(acc)} \cup VarsFrom(Tail(cs), FALSE, <<>>)
                    ELSE VarsFrom(Tail(cs), TRUE, Append(acc, c))
        ELSE IF c = "{" THEN VarsFrom(Tail(cs), TRUE, <<>>) ELSE VarsFrom(Tail(cs), FALSE, <<>>)
TemplVars(cs) == VarsFrom(cs, FALSE, <<>>)
RECURSIVE Blank(_, _)
Blank(cs, inv) ==
   IF cs = <<>> THEN <<>>
   ELSE LET c == Head(cs) IN
        IF inv THEN IF c = "}" THEN <<c>> \o Blank(Tail(cs), FALSE) ELSE Blank(Tail(cs), TRUE)
        ELSE <<c>> \o Blank(Tail(cs), c = "{")
NormTemplate(cs) == Blank(cs, FALSE)

(*--------------------------- containment graph ---------------------------*)
(* the operations of a Path Item as the library knows them: those of OpenAPI 3.0.3 and connect (PathItem.Connect is *)
(* read, written, routed and validated like the others; a Path Item with a connect operation is accepted)          *)
Methods == {"get", "put", "post", "delete", "options", "head", "patch", "trace", "connect"}
Sections == {"schemas", "parameters", "headers", "requestBodies", "responses", "securitySchemes",
             "examples", "links", "callbacks"}
SectionOf(kind) == CASE kind = "schema" -> "schemas" [] kind = "parameter" -> "parameters"
                     [] kind = "header" -> "headers" [] kind = "requestBody" -> "requestBodies"
                     [] kind = "response" -> "responses" [] kind = "securityScheme" -> "securitySchemes"
                     [] kind = "example" -> "examples" [] kind = "link" -> "links"
                     [] kind = "callback" -> "callbacks"

(* mode: "one"  the member f is the child                                   *)
(*       "arr"  the member f is an array of children                        *)
(*       "map"  the member f is an object whose members are the children    *)
(*       "self" the non-extension members of the object itself are children *)
(* ref:  a Reference Object may stand in the child's place                  *)
Kinds == {"root", "info", "contact", "license", "tag", "server", "serverVariable", "components", "paths",
          "callback", "pathItem", "operation", "parameter", "header", "requestBody", "response", "mediaType",
          "encoding", "schema", "discriminator", "xml", "externalDocs", "example", "link", "securityScheme",
          "oauthFlows", "flowImplicit", "flowPassword", "flowClient", "flowCode"}
FlowKinds == {"flowImplicit", "flowPassword", "flowClient", "flowCode"}

E(f, mode, kind, ref) == [f |-> f, mode |-> mode, kind |-> kind, ref |-> ref]
ParamEdges == {E("schema", "one", "schema", TRUE), E("content", "map", "mediaType", FALSE),
               E("examples", "map", "example", TRUE)}
EdgesOf(kind) ==
   CASE kind = "root" -> {E("info", "one", "info", FALSE), E("components", "one", "components", FALSE),
                          E("paths", "one", "paths", FALSE), E("servers", "arr", "server", FALSE),
                          E("tags", "arr", "tag", FALSE), E("externalDocs", "one", "externalDocs", FALSE)}
     [] kind = "info" -> {E("contact", "one", "contact", FALSE), E("license", "one", "license", FALSE)}
     [] kind = "tag" -> {E("externalDocs", "one", "externalDocs", FALSE)}
     [] kind = "server" -> {E("variables", "map", "serverVariable", FALSE)}
     [] kind = "components" -> {E("schemas", "map", "schema", TRUE), E("parameters", "map", "parameter", TRUE),
                          E("headers", "map", "header", TRUE), E("requestBodies", "map", "requestBody", TRUE),
                          E("responses", "map", "response", TRUE), E("securitySchemes", "map", "securityScheme", TRUE),
                          E("examples", "map", "example", TRUE), E("links", "map", "link", TRUE),
                          E("callbacks", "map", "callback", TRUE)}
     [] kind = "paths" -> {E("", "self", "pathItem", FALSE)}
     [] kind = "callback" -> {E("", "self", "pathItem", FALSE)}
     [] kind = "pathItem" -> {E(m, "one", "operation", FALSE) : m \in Methods}
                             \cup {E("parameters", "arr", "parameter", TRUE), E("servers", "arr", "server", FALSE)}
     [] kind = "operation" -> {E("parameters", "arr", "parameter", TRUE), E("requestBody", "one", "requestBody", TRUE),
                          E("responses", "map", "response", TRUE), E("callbacks", "map", "callback", TRUE),
                          E("externalDocs", "one", "externalDocs", FALSE), E("servers", "arr", "server", FALSE)}
     [] kind = "parameter" -> ParamEdges
     [] kind = "header" -> ParamEdges
     [] kind = "requestBody" -> {E("content", "map", "mediaType", FALSE)}
     [] kind = "response" -> {E("content", "map", "mediaType", FALSE), E("headers", "map", "header", TRUE),
                          E("links", "map", "link", TRUE)}
     [] kind = "mediaType" -> {E("schema", "one", "schema", TRUE), E("examples", "map", "example", TRUE),
                          E("encoding", "map", "encoding", FALSE)}
     [] kind = "encoding" -> {E("headers", "map", "header", TRUE)}
     [] kind = "schema" -> {E("items", "one", "schema", TRUE), E("properties", "map", "schema", TRUE),
                          E("additionalProperties", "one", "schema", TRUE), E("allOf", "arr", "schema", TRUE),
                          E("oneOf", "arr", "schema", TRUE), E("anyOf", "arr", "schema", TRUE),
                          E("not", "one", "schema", TRUE), E("externalDocs", "one", "externalDocs", FALSE),
                          E("discriminator", "one", "discriminator", FALSE), E("xml", "one", "xml", FALSE)}
     [] kind = "link" -> {E("server", "one", "server", FALSE)}
     [] kind = "securityScheme" -> {E("flows", "one", "oauthFlows", FALSE)}
     [] kind = "oauthFlows" -> {E("implicit", "one", "flowImplicit", FALSE), E("password", "one", "flowPassword", FALSE),
                          E("clientCredentials", "one", "flowClient", FALSE),
                          E("authorizationCode", "one", "flowCode", FALSE)}
     [] OTHER -> {}
EdgeTab == [k \in Kinds |-> EdgesOf(k)]
Edges(kind) == EdgeTab[kind]

(* the fixed fields of each object kind (OpenAPI 3.0.3); kinds whose own members are a map have none *)
ParamFields == {"name", "in", "description", "required", "deprecated", "allowEmptyValue", "style", "explode",
                "allowReserved", "schema", "example", "examples", "content"}
KnownOf(kind) ==
   CASE kind = "root" -> {"openapi", "info", "servers", "paths", "components", "security", "tags", "externalDocs"}
     [] kind = "info" -> {"title", "description", "termsOfService", "contact", "license", "version"}
     [] kind = "contact" -> {"name", "url", "email"}
     [] kind = "license" -> {"name", "url"}
     [] kind = "tag" -> {"name", "description", "externalDocs"}
     [] kind = "server" -> {"url", "description", "variables"}
     [] kind = "serverVariable" -> {"enum", "default", "description"}
     [] kind = "components" -> Sections
     [] kind = "pathItem" -> Methods \cup {"$ref", "summary", "description", "servers", "parameters"}
     [] kind = "operation" -> {"tags", "summary", "description", "externalDocs", "operationId", "parameters",
                               "requestBody", "responses", "callbacks", "deprecated", "security", "servers"}
     [] kind = "parameter" -> ParamFields
     [] kind = "header" -> ParamFields
     [] kind = "requestBody" -> {"description", "content", "required"}
     [] kind = "response" -> {"description", "headers", "content", "links"}
     [] kind = "mediaType" -> {"schema", "example", "examples", "encoding"}
     [] kind = "encoding" -> {"contentType", "headers", "style", "explode", "allowReserved"}
     [] kind = "schema" -> {"title", "multipleOf", "maximum", "exclusiveMaximum", "minimum", "exclusiveMinimum",
                            "maxLength", "minLength", "pattern", "maxItems", "minItems", "uniqueItems",
                            "maxProperties", "minProperties", "required", "enum", "type", "allOf", "oneOf", "anyOf",
                            "not", "items", "properties", "additionalProperties", "description", "format", "default",
                            "nullable", "discriminator", "readOnly", "writeOnly", "xml", "externalDocs", "example",
                            "deprecated"}
     [] kind = "discriminator" -> {"propertyName", "mapping"}
     [] kind = "xml" -> {"name", "namespace", "prefix", "attribute", "wrapped"}
     [] kind = "externalDocs" -> {"description", "url"}
     [] kind = "example" -> {"summary", "description", "value", "externalValue"}
     [] kind = "link" -> {"operationRef", "operationId", "parameters", "requestBody", "description", "server"}
     [] kind = "securityScheme" -> {"type", "description", "name", "in", "scheme", "bearerFormat", "flows",
                                    "openIdConnectUrl"}
     [] kind = "oauthFlows" -> {"implicit", "password", "clientCredentials", "authorizationCode"}
     [] kind \in FlowKinds -> {"authorizationUrl", "tokenUrl", "refreshUrl", "scopes"}
     [] OTHER -> {}
KnownTab == [k \in Kinds |-> KnownOf(k)]
Known(kind) == KnownTab[kind]
(* kinds that are "objects with fixed fields, MAY be extended with x- fields": anything else is an extra field *)
FixedKinds == Kinds \ {"paths", "callback"}

(*------------------------------ violations --------------------------------*)
VF(rule, kind, at, via, field) == [rule |-> rule, kind |-> kind, at |-> at, via |-> via, field |-> field]
V(rule, kind, at, via) == VF(rule, kind, at, via, "")

(* references *)
RefStr(section, name) == "#/components/" \o section \o "/" \o name
IsRef(x) == IsO(x) /\ Has(x, "$ref")
CompMap(root, section) ==
   IF Has(root, "components") /\ IsO(Get(root, "components")) /\ Has(Get(root, "components"), section)
      /\ IsO(Get(Get(root, "components"), section))
   THEN Get(Get(root, "components"), section) ELSE EmptyO
Resolves(root, x, section) ==
   IsS(Get(x, "$ref")) /\ \E n \in Keys(CompMap(root, section)) : RefStr(section, n) = Get(x, "$ref").s
Target(root, x, section) ==
   Get(CompMap(root, section), CHOOSE n \in Keys(CompMap(root, section)) : RefStr(section, n) = Get(x, "$ref").s)
(* one step of dereferencing; a reference that does not resolve stays as it is *)
Deref(root, x, kind) == IF IsRef(x) /\ Resolves(root, x, SectionOf(kind)) THEN Target(root, x, SectionOf(kind)) ELSE x

(* does a JSON value conform to a schema (the fragment the universe uses: type, items, properties, required) *)
TypeTag(ty) == CASE ty = "string" -> "s" [] ty = "integer" -> "n" [] ty = "number" -> "n"
                 [] ty = "boolean" -> "b" [] ty = "array" -> "a" [] ty = "object" -> "o" [] OTHER -> "?"
(* mode: "req" the value travels in a request, "res" in a response, "any" neither is known.  readOnly: the    *)
(* property "MAY be sent as part of a response but SHOULD NOT be sent as part of the request", and when it is  *)
(* required "the required will take effect on the response only"; writeOnly the other way round (OAS 3.0.3).   *)
PropFlag(sch, k, flag, root) ==
   Has(sch, "properties") /\ IsO(Get(sch, "properties")) /\ Has(Get(sch, "properties"), k)
   /\ LET ps == Deref(root, Get(Get(sch, "properties"), k), "schema") IN IsO(ps) /\ IsTrue(ps, flag)
Barred(sch, k, mode, root) == \/ mode = "req" /\ PropFlag(sch, k, "readOnly", root)
                              \/ mode = "res" /\ PropFlag(sch, k, "writeOnly", root)
RECURSIVE ConformsM(_, _, _, _)
ConformsM(sch0, val, root, mode) ==
   LET sch == Deref(root, sch0, "schema") IN
   IF ~IsO(sch) \/ IsRef(sch) THEN TRUE
   ELSE /\ HasStr(sch, "type") => (TypeTag(StrOf(sch, "type")) = "?" \/ TypeTag(StrOf(sch, "type")) = val.t)
        /\ (val.t = "a" /\ Has(sch, "items")) => \A i \in DOMAIN val.a : ConformsM(Get(sch, "items"), val.a[i], root, mode)
        /\ (val.t = "o" /\ Has(sch, "properties") /\ IsO(Get(sch, "properties"))) =>
              \A i \in DOMAIN val.f : Has(Get(sch, "properties"), val.f[i].k)
                                        => /\ ConformsM(Get(Get(sch, "properties"), val.f[i].k), val.f[i].v, root, mode)
                                           /\ ~Barred(sch, val.f[i].k, mode, root)
        /\ (val.t = "o" /\ Has(sch, "required") /\ IsA(Get(sch, "required"))) =>
              \A i \in DOMAIN Get(sch, "required").a :
                 Has(val, Get(sch, "required").a[i].s) \/ Barred(sch, Get(sch, "required").a[i].s, mode, root)
Conforms(sch, val, root) == ConformsM(sch, val, root, "any")

(* the mode of a place: given by the innermost Request Body / Response Object that contains it *)
ReqEdges == {<<"operation", "requestBody">>, <<"components", "requestBodies">>}
ResEdges == {<<"operation", "responses">>, <<"components", "responses">>}
RECURSIVE ModeOf(_)
ModeOf(via) == IF via = <<>> THEN "any"
               ELSE IF via[Len(via)] \in ReqEdges THEN "req"
               ELSE IF via[Len(via)] \in ResEdges THEN "res"
               ELSE ModeOf(SubSeq(via, 1, Len(via) - 1))

(* a URL that is not even a URI reference: nothing before the first colon (within the vocabulary) *)
BadUrl(u) == Analysable(u) /\ IsPrefix(<<":">>, CharsOf(u))

(* parameter serialisation table of OpenAPI 3.0 *)
DefaultStyle(in) == IF in \in {"query", "cookie"} THEN "form" ELSE "simple"
StyleOf(o, in) == IF HasStr(o, "style") THEN StrOf(o, "style") ELSE DefaultStyle(in)
ExplodeOf(o, in) == IF IsTrue(o, "explode") THEN TRUE ELSE IF IsFalse(o, "explode") THEN FALSE
                    ELSE StyleOf(o, in) = "form"
LegalStyle(in, style, explode) ==
   CASE in = "path"   -> style \in {"simple", "label", "matrix"}
     [] in = "query"  -> style \in {"form", "spaceDelimited", "pipeDelimited"} \/ (style = "deepObject" /\ explode)
     [] in = "header" -> style = "simple"
     [] in = "cookie" -> style = "form"
     [] OTHER -> TRUE
MemberCount(o, key) == IF Has(o, key) /\ IsO(Get(o, key)) THEN Len(Get(o, key).f) ELSE 0

(* rules shared by everything that carries schema + example(s): parameter, header, media type *)
ExampleRules(o, root, mode) ==
   LET hasSchema == Has(o, "schema") /\ IsO(Get(o, "schema")) IN
   (IF Has(o, "example") /\ Has(o, "examples") THEN {"example_and_examples"} ELSE {})
   \cup (IF hasSchema /\ Has(o, "example") /\ ~ConformsM(Get(o, "schema"), Get(o, "example"), root, mode)
         THEN {"example_mismatch"} ELSE {})
   \cup (IF hasSchema /\ Has(o, "examples") /\ IsO(Get(o, "examples"))
            /\ \E i \in DOMAIN Get(o, "examples").f :
                  LET ex == Deref(root, Get(o, "examples").f[i].v, "example") IN
                  IsO(ex) /\ ~IsRef(ex) /\ Has(ex, "value") /\ ~ConformsM(Get(o, "schema"), Get(ex, "value"), root, mode)
         THEN {"examples_mismatch"} ELSE {})

ParamLikeRules(o, in) ==
   (IF ~LegalStyle(in, StyleOf(o, in), ExplodeOf(o, in)) THEN {"bad_style"} ELSE {})
   \cup (IF (Has(o, "schema")) = (MemberCount(o, "content") > 0) THEN {"schema_xor_content"} ELSE {})
   \cup (IF MemberCount(o, "content") > 1 THEN {"content_multi"} ELSE {})

KnownFormats(ty) == CASE ty = "string" -> {"byte", "binary", "date", "date-time", "password", "email", "uuid", "uri",
                                           "hostname", "ipv4", "ipv6"}
                      [] ty = "integer" -> {"int32", "int64"}
                      [] ty = "number" -> {"float", "double"}
                      [] OTHER -> {}

(* the parameters of a path item / operation that are "in: path", by name, looking through references *)
ParamList(o) == IF Has(o, "parameters") /\ IsA(Get(o, "parameters")) THEN Get(o, "parameters").a ELSE <<>>
PathParamNames(root, o) ==
   {StrOf(Deref(root, ParamList(o)[i], "parameter"), "name") :
       i \in {j \in DOMAIN ParamList(o) : IsO(ParamList(o)[j])
                                         /\ StrOf(Deref(root, ParamList(o)[j], "parameter"), "in") = "path"}}
ParamKey(root, p) == <<StrOf(Deref(root, p, "parameter"), "in"), StrOf(Deref(root, p, "parameter"), "name")>>
DupParams(root, o) == \E i, j \in DOMAIN ParamList(o) :
                         i < j /\ IsO(ParamList(o)[i]) /\ IsO(ParamList(o)[j])
                         /\ ParamKey(root, ParamList(o)[i]) = ParamKey(root, ParamList(o)[j])

OpsOf(pi) == {m \in Methods : Has(pi, m) /\ IsO(Get(pi, m))}
PathKeys(o) == {k \in Keys(o) : ~IsExt(k)}

(* the rules whose subject is the object itself; result: set of rule names *)
LocalRules(kind, o, root, mode) ==
   CASE kind = "root" ->
          (IF ~HasStr(o, "openapi") THEN {"openapi_missing"} ELSE {})
          \cup (IF ~(Has(o, "info") /\ IsO(Get(o, "info"))) THEN {"info_missing"} ELSE {})
          \cup (IF ~(Has(o, "paths") /\ IsO(Get(o, "paths"))) THEN {"paths_missing"} ELSE {})
     [] kind = "info" ->
          (IF ~HasStr(o, "title") THEN {"title_missing"} ELSE {})
          \cup (IF ~HasStr(o, "version") THEN {"version_missing"} ELSE {})
     [] kind = "license" -> IF ~HasStr(o, "name") THEN {"name_missing"} ELSE {}
     [] kind = "externalDocs" -> IF ~HasStr(o, "url") THEN {"url_missing"}
                                 ELSE IF BadUrl(StrOf(o, "url")) THEN {"url_malformed"} ELSE {}
     [] kind = "server" ->
          IF ~HasStr(o, "url") THEN {"url_missing"}
          ELSE IF ~Analysable(StrOf(o, "url")) THEN {}
          ELSE LET cs == CharsOf(StrOf(o, "url")) IN
               IF Count(cs, "{") # Count(cs, "}") THEN {"brace_mismatch"}
               ELSE IF TemplVars(cs) # (IF MemberCount(o, "variables") > 0 THEN Keys(Get(o, "variables")) ELSE {})
                    THEN {"variable_mismatch"} ELSE {}
     [] kind = "serverVariable" -> IF ~HasStr(o, "default") THEN {"default_missing"} ELSE {}
     [] kind = "components" ->
          IF \E sec \in Sections : Has(o, sec) /\ IsO(Get(o, sec)) /\ \E n \in Keys(Get(o, sec)) : ~IsIdent(n)
          THEN {"bad_component_name"} ELSE {}
     [] kind = "paths" ->
          (IF \E k \in PathKeys(o) : ~(Analysable(k) /\ IsPrefix(<<"/">>, CharsOf(k))) THEN {"no_leading_slash"} ELSE {})
          \cup (IF \E k \in PathKeys(o) : Analysable(k) /\ IsO(Get(o, k)) /\ \E m \in OpsOf(Get(o, k)) :
                      PathParamNames(root, Get(o, k)) \cup PathParamNames(root, Get(Get(o, k), m))
                         # TemplVars(CharsOf(k))
                THEN {"template_mismatch"} ELSE {})
          \cup (IF \E k1, k2 \in PathKeys(o) : k1 # k2 /\ Analysable(k1) /\ Analysable(k2)
                                               /\ NormTemplate(CharsOf(k1)) = NormTemplate(CharsOf(k2))
                THEN {"template_conflict"} ELSE {})
          \cup (IF \E k1, k2 \in PathKeys(o) : IsO(Get(o, k1)) /\ IsO(Get(o, k2)) /\
                      \E m1 \in OpsOf(Get(o, k1)), m2 \in OpsOf(Get(o, k2)) :
                         /\ <<k1, m1>> # <<k2, m2>>
                         /\ HasStr(Get(Get(o, k1), m1), "operationId")
                         /\ StrOf(Get(Get(o, k1), m1), "operationId") = StrOf(Get(Get(o, k2), m2), "operationId")
                THEN {"dup_operation_id"} ELSE {})
     [] kind = "pathItem" -> IF DupParams(root, o) THEN {"dup_param"} ELSE {}
     [] kind = "operation" ->
          (IF DupParams(root, o) THEN {"dup_param"} ELSE {})
          \cup (IF ~(Has(o, "responses") /\ IsO(Get(o, "responses"))) THEN {"responses_missing"}
                ELSE IF Len(Get(o, "responses").f) = 0 THEN {"responses_empty"} ELSE {})
     [] kind = "parameter" ->
          (IF ~HasStr(o, "name") THEN {"name_missing"} ELSE {})
          \cup (IF StrOf(o, "in") \notin {"path", "query", "header", "cookie"} THEN {"in_invalid"}
                ELSE ParamLikeRules(o, StrOf(o, "in"))
                     \cup (IF StrOf(o, "in") = "path" /\ ~IsTrue(o, "required") THEN {"path_not_required"} ELSE {}))
          \cup ExampleRules(o, root, mode)
     [] kind = "header" ->
          (IF Has(o, "name") THEN {"header_has_name"} ELSE {})
          \cup (IF Has(o, "in") THEN {"header_has_in"} ELSE {})
          \cup ParamLikeRules(o, "header") \cup ExampleRules(o, root, mode)
     [] kind = "requestBody" -> IF ~(Has(o, "content") /\ IsO(Get(o, "content"))) THEN {"content_missing"} ELSE {}
     [] kind = "response" -> IF ~(Has(o, "description") /\ IsS(Get(o, "description"))) THEN {"description_missing"} ELSE {}
     [] kind = "mediaType" -> ExampleRules(o, root, mode)
     [] kind = "encoding" ->
          IF HasStr(o, "style") /\ ~LegalStyle("query", StrOf(o, "style"), ExplodeOf(o, "query")) THEN {"bad_style"} ELSE {}
     [] kind = "schema" ->
          LET ty == StrOf(o, "type") IN
          (IF IsTrue(o, "readOnly") /\ IsTrue(o, "writeOnly") THEN {"readonly_and_writeonly"} ELSE {})
          \cup (IF HasStr(o, "type") /\ TypeTag(ty) = "?" THEN {"unknown_type"} ELSE {})
          \cup (IF ty = "array" /\ ~Has(o, "items") THEN {"array_without_items"} ELSE {})
          \cup (IF Has(o, "default") /\ ~Conforms(o, Get(o, "default"), root) THEN {"default_mismatch"} ELSE {})
          \cup (IF Has(o, "example") /\ ~ConformsM(o, Get(o, "example"), root, mode) THEN {"example_mismatch"} ELSE {})
          \cup (IF HasStr(o, "format") /\ TypeTag(ty) \in {"s", "n"} /\ StrOf(o, "format") \notin KnownFormats(ty)
                THEN {"unknown_format"} ELSE {})
          \cup (IF ty = "string" /\ HasStr(o, "pattern") /\ Analysable(StrOf(o, "pattern"))
                   /\ Count(CharsOf(StrOf(o, "pattern")), "(") # Count(CharsOf(StrOf(o, "pattern")), ")")
                THEN {"bad_pattern"} ELSE {})
     [] kind = "example" ->
          IF Has(o, "value") /\ HasStr(o, "externalValue") THEN {"value_and_external"}
          ELSE IF ~Has(o, "value") /\ ~HasStr(o, "externalValue") THEN {"value_missing"} ELSE {}
     [] kind = "link" ->
          IF HasStr(o, "operationId") /\ HasStr(o, "operationRef") THEN {"operation_both"}
          ELSE IF ~HasStr(o, "operationId") /\ ~HasStr(o, "operationRef") THEN {"operation_missing"} ELSE {}
     [] kind = "securityScheme" ->
          LET ty == StrOf(o, "type") IN
          IF ty \notin {"apiKey", "http", "oauth2", "openIdConnect"} THEN {"ss_type"}
          ELSE (IF ty = "apiKey" /\ StrOf(o, "in") \notin {"query", "header", "cookie"} THEN {"ss_apikey_in"} ELSE {})
               \cup (IF ty = "apiKey" /\ ~HasStr(o, "name") THEN {"ss_apikey_name"} ELSE {})
               \cup (IF ty # "apiKey" /\ HasStr(o, "in") THEN {"ss_in_forbidden"} ELSE {})
               \cup (IF ty # "apiKey" /\ HasStr(o, "name") THEN {"ss_name_forbidden"} ELSE {})
               \cup (IF ty = "http" /\ ~HasStr(o, "scheme") THEN {"ss_http_scheme"} ELSE {})
               \cup (IF HasStr(o, "bearerFormat") /\ ~(ty = "http" /\ StrOf(o, "scheme") = "bearer")
                     THEN {"ss_bearerformat_forbidden"} ELSE {})
               \cup (IF ty = "oauth2" /\ ~(Has(o, "flows") /\ IsO(Get(o, "flows"))) THEN {"ss_flows_missing"} ELSE {})
               \cup (IF ty # "oauth2" /\ Has(o, "flows") THEN {"ss_flows_forbidden"} ELSE {})
               \cup (IF ty = "openIdConnect" /\ ~HasStr(o, "openIdConnectUrl") THEN {"ss_oidc_url"} ELSE {})
     [] kind \in FlowKinds ->
          LET needAuth == kind \in {"flowImplicit", "flowCode"}
              needTok  == kind \in {"flowPassword", "flowClient", "flowCode"} IN
          (IF needAuth /\ ~HasStr(o, "authorizationUrl") THEN {"flow_authurl_missing"} ELSE {})
          \cup (IF ~needAuth /\ HasStr(o, "authorizationUrl") THEN {"flow_authurl_forbidden"} ELSE {})
          \cup (IF needTok /\ ~HasStr(o, "tokenUrl") THEN {"flow_tokenurl_missing"} ELSE {})
          \cup (IF ~needTok /\ HasStr(o, "tokenUrl") THEN {"flow_tokenurl_forbidden"} ELSE {})
          \cup (IF ~(Has(o, "scopes") /\ IsO(Get(o, "scopes"))) THEN {"flow_scopes_missing"} ELSE {})
          \cup (IF \E u \in {"authorizationUrl", "tokenUrl", "refreshUrl"} : BadUrl(StrOf(o, u)) THEN {"url_malformed"} ELSE {})
     [] OTHER -> {}

ExtraFields(kind, o) == IF kind \in FixedKinds THEN {k \in Keys(o) : k \notin Known(kind) /\ ~IsExt(k)} ELSE {}

(* a Reference Object standing where an object of `kind` is expected *)
RefViol(kind, x, at, via, root) ==
   {VF(IF IsExt(k) THEN "ref_ext_sibling" ELSE "ref_sibling", kind, at, via, k) : k \in Keys(x) \ {"$ref"}}
   \cup (IF ~Resolves(root, x, SectionOf(kind)) THEN {V("dangling_ref", kind, at, via)} ELSE {})

(* null where a member of an array or map has to be an object of one of these kinds.  Left open: a null Media    *)
(* Type, Encoding or Path Item (the library reads them as "nothing said": Paths.Validate, MediaType.Validate and  *)
(* Encoding.Validate accept nil on purpose), and null for a single member (the same as the member being absent). *)
NullRefused == {"server", "tag", "serverVariable", "schema", "parameter", "header", "requestBody", "response",
                "securityScheme", "example", "link", "callback"}
RECURSIVE ViolAt(_, _, _, _, _)
ViolAt(kind, o, at, via, root) ==
   LET site(e, x, at2, via2) ==
          IF IsZ(x) THEN (IF e.mode \in {"arr", "map"} /\ e.kind \in NullRefused THEN {V("null_member", e.kind, at2, via2)} ELSE {})
          ELSE IF ~IsO(x) THEN {}
          ELSE IF e.ref /\ IsRef(x) THEN RefViol(e.kind, x, at2, via2, root)
          ELSE ViolAt(e.kind, x, at2, via2, root)
       edge(e) ==
          LET via2 == Append(via, <<kind, e.f>>) IN
          CASE e.mode = "one" -> IF Has(o, e.f) THEN site(e, Get(o, e.f), Append(at, e.f), via2) ELSE {}
            [] e.mode = "arr" ->
                 IF Has(o, e.f) /\ IsA(Get(o, e.f))
                 THEN UNION {site(e, Get(o, e.f).a[i], at \o <<e.f, ToString(i - 1)>>, via2) : i \in DOMAIN Get(o, e.f).a}
                 ELSE {}
            [] e.mode = "map" ->
                 IF Has(o, e.f) /\ IsO(Get(o, e.f))
                 THEN UNION {site(e, Get(o, e.f).f[i].v, at \o <<e.f, Get(o, e.f).f[i].k>>, via2)
                               : i \in DOMAIN Get(o, e.f).f}
                 ELSE {}
            [] e.mode = "self" ->
                 UNION {IF IsExt(o.f[i].k) THEN {} ELSE site(e, o.f[i].v, Append(at, o.f[i].k), via2) : i \in DOMAIN o.f}
   IN {V(r, kind, at, via) : r \in LocalRules(kind, o, root, ModeOf(via))}
      \cup {VF("extra_field", kind, at, via, k) : k \in ExtraFields(kind, o)}
      \cup UNION {edge(e) : e \in Edges(kind)}

Viol(doc) == ViolAt("root", doc, <<>>, <<>>, doc)

(* every object of a document with its kind, pointer and containment edges; isref: a Reference Object stands there *)
RECURSIVE SitesAt(_, _, _, _)
SitesAt(kind, o, at, via) ==
   LET site(e, x, at2, via2) ==
          IF ~IsO(x) THEN {}
          ELSE IF e.ref /\ IsRef(x) THEN {[kind |-> e.kind, at |-> at2, via |-> via2, isref |-> TRUE]}
          ELSE SitesAt(e.kind, x, at2, via2)
       edge(e) ==
          LET via2 == Append(via, <<kind, e.f>>) IN
          CASE e.mode = "one" -> IF Has(o, e.f) THEN site(e, Get(o, e.f), Append(at, e.f), via2) ELSE {}
            [] e.mode = "arr" ->
                 IF Has(o, e.f) /\ IsA(Get(o, e.f))
                 THEN UNION {site(e, Get(o, e.f).a[i], at \o <<e.f, ToString(i - 1)>>, via2) : i \in DOMAIN Get(o, e.f).a}
                 ELSE {}
            [] e.mode = "map" ->
                 IF Has(o, e.f) /\ IsO(Get(o, e.f))
                 THEN UNION {site(e, Get(o, e.f).f[i].v, at \o <<e.f, Get(o, e.f).f[i].k>>, via2)
                               : i \in DOMAIN Get(o, e.f).f}
                 ELSE {}
            [] e.mode = "self" ->
                 UNION {IF IsExt(o.f[i].k) THEN {} ELSE site(e, o.f[i].v, Append(at, o.f[i].k), via2) : i \in DOMAIN o.f}
   IN {[kind |-> kind, at |-> at, via |-> via, isref |-> FALSE]} \cup UNION {edge(e) : e \in Edges(kind)}
Sites(doc) == SitesAt("root", doc, <<>>, <<>>)

(*------------------------------- options ----------------------------------*)
(* DisEx    DisableExamplesValidation        DisDef  DisableSchemaDefaultsValidation            *)
(* DisPat   DisableSchemaPatternValidation   EnFmt   EnableSchemaFormatValidation               *)
(* Prohibit ProhibitExtensionsWithRef        AllowDesc / AllowZzz  AllowExtraSiblingFields(f)   *)
OptOrder == <<"DisEx", "DisDef", "DisPat", "EnFmt", "Prohibit", "AllowDesc", "AllowZzz">>
Options  == SeqRange(OptOrder)
AllowField(opt) == CASE opt = "AllowDesc" -> "description" [] opt = "AllowZzz" -> "zzz" [] OTHER -> ""
AllowedBy(field, opts) == field # "" /\ \E opt \in opts : AllowField(opt) = field

(* Every switch has an option that moves it away from its default ("flip") and one that moves it back   *)
(* ("reset"):  DisEx/EnEx  Disable/EnableExamplesValidation,  DisDef/EnDef  ...SchemaDefaultsValidation, *)
(* DisPat/EnPat ...SchemaPatternValidation,  EnFmt/DisFmt  Enable/DisableSchemaFormatValidation,        *)
(* Prohibit/AllowExt  Prohibit/AllowExtensionsWithRef.  Options are applied in the order given; the     *)
(* contract: the LAST setting of each switch wins and no option touches another switch.  Eff(seq) is    *)
(* the state a sequence leaves behind, named by the flip options in force (+ the allowed sibling fields).*)
(* RxAny/RxStd  SetRegexCompiler(a compiler that accepts every expression) / SetRegexCompiler(nil): the   *)
(* pattern rule is "the pattern compiles with the compiler in force".                                    *)
(* "@ctx" as the first element is not an option: the options that follow are handed over in the context *)
(* (WithValidationOptions) instead of as arguments of Validate; the contract is the same.               *)
Switches == {<<"DisEx", "EnEx">>, <<"DisDef", "EnDef">>, <<"DisPat", "EnPat">>, <<"EnFmt", "DisFmt">>,
             <<"Prohibit", "AllowExt">>, <<"RxAny", "RxStd">>}
LastIdx(seq, o) == IF \E i \in DOMAIN seq : seq[i] = o
                   THEN CHOOSE i \in DOMAIN seq : seq[i] = o /\ \A j \in DOMAIN seq : seq[j] = o => j <= i
                   ELSE 0
Eff(seq) == {sw[1] : sw \in {x \in Switches : LastIdx(seq, x[1]) > LastIdx(seq, x[2])}}
            \cup {o \in SeqRange(seq) : AllowField(o) # ""}

(* option sequences 1..2^7: the subsets of OptOrder in that order (bit j-1 of i-1 selects OptOrder[j]) *)
Pow2(n) == IF n = 0 THEN 1 ELSE IF n = 1 THEN 2 ELSE IF n = 2 THEN 4 ELSE IF n = 3 THEN 8 ELSE IF n = 4 THEN 16
           ELSE IF n = 5 THEN 32 ELSE IF n = 6 THEN 64 ELSE 128
NSubsets == Pow2(Len(OptOrder))
SubsetSeq(i) == SelectSeq(OptOrder, LAMBDA o : \E j \in DOMAIN OptOrder :
                                         OptOrder[j] = o /\ ((i - 1) \div Pow2(j - 1)) % 2 = 1)
(* further sequences, with the reset options: each reset alone; flip then reset and reset then flip of  *)
(* the same switch; flip of one switch followed by the reset of every other; flip, reset, flip           *)
SwitchSeq == <<<<"DisEx", "EnEx">>, <<"DisDef", "EnDef">>, <<"DisPat", "EnPat">>, <<"EnFmt", "DisFmt">>,
               <<"Prohibit", "AllowExt">>, <<"RxAny", "RxStd">>>>
NSw == Len(SwitchSeq)
CtxSeqs == <<<<"@ctx">>>> \o [k \in 1..NSw |-> <<"@ctx", SwitchSeq[k][1]>>]
           \o << <<"@ctx", "AllowDesc">>, <<"@ctx", "DisEx", "EnFmt", "Prohibit">>, <<"@ctx", "DisEx", "EnEx">> >>
           \o << <<"RxAny", "DisPat">> >>
RECURSIVE Flatten(_)
Flatten(ss) == IF ss = <<>> THEN <<>> ELSE Head(ss) \o Flatten(Tail(ss))
ResetSeqs ==
   [k \in 1..NSw |-> <<SwitchSeq[k][2]>>]
   \o [k \in 1..NSw |-> <<SwitchSeq[k][1], SwitchSeq[k][2]>>]
   \o [k \in 1..NSw |-> <<SwitchSeq[k][2], SwitchSeq[k][1]>>]
   \o [k \in 1..NSw |-> <<SwitchSeq[k][1], SwitchSeq[k][2], SwitchSeq[k][1]>>]
   \o Flatten([k \in 1..NSw |-> SelectSeq([m \in 1..NSw |-> <<SwitchSeq[k][1], SwitchSeq[m][2]>>],
                                         LAMBDA q : q[2] # SwitchSeq[k][2])])
   \o <<<<"RxAny">>>>
   \o CtxSeqs
NOptSets == NSubsets + Len(ResetSeqs)
(* no option at all reaches Validate (the empty sequence, or an empty hand-over through the context) *)
NoOptionGiven(seq) == \A i \in DOMAIN seq : seq[i] = "@ctx"
OptSeq(i) == IF i <= NSubsets THEN SubsetSeq(i) ELSE ResetSeqs[i - NSubsets]
OptSet(i) == Eff(OptSeq(i))

Enabled(v, opts) ==
   CASE v.rule \in {"example_mismatch", "examples_mismatch"} -> "DisEx" \notin opts
     [] v.rule = "default_mismatch" -> "DisDef" \notin opts
     [] v.rule = "bad_pattern"      -> "DisPat" \notin opts /\ "RxAny" \notin opts
     [] v.rule = "unknown_format"   -> "EnFmt" \in opts
     [] v.rule = "ref_sibling"      -> ~AllowedBy(v.field, opts)
     [] v.rule = "ref_ext_sibling"  -> "Prohibit" \in opts
     [] OTHER -> TRUE

Accept(Vs, opts) == \A v \in Vs : ~Enabled(v, opts)

(* Regions the statement leaves open (excluded from the universe, never judged):                     *)
(*  - AllowExtraSiblingFields(f) is documented for non-extension fields next to a $ref only; whether *)
(*    it also licenses f as an ordinary extra field, or an x- field under ProhibitExtensionsWithRef, *)
(*    is left open.                                                                                  *)
(*  - DisableExamplesValidation "disables all example validation": whether the Example Objects in an *)
(*    examples map next to a schema are themselves still checked is left open.                       *)
UnderExamplesMap(v) == v.via # <<>> /\ v.via[Len(v.via)][2] = "examples"
                       /\ v.via[Len(v.via)][1] \in {"parameter", "header", "mediaType"}
InScope(Vs, opts) ==
   \A v \in Vs : /\ ~(v.rule \in {"extra_field", "ref_ext_sibling"} /\ AllowedBy(v.field, opts))
                 /\ ~("DisEx" \in opts /\ UnderExamplesMap(v))
=============================================================================
