------------------------------ MODULE Gen_C10F ------------------------------
(* F for the focus products of RobustShapes: full product site x value x wrap of every focus *)
EXTENDS RobustShapes, Json, CSV
VARIABLES ff, fa, fb, fc
FInit == /\ ri = 0 /\ rj = 0 /\ rk = 0 /\ rm = 0
         /\ ff \in DOMAIN Focuses /\ fa \in 1..Len(Focuses[ff].sites) /\ fb \in 1..Len(Focuses[ff].values) /\ fc \in 1..Len(Focuses[ff].wraps)
FNext == UNCHANGED <<ri, rj, rk, rm, ff, fa, fb, fc>>
FSpec == FInit /\ [][FNext]_<<ri, rj, rk, rm, ff, fa, fb, fc>>
Emit == CSVWrite("%1$s", <<ToJson(FocusCase(ff, fa, fb, fc))>>, "cases_focus.ndjson")
=============================================================================
