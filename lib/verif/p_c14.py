"""C14 pipeline."""
import json
import os
import random

from .common import *
from .core import Ctx, Infra, casehash, log


@pipeline
def c14(ctx: Ctx):
    tier = ctx.tier
    cases = os.path.join(ctx.scratch, "cases.ndjson")
    ctx.assumptions = [
        "TLC and the CommunityModules Json/CSV modules",
        "the harness's scripted handler, recording ResponseWriter (net/http status-code panic emulated) and request realiser (harness/c14.go)",
        "two fixed test documents (4 operations without / 2 operations with a global security requirement; response map {200: json schema, 201: no content}); handler alphabet and body tokens as in spec/Middleware.tla",
        "the ClientModel of spec/Middleware.tla (first final WriteHeader wins, 1xx other than 101 commits nothing, Write/Flush imply 200) is net/http's for the statuses of the universe {103, 200, 201, 204, 500} and the error statuses: judged per run against a real net/http server + client for behaviours of <= 2 calls and all with a 1xx status (clause client_model_is_net_http); 304 and 101 are outside the universe",
        "bodies made of a complete valid JSON document followed by more bytes are outside the universe (Clear)",
    ]
    if ctx.replay:
        v = ctx.replay["violation"]
        write_ndjson(cases, [dict(cfg=v["cfg"], script=v["script"])])
    else:
        # D: the pinned-tree variant of the model must still show the design-level defect (model drift guard)
        ctx.tlc("MC_C14", "MC_C14_pinned.cfg", expect_violation=True, label="D pinned-model counterexample")
        # D: the model of the wrappers before fix 14f1d91 (InfoFix = FALSE: a first WriteHeader(1xx) taken for the response's
        # status) is a refuted design: it must still violate the contract (F-C14-2; model drift guard, like the pinned variant)
        ctx.tlc("MC_C14", "MC_C14_infofinal.cfg", expect_violation=True, label="D pre-14f1d91 model counterexample (F-C14-2)")
        # D + F: exhaustive L2 => L1 (the model of the code as it is, InfoFix = TRUE; no exception) and generation of every behaviour
        ctx.tlc("MC_C14", "MC_C14_%s.cfg" % tier, label="D/F exhaustive L2=>L1 + generate")
        n = ctx.unquote(ctx.spec("cases.ndjson"), cases)
        ctx.exhaustive = True
        ctx.extra["generator_constants"] = ({"MaxCalls": 3, "SideCalls": 1, "ExtMax": 1, "ExtDepth": 3} if tier == "quick"
                                            else {"MaxCalls": 4, "SideCalls": 2, "ExtMax": 2, "ExtDepth": 3})
        log("[gen] %d behaviours" % n)
    ctx.build_driver()
    logp = os.path.join(ctx.scratch, "log.ndjson")
    ctx.drive(cases, logp, shards=8)
    cs = read_ndjson(cases)
    ctx.evaluations = len(cs)
    for c in cs:
        if c["script"] or c["cfg"]["reqClass"] not in ("valid_post", "valid_plain", "valid_upgrade", "opt_anon", "g_open"):
            ctx.nontrivial.add(casehash(c))
    ctx.rule = ("every terminal state of spec/Middleware.tla is one case: all handler call sequences up to MaxCalls over the 12 core calls "
                "(+ up to ExtMax of the 9 extended calls: WriteHeader(1xx), WriteHeader(204), io.Copy, ResponseController.Flush, body read, interface probe, panic; "
                "length <= ExtDepth) x strict x errFunc mode x gate (Validator, 3 ValidationHandler forms) for the main request classes; "
                "up to SideCalls calls for the configurations that vary the gate only (21 request classes over 2 documents x 4 ways of "
                "configuring AuthenticationFunc x request-side options x sequential/concurrent primers); "
                "non-trivial = security-bearing or gate-failing request, or non-empty handler script")
    rng = random.Random(ctx.seed)
    ctx.samples = sample(rng, cs, 5)
    # one round of chunks on 16 cores: a chunk costs a JVM start, a line almost nothing
    ctx.validate("Trace_C14", "Trace_C14.cfg", logp, run_start=lambda o: o.get("ev") == "cfg", chunk_lines=48000)


