"""C14 pipeline."""
import json
import os
import random

from .common import *
from .core import Ctx, Infra, casehash, log


@pipeline
def c14(ctx: Ctx):
    tier = ctx.tier
    cases = os.path.join(ctx.scratch, "cases.ndjson")
    ctx.assumptions = [
        "TLC and the CommunityModules Json/CSV modules",
        "the harness's scripted handler, recording ResponseWriter (net/http status-code panic emulated) and request realiser (harness/c14.go)",
        "one fixed test document (3 operations, response map {200: json schema, 201: no content}); handler alphabet and body tokens as in spec/Middleware.tla",
        "bodies made of a complete valid JSON document followed by more bytes are outside the universe (Clear)",
    ]
    if ctx.replay:
        v = ctx.replay["violation"]
        write_ndjson(cases, [dict(cfg=v["cfg"], script=v["script"])])
    else:
        # D: the pinned-tree variant of the model must still show the design-level defect (model drift guard)
        ctx.tlc("MC_C14", "MC_C14_pinned.cfg", expect_violation=True, label="D pinned-model counterexample")
        # D + F: exhaustive L2 => L1 and generation of every behaviour
        ctx.tlc("MC_C14", "MC_C14_%s.cfg" % tier, label="D/F exhaustive L2=>L1 + generate")
        n = ctx.unquote(ctx.spec("cases.ndjson"), cases)
        ctx.exhaustive = True
        ctx.extra["generator_constants"] = {"MaxCalls": 3 if tier == "quick" else 4}
        log("[gen] %d behaviours" % n)
    ctx.build_driver()
    logp = os.path.join(ctx.scratch, "log.ndjson")
    ctx.drive(cases, logp, shards=8)
    cs = read_ndjson(cases)
    ctx.evaluations = len(cs)
    for c in cs:
        if c["script"] or not c["cfg"]["reqClass"].startswith("valid"):
            ctx.nontrivial.add(casehash(c))
    ctx.rule = ("every terminal state of spec/Middleware.tla (all handler call sequences up to MaxCalls over 12 calls x "
                "strict x 9 request classes x 2 errFunc modes) is one case; non-trivial = gate-failing request or non-empty handler script")
    rng = random.Random(ctx.seed)
    ctx.samples = sample(rng, cs, 5)
    ctx.validate("Trace_C14", "Trace_C14.cfg", logp, run_start=lambda o: o.get("ev") == "cfg")


