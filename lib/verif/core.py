"""Orchestration core for /verif checks: TLC runs, driver build/run, trace validation,
known-findings triage, evidence.  One check = generate (TLC) -> drive (real code) -> validate (TLC)."""
import concurrent.futures as cf
import hashlib
import json
import os
import re
import shutil
import subprocess
import sys
import tempfile
import time

VERIF = os.path.dirname(os.path.dirname(os.path.dirname(os.path.abspath(__file__))))
JAR = "/opt/veriftools/tla/tla2tools.jar:/opt/veriftools/tla/CommunityModules-deps.jar"
NCPU = os.cpu_count() or 4


class Infra(Exception):
    """Infrastructure failure: exit 2, never a violation."""


def log(*a):
    print(*a, file=sys.stderr, flush=True)


class Ctx:
    def __init__(self, prop, tier, seed, replay=None):
        self.prop, self.tier, self.seed, self.replay = prop, tier, seed, replay
        self.repo = os.environ.get("VERIF_REPO", "/repo")
        # runs against a scratch tree (seeded changes) must not overwrite the evidence / replay files of /repo itself
        self.outdir = VERIF if os.path.realpath(self.repo) == "/repo" else os.environ.get("VERIF_OUT", os.path.join(tempfile.gettempdir(), "verif-scratch-out"))
        self.t0 = time.time()
        self.scratch = tempfile.mkdtemp(prefix="verif-%s-" % prop)
        self.specdir = os.path.join(self.scratch, "spec")
        shutil.copytree(os.path.join(VERIF, "spec"), self.specdir)
        self.states = 0
        self.transitions = 0
        self.tlc_runs = []
        self.violations = []      # dicts from trace specs (unclassified or classified)
        self.fidelity = 0
        self.fidelity_samples = []
        self.traces_validated = 0
        self.evaluations = 0
        self.nontrivial = set()
        self.samples = []
        self.exhaustive = False
        self.extra = {}
        self.assumptions = []
        self.rule = ""
        self.driver = None
        self.level = "model_checking"

    # ------------------------------------------------------------------ TLC
    def tlc(self, module, cfg, workers=None, timeout=900, simulate=None, depth=None, expect_violation=False,
            cwd=None, xmx=None, label=None, quiet=False):
        cwd = cwd or self.specdir
        workers = workers or NCPU
        meta = tempfile.mkdtemp(prefix="meta-", dir=self.scratch)
        cmd = ["java", "-XX:+UseParallelGC", "-Xss512m"]
        if xmx:
            cmd.append("-Xmx" + xmx)
        cmd += ["-cp", JAR, "tlc2.TLC", "-workers", str(workers), "-metadir", meta, "-noGenerateSpecTE",
                "-config", cfg]
        if simulate:
            cmd += ["-simulate", simulate, "-seed", str(self.seed)]
        if depth:
            cmd += ["-depth", str(depth)]
        cmd.append(module + ".tla")
        t = time.time()
        try:
            p = subprocess.run(cmd, cwd=cwd, stdout=subprocess.PIPE, stderr=subprocess.STDOUT, text=True,
                               timeout=timeout)
        except subprocess.TimeoutExpired:
            raise Infra("TLC timed out after %ds: %s %s" % (timeout, module, cfg))
        finally:
            shutil.rmtree(meta, ignore_errors=True)
        out = p.stdout
        m = re.findall(r"(\d+) states generated, (\d+) distinct states found, (\d+) states left on queue", out)
        gen, dist = (int(m[-1][0]), int(m[-1][1])) if m else (0, 0)
        if simulate:
            ms = re.findall(r"(\d+) states checked", out)
            if ms:
                gen = dist = int(ms[-1])
        violated = re.findall(r"Error: Invariant (\S+) is violated", out) + \
            re.findall(r"Error: Action property (\S+) is violated", out)
        ok = ("No error has been found" in out) or (simulate and p.returncode == 0)
        rec = dict(module=module, cfg=cfg, generated=gen, distinct=dist, ok=bool(ok), violated=violated,
                   wall_s=round(time.time() - t, 2), label=label or (module + "/" + cfg))
        self.tlc_runs.append(rec)
        self.states += dist
        self.transitions += gen
        if not quiet:
            log("[tlc] %-34s %8d distinct %9d generated %6.1fs %s" % (rec["label"], dist, gen, rec["wall_s"],
                                                                    "ok" if ok else ("violated " + ",".join(violated) if violated else "ERROR")))
        if expect_violation:
            if not violated:
                raise Infra("model drift: %s %s was expected to produce a counterexample (known design-level "
                            "deviation) but did not\n%s" % (module, cfg, out[-1500:]))
            return rec, out
        if not ok:
            raise Infra("TLC failed on the committed spec: %s %s\n%s" % (module, cfg, out[-3000:]))
        return rec, out

    # ------------------------------------------------------------------ Apalache (unbounded inductive checks of small specs)
    def apalache(self, module, args, expect_error=False, timeout=300, label=None):
        """apalache-mc check <args> <module>.tla in the scratch copy of spec/.  Spec-only: an unexpected outcome is a
        specification bug (Infra), a missing tool or a timeout is recorded and skipped -- never a verdict about the code."""
        exe = shutil.which("apalache-mc")
        rec = dict(module=module, args=" ".join(args), label=label or module, tool="apalache")
        if not exe:
            rec["outcome"] = "skipped: apalache-mc not on PATH"
            self.extra.setdefault("apalache_runs", []).append(rec)
            return rec
        out_dir = tempfile.mkdtemp(prefix="apa-", dir=self.scratch)
        t = time.time()
        try:
            p = subprocess.run([exe, "check", "--out-dir=" + out_dir] + list(args) + [module + ".tla"], cwd=self.specdir,
                               stdout=subprocess.PIPE, stderr=subprocess.STDOUT, text=True, timeout=timeout)
        except subprocess.TimeoutExpired:
            rec["outcome"] = "skipped: timeout after %ds" % timeout
            self.extra.setdefault("apalache_runs", []).append(rec)
            return rec
        finally:
            shutil.rmtree(out_dir, ignore_errors=True)
        ok = "The outcome is: NoError" in p.stdout
        err = "The outcome is: Error" in p.stdout
        rec.update(outcome="NoError" if ok else ("Error" if err else "other"), wall_s=round(time.time() - t, 2))
        self.extra.setdefault("apalache_runs", []).append(rec)
        log("[apa] %-60s %s %.1fs" % (rec["label"], rec["outcome"], rec["wall_s"]))
        if expect_error:
            if not err:
                raise Infra("model drift: Apalache was expected to find a counterexample: %s %s\n%s" % (module, rec["args"], p.stdout[-1500:]))
        elif not ok:
            raise Infra("Apalache failed on the committed spec: %s %s\n%s" % (module, rec["args"], p.stdout[-2500:]))
        return rec

    # ------------------------------------------------------------------ files written by CSVWrite
    @staticmethod
    def unquote(path, dst=None):
        """CSVWrite("%1$s", <<ToJson(x)>>) writes each JSON text as a quoted TLA+ string; undo that."""
        dst = dst or path
        outl = []
        if os.path.exists(path):
            with open(path) as f:
                for line in f:
                    line = line.strip()
                    if not line:
                        continue
                    if line.startswith('"'):
                        line = json.loads(line)
                    outl.append(line)
        with open(dst, "w") as f:
            for l in outl:
                f.write(l + "\n")
        return len(outl)

    def spec(self, name):
        return os.path.join(self.specdir, name)

    # ------------------------------------------------------------------ Go driver
    def goenv(self):
        return dict(os.environ, GOFLAGS="-mod=mod", GOPROXY="off", GOSUMDB="off", GOTOOLCHAIN="local")

    def build_driver(self, race=False):
        src = os.path.join(VERIF, "harness")
        hdir = os.path.join(self.scratch, "harness")
        if not os.path.exists(hdir):
            shutil.copytree(src, hdir)
            gm = open(os.path.join(hdir, "go.mod")).read().replace("=> /repo", "=> " + self.repo)
            open(os.path.join(hdir, "go.mod"), "w").write(gm)
        out = os.path.join(self.scratch, "driver-race" if race else "driver")
        cmd = ["go", "build", "-tags", "verif", "-o", out]
        if race:
            cmd.insert(2, "-race")
        cmd.append(".")
        t = time.time()
        p = subprocess.run(cmd, cwd=hdir, env=self.goenv(), stdout=subprocess.PIPE, stderr=subprocess.STDOUT, text=True)
        if p.returncode != 0:
            raise Infra("harness build failed (the tree under %s must compile with -tags verif):\n%s" % (self.repo, p.stdout[-3000:]))
        log("[go ] built driver%s in %.1fs" % (" (-race)" if race else "", time.time() - t))
        if not race:
            self.driver = out
        return out

    def drive(self, cases, out, driver=None, timeout=3600, env=None, shards=1, prop=None):
        """Run the driver on the case file; shards > 1 splits the cases round-robin over parallel driver
        processes (each crash-isolated as usual) and concatenates their logs."""
        driver = driver or self.driver or self.build_driver()
        e = self.goenv()
        e.update(env or {})
        t = time.time()
        if shards <= 1:
            parts = [(cases, out)]
        else:
            lines = [l for l in open(cases) if l.strip()]
            shards = max(1, min(shards, len(lines) // 50 + 1))
            parts = []
            for k in range(shards):
                cp, op = "%s.shard%d" % (cases, k), "%s.shard%d" % (out, k)
                with open(cp, "w") as f:
                    f.writelines(lines[k::shards])
                parts.append((cp, op))

        def one(part):
            cp, op = part
            cmd = [driver, "-prop", prop or self.prop, "-cases", cp, "-out", op, "-seed", str(self.seed), "-tier", self.tier]
            try:
                p = subprocess.run(cmd, cwd=self.scratch, env=e, stdout=subprocess.PIPE, stderr=subprocess.PIPE,
                                   text=True, timeout=timeout)
            except subprocess.TimeoutExpired:
                raise Infra("driver timed out")
            if p.returncode != 0:
                raise Infra("driver failed (exit %d): %s" % (p.returncode, p.stderr[-3000:]))
            return p.stderr.strip().splitlines()[-1] if p.stderr.strip() else ""

        with cf.ThreadPoolExecutor(max_workers=len(parts)) as ex:
            tails = list(ex.map(one, parts))
        if parts[0][1] != out:
            with open(out, "w") as f:
                for _, op in parts:
                    if os.path.exists(op):
                        f.write(open(op).read())
        n = sum(1 for _ in open(out)) if os.path.exists(out) else 0
        log("[drv] %s: %d log lines in %.1fs (%d driver process%s)  %s" % (prop or self.prop, n, time.time() - t, len(parts),
                                                                          "es" if len(parts) > 1 else "", tails[0]))
        return n

    # ------------------------------------------------------------------ trace validation
    def validate(self, module, cfg, logpath, run_start=None, chunk_lines=12000, timeout=1200, xmx="3g",
                 workers_per_chunk=1):
        """Split the log at run boundaries into chunks, validate each with its own TLC process.
        run_start(obj) -> True when a line starts a new run (None: every line is its own run)."""
        chunks, cur, runs_in = [], [], []
        nruns = 0
        with open(logpath) as f:
            for line in f:
                if not line.strip():
                    continue
                starts = True if run_start is None else run_start(json.loads(line))
                if starts:
                    nruns += 1
                    if len(cur) >= chunk_lines:
                        chunks.append(cur)
                        cur = []
                cur.append(line)
        if cur:
            chunks.append(cur)
        if not chunks:
            raise Infra("empty log: nothing to validate")
        dirs = []
        for i, ch in enumerate(chunks):
            d = os.path.join(self.scratch, "val-%s-%d" % (module, i))
            shutil.copytree(self.specdir, d)
            with open(os.path.join(d, "trace.ndjson"), "w") as f:
                f.writelines(ch)
            dirs.append(d)
        t = time.time()

        def one(d):
            return self.tlc(module, cfg, workers=workers_per_chunk, timeout=timeout, cwd=d, xmx=xmx, quiet=True,
                            label="%s[%s]" % (module, os.path.basename(d)))

        par = max(1, min(len(dirs), NCPU // max(1, workers_per_chunk)))
        with cf.ThreadPoolExecutor(max_workers=par) as ex:
            list(ex.map(one, dirs))
        viol, fid = [], []
        for d in dirs:
            vp, fp = os.path.join(d, "violations.ndjson"), os.path.join(d, "fidelity.ndjson")
            self.unquote(vp)
            self.unquote(fp)
            viol += [json.loads(l) for l in open(vp)]
            fid += [json.loads(l) for l in open(fp)]
            shutil.rmtree(d, ignore_errors=True)
        nlines = sum(len(c) for c in chunks)
        log("[val] %s: %d lines / %d runs in %d chunks validated in %.1fs: %d rejected, %d fidelity warnings"
            % (module, nlines, nruns, len(chunks), time.time() - t, len(viol), len(fid)))
        self.violations += viol
        self.fidelity += len(fid)
        self.fidelity_samples += fid[:3]
        self.traces_validated += nruns
        return viol, fid

    # ------------------------------------------------------------------ report
    def finish(self):
        kf = json.load(open(os.path.join(VERIF, "known_findings.json")))
        open_classes = {}
        for f in kf.get("findings", []):
            if f.get("property") == self.prop and f.get("status") == "open":
                open_classes[f["class"]] = f
        known, new = {}, []
        if os.environ.get("VERIF_DUMP"):
            with open(os.environ["VERIF_DUMP"], "w") as f:
                for v in self.violations:
                    f.write(json.dumps(v) + "\n")
        for v in self.violations:
            c = v.get("class", "none")
            if c in open_classes:
                known.setdefault(c, []).append(v)
            else:
                new.append(v)
        for c, vs in sorted(known.items()):
            f = open_classes[c]
            print("KNOWN-FINDING: property=%s id=%s class=%s (%d cases) %s" % (self.prop, f["id"], c, len(vs), f["what"]))
        # every open finding must have been re-observed through its witness (guards against silent masking)
        missing = [c for c in open_classes if c not in known and not open_classes[c].get("witness_optional")]
        paths = []
        seen = set()
        for v in new:
            key = hashlib.sha1(json.dumps(v, sort_keys=True).encode()).hexdigest()[:12]
            if key in seen:
                continue
            seen.add(key)
            if len(paths) < 5:
                os.makedirs(os.path.join(self.outdir, "replay"), exist_ok=True)
                path = os.path.join(self.outdir, "replay", "%s-%s.json" % (self.prop, key))
                json.dump(dict(property=self.prop, tier=self.tier, seed=self.seed, violation=v), open(path, "w"), indent=1)
                paths.append(path)
        self.write_evidence(len(new), known, missing)
        for pth in paths:
            print("VIOLATION property=%s replay=%s" % (self.prop, pth))
        if len(new) > len(paths):
            print("(%d further violations not written out)" % (len(new) - len(paths)))
        if missing and not new:
            log("note: open known findings not re-observed in this run: %s" % ", ".join(missing))
        return 1 if new else 0

    def write_evidence(self, nviol, known, missing):
        cov = dict(
            states=self.states, transitions=self.transitions,
            traces_validated_against_impl=self.traces_validated,
            samples=self.samples[:8] or ["(no sample recorded)"],
            evaluations=self.evaluations, distinct_nontrivial=len(self.nontrivial), rule=self.rule,
            exhaustive=self.exhaustive,
            tlc_runs=[r for r in self.tlc_runs if not r["label"].startswith("Trace_") or True][:40],
            fidelity_warnings=self.fidelity, fidelity_samples=self.fidelity_samples,
            known_findings_observed={c: len(v) for c, v in known.items()},
            known_findings_not_reobserved=missing,
        )
        cov.update(self.extra)
        ev = dict(property_id=self.prop, tier=self.tier, seed=self.seed, level=self.level, coverage=cov,
                  assumptions=self.assumptions, wall_s=round(time.time() - self.t0, 2), violations=nviol)
        os.makedirs(os.path.join(self.outdir, "evidence"), exist_ok=True)
        json.dump(ev, open(os.path.join(self.outdir, "evidence", self.prop + ".json"), "w"), indent=1)

    def cleanup(self):
        shutil.rmtree(self.scratch, ignore_errors=True)


def casehash(obj):
    return hashlib.sha1(json.dumps(obj, sort_keys=True).encode()).hexdigest()[:16]
