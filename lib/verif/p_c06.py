"""C06 pipeline: responses are checked against the entry chosen for their status code."""
import json
import os
import random

from .common import *
from .core import Ctx, Infra, casehash, log
from .c06h import registry_clause, is_registry_replay


@pipeline
def c06(ctx: Ctx):
    ctx.assumptions = [
        "TLC; spec/BodyCheck.tla + spec/MediaSelect.tla as the contract (SelectLaws, WrapLaws, ExclusionLaws checked by TLC); SchemaSem 'asreq' reading",
        "harness realiser harness/c06.go: bodies encoded with encoding/json, url.Values and mime/multipart; each declared JSON-family entry accepts only bodies carrying its own marker property so the selected entry is observable through the verdict",
        "left open (excluded): an entry WITH a schema selected for a body no decoder is registered for (absent Content-Type, image/png under */*)",
        "left open (excluded): a text/plain body of digits against a schema of type integer (whether the text 42 is the integer 42); undeclared fields of form bodies",
    ]
    if is_registry_replay(ctx):
        return registry_clause(ctx)
    cases = os.path.join(ctx.scratch, "cases.ndjson")
    if ctx.replay:
        write_ndjson(cases, [ctx.replay["violation"]["c"]])
    else:
        ctx.tlc("Gen_C06", "Gen_C06.cfg", label="D SelectLaws/WrapLaws + F generate cases")
        n = ctx.unquote(ctx.spec("cases.ndjson"), cases)
        log("[gen] %d cases" % n)
        ctx.exhaustive = True
    ctx.build_driver()
    logp = os.path.join(ctx.scratch, "log.ndjson")
    ctx.drive(cases, logp)
    rng = random.Random(ctx.seed)
    for l in open(logp):
        o = json.loads(l)
        ctx.evaluations += 1
        ctx.nontrivial.add(casehash(o["c"]))
        if rng.random() < 6.0/400:
            ctx.samples.append(dict(c=o["c"], verdict=o.get("verdict")))
    ctx.rule = ("complete product of spec/Gen_C06.tla: (declared sets of <=3 of {json, json;charset=utf-8, application/*, */*} x 5 Content-Type "
                "headers x required x which entry's marker the body carries, + empty body x required) + (json/form/multipart x 2 schemas x 8 "
                "bodies x ExcludeReadOnlyValidations x per-property encoding) + text/plain bodies x 8 text schemas (6 without a type keyword) "
                "+ multipart parts decoded as plain text (no part Content-Type / text/plain) x typed and untyped properties "
                "+ (object schemas S1/S2/S7 (read-only and write-only properties) x 10 wraps (anyOf, oneOf, allOf, items, property, nested) "
                "x 7 bodies x ExcludeReadOnlyValidations; form / multipart under typed allOf / anyOf / oneOf) "
                "+ round 6b: selection over JSON and text entries incl. entries without a schema x 9 headers; empty bodies in 4 forms x required x 4 headers; "
                "YAML and octet-stream bodies; charset parameters on key / header per decoder family; structure characters in urlencoded strings (+ and %XX spellings); "
                "pipe / space delimited arrays; multipart parts as application/json (typed, nested object) and as files, 3 boundary spellings; "
                "14 kinds of body text that encode nothing (must be rejected); pretty / escaped JSON and flow YAML spellings; the decoder alias media types; "
                "the opt-in zip decoder; text/csv; a deepObject object property of a urlencoded body; booleans and numbers (schema S9) under every decoder; "
                "Encoding Object style x explode (each possibly absent) x arrays of every primitive type; every kind of token after a complete JSON value; "
                "every case distinct and judged")
    ctx.validate("Trace_C06", "Trace_C06.cfg", logp, chunk_lines=480)
    if not ctx.replay:
        registry_clause(ctx)
