"""C10 pipeline: no request or response can make validation of a valid document panic."""
import json
import os
import random

from .common import *
from .core import Ctx, Infra, casehash, log


@pipeline
def c10(ctx: Ctx):
    ctx.assumptions = [
        "TLC; spec/RobustTraffic.tla spans 37 named legal-but-unusual document features x 55 request and 16 response mutations x MultiError; spec/RobustShapes.tla spans the structured product leaf schema (53) x wrap (18) x site (58) x value (59) x document modifier (40) x option set (17) x named feature x traffic mutations in five parts (183), emitted as strength-2 orthogonal arrays (every pair of atoms of every two dimensions), one array per mutation mode; the oracle is the outcome alphabet",
        "'any bytes' is sampled, structured by the spec (pairwise over the structured dimensions), not exhausted; documents the library's own Validate rejects are outside the premise (counted, not judged)",
        "harness/c10.go + c10s.go build and load each document, construct both routers, and run FindRoute (both), ValidateRequest (route of either router), ConvertErrors, the default error encoder, ValidateResponse, the reading of every returned error, the strict and lenient middleware and a second pass on the same document, each call's panic recovered separately; 20 s watchdog; 256 MB maximal stack; process death recorded by the runner; errors are read and the repeated passes made on traffic nested at most 500 deep",
    ]
    cases = os.path.join(ctx.scratch, "cases.ndjson")
    if ctx.replay:
        write_ndjson(cases, [ctx.replay["violation"]["c"]])
    else:
        # the seed is a constant of the generators (it selects the slice / offsets the columns); Python copies the cfg with
        # Seed substituted.  VERIF_C10_FULL=1 (registered nowhere; hours) turns the thorough slices into the full products.
        full = ctx.tier == "thorough" and os.environ.get("VERIF_C10_FULL") == "1"
        seedsub = lambda t: t.replace("Seed = 1", "Seed = %d" % (ctx.seed % 50000))
        text = seedsub(open(ctx.spec("Gen_C10_%s.cfg" % ctx.tier)).read())
        if full:
            text = text.replace("Slice = 7", "Slice = 1").replace("HeavySlice = 7", "HeavySlice = 1")
        open(ctx.spec("Gen_C10_run.cfg"), "w").write(text)
        ctx.tlc("Gen_C10", "Gen_C10_run.cfg", label="F generate features x mutations (BFS%s)" % ("" if ctx.tier == "quick" or full else ", seeded slice of the pair level"))
        n = ctx.unquote(ctx.spec("cases.ndjson"), cases)
        # the structured universe (spec/RobustShapes.tla): orthogonal arrays; the seed is a constant of the generator
        # (it offsets the columns), Python copies the cfg with Seed substituted
        text = seedsub(open(ctx.spec("Gen_C10S_%s.cfg" % ctx.tier)).read())
        if full:
            text = text.replace("K = 2", "K = 12")
        open(ctx.spec("Gen_C10S_run.cfg"), "w").write(text)
        ctx.tlc("Gen_C10S", "Gen_C10S_run.cfg", label="F generate structured cases (orthogonal arrays)")
        shape = os.path.join(ctx.scratch, "cases_shape.ndjson")
        ns = ctx.unquote(ctx.spec("cases_shape.ndjson"), shape)
        # the focus products (full site x value x wrap products where one decoder leaves the JSON data model)
        text = open(ctx.spec("Gen_C10F.cfg")).read().replace("Seed = 1", "Seed = %d" % (ctx.seed % 50000))
        open(ctx.spec("Gen_C10F_run.cfg"), "w").write(text)
        ctx.tlc("Gen_C10F", "Gen_C10F_run.cfg", label="F generate focus products (site x value x wrap)")
        focus = os.path.join(ctx.scratch, "cases_focus.ndjson")
        nf = ctx.unquote(ctx.spec("cases_focus.ndjson"), focus)
        with open(cases, "a") as f:
            f.write(open(shape).read())
            f.write(open(focus).read())
        ns += nf
        log("[gen] %d named feature x mutation cases + %d structured cases" % (n, ns))
        ctx.extra["generator"] = dict(named_cases=n, structured_cases=ns)
        ctx.exhaustive = False      # the tier drives seeded slices (VERIF_SEED) next to its exhaustive core: not a complete enumeration of one finite space
    ctx.build_driver()
    logp = os.path.join(ctx.scratch, "log.ndjson")
    ctx.drive(cases, logp, shards=12, timeout=7200)
    rng = random.Random(ctx.seed)
    rejected_docs = 0
    for l in open(logp):
        o = json.loads(l)
        ctx.evaluations += 1
        if o["obs"].get("doc") != "ok":
            rejected_docs += 1
            continue
        if o["c"].get("kind") == "shape" or o["c"]["muts"] or o["c"]["feats"]:
            ctx.nontrivial.add(casehash(o["c"]))
        if rng.random() < 6.0 / 4000:
            ctx.samples.append(dict(c=o["c"], obs=o["obs"]))
    ctx.extra["cases_with_document_rejected_by_library_not_judged"] = rejected_docs
    ctx.rule = ("BFS of spec/RobustTraffic.tla: feature sets of size <= MaxFeat x mutation sequences of length <= MaxMut (pairs of features with at most one "
                "mutation) x request/response side x MultiError - quick: one feature x one mutation, all; thorough: those plus a seeded 1/7 slice of the pair level "
                "(1/49 for the cases that die of F-C10-9 or validate a 3000-deep body in multi-error mode; spec/Gen_C10.tla); plus the rows of the orthogonal arrays of spec/RobustShapes.tla (P = 59, one array per mutation mode, "
                "columns offset by the seed); non-trivial = at least one feature or mutation or a structured case, document accepted by Validate")
    ctx.validate("Trace_C10", "Trace_C10.cfg", logp, chunk_lines=2000 if ctx.tier == "quick" else 4000)
