"""C05 pipeline: parameters are decoded as the inverse of OpenAPI style serialisation."""
import json
import os
import random

from .common import *
from .core import Ctx, Infra, casehash, log


@pipeline
def c05(ctx: Ctx):
    ctx.assumptions = [
        "TLC; spec/ParamCodec.tla as the transcription of the OAS 3.0.3 style table (Wire), checked injective per cell and shape by TLC (ASSUME Injective)",
        "harness realiser: wire fragment -> real http.Request (query keys/values percent-encoded, path segment routed by gorillamux, raw Cookie header)",
        "verif hook VerifDecodeStyledParameter (openapi3filter/verif_export.go) to observe the decoded value",
        "empty-string values, delimiters inside members where the wire has no escape layer (header, cookie, space/pipeDelimited), and 'not' in parameter schemas are outside the universe (OAS itself is unclear / library documents no support); arrays below a deepObject are written with bracketed indexes (p[a][0]=..), the convention of the library and of qs-style encoders",
    ]
    cases = os.path.join(ctx.scratch, "cases.ndjson")
    if ctx.replay:
        write_ndjson(cases, [ctx.replay["violation"]["c"]])
    else:
        ctx.tlc("MC_C05", "MC_C05.cfg", label="D decoder designs (ParamDecode) vs Wire")
        ctx.tlc("Gen_C05", "Gen_C05.cfg", label="D Wire injective + F generate cases")
        n = ctx.unquote(ctx.spec("cases.ndjson"), cases)
        log("[gen] %d cases" % n)
        ctx.exhaustive = True
    ctx.build_driver()
    logp = os.path.join(ctx.scratch, "log.ndjson")
    ctx.drive(cases, logp)
    rng = random.Random(ctx.seed)
    for l in open(logp):
        o = json.loads(l)
        ctx.evaluations += 1
        c = o["c"]
        if c["presence"] != "present" or c["shape"] not in ("str",):
            ctx.nontrivial.add(casehash(c))
        if rng.random() < 6.0 / 2500:
            ctx.samples.append(dict(c=c, target=o.get("target"), dec=o.get("dec"), verdict=o.get("verdict")))
    ctx.rule = ("complete product of spec/Gen_C05.tla: 17 legal (in, style, explode) cells x 16 schema shapes (each with an unconstrained and a "
                "constrained schema) x values x required x presence (present / absent / garbage kinds) x decoy parameter whose name extends "
                "the parameter's; non-trivial = every case except present plain strings")
    ctx.validate("Trace_C05", "Trace_C05.cfg", logp, chunk_lines=400)
