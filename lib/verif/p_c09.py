"""C09 pipeline: routers return the declared operation whose template matches the URL."""
import json
import os
import random
import re

from .common import *
from .core import VERIF, Ctx, Infra, casehash, log


def seeded(ctx, cfg):
    """The bounds of every run are the constants of the committed spec/MC_C09_*.cfg; only Seed (which slice of the
    non-core universe is emitted) follows VERIF_SEED."""
    src = open(ctx.spec(cfg)).read()
    out = cfg[:-4] + "_seeded.cfg"
    with open(ctx.spec(out), "w") as f:
        f.write(re.sub(r"Seed = \d+", "Seed = %d" % ctx.seed, src))
    consts = dict(re.findall(r"^\s*(?:CONSTANTS\s+)?(\w+) = (.+)$", src, re.M))
    return out, consts


def collect(ctx, dst, seen):
    """Move the cases TLC wrote (CSVWrite) to dst, dropping exact duplicates (two generator runs may overlap)."""
    src = ctx.spec("cases.ndjson")
    n = 0
    if os.path.exists(src):
        tmp = src + ".plain"
        ctx.unquote(src, tmp)
        with open(dst, "a") as out:
            for l in open(tmp):
                h = casehash(l)
                if h in seen:
                    continue
                seen.add(h)
                out.write(l)
                n += 1
        os.remove(src)
        os.remove(tmp)
    return n


def witnesses():
    kf = json.load(open(os.path.join(VERIF, "known_findings.json")))
    res = []
    for f in kf.get("findings", []):
        if f.get("property") == "C09" and f.get("status") == "open" and "witness" in f:
            w = f["witness"]
            res.append(dict(doc=w["doc"], reqs=[w["req"]]))
    return res


@pipeline
def c09(ctx: Ctx):
    tier = ctx.tier
    ctx.assumptions = [
        "TLC and the CommunityModules (Json, CSV, SequencesExt, FiniteSetsExt)",
        "spec/Router.tla Failed() as the transcription of the C09 statement; path segments, literals, host labels and values are "
        "atomic strings in wire form (no regex/wildcard path syntax; the root template '/' is one literal empty segment; the few percent-encoded strings are decoded "
        "by table: a returned value may be the wire or the decoded text, an encoded slash is data, not a separator; query and "
        "fragment are not part of the path); variables inside a segment "
        "(/v{n}, /files/report.{ext}, /{p}-{q}) are matched through the self-checked character dictionary Router!Cs and are "
        "demanded of gorillamux only -- for the legacy router, which documents non-support, documents with such a segment are "
        "an open region (no panic / non-route error is still demanded)",
        "harness/c09.go realiser (abstract document -> OpenAPI JSON -> real loader + Validate -> both NewRouter; abstract request -> "
        "http.NewRequest) guarded by the round trip judged by TLC (path keys, methods, operationIds, path-level and document-level "
        "server URLs and variable defaults as loaded; URL string and method of the built request); route errors are told apart "
        "by type *routers.RouteError and by the Reason of the two exported sentinel errors",
        "open regions excluded from the demands (stated in spec/Router.tla): relative server URL vs absolute request URL; a port other "
        "than a port variable's default; an explicit port against a port-less server URL; a literal template without the method "
        "next to a templated one with it; a scheme outside the enum of a scheme variable.  Outside the universe: enums of host / "
        "base-path variables, whole-URL variables",
        "a request in server form (path-only Request.URL, Request.Host, Request.TLS) is the request URL scheme://host/path in another "
        "representation: the contract does not look at the form; NewRouter failing on a validated document is a violation "
        "(Router!BuildFailed)",
    ]
    cases = os.path.join(ctx.scratch, "cases.ndjson")
    open(cases, "w").close()
    seen = set()
    if ctx.replay:
        v = ctx.replay["violation"]
        # a held-route violation carries the whole request sequence of its case (the history matters)
        write_ndjson(cases, [dict(doc=v["doc"], reqs=v["reqs"] if "reqs" in v else ([v["req"]] if "req" in v else []))])
    else:
        # D (drift guard): the models of the pinned code must still deviate from the contract
        ctx.tlc("MC_C09", "MC_C09_pinned.cfg", expect_violation=True, label="D pinned models deviate (expected)")
        # thorough = quick's universe with finer slices and wider bounds; for the same VERIF_SEED it is a superset of quick
        # (same cores, Slice a divisor of quick's, same hash).  VERIF_C09_FULL=1 (registered nowhere) runs the full products:
        # every document of the 2x2 universe under all 11 server shapes emitted, design check on every document of every run.
        full = "_full" if os.environ.get("VERIF_C09_FULL") else ""
        runs = [("MC_C09_quick.cfg", "exhaustive core", None),
                ("MC_C09_quick_srv.cfg", "server lists / server variables (1-template core + slice)", None)] if tier == "quick" else [
            ("MC_C09_thorough%s.cfg" % full, "2 templates x 2 segments, all universes x 11 server shapes (design check on all)", None),
            ("MC_C09_thorough_srv%s.cfg" % full, "server lists / server variables", None),
            ("MC_C09_thorough_t3%s.cfg" % full, "3 templates (sliced)", None),
            ("MC_C09_thorough_l3%s.cfg" % full, "3 segments (sliced)", None),
            # -simulate checks (and so emits) every successor it generates, not only the one it follows: 2 walks per
            # worker already yield several hundred distinct documents
            ("MC_C09_sim.cfg", "simulation, 3 templates x 3 segments", "num=2"),
        ]
        ctx.extra["generator_constants"] = {}
        for cfg, what, sim in runs:
            run_cfg, consts = seeded(ctx, cfg)
            if sim:
                ctx.tlc("MC_C09", run_cfg, simulate=sim, depth=5, timeout=900, label="D/F " + what)
            else:
                ctx.tlc("MC_C09", run_cfg, timeout=1500, label="D/F " + what + ": L2=>L1 + generate")
            n = collect(ctx, cases, seen)
            log("[gen] %s: %d cases" % (what, n))
            ctx.extra["generator_constants"][cfg] = consts
        ctx.exhaustive = False      # the tier drives seeded slices (VERIF_SEED) next to its exhaustive core: not a complete enumeration of one finite space
        ctx.extra["exhaustive_scope"] = (
            "every BFS run completed.  quick: all documents of <= 2 templates x <= 2 segments design-checked by TLC; run against the code: the "
            "core (plain families under no / a relative server, mixed / enc under none, root under none and relative) + a seeded 1/8 "
            "slice of the rest, and of the 25 server-list / server-variable shapes every 1-template document + a seeded 1/48 slice.  "
            "thorough adds, for the same seed (superset: same cores and hash, slice moduli that divide quick's): the mixed / enc / root "
            "universes under all 11 server shapes and with POST-only templates (design-checked on every document), a 1/4 slice instead "
            "of 1/8, a 1/12 slice instead of 1/48 of the server-list / server-variable documents (+ POST-only templates there), a "
            "1/16 slice of 3-template families, a 1/25 slice of 3-segment templates, and a -simulate sample of 3 templates x 3 "
            "segments; beyond the 2x2 run the design check covers the emitted documents only.  VERIF_C09_FULL=1 (not registered) "
            "emits the whole 2x2 product and design-checks every document of every run")
        with open(cases, "a") as f:
            for w in witnesses():
                f.write(json.dumps(w) + "\n")
    ctx.build_driver()
    logp = os.path.join(ctx.scratch, "log.ndjson")
    ctx.drive(cases, logp, shards=4)
    rng = random.Random(ctx.seed)
    nlines = 0
    docs = set()
    for l in open(logp):
        o = json.loads(l)
        nlines += 1
        reqs = o.get("reqs", [])
        ctx.evaluations += 2 * len(reqs)
        if o.get("load") != "ok":
            continue
        dh = casehash(o["doc"])
        docs.add(dh)
        for i, r in enumerate(reqs):
            og, ol = o["g"][i], o["l"][i]
            # non-trivial: the URL got as far as a template for at least one router (a route, "method not allowed", a panic)
            if any(x["k"] == "route" or (x["k"] == "rerr" and x.get("kind") == "methodNotAllowed") or x["k"] == "panic"
                   for x in (og, ol)):
                ctx.nontrivial.add(casehash([dh, r]))
            if rng.random() < 8.0 / 100000:
                ctx.samples.append(dict(doc=o["doc"], req=r, gorillamux=og, legacy=ol))
    if not ctx.samples and nlines:
        o = json.loads(open(logp).readline())
        if o.get("load") == "ok" and o.get("reqs"):
            ctx.samples.append(dict(doc=o["doc"], req=o["reqs"][0], gorillamux=o["g"][0], legacy=o["l"][0]))
    ctx.extra["documents"] = len(docs)
    ctx.rule = ("documents = template families over segments {a, b, {var}} -- plus a 'mixed' universe of 11 templates with variables "
                "inside a segment and their literal / plain-variable competitors (/v{n}, /v1, /{x}, /files/report.{ext}, "
                "/files/report.pdf, /files/{x}, /{p}-{q}, /a-b, /v{n}/a, /v1/{x}, /a/v{n}) -- and a 'root' universe with the template '/' next to /a, /{x}, /a/{x} -- with a method set per template (GET, POST or both), crossed "
                "with 11 server shapes -- and in a second generator run (MC_C09_*_srv.cfg; method sets GET / GET+PUT,PATCH,DELETE,HEAD,OPTIONS,TRACE) "
                "12 more: lists whose entries differ in the scheme / the literal port / the trailing slash only (document and path "
                "level), a fixed scheme next to a {scheme} enum variable, base-path variables, server variables named like a path "
                "variable in base path / host / port -- (none; relative; relative with trailing slash; '/'; absolute; absolute with host and port "
                "variables; two absolute servers; path-level servers on the first / the last template; two servers whose base "
                "paths are /v1 and /v10, relative and absolute), enumerated by TLC "
                "(spec/Gen_C09.tla, bounds in spec/MC_C09_*.cfg: BFS for the core, BFS with seeded 1/Slice emission and "
                "-simulate beyond it); requests are derived from each document in TLA+ (spec/RouterUniverse.tla Requests: "
                "every fill of every template with values {a, b, v} under every declared server x GET/POST, near misses "
                "(segment more/less, trailing slash(es), empty segment, literal-prefix segment), undeclared/unknown/lower-case "
                "methods, URLs that miss or vary the server: scheme, host label, tld, host length, base, base continued inside "
                "its last segment (/v1 -> /v10, /v1beta, /v1x, base glued to the first path segment), port, relative form), "
                "every fill again with '?', '?a=1', '?a=1#top' and '#top' after the path, percent-encoded values (x%20y, a%2Fb) "
                "in every variable position; a third small universe has the literal segment a%20b; base paths /my%20api "
                "(relative, absolute, path-level) and /my%2Fapi are among the server shapes; the "
                "requests of a document run in chunks of 16 on one instance of each router, main URLs as GET-then-POST pairs, and "
                "every route object returned in a chunk is read again after the chunk's last request (held observation); "
                "server variables at non-default values, scheme-variable values, and the same URLs in server form (Request.Host / "
                "Request.TLS / path-only URL); "
                "evaluations = (document, request, router) FindRoute calls judged by TLC; non-trivial = distinct (document, "
                "request) where at least one router got as far as a template (route, method-not-allowed or panic)")
    ctx.validate("Trace_C09", "Trace_C09.cfg", logp, chunk_lines=max(40, min(700, nlines // 16 + 1)))
