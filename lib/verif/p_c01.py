"""C01 pipeline (also provides gen_schemas for C12/C19)."""
import json
import os
import random

from .common import *
from .core import Ctx, Infra, casehash, log


def slice_bulk(ctx, cases, one_in=2):
    """Keep a seeded 1/one_in of the bulk (Gen_C01!Bulk: wrapped schemas with >= 2 innermost keywords; TLC marks them with
    bulk = TRUE) and everything else.  Python only drops lines: which half is a function of the seed."""
    lines = open(cases).read().splitlines(True)
    kept, k = [], 0
    for l in lines:
        if '"bulk":true' in l:
            k += 1
            if (k + ctx.seed) % one_in:
                continue
        kept.append(l)
    open(cases, "w").writelines(kept)
    ctx.extra["bulk_schemas_generated"] = k
    ctx.extra["schemas_driven"] = len(kept)
    ctx.sliced = True
    log("[gen] %d bulk schemas, a seeded 1/%d of them driven: %d schemas in all" % (k, one_in, len(kept)))


def gen_schemas(ctx, cfg, label):
    """Run the schema generator; returns (cases path, vals path)."""
    ctx.tlc("Gen_C01", cfg, label=label)
    cases = os.path.join(ctx.scratch, "cases.ndjson")
    vals = os.path.join(ctx.scratch, "vals.ndjson")
    n = ctx.unquote(ctx.spec("cases.ndjson"), cases)
    ctx.unquote(ctx.spec("vals.ndjson"), vals)
    log("[gen] %d schemas" % n)
    return cases, vals


@pipeline
def c01(ctx: Ctx):
    ctx.assumptions = [
        "D: spec/MC_C01.tla checks the implementation-shaped model spec/SchemaImpl.tla (visitJSON's phases and early returns) against SchemaSem on the generator's own state space, plus algebraic laws (not/allOf/anyOf/oneOf/enum) and monotonicity; the trace spec also compares every verdict of the code with SchemaImpl (fidelity)",
        "TLC; spec/SchemaSem.tla as the transcription of draft-4/OpenAPI 3.0 keyword semantics (null per the library's documented NullRule)",
        "harness realiser (abstract schema -> OpenAPI JSON -> real loader) guarded by the rs = s round trip judged by TLC",
        "numbers are quarters, strings over a small alphabet incl. one astral rune, five fixed patterns; format/discriminator are outside this oracle (C12)",
        "history clause: spec/PatternCache.tla models the process-wide compiled-pattern cache and caller-supplied regex engines; TLC checks that the pinned caching policy makes every verdict a function of the call alone (and that the two other plausible policies do not), and every history of <= MaxSteps validations is replayed in one process against the real cache and judged by Trace_C01H",
    ]
    if ctx.replay:
        v = ctx.replay["violation"]
        cases = os.path.join(ctx.scratch, "cases.ndjson")
        write_ndjson(cases, [dict(s=v["s"], vals=[v["v"]] if "v" in v else [], share=bool(v.get("share")))])
        vals = os.path.join(ctx.scratch, "vals.ndjson")
        write_ndjson(vals, [])
    else:
        # D: implementation-shaped model vs reference semantics, algebraic laws, monotonicity (spec only)
        if not os.environ.get("VERIF_DEV_SKIP_D"):   # development aid only (iterating on F/B); never set by bin/runall, bin/reseed
            ctx.tlc("MC_C01", "MC_C01_%s.cfg" % ctx.tier, label="D SchemaImpl = SchemaSem modulo listed classes; laws", timeout=3000)
        cases, vals = gen_schemas(ctx, "Gen_C01_%s.cfg" % ctx.tier, "F generate schemas (BFS)")
        # The bulk (every 2-keyword schema under every wrapper; thorough: times every outer keyword) is driven as a seeded
        # slice: quick one half (of ~47k), thorough one third (of ~500k).  Everything else -- all schemas of the innermost
        # level, every wrapper over <= 1 keyword, every sharing wrapper -- is driven completely, and D (above) runs on the
        # complete state space in both tiers.
        slice_bulk(ctx, cases, 2 if ctx.tier == "quick" else 3)
        ctx.exhaustive = not getattr(ctx, "sliced", False)
    ctx.build_driver()
    logp = os.path.join(ctx.scratch, "log.ndjson")
    ctx.drive(cases, logp, env={"VERIF_VALS": vals}, shards=8)
    lines = 0
    rng = random.Random(ctx.seed)
    for l in open(logp):
        o = json.loads(l)
        lines += 1
        nv = len(o.get("of", []))
        ctx.evaluations += 3 * nv
        verd = set(o.get("of", []))
        if len(verd) > 1:  # the schema separates the value list: some accepted, some rejected
            ctx.nontrivial.add(casehash(o["s"]))
        if rng.random() < 5.0 / 20000:
            ctx.samples.append(dict(s=o["s"], of="".join(o.get("of", []))))
    ctx.rule = ("cases = every schema reachable in spec/Gen_C01.tla within (K, KO, W), each judged on the %d-value list of "
                "spec/SchemaUniverse.tla in 3 forms (VisitJSON float64, VisitJSON json.Number, IsMatching); evaluations counts "
                "(schema, value, form) judgements; non-trivial = distinct schemas that accept some and reject some values") % 44
    ctx.validate("Trace_C01", "Trace_C01.cfg", logp, chunk_lines=1200)
    if not ctx.replay:
        history_clause(ctx)


def history_clause(ctx):
    """C01 over histories: the compiled-pattern cache and caller-supplied regex engines (spec/PatternCache.tla)."""
    ctx.tlc("Gen_C01H", "Gen_C01H_%s.cfg" % ctx.tier, label="D cache policy 'never' => HistoryIndependent; F histories")
    ctx.tlc("Gen_C01H", "MC_C01_cache_on_success.cfg", expect_violation=True, label="D policy 'on_success' breaks HistoryIndependent")
    ctx.tlc("Gen_C01H", "MC_C01_cache_always.cfg", expect_violation=True, label="D policy 'always' breaks HistoryIndependent")
    if ctx.tier == "thorough":
        # unbounded: the inductive invariant "nothing is ever cached /\ the last step reports L1" (histories of any length)
        ctx.apalache("PatternCacheInd", ["--cinit=CInitNever", "--init=Init", "--next=Next", "--inv=IndInv", "--length=0"],
                     label="D Init => IndInv (policy never)")
        ctx.apalache("PatternCacheInd", ["--cinit=CInitNever", "--init=IndInit", "--next=Next", "--inv=IndInv", "--length=1"],
                     label="D IndInv /\\ Next => IndInv' (policy never, unbounded histories)")
        ctx.apalache("PatternCacheInd", ["--cinit=CInitStore", "--init=Init", "--next=Next", "--inv=StepOK", "--length=3"],
                     expect_error=True, label="D policy on_success: counterexample within 3 steps")
    cases = os.path.join(ctx.scratch, "cases_hist.ndjson")
    n = ctx.unquote(ctx.spec("cases_hist.ndjson"), cases)
    log("[gen] %d histories" % n)
    logp = os.path.join(ctx.scratch, "log_hist.ndjson")
    ctx.drive(cases, logp, prop="C01H", shards=4)
    k = 0
    for l in open(logp):
        o = json.loads(l)
        ctx.evaluations += len(o.get("obs", []))
        k += 1
        if k in (1, n // 2):
            ctx.samples.append(dict(history=o["c"]["steps"], obs=o["obs"]))
    ctx.extra["histories_replayed_in_one_process"] = n
    ctx.validate("Trace_C01H", "Trace_C01H.cfg", logp, chunk_lines=4000)
