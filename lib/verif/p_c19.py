"""C19 pipeline: schema error reasons never contain the rejected value."""
import json
import os
import random

from .common import *
from .core import Ctx, Infra, casehash, log
from .p_c12 import gen


@pipeline
def c19(ctx: Ctx):
    ctx.assumptions = [
        "TLC; substring search on character sequences (JsonValue!Contains)",
        "harness error-tree walker (harness/c12.go collectReasons: SchemaError.Reason, Origin chains, MultiError members, Unwrap) and request/response realiser (harness/c19.go)",
        "marker discipline: every string leaf of every value is a unique marker Mq<d> that occurs in no schema text of the universe",
        "object keys of the rejected value are not 'string values' in the property's wording and are never markers",
    ]
    cases = os.path.join(ctx.scratch, "cases.ndjson")
    vals = os.path.join(ctx.scratch, "vals.ndjson")
    if ctx.replay:
        v = ctx.replay["violation"]
        if v.get("kind") == "req":
            write_ndjson(cases, [dict(kind="req", c=v["c"])])
        else:
            write_ndjson(cases, [dict(s=v["s"], vals=[v["v"]] if "v" in v else [], share=bool(v.get("share")))])
        write_ndjson(vals, [])
    else:
        cases, vals = gen(ctx, "Gen_C19_%s.cfg" % ctx.tier, "F generate schemas incl. extended keywords (BFS)")
        if ctx.tier == "quick":
            os.rename(cases, cases + ".1")
            cases, vals = gen(ctx, "Gen_C19_quick2.cfg", "F generate wrapped schemas (BFS)")
            with open(cases, "a") as f:
                f.write(open(cases + ".1").read())
        ctx.tlc("Gen_C19R", "Gen_C19R.cfg", label="F generate request/response leak cases")
        req = os.path.join(ctx.scratch, "cases_req.ndjson")
        n = ctx.unquote(ctx.spec("cases_req.ndjson"), req)
        with open(cases, "a") as f:
            f.write(open(req).read())
        log("[gen] + %d request/response cases" % n)
        ctx.exhaustive = not getattr(ctx, "sliced", False)
    # the configurations part of the quantifier: the option sets every rejected value is validated under (spec/Gen_C19O.tla)
    ctx.tlc("Gen_C19O", "Gen_C19O.cfg", label="F generate option sets (mode x reading x extra x way of hiding the value)")
    optsp = os.path.join(ctx.scratch, "opts.ndjson")
    nopts = ctx.unquote(ctx.spec("opts.ndjson"), optsp)
    ctx.extra["option_sets"] = nopts
    ctx.build_driver()
    logp = os.path.join(ctx.scratch, "log.ndjson")
    ctx.drive(cases, logp, env={"VERIF_VALS": vals, "VERIF_OPTS": optsp,
                                # the option sets are run on a seeded slice of the (schema, value) pairs (replay: on the one pair)
                                "VERIF_OPTS_EVERY": "1" if ctx.replay else ("8" if ctx.tier == "quick" else "6")}, shards=8)
    rng = random.Random(ctx.seed)
    fields = {}
    for l in open(logp):
        o = json.loads(l)
        if o.get("kind") == "req":
            ctx.evaluations += 1
            ctx.nontrivial.add(casehash(o["c"]))
            if rng.random() < 0.02:
                ctx.samples.append(dict(c=o["c"], verdict=o["verdict"], text="".join(o["texts"][0]) if o["texts"] else ""))
            continue
        rs = o.get("r", [])
        for r in rs:
            for k in ("de", "me", "fe"):
                for e in r.get(k, []):
                    ctx.evaluations += 1 + len(e.get("reasons", []))
                    fields[e.get("field", "-")] = fields.get(e.get("field", "-"), 0) + 1
        if any(r.get("de") for r in rs):
            ctx.nontrivial.add(casehash(o["s"]))
        if rng.random() < 5.0 / 3000 and rs:
            r = next((r for r in rs if r.get("de")), None)
            if r:
                ctx.samples.append(dict(s=o["s"], reasons=["".join(x) for x in r["de"][0].get("reasons", [])]))
    ctx.extra["errors_by_failing_keyword"] = fields
    ctx.rule = ("schemas of spec/Gen_C01.tla (extended atoms) x the 15 marker values of SchemaUniverse!MVals in default, multi and fail-fast "
                "mode: every Reason at every nesting level and every Error() text (details disabled) is searched for every marker; plus the "
                "request/response product of spec/Gen_C19R.tla; evaluations = texts searched; non-trivial = distinct schemas (or request cases) with a rejected marker value")
    ctx.validate("Trace_C19", "Trace_C19.cfg", logp, chunk_lines=150)
