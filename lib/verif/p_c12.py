"""C12 pipeline: validation modes change the report, never the verdict; errors point at data."""
import json
import os
import random

from .common import *
from .core import Ctx, Infra, casehash, log
from .p_c01 import slice_bulk


def gen(ctx, cfg, label):
    # CSVWrite appends: a second generator run in the same scratch directory must not find the first run's output
    # (the first slice used to be driven twice, and every schema on a doubled value list)
    for f in ("cases.ndjson", "vals.ndjson"):
        if os.path.exists(ctx.spec(f)):
            os.remove(ctx.spec(f))
    ctx.tlc("Gen_C01", cfg, label=label)
    cases = os.path.join(ctx.scratch, "cases.ndjson")
    vals = os.path.join(ctx.scratch, "vals.ndjson")
    n = ctx.unquote(ctx.spec("cases.ndjson"), cases)
    ctx.unquote(ctx.spec("vals.ndjson"), vals)
    log("[gen] %d schemas" % n)
    if ctx.tier == "thorough":
        # the thorough tier drives a seeded half of the bulk (Gen_C01!Bulk: wrapped schemas with >= 2 innermost keywords; TLC
        # marks them) and everything else; which half is a function of the seed
        slice_bulk(ctx, cases)
    return cases, vals


@pipeline
def c12(ctx: Ctx):
    ctx.assumptions = [
        "TLC; JSON-pointer navigation and structural equality of spec/JsonValue.tla",
        "harness projector of errors (JSONPointer(), SchemaField, Value -> tagged) in harness/c12.go",
        "schemas: the C01 universe plus formats, two extra patterns (one uncompilable) and a mapping-less discriminator; values: the C01 list plus 5 extras; json.Number input form",
    ]
    if ctx.replay:
        v = ctx.replay["violation"]
        cases = os.path.join(ctx.scratch, "cases.ndjson")
        write_ndjson(cases, [dict(s=v["s"], vals=[v["v"]] if "v" in v else [], share=bool(v.get("share")))])
        vals = os.path.join(ctx.scratch, "vals.ndjson")
        write_ndjson(vals, [])
    else:
        cases, vals = gen(ctx, "Gen_C12_%s.cfg" % ctx.tier, "F generate schemas incl. extended keywords (BFS)")
        if ctx.tier == "quick":
            # second slice: one keyword under every wrapper (containers and compositions one level deep)
            os.rename(cases, cases + ".1")
            cases2, vals = gen(ctx, "Gen_C12_quick2.cfg", "F generate wrapped schemas (BFS)")
            with open(cases, "a") as f:
                f.write(open(cases + ".1").read())
        ctx.exhaustive = not getattr(ctx, "sliced", False)
    # the configurations part of the quantifier: every sequence of mode / customiser / reading / extra options (spec/Gen_C19O.tla)
    ctx.tlc("Gen_C19O", "Gen_C19O.cfg", label="F generate option sets (mode x reading x extra x customiser position)")
    optsp = os.path.join(ctx.scratch, "opts.ndjson")
    ctx.extra["option_sets"] = ctx.unquote(ctx.spec("opts.ndjson"), optsp)
    ctx.build_driver()
    logp = os.path.join(ctx.scratch, "log.ndjson")
    ctx.drive(cases, logp, env={"VERIF_VALS": vals, "VERIF_OPTS": optsp,
                                # the option sets are run on a seeded slice of the (schema, value) pairs (replay: on the one pair)
                                "VERIF_OPTS_EVERY": "1" if ctx.replay else ("8" if ctx.tier == "quick" else "6")}, shards=8)
    rng = random.Random(ctx.seed)
    for l in open(logp):
        o = json.loads(l)
        rs = o.get("r", [])
        ctx.evaluations += 6 * len(rs)
        if any(r.get("de") or r.get("me") for r in rs):
            ctx.nontrivial.add(casehash(o["s"]))
        if rng.random() < 5.0 / 3000 and rs:
            ctx.samples.append(dict(s=o["s"], first_rejected=next((r for r in rs if r.get("de")), None)))
    ctx.rule = ("cases = every schema of spec/Gen_C01.tla (extended atoms on) within the cfg bounds, each run on the value list in "
                "6 mode/option combinations; evaluations counts (schema, value, mode); non-trivial = distinct schemas with at "
                "least one reported schema error whose pointer and quoted value were judged")
    ctx.validate("Trace_C12", "Trace_C12.cfg", logp, chunk_lines=150)
