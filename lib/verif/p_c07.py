"""C07 pipeline: a request passes iff security, every effective parameter and the body pass."""
import json
import os
import random

from .common import *
from .core import Ctx, Infra, casehash, log


@pipeline
def c07(ctx: Ctx):
    ctx.assumptions = [
        "TLC; spec/RequestCheck.tla as the contract (security OR-of-ANDs with operation-over-document precedence, effective parameters, exclusion options, multi-error bijection)",
        "harness realiser harness/c07.go (documents built per case and loaded through the real loader; scripted AuthenticationFunc; errors projected to parts by type: SecurityRequirementsError / RequestError.Parameter / RequestError.RequestBody)",
        "the accept set is given as a sequence in the case (TLC set -> JSON array); an authentication callback is configured except in the no-callback focus (Options.AuthenticationFunc nil / Options nil), where no scheme can be accepted (accepts = {}) and nothing is called",
        "histories: an alias path item / an edit installs parts of a second document loaded through the real loader (openapi3.PathItem{Post: same *Operation, Parameters: loaded})",
    ]
    cases = os.path.join(ctx.scratch, "cases.ndjson")
    if ctx.replay:
        write_ndjson(cases, [ctx.replay["violation"]["c"]])
    else:
        ctx.tlc("MC_C07", "MC_C07.cfg", label="D security automaton: verdict = SecOK, calls = ExpectedCalls")
        ctx.tlc("MC_C07", "MC_C07_abort.cfg", expect_violation=True, label="D variant 'undeclared scheme aborts the list' breaks the contract")
        ctx.tlc("MC_C07O", "MC_C07O_asbuilt.cfg", label="D orchestration: security, path-level minus overridden, operation-level, body; fail-first / collect = FailingParts")
        ctx.tlc("MC_C07H", "MC_C07H_stateless.cfg", label="D history: parameters checked = Effective(route and document at the time of the call), <=3 validate/edit steps")
        if ctx.tier == "thorough":   # the refuted designs (model drift guards): each must still have its counterexample
            for v in ("exclQueryOpOnly", "bodyPresenceFirst", "multiEarlyReturn", "overrideByName", "bodyByMethod"):
                ctx.tlc("MC_C07O", "MC_C07O_%s.cfg" % v, expect_violation=True, label="D orchestration variant '%s' breaks the contract" % v)
            ctx.tlc("MC_C07H", "MC_C07H_memoRoute_noedit.cfg", label="D history variant 'memoRoute' is indistinguishable while the document is never edited")
            for design, by in (("memoOp", "an alias path item sharing the Operation (no edit)"), ("memoPathItem", "a sibling operation (no edit)"), ("memoRoute", "an edit")):
                ctx.tlc("MC_C07H", "MC_C07H_%s.cfg" % design, expect_violation=True, label="D history variant '%s' is refuted by %s" % (design, by))
        ctx.tlc("Gen_C07", "Gen_C07_%s.cfg" % ctx.tier, label="F generate cases")
        n = ctx.unquote(ctx.spec("cases.ndjson"), cases)
        log("[gen] %d cases" % n)
        ctx.exhaustive = True
    ctx.build_driver()
    logp = os.path.join(ctx.scratch, "log.ndjson")
    ctx.drive(cases, logp, shards=8)
    rng = random.Random(ctx.seed)
    for l in open(logp):
        o = json.loads(l)
        ctx.evaluations += 1
        ctx.nontrivial.add(casehash(o["c"]))
        if rng.random() < 6.0 / 30000:
            ctx.samples.append(dict(c=o["c"], verdict=o.get("verdict"), parts=o.get("parts"), calls=o.get("calls")))
    ctx.rule = ("product of spec/Gen_C07.tla: security focus (operation-level x document-level requirement lists x callback outcome sets x body x "
                "{no params, one failing query param} x multi-error x callback-reads-body) + parameter focus (every assignment of path-level kind, "
                "operation-level kind and request text to <=2 of 3 (in,name) keys x security x body x MultiError/ExcludeRequestBody/ExcludeRequestQueryParams) "
                "+ requiredness focus + location focus (path/cookie/header of one name) + $ref focus + scope focus (outcome per scheme+scopes) "
                "+ method focus (the operation under each of get/put/post/delete/options/head/patch/trace x body declaration x carried body x ExcludeRequestBody; "
                "sibling operations of one path item under two methods) + body focus (declaration none/optional/required x carried none/empty/pass/fail/otherct/badjson x ExcludeRequestBody x security x unsized) "
                "+ unmentioned options / nil Options + no-callback focus + histories (second validation through an alias path item sharing the Operation value, a sibling "
                "operation, an in-place edit of parameters / security / requestBody, then the first route again; thorough: chains of two kinds); "
                "every case distinct, every call of every history judged")
    ctx.validate("Trace_C07", "Trace_C07.cfg", logp, chunk_lines=2450 if ctx.tier == "quick" else 2500)
