"""C11 pipeline: the loader reads nothing beyond the root unless external refs are allowed."""
import json
import os
import random

from .common import *
from .core import Ctx, Infra, casehash, log


@pipeline
def c11(ctx: Ctx):
    ctx.assumptions = [
        "TLC; spec/Layout.tla AllowedReads (closure of ref targets from the root, each resolved against the location of the document that contains it)",
        "sensor: an instrumented Loader.ReadFromURIFunc records every location the loader asks for (file paths relative to the universe's directory, URLs verbatim) and serves local files only; reads that bypass ReadFromURIFunc (direct os/net calls) would not be seen",
        "universes of C02 with the additional ref forms absolute path, file://, http://, https://, //host at the root position and at every child site, both settings of IsExternalRefsAllowed",
    ]
    cases = os.path.join(ctx.scratch, "cases.ndjson")
    ctx.tlc("Gen_C02", "Gen_C11_%s.cfg" % ctx.tier, label="F generate universes x ref forms x allow")
    n = ctx.unquote(ctx.spec("cases.ndjson"), cases)
    if ctx.replay:
        want = ctx.replay["violation"]["c"]
        keep = [c for c in read_ndjson(cases) if all(c.get(k) == want.get(k) for k in ("kind", "style", "entry", "pos", "shape", "site", "allow"))]
        write_ndjson(cases, keep)
    else:
        ctx.exhaustive = True
    log("[gen] %d universes" % n)
    ctx.build_driver()
    logp = os.path.join(ctx.scratch, "log.ndjson")
    ctx.drive(cases, logp, shards=(12 if ctx.tier == "thorough" else 8))
    rng = random.Random(ctx.seed)
    for l in open(logp):
        o = json.loads(l)
        ctx.evaluations += 1
        if o["c"]["shape"] != "sameroot":
            ctx.nontrivial.add(casehash(o["c"]))
        if rng.random() < 6.0 / 5000:
            ctx.samples.append(dict(c={k: o["c"][k] for k in ("kind", "shape", "site", "style", "pos", "entry", "allow")}, load=o["load"], reads=o["reads"]))
    ctx.rule = ("product of spec/Gen_C02.tla with 8 ref forms and both settings of the switch (quick = QuickSlice); non-trivial = universes with at least one reference leaving the root document")
    ctx.validate("Trace_C11", "Trace_C11.cfg", logp, chunk_lines=500)
