"""C03 pipeline: marshalling then reloading a document loses and invents nothing."""
import json
import os
import random

from .common import *
from .core import Ctx, Infra, casehash, log


def _descr(o):
    d = o.get("d", {})
    if d.get("mode") in ("special", "fixture"):
        return dict(d)
    return dict(mode=d.get("mode"), kind=d.get("kind"), ext=d.get("ext"),
                fv=sorted("%s:%s" % (p["f"], p["var"]) for p in (d.get("fv") or [])))


@pipeline
def c03(ctx: Ctx):
    tier = ctx.tier
    cases = os.path.join(ctx.scratch, "cases.ndjson")
    ctx.assumptions = [
        "TLC and the CommunityModules Json/CSV modules",
        "spec/DocModel.tla: field catalogue of the 29 OpenAPI 3.0.3 and 10 OpenAPI 2.0 object kinds transcribed from the two "
        "specifications (not from the marshallers); required fields are always populated (documents omitting them are outside the universe); "
        "empty strings/arrays/maps where the specification names no default are an open region and are not generated",
        "harness/c03.go + c03_tagged.go: tagged JSON <-> JSON text (numbers as canonical decimal literals, strings as rune tokens), guarded by "
        "the realised-input = case check evaluated by TLC; github.com/oasdiff/yaml (JSONToYAML, Marshal) and github.com/oasdiff/yaml3 (Marshal) "
        "as the YAML writers, the library's own reader (Loader.LoadFromData; json/yaml Unmarshal into openapi2.T) as the parser",
        "OpenAPI 2 has no MarshalYAML methods: its yaml.v3-style writer path (jb) is not part of the universe",
        "external references: the OpenAPI 3 loader runs with IsExternalRefsAllowed and a ReadFromURIFunc serving the resources the case itself carries "
        "(ext/<Kind>.json, ext/doc.json, built by TLC); LoadFromData without base location, no file system or network",
    ]
    if ctx.replay:
        v = ctx.replay["violation"]
        hist = v.get("hist") or dict(entry="fresh", prior=[])
        write_ndjson(cases, [dict(d=v["d"], ver=v["ver"], doc=v["doc"], ext=v.get("ext", []), hist=hist)])
        ncases = 1
    else:
        # D: without the listed deviations the implementation-shaped model must still break the contract (model drift guard)
        ctx.tlc("MC_C03", "MC_C03_pinned.cfg", expect_violation=True, label="D pinned-model counterexample")
        # D: a root UnmarshalJSON that decodes into its receiver in place must break the receiver contract (RecvL1)
        ctx.tlc("MC_C03", "MC_C03_pinned_recv.cfg", expect_violation=True, label="D pinned in-place receiver counterexample")
        # D + F: Norm laws, L2 => L1 over the whole universe, and emission of every case
        # the seed only selects the pseudo-random field subsets (mode "rand"); Python copies the cfg with Seed substituted
        cfg = open(ctx.spec("MC_C03_%s.cfg" % tier)).read().replace("Seed = 1", "Seed = %d" % (ctx.seed % 60000))
        open(ctx.spec("MC_C03_run.cfg"), "w").write(cfg)
        ctx.tlc("MC_C03", "MC_C03_run.cfg", label="D/F exhaustive L2=>L1 + generate")
        raw = os.path.join(ctx.scratch, "cases.raw")
        ctx.unquote(ctx.spec("cases.ndjson"), raw)
        seen, out = set(), []
        for l in open(raw):
            o = json.loads(l)
            h = casehash([o["doc"], o.get("hist")])
            if h not in seen:
                seen.add(h)
                out.append(l)
        nbfs = len(out)
        with open(cases, "w") as f:
            f.writelines(out)
        ncases = len(out)
        ctx.exhaustive = True
        ctx.extra["generator_constants"] = dict(quick=dict(MaxGrow=1, MaxGrowExt=0, MaxShrink=1, RandPerKind=4, MaxHist=1),
                                                thorough=dict(MaxGrow=3, MaxGrowExt=2, MaxShrink=1, RandPerKind=60, MaxHist=2))[tier]
        log("[gen] %d distinct documents" % ncases)
    ctx.build_driver()
    logp = os.path.join(ctx.scratch, "log.ndjson")
    ctx.drive(cases, logp, env={"VERIF_REPO": ctx.repo}, shards=4)
    rng = random.Random(ctx.seed)
    nlines = fixtures = histories = 0
    kinds = set()
    for l in open(logp):
        o = json.loads(l)
        nlines += 1
        trips = [k for k in o["obs"] if k not in ("msgs", "pr")]
        ctx.evaluations += len(trips)
        d = o["d"]
        if d.get("mode") == "fixture":
            fixtures += 1
        else:
            kinds.add(d.get("kind", "special"))
        # non-trivial: the object under test carries something beyond its required fields
        hist = o.get("hist") or {}
        if hist.get("prior"):
            histories += 1
            ctx.nontrivial.add(casehash([o["c"], hist["entry"], [p["name"] for p in hist["prior"]]]))
        elif d.get("mode") in ("special", "fixture", "rand") or d.get("fv") or d.get("ext") not in (None, "none"):
            ctx.nontrivial.add(casehash(o["c"]))
        if rng.random() < 6.0 / max(nlines, 2000):
            ctx.samples.append(_descr(o))
    if nlines < ncases:
        raise Infra("log has %d lines for %d cases" % (nlines, ncases))
    ctx.extra["fixtures_replayed"] = fixtures
    ctx.extra["history_lines"] = histories
    ctx.extra["kinds_exercised"] = len(kinds)
    ctx.rule = ("cases = every state of spec/Gen_C03.tla within (MaxGrow, MaxGrowExt, MaxShrink): per object kind the bare object, every single "
                "field in every variant of its category (typical, meaningful zero, redundant default, null, number beyond float64, $ref, $ref with "
                "siblings, external $ref to a whole file / to a fragment of an external document -- also with siblings), field pairs (thorough), all fields and all-but-one (inline, as $ref and as external $ref), each without / with x- extension and unknown key, "
                "plus hand-written documents with YAML-hostile strings and deep nesting, seeded pseudo-random subsets of 3-8 fields per kind, and repository fixtures (thorough); "
                "evaluations counts codec trips executed (j1 j2 ja jb ji per document); non-trivial = distinct documents whose object under test "
                "has at least one optional field, extension or unknown key")
    ctx.validate("Trace_C03", "Trace_C03.cfg", logp, chunk_lines=max(40, min(400, nlines // 16 + 1)), xmx="2g")
