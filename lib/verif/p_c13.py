"""C13 pipeline: validation leaves the request readable; defaults are added exactly once."""
import json
import os
import random
from concurrent.futures import ThreadPoolExecutor

from .common import *
from .core import Ctx, Infra, casehash, log


@pipeline
def c13(ctx: Ctx):
    ctx.assumptions = [
        "TLC; spec/Defaults.tla (WithDefaults as least fixed point, FixedPoint checked by TLC); spec/BodyStream.tla (L2 model of the three body-handling sites of one validation, checked against 'body readable'; the pinned-tree variant must still show the known counterexample); spec/BodyStreamH.tla (L2 model of several requests over a heap of byte buffers, validation phases interleaved, read / rewind / validate-again histories, query and header as carriers; checked against L1-at-rest for the repaired design and for the tree on JSON-family bodies; the tree on form bodies (F-C13-5) and three refuted designs -- the code before d801280 (F-C13-4), pooled encoder buffer, Close bound at return -- must each show their counterexample)",
        "harness realiser/projector harness/c13.go: single cases: body drained after each validation, GetBody/ContentLength read back, second validation on the forwarded request; history cases: validations and reads in the order the history says (reads are not forced after a validation), the request rewound as a transport does; document digest before/after; parameter defaults observed by decoding the forwarded request (verif hook); kind of reader / GetBody installed (fidelity against BodyStreamH)",
        "bodies in every media type with a decoder that can carry an object (JSON family, YAML, urlencoded, multipart); forwarded non-JSON bodies are projected with the decoder the library exports for the type",
        "left open (excluded): the carriers of parameter defaults after a REJECTED validation (the statement is silent); form bodies with ill-typed / undeclared fields and typed multipart parts (property C06)",
    ]
    cases = os.path.join(ctx.scratch, "cases.ndjson")
    if ctx.replay:
        write_ndjson(cases, [ctx.replay["violation"]["c"]])
    else:
        th = "_thorough" if ctx.tier == "thorough" else ""
        def gen():
            ctx.tlc("Gen_C13", "Gen_C13.cfg", workers=4, label="D WithDefaults fixed point + F generate cases")
            ctx.tlc("Gen_C13H", "Gen_C13H_%s.cfg" % ("thorough" if ctx.tier == "thorough" else "quick"), workers=4,
                    label="F generate histories (%s)" % ctx.tier)
        jobs = [
            gen,
            lambda: ctx.tlc("MC_C13", "MC_C13.cfg", workers=2, label="D BodyStream L2 => body readable"),
            lambda: ctx.tlc("MC_C13", "MC_C13_pinned.cfg", workers=2, expect_violation=True, label="D pinned-model counterexample (restore missing)"),
            # BodyStreamH: several requests over a heap of buffers, phases interleaved, histories (validate / read / rewind / validate again)
            lambda: ctx.tlc("MC_C13H", "MC_C13H_repaired%s.cfg" % th, workers=4, label="D BodyStreamH repaired design => L1 at rest"),
            lambda: ctx.tlc("MC_C13H", "MC_C13H_tree_json%s.cfg" % th, workers=4, label="D BodyStreamH as the tree is, JSON-family bodies => L1 at rest"),
            lambda: ctx.tlc("MC_C13H", "MC_C13H_tree%s.cfg" % th, workers=2, expect_violation=True,
                            label="D BodyStreamH as the tree is, every decodable type: counterexample (forms forwarded without their defaults; F-C13-5)"),
            lambda: ctx.tlc("MC_C13H", "MC_C13H_pinned%s.cfg" % th, workers=2, expect_violation=True,
                            label="D BodyStreamH before d801280: counterexample (JSON family not encodable, GetBody emptied; F-C13-4)"),
            lambda: ctx.tlc("MC_C13H", "MC_C13H_pooled%s.cfg" % th, workers=2, expect_violation=True,
                            label="D BodyStreamH encoder hands out a pooled buffer: counterexample (requests share bytes)"),
            lambda: ctx.tlc("MC_C13H", "MC_C13H_closelate%s.cfg" % th, workers=2, expect_violation=True,
                            label="D BodyStreamH deferred Close bound at return: counterexample (restored body closed)"),
        ]
        with ThreadPoolExecutor(max_workers=len(jobs)) as ex:
            for f in [ex.submit(j) for j in jobs]:
                f.result()
        n = ctx.unquote(ctx.spec("cases.ndjson"), cases)
        log("[gen] %d cases" % n)
        ctx.exhaustive = True
    ctx.build_driver()
    logp = os.path.join(ctx.scratch, "log.ndjson")
    ctx.drive(cases, logp, shards=8 if ctx.tier == "thorough" else 4)
    rng = random.Random(ctx.seed)
    for l in open(logp):
        o = json.loads(l)
        ctx.evaluations += len([st for st in o["c"]["steps"] if st["op"] == "V"]) if o["c"]["kind"] == "hist" else 2
        ctx.nontrivial.add(casehash(o["c"]))
        if rng.random() < 6.0 / 800:
            ctx.samples.append({k: o.get(k) for k in ("c", "verdict1", "after1", "q1", "verdict2", "obs") if k in o})
    ctx.rule = ("product of spec/Gen_C13.tla: 12 body schemas with defaults (flat, nested, object default with nested default, allOf, oneOf, anyOf with "
                "nested defaults in both branches, array items, readOnly, default next to a failing constraint, allOf next to oneOf/anyOf, strings only, oneOf with "
                "discriminator and mapping / without mapping / under items / under a property) x bodies "
                "x 6 security/callback behaviours x preset GetBody x SkipSettingDefaults x charset parameter x unsized x white space; x media type "
                "(problem+json, vnd.api+json, yaml, urlencoded incl. undeclared fields and array fields exploded / explode:false, multipart); + parameter defaults (query/header/cookie x int/str/array x explode) x present "
                "x skip x other query parameter present; each case validated twice; + spec/Gen_C13H.tla histories: (schema, body) x option slice "
                "(skip, preset, callback, parameters next to the body none/absent/mixed) x partner request x step sequences over {validate, read+rewind} "
                "x 2 requests (quick: 5 chosen sequences; thorough: all of length 2..3) + final reads")
    ctx.validate("Trace_C13", "Trace_C13.cfg", logp, chunk_lines=350 if ctx.tier != "thorough" else 2000)
