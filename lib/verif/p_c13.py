"""C13 pipeline: validation leaves the request readable; defaults are added exactly once."""
import json
import os
import random

from .common import *
from .core import Ctx, Infra, casehash, log


@pipeline
def c13(ctx: Ctx):
    ctx.assumptions = [
        "TLC; spec/Defaults.tla (WithDefaults as least fixed point, FixedPoint checked by TLC) and spec/BodyStream.tla (L2 model of the three body-handling sites, checked against 'body readable' by TLC; the pinned-tree variant must still show the known counterexample)",
        "harness realiser/projector harness/c13.go: body drained after each validation, GetBody/ContentLength read back, second validation on the forwarded request, document digest before/after; parameter defaults observed by decoding the forwarded request (verif hook)",
        "JSON bodies only (the library can re-encode only application/json)",
    ]
    cases = os.path.join(ctx.scratch, "cases.ndjson")
    if ctx.replay:
        write_ndjson(cases, [ctx.replay["violation"]["c"]])
    else:
        ctx.tlc("MC_C13", "MC_C13.cfg", label="D BodyStream L2 => body readable")
        ctx.tlc("MC_C13", "MC_C13_pinned.cfg", expect_violation=True, label="D pinned-model counterexample (restore missing)")
        ctx.tlc("Gen_C13", "Gen_C13.cfg", label="D WithDefaults fixed point + F generate cases")
        ctx.tlc("Gen_C13H", "Gen_C13H_%s.cfg" % ("thorough" if ctx.tier == "thorough" else "quick"), label="F generate histories (%s)" % ctx.tier)
        n = ctx.unquote(ctx.spec("cases.ndjson"), cases)
        log("[gen] %d cases" % n)
        ctx.exhaustive = True
    ctx.build_driver()
    logp = os.path.join(ctx.scratch, "log.ndjson")
    ctx.drive(cases, logp, shards=8 if ctx.tier == "thorough" else 4)
    rng = random.Random(ctx.seed)
    for l in open(logp):
        o = json.loads(l)
        ctx.evaluations += len([st for st in o["c"]["steps"] if st["op"] == "V"]) if o["c"]["kind"] == "hist" else 2
        ctx.nontrivial.add(casehash(o["c"]))
        if rng.random() < 6.0 / 800:
            ctx.samples.append({k: o.get(k) for k in ("c", "verdict1", "after1", "q1", "verdict2", "obs") if k in o})
    ctx.rule = ("product of spec/Gen_C13.tla: 9 body schemas with defaults (flat, nested, object default with nested default, allOf, oneOf, anyOf with "
                "nested defaults in both branches, array items, readOnly, default next to a failing constraint) x bodies x 6 security/callback "
                "behaviours x preset GetBody x SkipSettingDefaults; + parameter defaults (query/header/cookie x int/str/array x explode) x present "
                "x skip x other query parameter present; each case validated twice")
    ctx.validate("Trace_C13", "Trace_C13.cfg", logp, chunk_lines=100)
