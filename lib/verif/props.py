"""Per-property pipelines live in p_cXX.py; importing this module registers all of them."""
import glob
import importlib
import os

from .common import PIPELINES

for _f in sorted(glob.glob(os.path.join(os.path.dirname(__file__), "p_c*.py"))):
    importlib.import_module("." + os.path.basename(_f)[:-3], __package__)
