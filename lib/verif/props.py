"""Per-property pipelines.  TLC decides; Python only moves files and counts."""
import json
import os
import random

from .core import Ctx, Infra, casehash, log

PIPELINES = {}


def pipeline(f):
    PIPELINES[f.__name__.upper()] = f
    return f


def write_ndjson(path, objs):
    with open(path, "w") as f:
        for o in objs:
            f.write(json.dumps(o) + "\n")


def read_ndjson(path):
    return [json.loads(l) for l in open(path) if l.strip()]


def sample(rng, xs, k):
    xs = list(xs)
    return xs if len(xs) <= k else rng.sample(xs, k)


# ----------------------------------------------------------------------------- C14
@pipeline
def c14(ctx: Ctx):
    tier = ctx.tier
    cases = os.path.join(ctx.scratch, "cases.ndjson")
    ctx.assumptions = [
        "TLC and the CommunityModules Json/CSV modules",
        "the harness's scripted handler, recording ResponseWriter (net/http status-code panic emulated) and request realiser (harness/c14.go)",
        "one fixed test document (3 operations, response map {200: json schema, 201: no content}); handler alphabet and body tokens as in spec/Middleware.tla",
        "bodies made of a complete valid JSON document followed by more bytes are outside the universe (Clear)",
    ]
    if ctx.replay:
        v = ctx.replay["violation"]
        write_ndjson(cases, [dict(cfg=v["cfg"], script=v["script"])])
    else:
        # D: the pinned-tree variant of the model must still show the design-level defect (model drift guard)
        ctx.tlc("MC_C14", "MC_C14_pinned.cfg", expect_violation=True, label="D pinned-model counterexample")
        # D + F: exhaustive L2 => L1 and generation of every behaviour
        ctx.tlc("MC_C14", "MC_C14_%s.cfg" % tier, label="D/F exhaustive L2=>L1 + generate")
        n = ctx.unquote(ctx.spec("cases.ndjson"), cases)
        ctx.exhaustive = True
        ctx.extra["generator_constants"] = {"MaxCalls": 3 if tier == "quick" else 4}
        log("[gen] %d behaviours" % n)
    ctx.build_driver()
    logp = os.path.join(ctx.scratch, "log.ndjson")
    ctx.drive(cases, logp)
    cs = read_ndjson(cases)
    ctx.evaluations = len(cs)
    for c in cs:
        if c["script"] or not c["cfg"]["reqClass"].startswith("valid"):
            ctx.nontrivial.add(casehash(c))
    ctx.rule = ("every terminal state of spec/Middleware.tla (all handler call sequences up to MaxCalls over 12 calls x "
                "strict x 9 request classes x 2 errFunc modes) is one case; non-trivial = gate-failing request or non-empty handler script")
    rng = random.Random(ctx.seed)
    ctx.samples = sample(rng, cs, 5)
    ctx.validate("Trace_C14", "Trace_C14.cfg", logp, run_start=lambda o: o.get("ev") == "cfg")


# ----------------------------------------------------------------------------- C01
def gen_schemas(ctx, cfg, label):
    """Run the schema generator; returns (cases path, vals path)."""
    ctx.tlc("Gen_C01", cfg, label=label)
    cases = os.path.join(ctx.scratch, "cases.ndjson")
    vals = os.path.join(ctx.scratch, "vals.ndjson")
    n = ctx.unquote(ctx.spec("cases.ndjson"), cases)
    ctx.unquote(ctx.spec("vals.ndjson"), vals)
    log("[gen] %d schemas" % n)
    return cases, vals


@pipeline
def c01(ctx: Ctx):
    ctx.assumptions = [
        "TLC; spec/SchemaSem.tla as the transcription of draft-4/OpenAPI 3.0 keyword semantics (null per the library's documented NullRule)",
        "harness realiser (abstract schema -> OpenAPI JSON -> real loader) guarded by the rs = s round trip judged by TLC",
        "numbers are quarters, strings over a small alphabet incl. one astral rune, five fixed patterns; format/discriminator are outside this oracle (C12)",
    ]
    if ctx.replay:
        v = ctx.replay["violation"]
        cases = os.path.join(ctx.scratch, "cases.ndjson")
        write_ndjson(cases, [dict(s=v["s"], vals=[v["v"]] if "v" in v else [])])
        vals = os.path.join(ctx.scratch, "vals.ndjson")
        write_ndjson(vals, [])
    else:
        cases, vals = gen_schemas(ctx, "Gen_C01_%s.cfg" % ctx.tier, "F generate schemas (BFS)")
        ctx.exhaustive = True
    ctx.build_driver()
    logp = os.path.join(ctx.scratch, "log.ndjson")
    ctx.drive(cases, logp, env={"VERIF_VALS": vals})
    lines = 0
    rng = random.Random(ctx.seed)
    for l in open(logp):
        o = json.loads(l)
        lines += 1
        nv = len(o.get("of", []))
        ctx.evaluations += 3 * nv
        verd = set(o.get("of", []))
        if len(verd) > 1:  # the schema separates the value list: some accepted, some rejected
            ctx.nontrivial.add(casehash(o["s"]))
        if rng.random() < 5.0 / 20000:
            ctx.samples.append(dict(s=o["s"], of="".join(o.get("of", []))))
    ctx.rule = ("cases = every schema reachable in spec/Gen_C01.tla within (K, KO, W), each judged on the %d-value list of "
                "spec/SchemaUniverse.tla in 3 forms (VisitJSON float64, VisitJSON json.Number, IsMatching); evaluations counts "
                "(schema, value, form) judgements; non-trivial = distinct schemas that accept some and reject some values") % 44
    ctx.validate("Trace_C01", "Trace_C01.cfg", logp, chunk_lines=1200)
