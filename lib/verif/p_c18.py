"""C18 pipeline: schemas generated from Go types accept every JSON encoding of the type."""
import concurrent.futures as cf
import json
import os
import random
import shutil

from .common import *
from .core import VERIF, Ctx, Infra, casehash, log


# wall-clock limit of one TLC run: the machine is shared, a run of one minute has been seen to take fifteen under load
TLC_LIMIT = 3600

ROTATE = ["string", "uint64", "time", "bytes", "float32", "bool", "int64", "uint8", "RPtrOE", "int32", "N2", "float64", "NI8", "Items", "NSl",
          "int16", "uint", "RMapV", "uint16", "int", "uint32", "RSlice"]


def _witnesses(isolated):
    """Witness cases of the open C18 findings.  isolated: those that must run in a driver process of their
    own with a short watchdog (non-terminating generation that allocates quadratically)."""
    kf = json.load(open(os.path.join(VERIF, "known_findings.json")))
    return [f["witness"] for f in kf.get("findings", [])
            if f.get("property") == "C18" and f.get("status") == "open" and "witness" in f
            and bool(f.get("isolated")) == isolated]


def _has(t, pred):
    if pred(t):
        return True
    k = t.get("k")
    if k in ("ptr", "slice", "map"):
        return _has(t["e"], pred)
    if k == "struct":
        return any(_has(f["t"], pred) for f in t["f"])
    return False


@pipeline
def c18(ctx: Ctx):
    tier = ctx.tier
    ctx.assumptions = [
        "TLC and the CommunityModules Json/CSV modules; spec/SchemaSem.tla as the reference semantics of schema validation, "
        "spec/GoSchema.tla for $ref unfolding and the OpenAPI formats (int32 int64 byte date-time date)",
        "spec/GoTypes.tla as the model of encoding/json (field visibility, embedding/dominance, omitempty, nil, base64, RFC 3339): "
        "checked against the real encoder on every value of every run",
        "harness/c18.go: realiser (reflect.StructOf/SliceOf/MapOf/PointerTo + the declared types of harness/c18_types.go, whose "
        "reflection is compared with GoTypes!Defs by TLC) and projector (schema JSON -> abstract schema; numbers -> order codes "
        "of the boundary table written by TLC, compared exactly with math/big)",
        "numbers are judged on the JSON text encoding/json writes: the boundary table holds the integer bounds and, for the float kinds, +-MaxFloat32 as 3.4028235e+38 (above the exact float64(MaxFloat32), also a point), +-MaxFloat64 and the smallest denormals",
        "values: a covering list per type (every leaf runs through its boundary values, every pointer/slice/map through nil/empty "
        "and non-empty; at most 6 per type), recursive values unfolded to depth 2 - the mutually recursive families to depth 7 with at most 8 values, so that a cycle of length 3 is passed twice; 64-bit int",
        "reflect cannot create named or method-carrying types nor unexported fields: recursion, component names, defined non-struct types "
        "(type NI8 int8, type Items []Item, type Stamp time.Time) and unexported fields come from the 48 declared types only (an unexported field "
        "only ever holds its zero value); yaml tags, arrays, interfaces, non-string map keys, json.RawMessage, types with marshalling methods "
        "(a struct embedding time.Time), a slice of a defined uint8 type, a defined map type embedded through reflect.StructOf are outside the universe",
        "the json \",string\" option is part of the universe: GoTypes!EncQuoted models what encoding/json writes for the quoted kinds (decimal / shortest float text, "
        "true/false, the JSON text of a string with < escaped) and that the option is ignored elsewhere",
        "ThrowErrorOnCycle is judged by its documented behaviour: a CycleError exactly for the types that are recursive through the fields the generator considers "
        "(GoTypes!Recursive); the no-op SchemaCustomizer option set must behave like the default one",
        "histories: one Generator asked twice (the base type, or the same type, first), the judged call with the same or with a new component map; each call is held to the same contract",
        "the type-name generator option sets (tng*) use one fixed function (prefix \"T_\", checked by TLC against what the harness "
        "installed) and are enumerated over the types that reach a declared struct type",
        "what the generator stores in the component map can depend on map iteration order: the mutually recursive types are generated "
        "Reps times (20 quick / 100 thorough) with fresh generators, runs with identical observations share one judged log line",
        "component export (CreateComponentSchemas) is enumerated over types whose component-forming structs are declared ones "
        "(anonymous structs all get the component name \"\": listed finding with its own witness)",
    ]
    cases = os.path.join(ctx.scratch, "cases.ndjson")
    points = os.path.join(ctx.scratch, "points.ndjson")
    if ctx.replay:
        v = ctx.replay["violation"]
        ctx.tlc("Gen_C18", "Gen_C18_points.cfg", label="F point table only", workers=1)
        ctx.unquote(ctx.spec("points.ndjson"), points)
        # a verdict that may depend on map iteration order inside the generator is replayed repeatedly
        case = dict(T=v["T"], opt=v["opt"], vals=v["gvs"], reps=50)
        if v.get("hist"):
            case.update(first=v["hist"][0]["first"], share=v["hist"][0]["share"])
        write_ndjson(cases, [case])
    else:
        # D: the implementation-shaped model of the generator against the contract
        ctx.tlc("MC_C18", "MC_C18_pinned.cfg", expect_violation=True, label="D pinned-model counterexample")
        # drift guard: the generator model without the repairs of F-C18-8, 9, 11 must be refuted by the contract
        ctx.tlc("MC_C18", "MC_C18_unrepaired.cfg", expect_violation=True, workers=4, timeout=TLC_LIMIT,
                label="D model without repairs 8/9/11 refuted")
        # F: enumerate types x option sets, with their value lists.  The seed picks which further base
        # gets the deep treatment (full wrapper set at two levels) next to the fixed ones.
        rot = ROTATE[ctx.seed % len(ROTATE)]
        cfg = open(ctx.spec("Gen_C18_%s.cfg" % tier)).read().replace("Deep = {", 'Deep = {"%s", ' % rot)
        ctx.extra["generator_constants"] = cfg.split("CONSTANTS")[1].split("INVARIANTS")[0].split()
        open(ctx.spec("Gen_C18_run.cfg"), "w").write(cfg.replace('Which = "all"', 'Which = "rest"'))
        open(ctx.spec("Gen_C18_run_deep.cfg"), "w").write(cfg.replace('Which = "all"', 'Which = "deep"'))
        # two generator runs side by side: all bases with many workers (writes the short case lines) and the mutually
        # recursive families with one worker (writes the long lines: concurrent CSVWrite is atomic up to 8 KB only)
        deepdir = os.path.join(ctx.scratch, "spec-deep")
        shutil.copytree(ctx.specdir, deepdir)
        mcdir = os.path.join(ctx.scratch, "spec-mc")
        shutil.copytree(ctx.specdir, mcdir)
        with cf.ThreadPoolExecutor(max_workers=3) as ex:
            # D (the generator model against the contract, outside the listed findings) runs next to F
            f0 = ex.submit(ctx.tlc, "MC_C18", "MC_C18_%s.cfg" % tier, cwd=mcdir, timeout=TLC_LIMIT, workers=max(2, (os.cpu_count() or 4) // 2),
                           label="D L2 generator model => L1 (outside listed findings)")
            f1 = ex.submit(ctx.tlc, "Gen_C18", "Gen_C18_run.cfg", timeout=TLC_LIMIT, label="F generate types x options (BFS, deep base %s)" % rot)
            f2 = ex.submit(ctx.tlc, "Gen_C18", "Gen_C18_run_deep.cfg", workers=1, cwd=deepdir, timeout=TLC_LIMIT,
                           label="F generate mutually recursive families x options (BFS)")
            f0.result()
            f1.result()
            f2.result()
        n = ctx.unquote(ctx.spec("cases.ndjson"), cases)
        deepcases = os.path.join(ctx.scratch, "cases_deep.ndjson")
        n += ctx.unquote(os.path.join(deepdir, "cases.ndjson"), deepcases)
        with open(cases, "a") as f:
            f.writelines(open(deepcases))
        ctx.unquote(ctx.spec("points.ndjson"), points)
        ctx.exhaustive = False      # the tier drives seeded slices (VERIF_SEED) next to its exhaustive core: not a complete enumeration of one finite space
        if tier == "thorough":
            # deeper types (up to 5 wraps) sampled by TLC's simulator from the same generator
            os.remove(ctx.spec("cases.ndjson"))
            ctx.tlc("Gen_C18", "Gen_C18_sim.cfg", simulate="num=300", depth=6, workers=1,
                    label="F sample deeper types (-simulate)")  # one worker: concurrent CSVWrite is only safe in BFS mode
            sim = os.path.join(ctx.scratch, "sim.ndjson")
            ctx.unquote(ctx.spec("cases.ndjson"), sim)
            seen = set(l for l in open(cases))
            extra = []
            for l in open(sim):
                if l not in seen:
                    seen.add(l)
                    extra.append(l)
            with open(cases, "a") as f:
                f.writelines(extra)
            log("[gen] +%d sampled deeper cases" % len(extra))
            n += len(extra)
        wit = _witnesses(False)
        with open(cases, "a") as f:
            for w in wit:
                f.write(json.dumps(w) + "\n")
        log("[gen] %d cases (+%d finding witnesses)" % (n, len(wit)))
    ctx.build_driver()
    logp = os.path.join(ctx.scratch, "log.ndjson")
    env = {"VERIF_POINTS": points, "VERIF_C18_BREAKER": os.path.join(ctx.scratch, "breaker")}
    if ctx.replay:
        env["VERIF_C18_TIMEOUT_MS"] = "5000"   # a replayed non-termination must not run for the full period
        env["VERIF_C18_MAXSTACK_KB"] = "65536"  # ... nor allocate for a minute: it dies early with a stack overflow (crash)
    ctx.drive(cases, logp, env=env, shards=4 if tier == "thorough" and not ctx.replay else 1)
    iso = [] if ctx.replay else _witnesses(True)
    if iso:
        icases, ilog = os.path.join(ctx.scratch, "cases_iso.ndjson"), os.path.join(ctx.scratch, "log_iso.ndjson")
        write_ndjson(icases, iso)
        ctx.drive(icases, ilog, env={"VERIF_POINTS": points, "VERIF_C18_TIMEOUT_MS": "3000", "VERIF_C18_MAXSTACK_KB": "2048"})
        with open(logp, "a") as f:
            f.writelines(open(ilog))
    rng = random.Random(ctx.seed)
    nlines = runs = 0
    for l in open(logp):
        o = json.loads(l)
        nlines += 1
        nv = len(o.get("vals", []))
        runs += o.get("nrep", 1)
        ctx.evaluations += 2 * nv * o.get("nrep", 1)
        t = o["T"]
        # non-trivial: the type has structure (a pointer, container, struct or declared type) and at least two values
        if t.get("k") in ("ptr", "slice", "map", "struct", "named") and nv >= 2:
            ctx.nontrivial.add(casehash(dict(T=t, opt=o["opt"], first=o.get("first"), share=o.get("share"))))
        if rng.random() < 6.0 / 5000:
            ctx.samples.append(dict(T=t, opt=o["opt"], S=o.get("S"), json=[v.get("json") for v in o.get("vals", [])][:2]))
    ctx.rule = ("cases = every (Go type, option set) reachable in spec/Gen_C18.tla within (W, WS, Deep) - a base kind or declared "
                "type (struct, defined non-struct type, recursive family) wrapped up to W times by pointer/slice/map/19 struct forms, with a history of the Generator (none / base or same type generated before, same or new map) (quick: +1 seed-chosen deep base; thorough: + deeper types sampled with -simulate) - each with the covering value list "
                "GoVals(T); evaluations counts (type, options, value, input form) validations against the real generated schema; "
                "non-trivial = distinct (type, options) whose type is composite and has at least two values that do not encode as null")
    ctx.extra["generator_runs"] = runs     # generations with fresh generators (identical observations share a log line)
    # one TLC process per core in quick (a single round), three rounds in thorough
    per = nlines // 16 + 1 if nlines < 16000 else nlines // 48 + 1
    ctx.validate("Trace_C18", "Trace_C18.cfg", logp, chunk_lines=per, timeout=TLC_LIMIT)
