"""C02 pipeline: loading resolves every $ref to exactly the object it designates."""
import json
import os
import random

from .common import *
from .core import Ctx, Infra, casehash, log


def gen_universes(ctx, tier, label="F generate multi-file universes"):
    ctx.tlc("Gen_C02", "Gen_C02_%s.cfg" % tier, label=label)
    cases = os.path.join(ctx.scratch, "cases.ndjson")
    n = ctx.unquote(ctx.spec("cases.ndjson"), cases)
    log("[gen] %d universes" % n)
    return cases


@pipeline
def c02(ctx: Ctx):
    ctx.assumptions = [
        "D: spec/LoaderImpl.tla models the resolver as written (fixed walk order, in-progress set keyed by the raw ref string, waiters, chains; the pre-repair walk that skipped positions is kept as a pinned variant); MC_C02 checks it against the contract on all 6.6k universes (strict agreement on clean ones, listed deviations reproduced); the trace spec compares every observed site with the model's prediction (fidelity)",
        "TLC; spec/Layout.tla: URI resolution of a ref against the file that contains it ('.'/'..' normalisation), JSON pointer into components, chains followed to a concrete object",
        "harness realiser harness/c02.go: universes written as JSON files in a temp dir (every concrete object carries a unique x-id extension) and loaded through LoadFromFile (absolute / relative) or LoadFromDataWithPath; projector: generic reflection walk over every *Ref value of the returned document",
        "one reference graph per universe (9 component kinds + path items x their child sites and pairs of sites x ~60 shapes x 3 path spellings x 3 root positions x 14 entry points / Loader histories); JSON files only",
        "D: spec/LoaderReuse.tla models what a Loader keeps between uses (visited-documents cache, in-progress set, the switch flipped between uses); bound to the code by the *_toggled / *_retry entries",
    ]
    if ctx.replay:
        cases = os.path.join(ctx.scratch, "cases.ndjson")
        # the violation carries the abstract case; regenerate the rendered form by filtering a fresh generation
        allc = gen_universes(ctx, "thorough")
        want = ctx.replay["violation"]["c"]
        keep = [c for c in read_ndjson(allc) if all(c.get(k) == want.get(k) for k in ("kind", "style", "entry", "pos", "shape", "site"))]
        write_ndjson(cases, keep)
    else:
        # D: the resolver model (LoaderImpl) vs the contract on every universe; must agree exactly on clean universes
        # and reproduce the listed deviations (conflation, pure cycles)
        ctx.tlc("MC_C02", "MC_C02.cfg", label="D LoaderImpl vs Designated on all universes (strict on clean, reproduces listed deviations)")
        ctx.tlc("MC_C02", "MC_C02_pinned.cfg", expect_violation=True, label="D pinned resolver (before the repairs of F-C02-1): positions never visited")
        # D: what a Loader keeps between uses (visited-documents cache, in-progress set, the switch flipped between uses) as a state
        # machine over all histories of <= 4 uses.  The code as built (since fcc1715) behaves like a fresh Loader at every use of
        # the plain universe; the design before that repair does not (F-C02-6, refuted variant; its shortest counterexamples are the
        # entries file_abs_retry / resolvein_retry realised below); as built, a universe whose external document refers back into
        # the root still does not, because the cache lives as long as the Loader (open finding F-C02-7; entry file_abs_prior x
        # crossdoc_local in the thorough tier); the variant "visited documents belong to one load" would
        ctx.tlc("LoaderReuse", "MC_LoaderReuse_asbuilt.cfg", workers=2, label="D LoaderReuse (as built): every use of a used Loader is like a fresh one")
        ctx.tlc("LoaderReuse", "MC_LoaderReuse_pinned.cfg", workers=2, expect_violation=True, label="D LoaderReuse (design before fcc1715, refuted): UsedLikeFresh counterexample (F-C02-6)")
        ctx.tlc("LoaderReuse", "MC_LoaderReuse_backref.cfg", workers=2, expect_violation=True, label="D LoaderReuse (as built, external document refers back into the root): UsedLikeFresh counterexample (open F-C02-7)")
        ctx.tlc("LoaderReuse", "MC_LoaderReuse_perload.cfg", workers=2, label="D LoaderReuse (variant: visited documents per load): like a fresh one also with back references")
        cases = gen_universes(ctx, ctx.tier)
        ctx.exhaustive = True
    ctx.build_driver()
    logp = os.path.join(ctx.scratch, "log.ndjson")
    ctx.drive(cases, logp, shards=(8 if ctx.tier == "thorough" else 4))
    rng = random.Random(ctx.seed)
    for l in open(logp):
        o = json.loads(l)
        ctx.evaluations += 1
        if o["c"]["shape"] not in ("direct", "sameroot"):
            ctx.nontrivial.add(casehash(o["c"]))
        if rng.random() < 6.0 / 1000:
            ctx.samples.append(dict(c={k: o["c"][k] for k in ("kind", "shape", "site", "style", "pos", "entry")}, load=o["load"], sites=o["sites"][:3]))
    ctx.rule = ("product of spec/Gen_C02.tla (kind x child site x shape x spelling x root position x entry point; quick = the slice QuickSlice); "
                "non-trivial = every universe except the direct / same-document ones")
    ctx.validate("Trace_C02", "Trace_C02.cfg", logp, chunk_lines=300)
