"""C15 pipeline: a loaded document can be shared by concurrent validations."""
import json
import os
import random

from .common import *
from .core import Ctx, Infra, casehash, log


@pipeline
def c15(ctx: Ctx):
    ctx.assumptions = [
        "TLC; spec/SharedState.tla: the access sequences of the catalogue's operations transcribed from the code (pattern cache = sync.Map, typeInfos under a mutex, defaults deep-copied, route copied); all interleavings are exhausted in the model only",
        "on the code the Go race detector is the sensor (happens-before based: it reports a race whenever both accesses occurred unordered in the run, independent of timing, but only for access pairs the chosen operations actually perform): 8 goroutines per operation released together, 30 (quick) / 100 (thorough) iterations, fresh pattern strings and Go types per case so first-use paths overlap",
        "T.Validate and router construction are documented writers and are not part of the validation-time catalogue",
    ]
    cases = os.path.join(ctx.scratch, "cases.ndjson")
    if ctx.replay:
        write_ndjson(cases, [ctx.replay["violation"]["c"]])
    else:
        ctx.tlc("SharedState", "MC_C15.cfg", label="D all interleavings of 3 operations: NoRace")
        ctx.tlc("SharedState", "MC_C15_pinned.cfg", expect_violation=True, label="D pinned-model counterexample (shared default written)")
        ctx.tlc("Gen_C15", "Gen_C15_%s.cfg" % ctx.tier, label="F generate operation multisets")
        n = ctx.unquote(ctx.spec("cases.ndjson"), cases)
        log("[gen] %d multisets" % n)
        ctx.exhaustive = True
    race = ctx.build_driver(race=True)
    logp = os.path.join(ctx.scratch, "log.ndjson")
    ctx.drive(cases, logp, driver=race, env={"GORACE": "halt_on_error=1 exitcode=66"}, shards=4, timeout=5400)
    rng = random.Random(ctx.seed)
    for l in open(logp):
        o = json.loads(l)
        ctx.evaluations += 1
        if len(o["c"]["ops"]) > 1:
            ctx.nontrivial.add(casehash(o["c"]))
        if rng.random() < 0.08:
            ctx.samples.append(dict(c=o["c"], outcome=o["outcome"], runs=o.get("runs", [])[:2]))
    ctx.rule = ("every multiset of <=2 (quick) / <=3 (thorough) operations out of the 10 validation-time operations; each is one concurrent run "
                "under -race; non-trivial = multisets of at least two operations")
    ctx.validate("Trace_C15", "Trace_C15.cfg", logp, chunk_lines=60)
