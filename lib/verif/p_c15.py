"""C15 pipeline: a loaded document can be shared by concurrent validations."""
import concurrent.futures as cf
import json
import os
import random
import re

from .common import *
from .core import Ctx, Infra, casehash, log

# MC_C15!Variants: the code as built and the two settings edits that are harmless alone keep NoRace; every other design
# (one mechanism dropped) has a counterexample that is pinned here
SAFE = ["as_built", "settings_shared", "settings_toggled", "router_hint"]
UNSAFE = ["default_aliased", "route_shared", "settings_shared_toggled", "registry_lazy", "typeinfos_unlocked",
          "pattern_cache_plain", "uricache_unlocked", "unique_lazy", "writers_included"]


def _design_checks(ctx):
    src = open(ctx.spec("MC_C15.cfg")).read()

    def one(v):
        cfg = "MC_C15_%s.cfg" % v
        with open(ctx.spec(cfg), "w") as f:
            f.write(src.replace('Variant = "as_built"', 'Variant = "%s"' % v))
        if v in SAFE:
            return ctx.tlc("MC_C15", cfg, workers=1, xmx="1g", timeout=3000, label="D %s: all interleavings of 2 operations, NoRace" % v)
        return ctx.tlc("MC_C15", cfg, workers=1, xmx="1g", timeout=3000, expect_violation=True, label="D %s: pinned counterexample" % v)

    with cf.ThreadPoolExecutor(max_workers=6) as ex:
        list(ex.map(one, SAFE + UNSAFE))
    # routers over overlapping routes: the answer is a function of document and request (RouteOrder); remembering the last match is not
    ctx.tlc("RouteOrder", "MC_C15R.cfg", workers=1, xmx="1g", label="D RouteOrder stateless: every answer is the prescribed route")
    ctx.tlc("RouteOrder", "MC_C15R_hinted.cfg", workers=1, xmx="1g", expect_violation=True, label="D RouteOrder hinted: pinned counterexample")
    if ctx.tier == "thorough":
        # 7.7M states, 2-3 min: spec-only, so it runs next to generation and the concurrent runs and is joined before the verdict
        ex3 = cf.ThreadPoolExecutor(max_workers=1)
        return ex3.submit(ctx.tlc, "MC_C15", "MC_C15_3.cfg", workers=4, timeout=3000,
                          label="D as_built: all interleavings of 3 operations, NoRace NoDeadlock")
    return None


@pipeline
def c15(ctx: Ctx):
    ctx.assumptions = [
        "TLC; spec/SharedState.tla: every piece of process-wide or document-attached mutable state is a location; the access sequence of an operation <<entry, feature>> is composed from the entry's and the feature's accesses, transcribed from the code; all interleavings are exhausted in the model only",
        "on the code the Go race detector is the sensor (happens-before based: it reports a race whenever both accesses occurred unordered in the run, independent of timing, but only for access pairs the chosen operations actually perform): 8 goroutines per operation released together, 100 (quick) / 50 (thorough) iterations, fresh pattern strings, media types and Go types per case so first-use paths overlap",
        "T.Validate, router construction and the Register* / Define* functions are documented writers and are not part of the validation-time catalogue (MC_C15 variant writers_included shows why)",
        "the error type is part of what a call returns (classified with errors.As, never by text)",
    ]
    cases = os.path.join(ctx.scratch, "cases.ndjson")
    pending = None
    if ctx.replay:
        write_ndjson(cases, [ctx.replay["violation"]["c"]])
    else:
        pending = _design_checks(ctx)
        cfg = "Gen_C15_%s_seeded.cfg" % ctx.tier
        with open(ctx.spec(cfg), "w") as f:
            f.write(re.sub(r"Seed = \d+", "Seed = %d" % ctx.seed, open(ctx.spec("Gen_C15_%s.cfg" % ctx.tier)).read()))
        ctx.tlc("Gen_C15", cfg, label="F generate concurrent runs", xmx="4g")
        n = ctx.unquote(ctx.spec("cases.ndjson"), cases)
        log("[gen] %d cases" % n)
        ctx.exhaustive = True
    race = ctx.build_driver(race=True)
    logp = os.path.join(ctx.scratch, "log.ndjson")
    ctx.drive(cases, logp, driver=race, env={"GORACE": "halt_on_error=1 exitcode=66"}, shards=(8 if ctx.tier == "quick" else 12), timeout=7200)
    rng = random.Random(ctx.seed)
    for l in open(logp):
        o = json.loads(l)
        ctx.evaluations += 1
        if len(o["c"]["ops"]) > 1 or o["c"].get("init", "default") != "default":
            ctx.nontrivial.add(casehash(o["c"]))
        if rng.random() < 0.02:
            ctx.samples.append(dict(c=o["c"], outcome=o["outcome"], runs=o.get("runs", [])[:2]))
    ctx.rule = ("flat operations: every multiset of <=2 (quick) / <=3 (thorough); product operations <<entry, feature>>: each alone, "
                "every pair of entries and every pair of features (quick; the feature / entry they meet in chosen by the seed) / every pair "
                "(thorough); media types: every <<side, declared.sent>> alone and next to a JSON body; routers over overlapping routes: every <<entry, shape>> alone and every pair on one router; flat x product / media by the seed; "
                "process configurations (uniqueness checker replaced / nil, details off).  Each case is one concurrent run under -race; "
                "non-trivial = at least two operations or a non-default configuration")
    ctx.validate("Trace_C15", "Trace_C15.cfg", logp, chunk_lines=(60 if ctx.tier == "quick" else 400))
    if pending is not None:
        pending.result()      # (an Infra raised by the design check surfaces here)
