"""C08 pipeline: responses are checked against the entry chosen for their status code."""
import json
import os
import random

from .common import *
from .core import Ctx, Infra, casehash, log
from .c08h import history_clause, is_history_replay


@pipeline
def c08(ctx: Ctx):
    ctx.assumptions = [
        "TLC; spec/ResponseCheck.tla (Pick, header rules, MediaSelect, response-side schema reading) as the contract; PickLaws checked by TLC",
        "harness realiser harness/c08.go (documents built per case and loaded through the real loader; each response-map entry accepts only bodies carrying its own marker property, so the chosen entry is observable through the verdict)",
        "wildcard content is exercised with JSON bodies only (a declared application/* with a body the library has no decoder for is an implementation limit, not part of the statement)",
    ]
    if is_history_replay(ctx):
        return history_clause(ctx)
    cases = os.path.join(ctx.scratch, "cases.ndjson")
    if ctx.replay:
        write_ndjson(cases, [ctx.replay["violation"]["c"]])
    else:
        ctx.tlc("Gen_C08", "Gen_C08.cfg", label="D PickLaws + F generate cases")
        n = ctx.unquote(ctx.spec("cases.ndjson"), cases)
        log("[gen] %d cases" % n)
        ctx.exhaustive = True
    ctx.build_driver()
    logp = os.path.join(ctx.scratch, "log.ndjson")
    ctx.drive(cases, logp, shards=8)
    rng = random.Random(ctx.seed)
    for l in open(logp):
        o = json.loads(l)
        ctx.evaluations += 1
        ctx.nontrivial.add(casehash(o["c"]))
        if rng.random() < 6.0 / 17000:
            ctx.samples.append(dict(c=o["c"], verdict=o.get("verdict")))
    ctx.rule = ("complete product of spec/Gen_C08.tla: (response maps of <=3 keys out of {200,201,404,2XX,4XX,default} x 12 status codes x GET/HEAD x "
                "strict-status x which entry's marker the body carries) + (5 header declarations x 4 header texts x 6 content declarations x 4 "
                "content types x 8 bodies x ExcludeResponseBody x ExcludeWriteOnlyValidations x MultiError); every case is distinct and judged")
    ctx.validate("Trace_C08", "Trace_C08.cfg", logp, chunk_lines=1500)
    if not ctx.replay:
        history_clause(ctx)
