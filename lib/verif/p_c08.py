"""C08 pipeline: responses are checked against the entry chosen for their status code."""
import json
import os
import random

from .common import *
from .core import Ctx, Infra, casehash, log
from .c08h import history_clause, is_history_replay


@pipeline
def c08(ctx: Ctx):
    ctx.assumptions = [
        "TLC; spec/ResponseCheck.tla (Pick, header rules, MediaSelect, response-side schema reading) as the contract; PickLaws checked by TLC",
        "spec/HeaderRead.tla: a header text satisfies its schema iff some reading of it (the inverse of the OAS simple style, spec/ParamCodec.tla; TextReadingsSound checked by TLC) is valid; left open (three-valued contract, cases still executed): an empty text / empty piece where the readings 'empty string' and 'no value' differ in verdict, a header on several field lines where the first line and the comma-joined list differ, non-canonical spellings of booleans and numbers, header schemas without a type or with 'not'",
        "spec/BodyKeep.tla: 'the body stays readable afterwards' over sequential histories of validate(r) / read(r, n) calls in one process (D: design 'copy' => L1; 'pooled', 'drain', 'restore_ok' each refuted)",
        "harness realiser harness/c08.go, harness/c08h.go (documents built per case and loaded through the real loader; each response-map entry accepts only bodies carrying its own marker property, so the chosen entry is observable through the verdict)",
        "wildcard content is exercised with JSON bodies only (a declared application/* or */* with a body the library has no decoder for is an implementation limit, not part of the statement)",
    ]
    if is_history_replay(ctx):
        return history_clause(ctx)
    cases = os.path.join(ctx.scratch, "cases.ndjson")
    if ctx.replay:
        write_ndjson(cases, [ctx.replay["violation"]["c"]])
    else:
        ctx.tlc("Gen_C08", "Gen_C08_thorough.cfg" if ctx.tier == "thorough" else "Gen_C08.cfg", label="D PickLaws, TextReadingsSound + F generate cases")
        n = ctx.unquote(ctx.spec("cases.ndjson"), cases)
        log("[gen] %d cases" % n)
        ctx.exhaustive = True
    ctx.build_driver()
    logp = os.path.join(ctx.scratch, "log.ndjson")
    ctx.drive(cases, logp, shards=8)
    rng = random.Random(ctx.seed)
    for l in open(logp):
        o = json.loads(l)
        ctx.evaluations += 1
        ctx.nontrivial.add(casehash(o["c"]))
        if rng.random() < 6.0 / 17000:
            ctx.samples.append(dict(c=o["c"], verdict=o.get("verdict")))
    ctx.rule = ("complete product of spec/Gen_C08.tla: (response maps of <=3 keys out of 8 (11 thorough) x 15 (22) status codes x GET/HEAD x strict-status x which "
                "entry's marker the body carries) + (header declarations x header texts x 7 content declarations x 5 content types x bodies x ExcludeResponseBody x "
                "ExcludeWriteOnlyValidations x MultiError) + body schema behind 6 wraps + part media (content maps of <=3 keys out of 6, with and without parameters, media ranges x 6 Content-Types x which entry's marker the body carries) + part hdr (spec/HeaderUniverse.tla: 19 header schemas x 34 texts x required x "
                "explode x options; two declared headers; undeclared header; two field lines; a definition named Content-Type; $ref / nil-Options variants) + every history "
                "of spec/BodyKeep.tla (validate / read calls over 2-3 responses); every case is distinct and judged")
    ctx.validate("Trace_C08", "Trace_C08.cfg", logp, chunk_lines=max(1500, ctx.evaluations // 32 + 1))
    if not ctx.replay:
        history_clause(ctx)
