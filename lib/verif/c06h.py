"""Registry clause of C06 (also serves C15): spec/BodyRegistry.tla -- the process-wide body decoder / encoder
registries as a state machine; every history of <= MaxSteps API calls is replayed in one process against the real
registries and TLC folds the contract over the recorded calls (spec/Trace_C06H.tla)."""
import json
import os

from .common import *
from .core import Ctx, Infra, casehash, log


def is_registry_replay(ctx):
    return bool(ctx.replay) and "steps" in ctx.replay["violation"].get("c", {})


def registry_clause(ctx: Ctx):
    cases = os.path.join(ctx.scratch, "cases_reg.ndjson")
    if ctx.replay:
        write_ndjson(cases, [ctx.replay["violation"]["c"]])
        n = 1
    else:
        # D: the pinned design satisfies the contract over all histories; each of the other plausible designs has a counterexample
        ctx.tlc("Gen_C06H", "Gen_C06H_%s.cfg" % ctx.tier, label="D registry policy 'explicit' => L1, only (un)register writes; F histories")
        for pol in ("register_on_use", "raw_header_key", "unregister_noop"):
            ctx.tlc("Gen_C06H", "MC_C06H_%s.cfg" % pol, expect_violation=True, label="D registry policy '%s' breaks L1" % pol)
        ctx.tlc("Gen_C06H", "MC_C06H_register_on_use_writes.cfg", expect_violation=True,
                label="D registry policy 'register_on_use' writes from a validation")
        n = ctx.unquote(ctx.spec("cases_reg.ndjson"), cases)
        log("[gen] %d registry histories" % n)
    ctx.build_driver()
    logp = os.path.join(ctx.scratch, "log_reg.ndjson")
    ctx.drive(cases, logp, prop="C06H", shards=1 if ctx.replay else 8)
    k = 0
    for l in open(logp):
        o = json.loads(l)
        ctx.evaluations += len(o.get("obs", []))
        ctx.nontrivial.add(casehash(o["c"]))
        k += 1
        if k in (1, n // 2):
            ctx.samples.append(dict(history=o["c"]["steps"], obs=o["obs"]))
    ctx.extra["registry_histories_replayed_in_one_process"] = n
    ctx.validate("Trace_C06H", "Trace_C06H.cfg", logp, chunk_lines=max(200, n // 16 + 1))
