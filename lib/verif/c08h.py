"""History clause of C08 ("the response body stays readable afterwards"): spec/BodyKeep.tla -- how ValidateResponse keeps the
bytes it consumed, as a state machine with four designs (D); every history of <= MaxSteps calls validate(r) / read(r, n) over
<= MaxResp responses is replayed in one process against the real code and TLC folds the contract over the recorded calls
(spec/Trace_C08H.tla)."""
import json
import os

from .common import *
from .core import Ctx, Infra, casehash, log


def is_history_replay(ctx):
    return bool(ctx.replay) and "steps" in ctx.replay["violation"].get("c", {})


def history_clause(ctx: Ctx):
    cases = os.path.join(ctx.scratch, "cases_h.ndjson")
    if ctx.replay:
        write_ndjson(cases, [ctx.replay["violation"]["c"]])
        n = 1
    else:
        # D: the pinned design keeps every body readable over all histories; each other plausible design has a counterexample
        ctx.tlc("Gen_C08H", "Gen_C08H_%s.cfg" % ctx.tier, label="D body kept by 'copy' => L1; F histories")
        for d in ("pooled", "drain", "restore_ok"):
            ctx.tlc("MC_C08H", "MC_C08H_%s.cfg" % d, expect_violation=True, label="D body kept by '%s' breaks L1" % d)
        n = ctx.unquote(ctx.spec("cases_h.ndjson"), cases)
        log("[gen] %d body histories" % n)
    ctx.build_driver()
    logp = os.path.join(ctx.scratch, "log_h.ndjson")
    ctx.drive(cases, logp, prop="C08H", shards=1 if ctx.replay else 8)
    k = 0
    for l in open(logp):
        o = json.loads(l)
        ctx.evaluations += len(o.get("obs", [])) + (40 * len(o.get("conc", [])) if isinstance(o.get("conc"), list) else 0)
        ctx.nontrivial.add(casehash(o["c"]))
        k += 1
        if k in (1, n // 2):
            ctx.samples.append(dict(kinds=o["c"].get("kinds"), history=o["c"]["steps"], obs=o.get("obs")))
    ctx.extra["body_histories_replayed_in_one_process"] = n
    ctx.validate("Trace_C08H", "Trace_C08H.cfg", logp, chunk_lines=max(200, n // 16 + 1))
