"""C04 pipeline: document validation accepts conforming documents and rejects each single violation,
wherever it sits, under every combination of validation options."""
import json
import os
import random

from .common import *
from .core import Ctx, Infra, casehash, log

CASE_FIELDS = ("path", "kind", "rule", "var", "at", "doc")


def _opts(ctx, src, dst):
    """opts.ndjson as written by TLC (any order) -> one line per option set, ordered by index."""
    tmp = dst + ".tmp"
    ctx.unquote(src, tmp)
    rows = sorted(read_ndjson(tmp), key=lambda r: r["i"])
    os.remove(tmp)
    if [r["i"] for r in rows] != list(range(1, len(rows) + 1)) or not rows:
        raise Infra("C04: option-set list written by TLC is incomplete (%d lines)" % len(rows))
    for r in rows:
        if not isinstance(r["opts"], list):   # an empty TLA+ sequence
            r["opts"] = []
    write_ndjson(dst, rows)
    return len(rows)


@pipeline
def c04(ctx: Ctx):
    ctx.assumptions = [
        "TLC and the CommunityModules Json/CSV modules",
        "spec/DocRules.tla as the transcription of the OpenAPI 3.0.3 structural rules that kin-openapi's document "
        "validation enforces somewhere (judge over the document itself, independent of the builders in spec/DocBuild.tla; "
        "TLC checks that builders and judge agree on every generated case)",
        "harness/c04.go: renders the tagged document as JSON text, loads it with the real loader, calls Validate once per "
        "option set; the text it sent is parsed back and TLC demands it equals the document of the abstract case",
        "'unresolved reference' is realised by setting the Value of the loaded reference wrapper at the case's location to nil "
        "(the loader itself refuses or resolves every reference it visits)",
        "a refusal by the loader (verdict L) of a document with a violation counts as rejection",
        "open regions excluded (DocRules!InScope): AllowExtraSiblingFields(f) for f as an ordinary extra field or an x- field; "
        "DisableExamplesValidation for the Example Objects of an examples map; deepObject without explicit explode; "
        "http security schemes outside basic/bearer/digest/negotiate; URL syntax beyond 'nothing before the first colon' "
        "(checked for externalDocs.url and the OAuth flow URLs only, as the library does); server-variable enums; "
        "null for a Media Type, Encoding or Path Item and for a single (non-array, non-map) member",
        "an example is judged in the mode of the innermost Request Body (readOnly properties barred, their 'required' waived) or "
        "Response (the same for writeOnly) that contains it, otherwise in neither mode; components reached through $ref are judged "
        "where they are defined (the referenced components of the universe carry no mode-sensitive example)",
        "option RxAny = SetRegexCompiler(a compiler accepting every expression), RxStd = SetRegexCompiler(nil); a sequence starting "
        "with @ctx hands its options over with WithValidationOptions in the context instead of as arguments of Validate",
        "bounds: the location paths, nesting depth and per-kind leaf sets of spec/MC_C04_<tier>.cfg; strings from the "
        "finite vocabulary of spec/DocRules.tla",
    ]
    cases = os.path.join(ctx.scratch, "cases.ndjson")
    opts = os.path.join(ctx.scratch, "opts.ndjson")
    if ctx.replay:
        v = ctx.replay["violation"]
        missing = [f for f in ("path", "kind", "rule", "var", "doc") if f not in v]
        if missing:
            raise Infra("C04 replay: violation record lacks %s" % missing)
        # the option sets come from the specification (tiny run: root location only)
        ctx.tlc("MC_C04", "MC_C04_opts.cfg", label="F option sets (replay)")
        _opts(ctx, ctx.spec("opts.ndjson"), opts)
        c = {f: v[f] for f in CASE_FIELDS if f in v}
        if "at" not in c:   # pointer of the location, from the steps
            c["at"] = [t for st in c["path"] for t in ([st["f"]] if st["key"] == "" else [st["key"]] if st["f"] == "" else [st["f"], st["key"]])]
        write_ndjson(cases, [c])
        ncases = 1
    else:
        # D: the implementation-shaped model (spec/DocImpl.tla) with the open findings must still contradict the contract
        # somewhere (model drift guard); with every finding repaired it must imply it
        ctx.tlc("MC_C04", "MC_C04_pinned.cfg", expect_violation=True, label="D pinned L2 => L1 counterexample")
        if ctx.tier == "thorough":
            ctx.tlc("MC_C04", "MC_C04_repaired.cfg", label="D repaired L2 => L1")
        # D + F: builder/judge agreement and option table on every case; every case written once
        ctx.tlc("MC_C04", "MC_C04_%s.cfg" % ctx.tier, label="D agree+option table / F generate (BFS)", timeout=1500)
        ncases = ctx.unquote(ctx.spec("cases.ndjson"), cases)
        nopts = _opts(ctx, ctx.spec("opts.ndjson"), opts)
        ctx.exhaustive = True
        ctx.extra["generator_cfg"] = open(ctx.spec("MC_C04_%s.cfg" % ctx.tier)).read().split("INVARIANTS")[0].split("CONSTANTS")[1].split()
        log("[gen] %d cases x %d option sets" % (ncases, nopts))
    nsets = len(read_ndjson(opts))
    ctx.build_driver()
    logp = os.path.join(ctx.scratch, "log.ndjson")
    ctx.drive(cases, logp, env={"VERIF_OPTS": opts}, timeout=3000)
    rng = random.Random(ctx.seed)
    locations, rules, kinds = set(), set(), set()
    nlines = 0
    for l in open(logp):
        o = json.loads(l)
        nlines += 1
        ctx.evaluations += len(o.get("obs", []))
        locations.add((o["kind"], json.dumps([[s["f"], s["key"]] for s in o["path"]])))
        rules.add((o["kind"], o["rule"]))
        kinds.add(o["kind"])
        if o["rule"] != "none" or o["var"] != "min":
            ctx.nontrivial.add(casehash(o["doc"]))
        if rng.random() < 6.0 / max(ncases, 1) and len(ctx.samples) < 6:
            ctx.samples.append(dict(path=[[s["f"], s["key"]] for s in o["path"]], kind=o["kind"], rule=o["rule"], var=o["var"],
                                    obs="".join(o["obs"])))
    if nlines != ncases:
        raise Infra("C04: %d cases but %d log lines" % (ncases, nlines))
    if not ctx.samples:
        o = json.loads(open(logp).readline())
        ctx.samples.append(dict(path=[[s["f"], s["key"]] for s in o["path"]], kind=o["kind"], rule=o["rule"], var=o["var"],
                                obs="".join(o["obs"])))
    ctx.extra.update(cases=ncases, option_sets=nsets, locations=len(locations), rule_kind_pairs=len(rules), kinds=len(kinds))
    ctx.rule = ("cases = every closed state of spec/MC_C04.tla within the bounds of MC_C04_%s.cfg: a location path through the "
                "containment graph x (conforming variant | one violation of one rule of the kind found there | reference form); "
                "each document is loaded and validated under all %d ordered option sequences (2^7 subsets + sequences with the Enable*/reset options, the regex-compiler option and options handed over in the context); evaluations counts (document, option sequence) "
                "verdicts; non-trivial = distinct documents other than the minimal conforming one of a location" % (ctx.tier, nsets))
    ctx.validate("Trace_C04", "Trace_C04.cfg", logp, chunk_lines=max(200, min(2500, ncases // 16 + 1)), timeout=1500)
