"""Helpers shared by the per-property pipelines (lib/verif/p_cXX.py)."""
import json
import os
import random

from .core import Ctx, Infra, casehash, log

PIPELINES = {}


def pipeline(f):
    PIPELINES[f.__name__.upper()] = f
    return f


def write_ndjson(path, objs):
    with open(path, "w") as f:
        for o in objs:
            f.write(json.dumps(o) + "\n")


def read_ndjson(path):
    return [json.loads(l) for l in open(path) if l.strip()]


def sample(rng, xs, k):
    xs = list(xs)
    return xs if len(xs) <= k else rng.sample(xs, k)
