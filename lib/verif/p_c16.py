"""C16 pipeline: internalising refs yields a self-contained, equivalent document."""
import json
import os
import random

from .common import *
from .core import Ctx, Infra, casehash, log
from .p_c02 import gen_universes


@pipeline
def c16(ctx: Ctx):
    ctx.assumptions = [
        "TLC; the universes of spec/Gen_C02.tla (incl. references back into the root and files whose default internalised names coincide); only universes that load are judged (loading is C02's business)",
        "harness: load, record sites and Validate verdict, InternalizeRefs(ctx, nil) under a 4 s watchdog, json.Marshal, collect every $ref string, reload with external refs disallowed, record sites and verdict again (harness/c02.go c16Run); identity of content by per-object x-id",
        "request/response verdict battery of the design not built: equivalence is judged on validation verdict and per-site resolved identity",
    ]
    if ctx.replay:
        allc = gen_universes(ctx, "thorough")
        want = ctx.replay["violation"]["c"]
        cases = os.path.join(ctx.scratch, "cases1.ndjson")
        write_ndjson(cases, [c for c in read_ndjson(allc) if all(c.get(k) == want.get(k) for k in ("kind", "style", "entry", "pos", "shape", "site"))])
    else:
        # D: the default naming scheme as a function; its non-injectivity (open finding F-C16-1) must keep showing
        ctx.tlc("Internalize", "MC_C16_names.cfg", expect_violation=True, workers=2,
                label="D DefaultRefNameResolver model: NamesInjective counterexample (F-C16-1)")
        # D: names of references that point below a component / into a component of another collection: injective as built,
        # not injective for the two design variants "cut any collection" and "keep the last pointer token of a back reference"
        ctx.tlc("Internalize", "MC_C16_deep_asbuilt.cfg", workers=2, label="D naming of deep references as built: injective")
        ctx.tlc("Internalize", "MC_C16_deep_cutany.cfg", expect_violation=True, workers=2, label="D naming variant 'cut any collection': same-named components of two collections merge")
        ctx.tlc("Internalize", "MC_C16_deep_base.cfg", expect_violation=True, workers=2, label="D naming variant 'last token of a back reference': same-named leaves merge")
        cases = gen_universes(ctx, ctx.tier)
        ctx.exhaustive = True
    ctx.build_driver()
    logp = os.path.join(ctx.scratch, "log.ndjson")
    ctx.drive(cases, logp, shards=(8 if ctx.tier == "thorough" else 4))
    rng = random.Random(ctx.seed)
    notloaded = 0
    for l in open(logp):
        o = json.loads(l)
        ctx.evaluations += 1
        if o["load"] != "ok":
            notloaded += 1
            continue
        if o.get("refs") is not None and any(s.get("got") not in ("nil", "noid") for s in o.get("before", [])):
            ctx.nontrivial.add(casehash(o["c"]))
        if rng.random() < 6.0 / 1000:
            ctx.samples.append(dict(c={k: o["c"][k] for k in ("kind", "shape", "site", "style", "pos", "entry")}, refs=[r["text"] for r in o.get("refs", [])][:4]))
    ctx.extra["universes_not_loading_not_judged"] = notloaded
    ctx.rule = ("universes of spec/Gen_C02.tla that load; non-trivial = at least one resolved external reference site whose identity is compared before/after")
    ctx.validate("Trace_C16", "Trace_C16.cfg", logp, chunk_lines=300)
