"""C20 pipeline: loading and validating arbitrary bytes never panics or hangs."""
import json
import os
import random

from .common import *
from .core import Ctx, Infra, casehash, log, VERIF


def count_nodes():
    d = json.load(open(os.path.join(VERIF, "harness", "c20_doc.json")))

    def n(v):
        if isinstance(v, dict):
            return 1 + sum(n(x) for x in v.values())
        if isinstance(v, list):
            return 1 + sum(n(x) for x in v)
        return 1
    return n(d)


@pipeline
def c20(ctx: Ctx):
    ctx.assumptions = [
        "TLC; spec/Robust.tla spans the space (61 tree operators x every node of a 207-node base document using every object kind, x entry point x external switch x JSON/YAML; 101 lexical operators -- YAML / JSON / encoding level -- on a seeded slice of the nodes); the oracle is the outcome alphabet",
        "spec/RefGraph.tla spans the adversarial reference graphs: every lasso of the object-kind graph up to the bound (alias cycles of every kind, recursion through every site, header -> media type -> encoding -> header, callback -> path item -> operation -> callback; closing by component / deep pointer / alias hop / across a second file), each pushed through every validator / serialiser / resolver / internaliser entry point of a loaded document",
        "the byte-string quantifier is sampled, not exhausted: structure-level mutations, truncation at node boundaries, seeded byte noise",
        "harness/c20.go applies the mutations and runs load -> validate -> marshal JSON/YAML -> internalize -> validate under the crash-safe runner (panic recovered per stage, 5 s watchdog, process death = crash)",
    ]
    cases = os.path.join(ctx.scratch, "cases.ndjson")
    nn = count_nodes()
    if ctx.replay:
        write_ndjson(cases, [ctx.replay["violation"]["c"]])
    else:
        maxmut, stride = (1, 1) if ctx.tier == "quick" else (2, 32)
        lexstride = 5 if ctx.tier == "quick" else 1
        sparse_ops = ('{"delete", "to_null", "to_empty_obj"}' if ctx.tier == "quick" else
                      '{"to_null", "to_bool", "to_num", "to_str", "to_arr", "to_obj", "to_empty_obj", "to_empty_str", "delete", "dup_key_other_type", "nest_deep", "huge_number", "ref_dangling", "ref_hash_only", "ref_empty"}')
        cfg = ("SPECIFICATION Spec\nCONSTANTS NNodes = %d\n MaxMut = %d\n PairStride = %d\n LexStride = %d\n Seed = %d\n SparseNodes = 30\n SparseOps = %s\nINVARIANT Emit\nCHECK_DEADLOCK FALSE\n"
               % (nn, maxmut, stride, lexstride, ctx.seed, sparse_ops))
        open(ctx.spec("Gen_C20_run.cfg"), "w").write(cfg)
        # development aid: VERIF_C20_ONLY=graph|mut restricts the run to one half of the universe (a full run sets nothing)
        only = os.environ.get("VERIF_C20_ONLY", "")
        if only in ("", "mut"):
            ctx.tlc("Gen_C20", "Gen_C20_run.cfg", label="F generate mutation sequences (BFS)", timeout=2400)
        n = ctx.unquote(ctx.spec("cases.ndjson"), cases)
        if ctx.tier == "thorough":
            # the pair level is large: keep every single mutation and a seeded 12% of the pairs
            rng0 = random.Random(ctx.seed)
            keep = [c for c in read_ndjson(cases) if len(c["muts"]) == 1 or rng0.random() < 0.12]
            write_ndjson(cases, keep)
            n = len(keep)
        log("[gen] %d cases over %d nodes" % (n, nn))
        # reference graphs (spec/RefGraph.tla): every lasso of the kind graph up to the bound
        gmax, gschema, gofat, gtier = (3, 1, 1, "ofat") if ctx.tier == "quick" else (4, 1, 1, "ofat")
        gcfg = ("SPECIFICATION GSpec\nCONSTANTS GMaxSteps = %d\n GSites = {\"properties\", \"items\", \"additionalProperties\", \"allOf\", \"anyOf\", \"oneOf\", \"not\"}\n"
                " GSplits = {0, 1, 2, 3, 4, 5}\n GAliasHop = {TRUE, FALSE}\n GMaxSchemaSteps = %d\n GTier = \"%s\"\n GOfatSteps = %d\nINVARIANT GEmit\nCHECK_DEADLOCK FALSE\n"
                % (gmax, gschema, gtier, gofat))
        open(ctx.spec("Gen_C20G_run.cfg"), "w").write(gcfg)
        if os.path.exists(ctx.spec("cases.ndjson")):
            os.remove(ctx.spec("cases.ndjson"))
        if only in ("", "graph"):
            ctx.tlc("Gen_C20G", "Gen_C20G_run.cfg", label="F generate reference graphs (BFS)", timeout=2400)
        gcases = os.path.join(ctx.scratch, "gcases.ndjson")
        ng = ctx.unquote(ctx.spec("cases.ndjson"), gcases)
        with open(cases, "a") as f:
            for l in open(gcases):
                f.write(l)
        log("[gen] %d reference-graph cases (<= %d steps, <= %d chained schema sites)" % (ng, gmax, gschema))
        n += ng
        ctx.extra["graph_constants"] = dict(GMaxSteps=gmax, GMaxSchemaSteps=gschema, GTier=gtier, GOfatSteps=gofat, cases=ng)
        ctx.exhaustive = ctx.tier == "quick" and only == ""
        ctx.extra["generator_constants"] = dict(NNodes=nn, MaxMut=maxmut, PairStride=stride, LexStride=lexstride)
    ctx.build_driver()
    logp = os.path.join(ctx.scratch, "log.ndjson")
    ctx.drive(cases, logp, timeout=5400, shards=14)
    rng = random.Random(ctx.seed)
    outcomes = {}
    goutcomes = {}
    for l in open(logp):
        o = json.loads(l)
        ctx.evaluations += 1
        ctx.nontrivial.add(casehash(o["c"]))
        k = o["obs"]["load"]
        outcomes[k] = outcomes.get(k, 0) + 1
        if o["c"]["base"]["kind"] == "graph":
            goutcomes[k] = goutcomes.get(k, 0) + 1
        if rng.random() < 6.0 / 20000:
            ctx.samples.append(dict(c=o["c"], obs=o["obs"]))
    ctx.extra["load_outcomes"] = outcomes
    ctx.extra["graph_load_outcomes"] = goutcomes
    ctx.rule = ("every closed walk (lasso) of the object-kind graph of <= 3 (quick) / 4 (thorough) steps, the default run configuration for all and one-factor-at-a-time variations (split over two files at every position, alias hop, unused, entry point, switch, YAML) for the short ones; "
                "every mutation operator at every node of the base document (quick: single mutations; thorough: + pairs on a seeded node slice, 12% sampled) "
                "x entry point (all three for JSON with external refs allowed; data entry also in YAML and with the switch off); every case is distinct")
    ctx.validate("Trace_C20", "Trace_C20.cfg", logp, chunk_lines=4000)
