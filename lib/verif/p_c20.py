"""C20 pipeline: loading and validating arbitrary bytes never panics or hangs."""
import json
import os
import random

from .common import *
from .core import Ctx, Infra, casehash, log, VERIF


def count_nodes():
    d = json.load(open(os.path.join(VERIF, "harness", "c20_doc.json")))

    def n(v):
        if isinstance(v, dict):
            return 1 + sum(n(x) for x in v.values())
        if isinstance(v, list):
            return 1 + sum(n(x) for x in v)
        return 1
    return n(d)


@pipeline
def c20(ctx: Ctx):
    ctx.assumptions = [
        "TLC; spec/Robust.tla spans the space (61 tree operators x every node of a 207-node base document using every object kind, x entry point x external switch x JSON/YAML; 101 lexical operators -- YAML / JSON / encoding level -- on a seeded slice of the nodes); the oracle is the outcome alphabet",
        "spec/RefGraph.tla spans the adversarial reference graphs: every lasso of the object-kind graph up to the bound (alias cycles of every kind, recursion through every site, header -> media type -> encoding -> header, callback -> path item -> operation -> callback; closing by component / deep pointer / alias hop / across a second file), each pushed through every validator / serialiser / resolver / internaliser entry point of a loaded document",
        "the byte-string quantifier is sampled, not exhausted: structure-level mutations, truncation at node boundaries, seeded byte noise",
        "harness/c20.go applies the mutations and runs load -> validate -> marshal JSON/YAML -> internalize -> validate under the crash-safe runner (panic recovered per stage, 5 s watchdog, process death = crash)",
    ]
    cases = os.path.join(ctx.scratch, "cases.ndjson")
    nn = count_nodes()
    if ctx.replay:
        write_ndjson(cases, [ctx.replay["violation"]["c"]])
    else:
        # Tiers.  The generators know the full products; a registered run takes seeded slices of them (TLC-side: the strides
        # below select nodes / graphs by VERIF_SEED).  VERIF_C20_FULL=1 (manual use, not registered) runs the full products.
        #   quick:    type / structure operators at every node, schema operators at every schema object, reference operators on 1/2 of the
        #             nodes, in the default run configuration; the other configurations (entry points, switch off, YAML) of the reference
        #             operators / null / delete / truncate on the nodes of that half that are also in a 1/5 slice; sparse bases on 1/5 of
        #             their nodes; lexical operators on 1/15 of the nodes; numeric keyword operators on 1/6 of the schema objects; graphs of
        #             <= 2 steps exhaustively (default + all-external; one-factor-at-a-time for <= 1 step) + 1/12 of the 3-step graphs
        #   thorough: all of the above at stride 1 except lexical operators (1/2 of the nodes); pairs = first mutation on 1/28 of the nodes
        #             x second mutation on 1/64 of the nodes (all of them run); graphs of <= 3 steps exhaustively + 1/4 of the 4-step graphs
        full = os.environ.get("VERIF_C20_FULL", "") == "1"
        T = dict(quick=dict(maxmut=1, pair=1, first=1, var=5, sparse=5, lex=15, num=6, ref=2, g=(3, 1, 1, 2, 12)),
                 thorough=dict(maxmut=2, pair=64, first=28, var=1, sparse=1, lex=2, num=1, ref=1, g=(4, 1, 1, 3, 4)))[ctx.tier]
        if full:
            T = dict(quick=dict(maxmut=1, pair=1, first=1, var=1, sparse=1, lex=1, num=1, ref=1, g=(3, 1, 1, 3, 1)),
                     thorough=dict(maxmut=2, pair=32, first=1, var=1, sparse=1, lex=1, num=1, ref=1, g=(4, 2, 2, 4, 1)))[ctx.tier]
        maxmut, stride, lexstride = T["maxmut"], T["pair"], T["lex"]
        sparse_ops = ('{"delete", "to_null", "to_empty_obj"}' if ctx.tier == "quick" else
                      '{"to_null", "to_bool", "to_num", "to_str", "to_arr", "to_obj", "to_empty_obj", "to_empty_str", "delete", "dup_key_other_type", "nest_deep", "huge_number", "ref_dangling", "ref_hash_only", "ref_empty"}')
        cfg = ("SPECIFICATION Spec\nCONSTANTS NNodes = %d\n MaxMut = %d\n PairStride = %d\n FirstStride = %d\n VarStride = %d\n SparseStride = %d\n LexStride = %d\n NumStride = %d\n RefStride = %d\n Seed = %d\n SparseNodes = 30\n SparseOps = %s\nINVARIANT Emit\nCHECK_DEADLOCK FALSE\n"
               % (nn, maxmut, stride, T["first"], T["var"], T["sparse"], lexstride, T["num"], T["ref"], ctx.seed, sparse_ops))
        open(ctx.spec("Gen_C20_run.cfg"), "w").write(cfg)
        # development aid: VERIF_C20_ONLY=graph|mut restricts the run to one half of the universe (a full run sets nothing)
        only = os.environ.get("VERIF_C20_ONLY", "")
        if only in ("", "mut"):
            ctx.tlc("Gen_C20", "Gen_C20_run.cfg", label="F generate mutation sequences (BFS)", timeout=2400)
        n = ctx.unquote(ctx.spec("cases.ndjson"), cases)
        if ctx.tier == "thorough" and full:
            # the full pair level is large: keep every single mutation and a seeded 12% of the pairs
            rng0 = random.Random(ctx.seed)
            keep = [c for c in read_ndjson(cases) if len(c["muts"]) == 1 or rng0.random() < 0.12]
            write_ndjson(cases, keep)
            n = len(keep)
        log("[gen] %d cases over %d nodes" % (n, nn))
        # reference graphs (spec/RefGraph.tla): every lasso of the kind graph up to the bound
        gmax, gschema, gofat, gfull, gstride = T["g"]
        gtier = "ofat"
        gcfg = ("SPECIFICATION GSpec\nCONSTANTS GMaxSteps = %d\n GSites = {\"properties\", \"items\", \"additionalProperties\", \"allOf\", \"anyOf\", \"oneOf\", \"not\"}\n"
                " GSplits = {0, 1, 2, 3, 4, 5}\n GAliasHop = {TRUE, FALSE}\n GMaxSchemaSteps = %d\n GTier = \"%s\"\n GOfatSteps = %d\n GFullSteps = %d\n GStride = %d\n GSeed = %d\nINVARIANT GEmit\nCHECK_DEADLOCK FALSE\n"
                % (gmax, gschema, gtier, gofat, gfull, gstride, ctx.seed))
        open(ctx.spec("Gen_C20G_run.cfg"), "w").write(gcfg)
        if os.path.exists(ctx.spec("cases.ndjson")):
            os.remove(ctx.spec("cases.ndjson"))
        if only in ("", "graph"):
            ctx.tlc("Gen_C20G", "Gen_C20G_run.cfg", label="F generate reference graphs (BFS)", timeout=2400)
        gcases = os.path.join(ctx.scratch, "gcases.ndjson")
        ng = ctx.unquote(ctx.spec("cases.ndjson"), gcases)
        with open(cases, "a") as f:
            for l in open(gcases):
                f.write(l)
        # shared targets (spec/RefShare.tla): two references of two kinds to one external file
        scfg = "SPECIFICATION SSpec\nCONSTANTS SContents = \"%s\"\nINVARIANT SEmit\nCHECK_DEADLOCK FALSE\n" % ("own" if ctx.tier == "quick" and not full else "all")
        open(ctx.spec("Gen_C20S_run.cfg"), "w").write(scfg)
        if os.path.exists(ctx.spec("cases.ndjson")):
            os.remove(ctx.spec("cases.ndjson"))
        if only in ("", "graph"):
            ctx.tlc("Gen_C20S", "Gen_C20S_run.cfg", label="F generate shared-target documents", timeout=600)
        scases = os.path.join(ctx.scratch, "scases.ndjson")
        ns = ctx.unquote(ctx.spec("cases.ndjson"), scases)
        with open(cases, "a") as f:
            for l in open(scases):
                f.write(l)
        log("[gen] %d shared-target cases" % ns)
        n += ns
        log("[gen] %d reference-graph cases (<= %d steps, <= %d chained schema sites)" % (ng, gmax, gschema))
        n += ng
        ctx.extra["graph_constants"] = dict(GMaxSteps=gmax, GMaxSchemaSteps=gschema, GTier=gtier, GOfatSteps=gofat, GFullSteps=gfull, GStride=gstride, cases=ng)
        ctx.exhaustive = False       # seeded slices of the products (the full products: VERIF_C20_FULL=1)
        ctx.extra["generator_constants"] = dict(NNodes=nn, MaxMut=maxmut, PairStride=stride, FirstStride=T["first"], VarStride=T["var"], SparseStride=T["sparse"], LexStride=lexstride, full=full)
    ctx.build_driver()
    logp = os.path.join(ctx.scratch, "log.ndjson")
    ctx.drive(cases, logp, timeout=5400, shards=14)
    rng = random.Random(ctx.seed)
    outcomes = {}
    goutcomes = {}
    for l in open(logp):
        o = json.loads(l)
        ctx.evaluations += 1
        ctx.nontrivial.add(casehash(o["c"]))
        k = o["obs"]["load"]
        outcomes[k] = outcomes.get(k, 0) + 1
        if o["c"]["base"]["kind"] in ("graph", "share"):
            goutcomes[k] = goutcomes.get(k, 0) + 1
        if rng.random() < 6.0 / 20000:
            ctx.samples.append(dict(c=o["c"], obs=o["obs"]))
    ctx.extra["load_outcomes"] = outcomes
    ctx.extra["graph_load_outcomes"] = goutcomes
    ctx.rule = ("seeded slices (TLC-side strides on VERIF_SEED) of two products. Graphs: every closed walk (lasso) of the object-kind graph -- quick: <= 2 steps exhaustively + 1/8 of the 3-step ones; "
                "thorough: <= 3 steps + 1/4 of the 4-step ones -- each in the default run configuration and wholly in an external file, the <= 1-step ones also one factor at a time "
                "(split position, alias hop, unused, entry point, switch, YAML). Mutations: every tree operator at every node of the base document in the default configuration; the other "
                "configurations (entry points, switch off, YAML) for reference operators / null / delete / truncate on 1/8 (quick) or all (thorough) of the nodes; lexical operators on 1/10 (quick) or 1/2 "
                "(thorough) of the nodes; sparse two-file bases; blobs; thorough: + pairs (first mutation on 1/28, second on 1/64 of the nodes). VERIF_C20_FULL=1 runs the full products. Every case is distinct")
    ctx.validate("Trace_C20", "Trace_C20.cfg", logp, chunk_lines=4000)
