"""C17 pipeline: v2 <-> v3 conversion preserves the API a document describes."""
import json
import os
import random

from .common import *
from .core import Ctx, Infra, casehash, log


def _ids(o):
    ids = o.get("ids")
    return sorted(ids) if isinstance(ids, list) else []


@pipeline
def c17(ctx: Ctx):
    tier = ctx.tier
    cases = os.path.join(ctx.scratch, "cases.ndjson")
    ctx.assumptions = [
        "TLC and the CommunityModules Json/CSV modules",
        "spec/Api23.tla as the reading of 'the API a document describes' (normal form of operations, parameters, bodies, responses, "
        "definitions, security; servers separately); titles, non-response descriptions, examples, tags, extensions "
        "and response media types are not part of it; the serialisation of arrays (collectionFormat / style, explode) may be left unsaid by a "
        "converter, what is said must be the original's; an operation without consumes accepts any media type; x-nullable on a "
        "parameter object may come out as schema.nullable or as the kept extension; a converter must leave the document it is given unchanged "
        "(input marshalled again after the call = input marshalled before; the caller's v2 document also after FromV3); the document "
        "converted back is itself an OpenAPI 2 document of the fragment, so converting it to OpenAPI 3 again must validate and describe the same API "
        "(judged when the first round trip is clean)",
        "harness/c17.go renders the TLC-built document as JSON text and projects json.Marshal of the library's documents back to "
        "tagged JSON mechanically; the document as the library re-marshals it (rd) is compared with the case by TLC",
        "universe = spec/V2Universe.tla: fixed skeleton (GET /a, POST /b, definitions.Pet) plus sets of feature atoms; schemes without "
        "host, form parameters without form consumes, shared body parameter under an operation-level consumes and external references "
        "are outside it",
    ]
    if ctx.replay:
        v = ctx.replay["violation"]
        write_ndjson(cases, [dict(d=v["d"], ids=v.get("ids", []))])
    else:
        # D: the design-level model of both converters (spec/Conv23.tla) against the contract
        if os.path.exists(ctx.spec("MC_C17.tla")):
            ctx.tlc("MC_C17", "MC_C17_pinned.cfg", expect_violation=True, label="D pinned-model counterexample")
            ctx.tlc("MC_C17", "MC_C17_%s.cfg" % tier, label="D repaired model L2=>L1 (exhaustive)")
            if os.path.exists(ctx.spec("cases.ndjson")):
                os.remove(ctx.spec("cases.ndjson"))
        # F: every document of the universe within the tier's bounds (BFS), plus M seeded pseudo-random sets of
        # 3-4 arbitrary atoms (the seed is a constant of the generator; TLC computes the sample)
        cfg = "Gen_C17_%s.cfg" % tier
        text = open(ctx.spec(cfg)).read().replace("Seed = 1", "Seed = %d" % ctx.seed)
        open(ctx.spec("Gen_C17_run.cfg"), "w").write(text)
        ctx.tlc("Gen_C17", "Gen_C17_run.cfg", label="F generate documents (BFS + seeded sample)")
        n = ctx.unquote(ctx.spec("cases.ndjson"), cases)
        ctx.exhaustive = False      # the tier drives seeded slices (VERIF_SEED) next to its exhaustive core: not a complete enumeration of one finite space
        cs = read_ndjson(cases)
        ctx.extra["generator"] = dict(documents=n, seeded_sample_of_4_or_more_atoms=sum(1 for c in cs if len(_ids(c)) >= 4),
                                      constants=dict(quick=dict(K=2, PairLevel=1, FieldK=1, M=600),
                                                     thorough=dict(K=3, PairLevel=2, TripleLevel=1, FieldK=2, M=12000))[tier])
        log("[gen] %d documents" % n)
    ctx.build_driver()
    logp = os.path.join(ctx.scratch, "log.ndjson")
    # the repository's own conversion fixtures are appended by the driver (not on replay)
    fixtures = "" if ctx.replay else os.path.join(ctx.repo, "openapi2conv", "testdata")
    ctx.drive(cases, logp, env={"VERIF_C17_FIXTURES": fixtures})
    rng = random.Random(ctx.seed)
    nlines = 0
    outcomes = {}
    for l in open(logp):
        o = json.loads(l)
        nlines += 1
        ctx.evaluations += 1
        key = "/".join(str(o.get(k, "-")) for k in ("un", "to3", "val", "lval", "from3"))
        outcomes[key] = outcomes.get(key, 0) + 1
        ids = _ids(o)
        if ids and o.get("from3") == "ok":
            ctx.nontrivial.add(casehash(ids))
        if nlines == 2 or rng.random() < 6.0 / 1500:   # the first feature document, then a seeded handful
            ctx.samples.append(dict(ids=ids, outcome=key, d=o.get("d") if nlines == 2 else "(omitted)"))
    if not ctx.samples:
        ctx.samples.append(dict(ids=[], outcome=list(outcomes)))
    ctx.extra["outcomes un/to3/val/lval/from3"] = outcomes
    ctx.rule = ("cases = every OpenAPI 2 document Build(atoms) of spec/V2Universe.tla for the atom sets reachable in spec/Gen_C17.tla within "
                "the tier's constants (all single features; all compatible pairs of core atoms; in thorough all pairs of level<=2 atoms, "
                "keyword pairs and triples of core atoms) plus M seeded pseudo-random sets of 3-4 arbitrary atoms (computed by TLC from Seed = VERIF_SEED); each is unmarshalled, "
                "converted to v3, validated (as returned and reloaded), converted back, and that document converted to v3 and validated once more; evaluations = documents run; non-trivial = distinct "
                "atom sets with at least one feature beyond the skeleton for which both conversions ran, so that TLC compared Api2(d), "
                "Api3(ToV3 d) and Api2(FromV3(ToV3 d))")
    per = max(40, (nlines + 15) // 16)
    viol, fid = ctx.validate("Trace_C17", "Trace_C17.cfg", logp, chunk_lines=per)
    # model fidelity: where the implementation-shaped model (spec/Conv23.tla, Dev = Pinned) and the code disagree
    kinds = {}
    for f in fid:
        kinds[f.get("what", "?")] = kinds.get(f.get("what", "?"), 0) + 1
    ctx.extra["model_fidelity_by_kind"] = kinds
    ctx.extra["model_fidelity_samples"] = fid[:5]
    failed = {}
    for v in viol:
        k = "%s [%s]" % (v.get("failed"), v.get("class"))
        failed[k] = failed.get(k, 0) + 1
    ctx.extra["rejections_by_conjunct_and_class"] = failed
